"""Numbers quoted in DESIGN.md (run at the end of a session and paste)."""
import glob, json, os, re, subprocess
V = os.path.dirname(os.path.dirname(os.path.abspath(__file__)))
tot = 0
per = {}
for f in sorted(glob.glob(V + "/coq/props/C*.v")):
  n = len(re.findall(r"^Theorem ", open(f).read(), re.M))
  per[os.path.basename(f)[:3]] = n
  tot += n
print("theorems per property:", per)
print("theorems total:", tot)
kf = json.load(open(V + "/known_findings.json"))["findings"]
print("fixed:", sum(1 for f in kf if f["status"] == "fixed"), " known:", sum(1 for f in kf if f["status"] == "known"))
log = subprocess.run("git -C /repo log --oneline", shell=True, capture_output=True, text=True).stdout.split("\n")
print("fix commits in /repo:", sum(1 for l in log if " fix:" in l))
metas = [json.load(open(f)) for f in glob.glob(V + "/seeded/*/meta.json")]
print("seeded:", len(metas), "confirmed:", sum(1 for m in metas if m.get("confirmed")),
      "own check with input:", sum(1 for m in metas if m.get("own_check_with_input")),
      "own check without input:", sum(1 for m in metas if m.get("own_check_catches") and not m.get("own_check_with_input")),
      "missed:", sum(1 for m in metas if not m.get("own_check_catches")))
wc = subprocess.run(f"cat {V}/coq/theories/*.v | wc -l; cat {V}/coq/theories/*_proofs.v | wc -l; cat {V}/harness/*.py {V}/tools/*.py | wc -l", shell=True, capture_output=True, text=True).stdout.split()
print("lines: theories", wc[0], "of which proofs", wc[1], "python", wc[2])
