import json,subprocess,glob,os,sys
f=sorted(glob.glob('/verif/replays/C11/*.json'), key=os.path.getmtime)[-1]
d=json.load(open(f))
for fl in d.get('failures',[])[:5]: print('FAIL', fl['what'][:300])
print(d['what'][:300]); print(json.dumps(d.get('replay',{}))[:1500])
bs=[b for b in d['broken'] if b.get('kind')=='correspondence']
if not bs: sys.exit()
b=bs[0]
term=b['case_term']
print(b['n_disagreeing'], b['case_meta']['source'], b['case_meta']['args'])
src=f'''From Fiddle Require Import PyBase PySlice Sig ArgStore PyCall Heap Traverse Build Lang C02Check C11Check.
From Coq Require Import List ZArith NArith String. Import ListNotations.
Definition c := {term}.
Eval vm_compute in (let e := c_env c in
  let '(hc, rc) := run_program e true 64 (c_args c) (c_arg_heap c) (c_prog c) in
  let '(hp, rp) := run_program e false 64 (c_args c) (c_arg_heap c) (c_prog c) in
  (iso_roots hc rc (c_cfg_heap c) (c_cfg_root c), iso_roots hp rp (c_py_heap c) (c_py_root c), rc, rp, c_cfg_root c, c_py_root c)).
Eval vm_compute in (c_cfg_heap c).
Eval vm_compute in (fst (run_program (c_env c) true 64 (c_args c) (c_arg_heap c) (c_prog c))).
Eval vm_compute in (c_py_heap c).
Eval vm_compute in (fst (run_program (c_env c) false 64 (c_args c) (c_arg_heap c) (c_prog c))).
Eval vm_compute in (let e := c_env c in let '(hc, rc) := run_program e true 64 (c_args c) (c_arg_heap c) (c_prog c) in match rc with Some rcfg => 
    match mrun e hc (build_node e no_fail) rcfg with (s, r) => (Some (norm_heap e (out s)), Some r) end | None => (None,None) end).
'''
open('/verif/work/dbg11.v','w').write(src)
print(subprocess.run('cd /verif/coq && coqc -Q theories Fiddle -Q gen Fiddle.Gen /verif/work/dbg11.v 2>&1 | head -%s' % (sys.argv[1] if len(sys.argv)>1 else 200),shell=True,capture_output=True,text=True).stdout)
