"""Regenerates coq/gen/Extracted.v from /repo's current sources (ast only; never imports them).

Fail-closed per group: if the AST at an anchor does not have the expected shape, the constants of that
group are emitted as sentinels and the anchor is named on stdout. Every constant the Coq models take from
the source is emitted here; coq/theories/Anchors{Edit,Build,Path,Diff}.v pin each to what the models and
proofs assume, and each check depends only on the anchor files of its own models.
"""
import ast
import os
import sys

REPO = os.environ.get("FIDDLE_REPO", "/repo")
OUT = os.path.join(os.path.dirname(os.path.dirname(os.path.abspath(__file__))), "coq", "gen",
                   "Extracted.v")


class AnchorError(Exception):
  pass


def parse(rel):
  path = os.path.join(REPO, rel)
  return ast.parse(open(path).read(), filename=path)


def find_def(tree, qualname):
  node = tree
  for part in qualname.split("."):
    for child in ast.iter_child_nodes(node):
      if isinstance(child, (ast.FunctionDef, ast.ClassDef, ast.AsyncFunctionDef)) and child.name == part:
        node = child
        break
    else:
      raise AnchorError(f"definition {qualname} not found")
  return node


def find_assign(tree, name):
  for node in ast.walk(tree):
    if isinstance(node, ast.Assign) and any(isinstance(t, ast.Name) and t.id == name for t in node.targets):
      return node.value
    if isinstance(node, ast.AnnAssign) and isinstance(node.target, ast.Name) and node.target.id == name:
      return node.value
  raise AnchorError(f"assignment to {name} not found")


def src(node):
  return ast.unparse(node)


def has(text, snippet):
  """Whitespace-insensitive containment on unparsed source."""
  squash = lambda t: "".join(t.split())
  return squash(snippet) in squash(text)


def coq_string(s):
  return '"' + s.replace('"', '""') + '"'


def g_bool(b):
  return "true" if b else "false"


def emit(defs, name, typ, value, comment):
  defs.append(f"(* {comment} *)\nDefinition {name} : {typ} := {value}.\n")


def group_edit(defs):
  # ---- config.py : positional edit guards (C03)
  cfg = parse("fiddle/_src/config.py")
  delitem = find_def(cfg, "Buildable.__delitem__")
  text = src(delitem)
  emit(defs, "delitem_handles_no_varargs", "bool",
       g_bool(has(text, "if var_positional_start is None:\n        var_positional_start = len(all_positional_args)")),
       "config.py Buildable.__delitem__: var_positional_start None -> len(all_positional_args)")
  emit(defs, "delitem_rejects_out_of_range", "bool",
       g_bool(has(text, "if not 0 <= key < len(all_positional_args):")),
       "config.py Buildable.__delitem__: int key range check")
  loops = [n for n in ast.walk(delitem) if isinstance(n, ast.For)]
  if not loops:
    raise AnchorError("Buildable.__delitem__: no for loop")
  emit(defs, "delitem_iteration", "string", coq_string(src(loops[0].iter)),
       "config.py Buildable.__delitem__: iteration order of the deletion loop")
  sbi = src(find_def(cfg, "Buildable._set_item_by_index"))
  emit(defs, "set_index_counts_positional_kinds", "bool",
       g_bool(has(sbi, "param.kind in (param.POSITIONAL_ONLY, param.POSITIONAL_OR_KEYWORD)")),
       "config.py Buildable._set_item_by_index: positional_num without *args")
  sbs = src(find_def(cfg, "Buildable._set_item_by_slice"))
  emit(defs, "set_slice_uses_min_index", "bool",
       g_bool(has(sbs, "first_index = min(range(*index_range), default=index_range[0])")
              and has(sbs, "first_index < var_positional_start")),
       "config.py Buildable._set_item_by_slice: prefix-span test uses the smallest index")
  emit(defs, "set_slice_reads_snapshot", "bool",
       g_bool(has(sbs, "old_arguments = dict(self.__arguments__)")
              and not has(sbs, "self.__arguments__[new_value.index]")),
       "config.py Buildable._set_item_by_slice: moved values are read from a snapshot")



def group_build(defs):
  cfg = parse("fiddle/_src/config.py")
  # ---- signatures.py
  sig = parse("fiddle/_src/signatures.py")
  itk = src(find_def(sig, "SignatureInfo.index_to_key"))
  emit(defs, "index_to_key_rejects_negative", "bool",
       g_bool(has(itk, "index += len(args)\n      if index < 0:\n        raise IndexError")),
       "signatures.py SignatureInfo.index_to_key: negative out-of-range index")
  ttak = src(find_def(sig, "SignatureInfo.transform_to_args_kwargs"))
  emit(defs, "transform_fills_skipped_positionals", "bool",
       g_bool(has(ttak, "def append_positional(value):")
              and has(ttak, "positional_values.append(skipped_param.default)")
              and has(ttak, "if skipped_param.default is skipped_param.empty: raise TypeError")
              and ttak.count("skipped.append(param)") == 2
              and ttak.count("append_positional(") == 6),
       "signatures.py transform_to_args_kwargs: an unset positional parameter before a set one is "
       "filled with its default or makes the transformation raise (PyCall.transform_build)")
  emit(defs, "transform_posorkw_condition", "string",
       coq_string([src(n.test) for n in ast.walk(find_def(sig, "SignatureInfo.transform_to_args_kwargs"))
                   if isinstance(n, ast.If) and "include_pos_or_kw_in_args" in src(n.test)][0]),
       "signatures.py transform_to_args_kwargs: when positional-or-keyword values go to *args")
  oa = src(find_def(cfg, "ordered_arguments"))
  emit(defs, "ordered_arguments_posonly_by_index", "bool",
       g_bool(has(oa, "key = index if param.kind == param.POSITIONAL_ONLY else name")
              and has(oa, "param.kind in (param.VAR_KEYWORD, param.POSITIONAL_ONLY, param.VAR_POSITIONAL)")),
       "config.py ordered_arguments: positional-only parameters are read by index only; a stored "
       "name equal to a positional-only / *args parameter is a **kwargs entry")


def group_path(defs):
  # ---- path grammar and flag directives (C18)
  dx = parse("fiddle/_src/daglish_extensions.py")
  pp = find_assign(dx, "_PATH_PART")
  strs = [n.value for n in ast.walk(pp) if isinstance(n, ast.Constant) and isinstance(n.value, str)]
  emit(defs, "path_part_alternatives", "list string", "[" + "; ".join(coq_string(s) for s in strs) + "]",
       "daglish_extensions._PATH_PART: the string constants of the regular expression, in order")
  fl = parse("fiddle/_src/absl_flags/flags.py")
  cre = find_assign(fl, "_COMMAND_RE")
  emit(defs, "command_re", "string", coq_string([n.value for n in ast.walk(cre)
                                                  if isinstance(n, ast.Constant) and isinstance(n.value, str)][0]),
       "absl_flags/flags.py _COMMAND_RE")
  bcd = find_assign(fl, "_BASE_CONFIG_DIRECTIVES")
  emit(defs, "base_config_directives", "list string",
       "[" + "; ".join(coq_string(s) for s in sorted(ast.literal_eval(bcd))) + "]",
       "absl_flags/flags.py _BASE_CONFIG_DIRECTIVES (sorted)")
  pstr = src(find_def(parse("fiddle/_src/printing.py"), "_path_str"))
  emit(defs, "path_str_strips_leading_dot", "bool",
       g_bool(has(pstr, "path_str[1:] if path and isinstance(path[0], daglish.Attr) else path_str")),
       "printing._path_str drops the leading '.' of an attribute path")


def group_diff(defs):
  # ---- diffing._apply_changes : phase order (C10)
  df = parse("fiddle/_src/diffing.py")
  ac = find_def(df, "_apply_changes")
  loops = [n for n in ast.walk(ac) if isinstance(n, ast.For) and isinstance(n.iter, ast.Tuple)]
  if len(loops) != 1:
    raise AnchorError("_apply_changes: expected one loop over a tuple of operation types")
  emit(defs, "apply_changes_phases", "list string",
       "[" + "; ".join(coq_string(src(e)) for e in loops[0].iter.elts) + "]",
       "diffing._apply_changes: the order in which operation types are applied")
  emit(defs, "apply_changes_resolves_parents_first", "bool",
       g_bool(has(src(ac), "path_to_value = daglish_legacy.collect_value_by_path(\n      structure, memoizable_only=True)")
              and has(src(ac), "parent = path_to_value[diff_op.target[:-1]]")),
       "diffing._apply_changes: parents are looked up in a path map computed before any change")





EXPECTED = {}   # name -> Coq type of every constant, filled by emit and by the table below
GROUPS = {
    "group_edit": {"delitem_handles_no_varargs": "bool", "delitem_rejects_out_of_range": "bool",
                   "delitem_iteration": "string", "set_index_counts_positional_kinds": "bool",
                   "set_slice_uses_min_index": "bool", "set_slice_reads_snapshot": "bool"},
    "group_build": {"index_to_key_rejects_negative": "bool", "transform_fills_skipped_positionals": "bool",
                    "transform_posorkw_condition": "string", "ordered_arguments_posonly_by_index": "bool"},
    "group_path": {"path_part_alternatives": "list string", "command_re": "string",
                   "base_config_directives": "list string", "path_str_strips_leading_dot": "bool"},
    "group_diff": {"apply_changes_phases": "list string", "apply_changes_resolves_parents_first": "bool"},
}
SENTINEL = {"bool": "false", "string": '"ANCHOR NOT FOUND"', "list string": '["ANCHOR NOT FOUND"]'}


def extract():
  """Each group is extracted on its own: when the source no longer has the expected shape at one anchor,
  the constants of that group that could not be read are emitted as sentinels, so that only the
  anchor Examples (and the properties) depending on them stop checking."""
  defs, problems = [], []
  for name, expected in GROUPS.items():
    got = []
    try:
      globals()[name](got)
    except Exception as e:  # pylint: disable=broad-except
      problems.append(f"{name}: {type(e).__name__}: {e}")
    defs += got
    have = {d.split("Definition ")[1].split(" ")[0] for d in got}
    emitted = {d.split("Definition ")[1].split(" ")[0] for d in defs}
    for cname, typ in expected.items():
      if cname not in emitted:
        emit(defs, cname, typ, SENTINEL[typ], "ANCHOR NOT FOUND in the current source")
        emitted.add(cname)
  return defs, problems


def main():
  defs, problems = extract()
  for pr in problems:
    print(f"extract_constants: ANCHOR BROKEN: {pr}")
  text = ("(* GENERATED by tools/extract_constants.py from /repo on every run. Do not edit. *)\n"
          "From Coq Require Import String List ZArith.\nImport ListNotations.\nOpen Scope string_scope.\n\n"
          + "\n".join(defs))
  old = open(OUT).read() if os.path.exists(OUT) else None
  if old != text:
    os.makedirs(os.path.dirname(OUT), exist_ok=True)
    open(OUT, "w").write(text)
  print(f"extract_constants: {len(defs)} constants")
  return 0


if __name__ == "__main__":
  sys.exit(main())
