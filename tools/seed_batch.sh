#!/bin/bash
# usage: tools/seed_batch.sh "<PROP> <n>" ...   re-runs the checks against seeded changes kept under /verif/seeded
# (or confirms new ones from /tmp/mut-<PROP>/_mutants/<n>)
cd /verif
for m in "$@"; do set -- $m; nos=""; [ -f seeded/$1-$2/meta.json ] && nos="--no-suite"
src=/tmp/mut-$1/_mutants/$2; [ -d $src ] || src=/verif/seeded/$1-$2
python3 tools/seed_mutant.py $1 $2 $src $nos 2>&1 | python3 -c "
import sys,json
t=sys.stdin.read()
try:
  d=json.loads(t[t.index('{'):]); print(d['property'],d['name'],'confirmed' if d['confirmed'] else 'NOT-CONFIRMED',d.get('demo_clean_rc'),d.get('demo_mutated_rc'),d.get('suite'),'caught_by',d['caught_by'],'with_input',d['own_check_with_input'],d['odd_exit_codes'])
except Exception as e: print('ERR',t[-800:])
"; done
