"""Writes MANIFEST.json from the per-property table below (kept in one place so it stays valid)."""
import json
import os

VERIF = os.path.dirname(os.path.dirname(os.path.abspath(__file__)))

COMMON_NOTE = (
    "Trusted: Coq 8.16.1 kernel + stdlib (vm_compute used for correspondence runs and witnesses, no "
    "native_compute, no axioms: every theorem is 'Closed under the global context', re-printed by "
    "Print Assumptions on every run); tools/extract_constants.py (ast translator) + Anchors{Edit,Build,Path,Diff}.v (each check depends only on the anchors of its own models); the "
    "Python harness (generators, canonical forms, Gallina term printer); CPython semantics modelled "
    "in PySlice/PyCall/PyText and validated by differential testing only. The theorems are about "
    "the Gallina model; the model is tied to /repo by the correspondence stream on every run.")

# id -> dict(text, note, technique) ; properties absent here are listed under not_applicable
CLAIMED = {
    "C03": dict(
        text=("Hand-written Gallina model of every read/edit algorithm on Buildable.__arguments__ "
              "(ArgStore.v) proved to refine a bound-argument list/dict specification (ArgSpec.v); the "
              "model is run inside Coq against the implementation on generated edit histories (per step: "
              "result or exception class and the stored dict), and an independent Python reference model "
              "evaluates the property text on the same histories."),
        note=COMMON_NOTE,
        technique="Coq proof (refinement to list/dict spec) + vm_compute correspondence on edit histories",
        design="3/C03"),
}

CLAIMED["C01"] = dict(
    text=("Gallina model of the build-time transformation of __arguments__ into (*args, **kwargs) "
          "(PyCall.transform_build) composed with a model of CPython call binding (PyCall.py_call), proved "
          "equal to the reference view (every parameter gets its configured value, else the callee's "
          "default, else the call fails) for every valid signature and every store satisfying the storage "
          "invariant; evaluated in Coq against fdl.build on recording callables (6 callable flavours, "
          "constructor + later edits, all small signature shapes x all subsets of set parameters)."),
    note=COMMON_NOTE + " inspect.signature is trusted (the model receives the implementation's signature). Known "
         "finding: a default_factory parameter of a @supply_defaults function left unset before a configured *args "
         "value receives the factory sentinel (directed oracle case).",
    technique="Coq proof (binding = reference view) + vm_compute correspondence on recording callables",
    design="3/C01")

CLAIMED["C02"] = dict(
    text=("fdl.build modelled as a generic memoized post-order traversal over a heap with uninterpreted "
          "callables (Traverse.mvisit + Build.build_node); theorems: every reachable object processed exactly "
          "once, children first, memo is a function, fresh distinct results for distinct instances, result "
          "mirrors the configuration, input heap untouched / new objects disjoint, fuel suffices. The model is "
          "evaluated in Coq on random DAGs and compared with the implementation's invocation order and built "
          "object graph up to a sharing-preserving isomorphism; an independent Python oracle checks the "
          "property text (exactly-once, dependencies first, same->same / distinct->distinct, builds disjoint)."),
    note=COMMON_NOTE + " Python object identity / no id reuse while referenced is assumed by the model "
         "(ids are never recycled) and exercised by the temporaries + gc stream; recursion depth is unbounded "
         "in the model (the harness checks deep chains give RecursionError or a correct result).",
    technique="Coq proof (memoized DFS invariant) + vm_compute correspondence with isomorphism check",
    design="3/C02")
CLAIMED["C05"] = dict(
    text=("Build model with a failure oracle and the in-build flag: on failure at node k the log is exactly "
          "what completed before, k is reachable, the input heap is unchanged and the flag is reset; the path named "
          "by the escaping exception (first path to the failing Buildable in traversal order) is proved to lead "
          "from the root to it, and the path printed in the real message must equal it; evaluated "
          "in Coq with every Config node of every generated DAG as crash point (fault enumeration) against "
          "the implementation's invocation log; the oracle checks exception class, message prefix, that the "
          "reported path leads to the failing Buildable, no later invocation, configuration unchanged, next "
          "build normal, nested build rejected, for 10 exception-class shapes."),
    note=COMMON_NOTE + " Exception-class proxying (ExceptionProxy) is Python runtime behaviour decided by the "
         "harness oracle only. (Both earlier findings are repaired: StopIteration -> RuntimeError by 8f83903, the "
         "path through a **kwargs entry named like a positional-only parameter by 49137ca.)",
    technique="Coq proof (failure prefix / purity / flag) + fault enumeration correspondence",
    design="3/C05")

CLAIMED["C08"] = dict(
    text=("Gallina models of daglish's traversals over a heap (un-memoized pre-order with paths, memoized "
          "iteration with and without internables, all-paths query, identity rebuild as an instance of the "
          "memoized traversal, cycle detection on arbitrary heaps); theorems on soundness/completeness of paths "
          "and exactly-once visiting, and - on arbitrary heaps with cycles and dangling pointers - that the memoized "
          "traversal never exhausts its fuel and reports a cycle only where an object reaches itself (that every "
          "reachable cycle is reported is validated by correspondence only); evaluated in Coq against daglish.iterate (3 modes), collect_paths_by_id and "
          "MemoizedTraversal.run(map_children); the Python oracle additionally checks State.get_all_paths and the "
          "four daglish_legacy entry points against an independent path enumeration, follow_path soundness, "
          "cyclic structures and user-registered node types (with temporaries; registered after their first "
          "traversal through the default, fallback, == and serialization registries)."),
    note=COMMON_NOTE + " Known finding: daglish_legacy.memoized_traverse raises KeyError on node types whose "
         "flatten creates temporaries.",
    technique="Coq proof (path soundness/completeness, memoized once) + vm_compute correspondence on 10 entry points",
    design="3/C08")

CLAIMED["C06"] = dict(
    text=("Gallina model of Buildable.__eq__ (Eq.cfg_eq: values-or-defaults compared with Python ==, then "
          "multiset equality of the first-visit paths of a defaults-aware memoized traversal); theorems: "
          "equivalence relation on well-formed heaps; evaluated in Coq against the implementation's == on pairs "
          "related by labelled rewrites; the oracle checks never-raises, reflexive, symmetric, != negation, "
          "transitivity along rewrite chains, and agreement with a ground-truth canonical form (defaults filled "
          "in, dict order / history / tags ignored, sharing labelled), which implies congruence with build."),
    note=COMMON_NOTE + " Known findings at _compare_buildable: a redirected alias is invisible; dict insertion "
         "order changes first-visit paths of objects shared inside one dict. Leaves: bool==int modelled, "
         "integer-valued floats avoided by the generator.",
    technique="Coq proof (equivalence of the model's ==) + vm_compute correspondence on rewrite-related pairs",
    design="3/C06")
CLAIMED["C07"] = dict(
    text=("deepcopy / pickle round trip modelled as instances of the generic memoized traversal (incl. "
          "copy._deepcopy_tuple's identity rule), copy.copy and fdl.cast as re-flattening of the top node; "
          "theorems: the copy mirrors the original under the memo map, is allocated entirely after the input "
          "heap (disjoint), shallow copies share exactly the argument references, cast changes only the kind; "
          "soundness of the isomorphism checker used by all correspondence streams. Evaluated in Coq against the "
          "implementation up to sharing-preserving isomorphism; the oracle checks faithfulness, identity "
          "disjointness of every mutable part (Buildables, containers, __arguments__, tag sets, history lists) "
          "and that 1-6 random edits of the copy leave the original's canonical form and build unchanged."),
    note=COMMON_NOTE + " copy.deepcopy and pickle are library code (their memoize-by-identity semantics is "
         "modelled and validated by the stream).",
    technique="Coq proof (copy mirrors + disjoint, iso checker soundness) + vm_compute correspondence + edit-frame oracle",
    design="3/C07")

CLAIMED["C16"] = dict(
    text=("One Buildable's arguments, tags, history log, the global sequence counter and the nestable tracking "
          "switch as a state machine (History.hstep) built on the proved argument-store model: every primitive "
          "write appends one entry. Theorems (induction over edit histories): last entry is current, sequence "
          "numbers strictly increasing and unique, suspended edits append nothing, the store is independent of the "
          "log. After every step of every generated history the implementation's result, __arguments__, tag sets "
          "and complete __argument_history__ are compared with the model in Coq; the oracle evaluates the "
          "property text per step (exactly one entry per changed value, program order, caller attribution, "
          "suspension, equality/build independent of history), plus update_callable / materialize_defaults / "
          "copy_with / assign histories and 2-4 concurrent threads."),
    note=COMMON_NOTE + " Atomicity of itertools.count.__next__ under the GIL is assumed for the thread clause "
         "(decided by the thread stream only). Tag API entries are attributed to the tagging function (asserted "
         "by the pinned suite), so caller attribution is checked for value entries.",
    technique="Coq proof (history invariants by induction over edits) + per-step vm_compute correspondence",
    design="3/C16")

CLAIMED["C14"] = dict(
    text=("set_tagged (lazy memoized pre-order walk that mutates a node before enumerating its children), "
          "list_tags and tag iteration modelled on the heap with in-place node updates and a tag-subclass table; "
          "theorems: exact post-state characterisation (tagged arguments hold the value, everything else and "
          "all tag sets unchanged), list_tags = union over reachable Buildables, tag operations act on one "
          "argument's tag set (History model). Evaluated in Coq: the heap after set_tagged / "
          "select(tag=).replace must equal the model's heap node for node; the oracle checks the property text "
          "(incl. deepcopy replacement), list_tags with superclasses, tag survival through deepcopy, pickle, "
          "copy, cast, JSON and diff application, and TaggedValues inside containers."),
    note=COMMON_NOTE + " issubclass on Tag classes enters the model as a table computed by the harness.",
    technique="Coq proof (frame/post-state of set_tagged) + exact heap correspondence after in-place edits",
    design="3/C14")
CLAIMED["C15"] = dict(
    text=("NodeSelection (memoized leaves-first walk, matching by callable / subclass table / Buildable type), "
          ".set, .replace (memoized rebuild where Buildables keep their identity and containers are new) and "
          "TagSelection iteration modelled on the heap; theorems: the selected ids are exactly the reachable "
          "matching Buildables, each once; set touches exactly those; replace preserves the identity and other "
          "arguments of every non-matching Buildable. Evaluated in Coq against select() for all filter settings "
          "(ids yielded, heap after set, heap after replace up to an isomorphism that fixes Buildables, values "
          "yielded by a tag selection); independent Python oracle of the property text incl. deepcopy mode."),
    note=COMMON_NOTE + " issubclass on configured classes enters the model as a table computed by the harness.",
    technique="Coq proof (selection exactness, replace identity preservation) + vm_compute correspondence",
    design="3/C15")

CLAIMED["C18"] = dict(
    text=("Text-level model of the path printer, of the command-line path grammar (the two alternatives of "
          "_PATH_PART as extracted from the source, with ast.literal_eval on keys), of repr()/string-literal "
          "unescaping on ASCII and of the flag-directive fold; theorems: parse(print p) = erase p on the stated "
          "domain, literal_eval(repr s) = s for ASCII strings, directives are consumed strictly left to right "
          "with the base-config rules. Evaluated in Coq on every printed leaf path (text, parse result), on "
          "escape-weighted strings and on directive sequences through a real FiddleFlag; the oracle follows "
          "every printed path, writes it back with a new literal through set_value and checks that exactly that "
          "leaf changed, and checks the flag serializer round trip and CallExpression.parse."),
    note=COMMON_NOTE + " zlib/base64/json/ast.literal_eval trusted; non-ASCII characters are outside the Coq "
         "statement. Known finding: a **kwargs entry named like a positional-only parameter is printed but "
         "cannot be written back.",
    technique="Coq proof (print/parse and repr/unescape round trips) + vm_compute correspondence on printed paths",
    design="3/C18")

CLAIMED["C09"] = dict(
    text=("The bytes codec of the serializer (latin-1 with the raw_unicode_escape fallback for old documents; the "
          "old decoder is modelled too) and the policy gate on symbol resolution are modelled and proved: "
          "bytes_of_str (latin1_decode b) = b for all byte strings, the old codec's lossiness is exhibited, "
          "import_symbol imports only symbols the policy approved and returns only approved values. At the graph "
          "level (de)serialization is the memoized copy of C07 (proved faithful and disjoint); in Coq the input "
          "graph, the graph an independent reader finds in the JSON document and the reconstruction are checked "
          "isomorphic to the model's copy. Document level (Doc.v): the JSON document is an object table (one entry "
          "per memoizable object, written after its items, referred to by position); proved: a written document "
          "loaded and written again is literally the same document (ser is a fixed point on its output), "
          "totality, well-formedness, compactness (exactly one entry per reachable object, no garbage), the entry "
          "order (children first, injective), isomorphism with the input and the meaning of the refcounts field; "
          "the real document is compared entry by entry (described object, refcount, printed paths) with the "
          "model, and re-loaded / re-dumped inside Coq. The oracle checks strict-JSON validity, types/leaves/callables/tags/"
          "sharing/unset-ness after the round trip, identical re-dump up to set order, that no configured "
          "callable runs and every import was approved by a recording policy, also on mutated documents; the "
          "bytes codec is swept exhaustively over short strings."),
    note=COMMON_NOTE + " json, importlib trusted. Known finding: inf/nan leaves are written as Infinity/NaN "
         "(not strict JSON). Object names (position in the table is modelled, the hint text is not) and the encoding of "
         "traverser metadata objects are not modelled.",
    technique="Coq proof (codec bijection, policy gate, copy faithfulness) + vm_compute correspondence on documents",
    design="3/C09")

CLAIMED["C20"] = dict(
    text=("materialize_defaults and with_defaults_trimmed modelled on one argument store (Transform.materialize / "
          "trim) and proved to leave the callee's view (C01's reference view, hence the build) unchanged, "
          "materialize idempotent and total; at heap level materialize_defaults (lazy in-place walk), "
          "with_defaults_trimmed, replace_unconfigured_partials_with_callables, materialize_tags and "
          "clear_argument_history are instances of the proved memoized traversal and are compared in Coq with the "
          "implementation (node-for-node after the in-place edit, up to isomorphism for the rebuilding ones). The "
          "oracle builds before and after every transformation (incl. unintern_tuples_of_literals, "
          "auto_config.inline, convert_dataclasses_to_configs) and compares the built graphs, ==, idempotence, "
          "totality and serializability."),
    note=COMMON_NOTE + " Oracle conventions: built functools.partial compared modulo callee defaults, "
         "partial(f) identified with f, numerically equal leaves identified (Python ==), tuple-of-literals "
         "identity not observed. inline / dataclass conversion / unintern are decided by the oracle only, as are the "
         "directed cases for @supply_defaults callables, Partials with an unset required positional-only parameter and "
         "TaggedValues holding Buildables (repaired defects 785b68a, abfa624). Known finding: trimming an argument equal to "
         "a mutable default changes sharing.",
    technique="Coq proof (view preservation of materialize/trim; traversal instances) + heap correspondence + build oracle",
    design="3/C20")

CLAIMED["C17"] = dict(
    text=("Heap-effect discipline: every modelled read-only or copy-returning API (build, deepcopy / pickle copy, "
          "identity rebuild, with_defaults_trimmed, partial simplification, materialize_tags, clear_argument_history, "
          "the diff builder, serialization) "
          "is an instance of the memoized traversal, for which it is proved once, generically, that the input heap "
          "is a prefix of the output heap (only appends); the frame property is re-evaluated in Coq on every "
          "generated configuration. The sweep runs 48 entry points (printing, rendering, serialization, diffing, "
          "validation, both code generators, selection iteration, casting/copying, trimming helpers, un-interning, "
          "grep, yaml) on every configuration and compares, before and after, the full encoding (callables, "
          "arguments in storage order, tags, sharing), the identities of every Buildable, container and "
          "__arguments__ dict, and history lengths."),
    note=COMMON_NOTE + " APIs without a model (rendering, validation, grep, yaml, code generation) are decided "
         "by the before/after sweep only.",
    technique="Coq proof (generic frame theorem for append-only traversals) + before/after sweep over 48 entry points",
    design="3/C17")

CLAIMED["C04"] = dict(
    text=("Building a Partial / ArgFactory and calling the result are modelled on the heap (Partial.v): promotion of "
          "containers that hold factories, a fresh wrapper per bound factory, the keyword order of the layered "
          "functools.partial / arg_factory.partial object, call-time merge (keywords override in place), invocation "
          "of factories with per-argument memoization, copy of exactly the container spine that holds factories. "
          "Theorems: calls only append to the heap (build-time objects are reused, never modified; objects made by "
          "different calls are disjoint), a call-time keyword replaces exactly the configured value of that name, "
          "a structure without factories is passed through uncopied. In Coq, the objects received by the recording "
          "callable over 1-4 calls are compared with the model under ONE bijection threaded through all calls "
          "(so sharing between calls and with build time is checked); the oracle checks override, reuse and "
          "freshness per argument from the property text."),
    note=COMMON_NOTE + " functools.partial is CPython; its merge is modelled and validated by the stream.",
    technique="Coq proof (append-only calls, override, pass-through) + multi-call correspondence under one bijection",
    design="3/C04")

CLAIMED["C19"] = dict(
    text=("Interleaving semantics over Fiddle's module-level state (per-thread build guard and tracking switch, the "
          "global sequence counter, shared caches filled with a pure function of the key): for EVERY schedule of "
          "the modelled atomic actions each thread observes what it observes alone (up to order-preserving "
          "renaming of sequence ids and cache hit/miss), ids are strictly increasing globally hence unique and "
          "increasing per thread, and a shared cache only ever returns f(key); two interleavings of the same "
          "per-thread programs are indistinguishable for every thread, and each thread's guard / switch flags and "
          "number of sequence ids end as in its solo run. Real threads are run under a "
          "deterministic scheduler that switches at source-line granularity inside Fiddle; per-thread results are "
          "compared with sequential runs and the logged guard / switch / counter events of every schedule are "
          "replayed on the Coq model."),
    note=COMMON_NOTE + " Partial: atomicity of single bytecode operations under the GIL, threading.local, "
         "itertools.count.__next__, lru_cache and WeakKeyDictionary are assumptions of the model; the theorem is about "
         "interleavings of the modelled actions, the scheduler samples real line-level interleavings.",
    technique="Coq proof (non-interference for all interleavings of atomic actions) + deterministic line-level scheduler",
    design="3/C19")

PENDING_REASON = "check not built yet in this session (work in progress; see DESIGN.md section 4)"


CLAIMED["C10"] = dict(
    text=("Gallina model of the whole round trip on one heap holding old and new: DiffBuild.build_changes "
          "(_DiffFromAlignmentBuilder given the alignment the real builder ends with: aligned objects become "
          "references to old objects with the recorded callable / tag / argument / key / index operations, all "
          "other objects are copied once; references resolved to pointers) followed by Diff.apply_changes "
          "(_apply_changes: parents resolved up front, five phases in the order extracted from the source). "
          "Theorems about apply (length, frame, per-parent decomposition, phase order) and, where merged, the "
          "round-trip theorem patch(old) ~ new. Evaluated in Coq on random (old, new) pairs: the model must turn "
          "old into new (graph isomorphism up to storage and dict order) and agree with what the real build_diff + "
          "apply_diff produced; _apply_changes is also compared node for node on the real resolved diffs. A "
          "Python round-trip oracle judges every pair (labelled rewrites incl. rewrites inside tuples)."),
    note=COMMON_NOTE + " The alignment HEURISTICS (which objects get aligned; depends on len(repr(value))) are not "
         "modelled: the model receives the alignment, and checks on every case that it satisfies what "
         "DiffAlignment promises (alignment_ok). Known finding: configurations with positional arguments are not "
         "supported by the differ.",
    technique="Coq model of diff construction from an alignment + _apply_changes, vm_compute correspondence on both; round-trip oracle",
    design="3/C10")

CLAIMED["C11"] = dict(
    text=("Mini-language of straight-line configuration programs with two Gallina semantics (Lang.eval with "
          "cfg=false: running the function; cfg=true: what as_buildable computes through "
          "SignatureInfo.signature_binding); theorem: building the configuration semantics yields a heap "
          "isomorphic (values, types, sharing; partial objects up to argument binding) to the direct semantics. "
          "Generated programs are written to real source files, decorated by the real auto_config, and both "
          "results are compared with the two model semantics inside Coq; constructs outside the modelled core "
          "(splats, nested auto_config functions, exempt, with_tags, arg_factory, closures, defaults, lambdas, "
          "static/class methods, control flow) are generated at random and decided by the Python oracle."),
    note=COMMON_NOTE + " The AST rewrite itself (ast.NodeTransformer, compile, closure cells) is exercised, not "
         "modelled; CPython constant folding of tuple displays is written into the model programs by the harness.",
    technique="Coq proof (two semantics related through build) + vm_compute correspondence on generated source programs",
    design="3/C11")

CLAIMED["C12"] = dict(
    text=("Gallina model of the core of the code generators (Codegen.gen: nodes held by two slots become variables in "
          "post-order, everything else is emitted inline, Buildables as constructor calls with int-keyed arguments "
          "positionally and named ones as keywords) producing a Lang.program; theorem: running the generated program "
          "under the configuration semantics rebuilds a heap isomorphic (sharing included, up to the storage order of "
          "arguments) to the input. The text emitted by the real new_codegen / auto_config_codegen is parsed back by a "
          "fail-closed translator into a Lang.program and checked inside Coq to rebuild the input; separately every "
          "emitted module (both generators x sub-fixture subsets x complexity thresholds x history on/off) is "
          "compiled, imported and its fixture compared with the input; py_val_to_cst_converter expressions are "
          "evaluated and compared by value and type."),
    note=COMMON_NOTE + " libcst printing, naming, import management, sub-fixture extraction, complexity splitting and "
         "history comments are exercised by executing the emitted module, not modelled. Known findings: tags in "
         "new_codegen, several tags on one argument, sharing lost through sub-fixtures.",
    technique="Coq proof (generated program rebuilds the heap) + emitted text parsed back and evaluated in Coq + execution oracle",
    design="3/C12")

CLAIMED["C13"] = dict(
    text=("Gallina model of the statement order of codegen_diff.fiddler_from_diff (Fiddler.fiddler_order: changes "
          "grouped by parent path; inside a group deletes and remove_tag, then update_callable, then assignments "
          "and add_tag, each in diff order) and of its execution when every referenced path is captured in a "
          "variable first; theorems: the emitted statements are a permutation of the changes, and executing them "
          "gives what Diff.apply_changes (five global phases) gives. The emitted fiddler TEXT is parsed back by a "
          "fail-closed translator into its statement order, which must equal the model's; executing in that order "
          "and apply_changes must both yield the graph the real fiddler produced. Every emitted fiddler (explicit / "
          "short naming x old supplied / not supplied; diffs from build_diff and five families of hand-assembled "
          "diffs) is compiled, executed on a copy of old and compared with apply_diff."),
    note=COMMON_NOTE + " The alias analysis used when old is supplied (which paths need a variable), variable naming "
         "and expression emission (py_val_to_cst_converter) are decided by executing the fiddler, not modelled.",
    technique="Coq proof (statement order vs phase order) + emitted text parsed back and checked in Coq + execution oracle",
    design="3/C13")


def main():
  props = [json.loads(l) for l in open(os.path.join(VERIF, "properties.jsonl"))]
  checks = []
  na = []
  for p in props:
    pid = p["id"]
    if pid in CLAIMED:
      c = CLAIMED[pid]
      checks.append({
          "property_id": pid,
          "quick_cmd": f"./check {pid} quick",
          "thorough_cmd": f"./check {pid} thorough",
          "evidence_file": f"evidence/{pid}.json",
          "replay_cmd_template": f"./check {pid} --replay {{path}}",
          "engine": "coq-model+correspondence",
          "level_claimed": {"category": "proof", "text": c["text"],
                            "design_ref": "DESIGN.md section " + c["design"]},
          "level_note": c["note"],
          "technique": c["technique"],
      })
    else:
      na.append({"property_id": pid, "reason": PENDING_REASON})
  manifest = {
      "version": 1,
      "setup_cmd": "./setup.sh",
      "hooks": {
          "guard": "FIDDLE_VERIF",
          "enable": "no source hooks: instrumentation lives in the harness (recording callables, "
                    "sys.settrace scheduler); checks export FIDDLE_VERIF=1 for uniformity",
          "baseline_off_cmd": "tools/baseline.sh",
          "source_commits": [],
          "add_only": True,
      },
      "engines": [{
          "name": "coq-model+correspondence", "path": "check",
          "serves_properties": sorted(CLAIMED),
          "kind_free_text": "Coq 8.16 theorems about an executable Gallina model; model evaluated with "
                            "vm_compute against the implementation on generated cases; Python oracle of the "
                            "property text on the same cases"}],
      "checks": checks,
      "not_applicable": na,
      "notes": "See DESIGN.md. Known findings: known_findings.json.",
  }
  json.dump(manifest, open(os.path.join(VERIF, "MANIFEST.json"), "w"), indent=1)
  print(f"MANIFEST.json: {len(checks)} checks, {len(na)} not_applicable")


if __name__ == "__main__":
  main()
