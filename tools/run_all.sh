#!/bin/bash
# usage: tools/run_all.sh <tier> <seed...>   runs every claimed check for each seed, prints one line each
cd "$(dirname "$0")/.."
tier=$1; shift
ids=$(python3 -c "import json; print(' '.join(c['property_id'] for c in json.load(open('MANIFEST.json'))['checks']))")
for seed in "$@"; do
  for id in $ids; do
    out=$(VERIF_SEED=$seed ./check $id $tier 2>&1)
    rc=$?
    echo "seed=$seed $id rc=$rc $(echo "$out" | grep -c '^VIOLATION') violations; $(echo "$out" | tail -1)"
    if [ $rc -ne 0 ]; then echo "$out" | grep "VIOLATION\|no longer" | head -3; fi
  done
done
