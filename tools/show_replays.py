"""usage: tools/show_replays.py <PID> [n]  -- prints the last n replay files of a property, shortened"""
import json, glob, os, sys
pid = sys.argv[1]; n = int(sys.argv[2]) if len(sys.argv) > 2 else 5
fs = sorted(glob.glob(f'/verif/replays/{pid}/*.json'), key=os.path.getmtime)[-n:]
for f in fs:
  d = json.load(open(f))
  print('==', os.path.basename(f), d.get('what', '')[:400])
  r = d.get('replay', {})
  for k, v in r.items():
    print('   ', k, ':', str(v)[:int(sys.argv[3]) if len(sys.argv) > 3 else 500])
  for b in d.get('broken', []):
    print('   BROKEN', b.get('kind'), b.get('name'), str(b.get('detail', ''))[-800:])
