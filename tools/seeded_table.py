"""Prints the table of seeded changes (DESIGN.md section 7.1) from seeded/*/meta.json."""
import glob, json, os
rows = []
for f in sorted(glob.glob(os.path.join(os.path.dirname(os.path.dirname(os.path.abspath(__file__))), "seeded", "*", "meta.json"))):
  d = json.load(open(f))
  notes = os.path.join(os.path.dirname(f), "notes.txt")
  first = open(notes).read().strip().split("\n")[0][:110] if os.path.exists(notes) else ""
  rows.append((d["property"], d["name"], "yes" if d.get("confirmed") else "NO", ", ".join(d.get("caught_by", [])) or "-",
               "input" if d.get("own_check_with_input") else ("no input" if d.get("own_check_catches") else "MISSED"), first))
print("| change | confirmed | checks that fire | own check | what was changed |")
print("|---|---|---|---|---|")
for p, n, c, by, own, first in rows:
  print(f"| {p}-{n} | {c} | {by} | {own} | {first} |")
