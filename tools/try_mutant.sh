#!/bin/bash
# usage: tools/try_mutant.sh <patch.diff> <tier> <prop id>...   applies the patch to /repo, runs the checks, reverts.
patch=$1; tier=$2; shift 2
cd /verif
if ! git -C /repo apply --check "$patch" 2>/dev/null; then echo "PATCH DOES NOT APPLY: $patch"; exit 2; fi
git -C /repo apply "$patch"
for id in "$@"; do
  for seed in 0 1; do
    out=$(VERIF_SEED=$seed ./check $id $tier 2>&1); rc=$?
    v=$(echo "$out" | grep -c '^VIOLATION')
    nf=$(echo "$out" | grep -c 'no-failing-input-found')
    echo "  $id seed=$seed rc=$rc violations=$v no-failing-input=$nf :: $(echo "$out" | grep '^VIOLATION' | head -1)"
  done
done
git -C /repo checkout -- .
/venv/bin/python -B tools/extract_constants.py >/dev/null
