"""./check <id> quick|thorough [--replay file]

Steps (DESIGN.md 2.5): extract -> prove -> assumptions -> harness (implementation + oracle)
-> correspondence in Coq -> verdict -> evidence.
"""
from __future__ import annotations

import concurrent.futures
import fcntl
import importlib
import json
import os
import re
import shutil
import subprocess
import sys
import time
import traceback

VERIF = os.path.dirname(os.path.dirname(os.path.abspath(__file__)))
COQ = os.path.join(VERIF, "coq")
sys.path.insert(0, VERIF)

COQ_ARGS = ["-Q", os.path.join(COQ, "theories"), "Fiddle", "-Q", os.path.join(COQ, "gen"),
            "FiddleGen", "-Q", os.path.join(COQ, "props"), "FiddleProps"]
FORBIDDEN = re.compile(
    r"\b(Admitted|admit|Axiom|Axioms|Parameter|Parameters|Conjecture|Conjectures|Hypothesis|"
    r"Hypotheses|Variables?)\b|Unset\s+Guard|Unset\s+Positivity|Unset\s+Universe|bypass_check|"
    r"Admit\s+Obligations|type-in-type|impredicative-set")
SHARD_CASES = 200
SHARD_BYTES = 350_000


def log(msg):
  print(f"[check] {msg}", flush=True)


# --------------------------------------------------------------------------------------------------


def run_extract():
  """Regenerate coq/gen/Extracted.v from /repo. Returns (ok, message)."""
  p = subprocess.run([sys.executable, "-B", os.path.join(VERIF, "tools", "extract_constants.py")],
                     capture_output=True, text=True, timeout=120)
  return p.returncode == 0, (p.stdout + p.stderr).strip()


def coq_make(targets):
  """Full .vo build of the given targets under a lock. Returns (ok, output)."""
  os.makedirs(COQ, exist_ok=True)
  with open(os.path.join(COQ, ".make.lock"), "w") as lock:
    fcntl.flock(lock, fcntl.LOCK_EX)
    if not os.path.exists(os.path.join(COQ, "Makefile")) or (
        os.path.getmtime(os.path.join(COQ, "Makefile"))
        < os.path.getmtime(os.path.join(COQ, "_CoqProject"))):
      subprocess.run(["coq_makefile", "-f", "_CoqProject", "-o", "Makefile"], cwd=COQ,
                     capture_output=True, text=True, timeout=60)
    p = subprocess.run(["timeout", "1500", "make", "-j16"] + targets, cwd=COQ, capture_output=True,
                       text=True)
    return p.returncode == 0, p.stdout + p.stderr


def scan_forbidden():
  bad = []
  for sub in ("theories", "props", "gen"):
    d = os.path.join(COQ, sub)
    if not os.path.isdir(d):
      continue
    for fn in sorted(os.listdir(d)):
      if not fn.endswith(".v"):
        continue
      text = open(os.path.join(d, fn)).read()
      # strip comments (non-nested is enough for our sources; nested handled by loop)
      prev = None
      while prev != text:
        prev = text
        text = re.sub(r"\(\*(?:(?!\(\*|\*\)).)*\*\)", " ", text, flags=re.S)
      in_section = 0
      for ln, line in enumerate(text.split("\n"), 1):
        if re.match(r"\s*Section\b", line):
          in_section += 1
        if re.match(r"\s*End\b", line) and in_section:
          in_section -= 1
        for m in FORBIDDEN.finditer(line):
          word = m.group(0)
          if word.startswith(("Variable", "Hypothes")) and in_section:
            continue
          bad.append(f"{sub}/{fn}:{ln}: {word}")
  return bad


def theorem_names(prop_file):
  text = open(prop_file).read()
  return re.findall(r"^\s*(?:Theorem|Example|Lemma|Corollary)\s+([A-Za-z0-9_']+)", text, flags=re.M)


def print_assumptions(pid, names, workdir):
  """Print Assumptions for every theorem of props/<pid>.v, freshly, in one coqc run."""
  if not names:
    return {}, True, ""
  src = [f"From FiddleProps Require Import {pid}."]
  for n in names:
    src.append(f'Goal True. idtac "@@BEGIN {n}". exact I. Qed.')
    src.append(f"Print Assumptions {n}.")
  src.append('Goal True. idtac "@@END". exact I. Qed.')
  path = os.path.join(workdir, f"assumptions_{pid}.v")
  open(path, "w").write("\n".join(src) + "\n")
  p = subprocess.run(["timeout", "600", "coqc"] + COQ_ARGS + [path], capture_output=True, text=True,
                     cwd=workdir)
  out = p.stdout
  result = {}
  cur = None
  for line in out.split("\n"):
    m = re.match(r"@@BEGIN (\S+)", line)
    if m:
      cur = m.group(1)
      result[cur] = []
      continue
    if line.startswith("@@END"):
      cur = None
      continue
    if cur is not None and line.strip():
      result[cur].append(line.strip())
  return {k: " ".join(v) for k, v in result.items()}, p.returncode == 0, p.stderr


def write_shards(stream, workdir):
  """Splits a stream's cases into case files; returns list of (path, first_index, count)."""
  shards = []
  cur, cur_bytes, first = [], 0, 0
  for i, c in enumerate(stream.cases):
    if cur and (len(cur) >= SHARD_CASES or cur_bytes + len(c) > SHARD_BYTES):
      shards.append((first, cur))
      cur, cur_bytes, first = [], 0, i
    cur.append(c)
    cur_bytes += len(c)
  if cur:
    shards.append((first, cur))
  out = []
  for k, (first, cases) in enumerate(shards):
    path = os.path.join(workdir, f"cases_{stream.name}_{k}.v")
    with open(path, "w") as f:
      f.write("From Fiddle Require Import PyBase.\n")
      f.write(stream.requires + "\n")
      f.write("Open Scope Z_scope.\n")
      f.write(f"Definition cases : list ({stream.case_type}) := [\n")
      f.write(";\n".join(cases))
      f.write("\n].\n")
      f.write(f"Eval vm_compute in (length cases, failing_indices ({stream.checker}) cases 0%nat).\n")
    out.append((path, first, len(cases)))
  return out


def run_shard(path, workdir):
  p = subprocess.run(["timeout", "900", "coqc"] + COQ_ARGS + [path], capture_output=True, text=True,
                     cwd=workdir)
  text = re.sub(r"\s+", " ", p.stdout)
  m = re.search(r"= \((\d+)(?:%nat)?, \[([^\]]*)\]\)", text)
  if p.returncode != 0 or not m:
    return None, (p.stdout + p.stderr)[-2000:]
  n = int(m.group(1))
  idxs = [int(x.replace("%nat", "")) for x in re.findall(r"\d+(?:%nat)?", m.group(2))]
  return (n, idxs), ""


def run_streams(streams, workdir):
  """Evaluates all correspondence streams in Coq. Returns dict name -> {checked, bad:[idx], errors}."""
  jobs = []
  for s in streams:
    for path, first, count in write_shards(s, workdir):
      jobs.append((s, path, first, count))
  results = {s.name: {"checked": 0, "bad": [], "errors": []} for s in streams}
  with concurrent.futures.ThreadPoolExecutor(max_workers=min(16, os.cpu_count() or 4)) as ex:
    futs = {ex.submit(run_shard, path, workdir): (s, path, first, count)
            for s, path, first, count in jobs}
    for fut in concurrent.futures.as_completed(futs):
      s, path, first, count = futs[fut]
      r, err = fut.result()
      if r is None:
        results[s.name]["errors"].append(f"{os.path.basename(path)}: {err}")
        continue
      n, idxs = r
      if n != count:
        results[s.name]["errors"].append(f"{os.path.basename(path)}: evaluated {n} of {count}")
      results[s.name]["checked"] += n
      results[s.name]["bad"].extend(first + i for i in idxs)
  for v in results.values():
    v["bad"].sort()
  return results


def explain(stream, index, workdir):
  """Asks Coq what the model computes for one disagreeing case (for the replay file)."""
  explain_fn = stream.checker.replace("check_case", "explain_case").replace("check_rt", "explain_rt").replace("check_doc", "explain_doc")
  path = os.path.join(workdir, f"explain_{stream.name}_{index}.v")
  with open(path, "w") as f:
    f.write("From Fiddle Require Import PyBase.\n" + stream.requires + "\nOpen Scope Z_scope.\n")
    f.write(f"Definition c : {stream.case_type} := {stream.cases[index]}.\n")
    f.write(f"Eval vm_compute in ({explain_fn} c).\n")
  p = subprocess.run(["timeout", "300", "coqc"] + COQ_ARGS + [path], capture_output=True, text=True,
                     cwd=workdir)
  return (p.stdout + p.stderr)[-6000:]


# --------------------------------------------------------------------------------------------------


def load_known():
  path = os.path.join(VERIF, "known_findings.json")
  if not os.path.exists(path):
    return []
  return json.load(open(path))["findings"]


def write_replay(pid, payload):
  d = os.path.join(VERIF, "replays", pid)
  os.makedirs(d, exist_ok=True)
  import hashlib
  h = hashlib.sha256(json.dumps(payload, sort_keys=True, default=repr).encode()).hexdigest()[:12]
  path = os.path.join(d, f"{h}.json")
  json.dump(payload, open(path, "w"), indent=1, default=repr)
  return path


def do_replay(pid, path):
  payload = json.load(open(path))
  print(json.dumps(payload, indent=1)[:4000])
  py = payload.get("replay", {}).get("python") or payload.get("python")
  if py:
    print("---- running the stand-alone reproduction against /repo ----")
    p = subprocess.run([sys.executable, "-B", "-c", py], capture_output=True, text=True,
                       env=dict(os.environ, PYTHONPATH="/repo"))
    print(p.stdout[-3000:])
    print(p.stderr[-3000:])
  return 0


def main(argv):
  if len(argv) < 2:
    print(__doc__)
    return 2
  pid = argv[1]
  if "--replay" in argv:
    return do_replay(pid, argv[argv.index("--replay") + 1])
  tier = argv[2] if len(argv) > 2 else os.environ.get("VERIF_TIER", "quick")
  seed = int(os.environ.get("VERIF_SEED", "0") or 0)
  t0 = time.time()
  workdir = os.path.join(VERIF, "work", f"{pid}_{os.getpid()}")
  shutil.rmtree(workdir, ignore_errors=True)
  os.makedirs(workdir)
  violations = []  # (replay payload, suffix)
  broken = []  # names of theorems / anchors / streams that no longer check
  notes = []

  # 1 extract
  ok, msg = run_extract()
  if not ok:
    broken.append({"kind": "anchor", "name": "extract_constants", "detail": msg[-1500:]})
  log(f"extract: {'ok' if ok else 'FAILED'}")

  # 2 prove
  prop_file = os.path.join(COQ, "props", f"{pid}.v")
  names = theorem_names(prop_file) if os.path.exists(prop_file) else []
  module = importlib.import_module(f"harness.{pid.lower()}")
  targets = [f"props/{pid}.vo"] + list(getattr(module, "COQ_TARGETS", []))
  ok_make, make_out = coq_make(targets)
  discharged = len(names) if ok_make else 0
  if not ok_make:
    m = re.search(r'File "([^"]+)", line (\d+)', make_out)
    where = f"{m.group(1)}:{m.group(2)}" if m else "?"
    failing = "?"
    if m and os.path.exists(os.path.join(COQ, m.group(1)) if not os.path.isabs(m.group(1)) else m.group(1)):
      fpath = m.group(1) if os.path.isabs(m.group(1)) else os.path.join(COQ, m.group(1))
      lines = open(fpath).read().split("\n")[:int(m.group(2))]
      for line in reversed(lines):
        mm = re.match(r"\s*(?:Theorem|Lemma|Example|Corollary|Definition|Fixpoint)\s+([A-Za-z0-9_']+)", line)
        if mm:
          failing = mm.group(1)
          break
    broken.append({"kind": "proof", "name": failing, "where": where, "detail": make_out[-1500:]})
  log(f"make {targets}: {'ok' if ok_make else 'FAILED'}")
  bad_tokens = scan_forbidden()
  if bad_tokens:
    broken.append({"kind": "forbidden", "name": "forbidden-construct", "detail": bad_tokens[:10]})
  assumptions, ok_pa, pa_err = ({}, True, "")
  if ok_make:
    assumptions, ok_pa, pa_err = print_assumptions(pid, names, workdir)
    if not ok_pa:
      broken.append({"kind": "proof", "name": "Print Assumptions", "detail": pa_err[-1000:]})
    for n, a in assumptions.items():
      if "Closed under the global context" not in a:
        notes.append(f"assumptions of {n}: {a}")
        allowed = getattr(module, "ALLOWED_AXIOMS", ())
        axioms = [w for w in re.findall(r"([A-Za-z0-9_.']+)\s*:", a)]
        for ax in axioms:
          if ax not in allowed:
            broken.append({"kind": "axiom", "name": n, "detail": a})
            break

  # 3-6 harness: implementation + oracle + cases
  import logging
  logging.disable(logging.CRITICAL)
  try:
    res = module.run(tier, seed)
  except Exception:  # pylint: disable=broad-except
    tb = traceback.format_exc()
    log("harness crashed:\n" + tb)
    broken.append({"kind": "harness", "name": f"harness.{pid.lower()}", "detail": tb[-3000:]})
    # failures with a concrete input recorded before the crash are still reported
    from harness import common as _common
    res = _common.CURRENT_RESULT
    if res is not None:
      res.notes.append("the harness crashed; results up to the crash are reported")

  corr = {}
  known = [f for f in load_known() if f["property"] == pid]
  known_keys = {f["key"]: f for f in known}
  known_hit = {}
  if res is not None:
    if ok_make or getattr(module, "MODEL_INDEPENDENT_OF_PROPS", True):
      corr = run_streams(res.streams, workdir)
    for s in res.streams:
      r = corr.get(s.name)
      if r is None:
        continue
      if r["errors"]:
        broken.append({"kind": "correspondence", "name": s.name, "detail": r["errors"][:3]})
      if getattr(s, "informational", False):
        # a stream that only measures on how many real cases the hypotheses of a theorem hold
        notes.append(f"{s.name}: {r['checked'] - len(r['bad'])} of {r['checked']} cases satisfy {s.checker}")
        continue
      if r["bad"]:
        i = r["bad"][0]
        broken.append({"kind": "correspondence", "name": s.name, "first_case_index": i,
                       "n_disagreeing": len(r["bad"]), "case_meta": s.meta[i],
                       "case_term": s.cases[i][:100000],
                       "model_says": explain(s, i, workdir)})
    for f in res.failures:
      k = known_keys.get(f.finding_key) if f.finding_key else None
      if k is not None and k.get("status") == "known":
        known_hit.setdefault(f.finding_key, f)
      else:
        violations.append(f)

  # 7 verdict
  rc = 0
  for key, f in known_hit.items():
    print(f"KNOWN-FINDING: property={pid} {known_keys[key]['what']}", flush=True)
  if violations:
    # report distinct failures (first of each description class), at most 5 lines
    seen = set()
    for f in violations:
      cls = f.finding_key or re.sub(r"\d+", "#", f.what)[:80]
      if cls in seen:
        continue
      seen.add(cls)
      if len(seen) > 5:
        break
      path = write_replay(pid, {"property": pid, "seed": seed, "tier": tier, "what": f.what,
                                "finding_key": f.finding_key, "replay": f.replay,
                                "broken": broken})
      print(f"VIOLATION property={pid} replay={path}", flush=True)
    rc = 1
  elif broken:
    path = write_replay(pid, {"property": pid, "seed": seed, "tier": tier,
                              "what": "a proof obligation, anchor or correspondence stream no longer "
                                      "checks; the oracle found no failing input in this tier's budget",
                              "broken": broken})
    names_b = ",".join(sorted({str(b.get('name')) for b in broken}))
    print(f"[check] no longer checks: {names_b}")
    print(f"VIOLATION property={pid} replay={path} no-failing-input-found", flush=True)
    rc = 1

  # evidence
  wall = time.time() - t0
  ev = {
      "property_id": pid, "tier": tier, "seed": seed, "level": "proof",
      "coverage": {
          "obligations": len(names), "discharged": discharged,
          "checker_cmd": f"make -C coq props/{pid}.vo (coqc 8.16.1, full .vo build) + Print Assumptions",
          "trusted_base": (getattr(module, "TRUSTED_BASE", []) +
                           [f"Print Assumptions {n}: {a}" for n, a in assumptions.items()]),
          "theorems": names,
          "evaluations": res.evaluations if res else 0,
          "distinct_nontrivial": len(res.nontrivial_hashes) if res else 0,
          "rule": res.rule if res else "",
          "samples": (res.samples[:5] if res and res.samples else [{"note": "harness did not run"}]),
          "distribution": dict(res.distribution) if res else {},
          "correspondence": {k: {"cases_checked_in_coq": v["checked"], "disagreeing": len(v["bad"]),
                                 "errors": len(v["errors"])} for k, v in corr.items()},
          "oracle_failures": len(res.failures) if res else 0,
          "known_findings_reproduced": sorted(known_hit),
          "exhaustive": bool(res and res.exhaustive),
          "notes": notes + (res.notes if res else []),
      },
      "assumptions": getattr(module, "ASSUMPTIONS", []),
      "wall_s": round(wall, 2),
      "violations": len(violations) + (1 if (broken and not violations) else 0),
  }
  os.makedirs(os.path.join(VERIF, "evidence"), exist_ok=True)
  json.dump(ev, open(os.path.join(VERIF, "evidence", f"{pid}.json"), "w"), indent=1, default=repr)
  shutil.rmtree(workdir, ignore_errors=True)
  log(f"{pid} {tier} seed={seed}: rc={rc} evaluations={ev['coverage']['evaluations']} "
      f"coq={ {k: v['checked'] for k, v in corr.items()} } wall={wall:.1f}s")
  return rc


if __name__ == "__main__":
  sys.exit(main(sys.argv))
