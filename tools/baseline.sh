#!/bin/bash
# Runs the repository's pinned suite (guard off) and checks every stable_pass test still passes.
# usage: tools/baseline.sh [repo_dir]
REPO=${1:-/repo}
OUT=$(mktemp /var/tmp/fiddle-junit-XXXXXX.xml)
cd "$REPO" && env -u FIDDLE_VERIF /venv/bin/python -m pytest -ra -q -p no:cacheprovider --timeout=900 \
  --continue-on-collection-errors --junitxml="$OUT" >/var/tmp/fiddle-baseline.$$.log 2>&1; rm -f /var/tmp/fiddle-baseline.$$.log
/venv/bin/python - "$OUT" <<'PY'
import json, sys, xml.etree.ElementTree as ET
base = json.load(open('/root/.vp/BASELINE.json'))
stable = set(base['stable_pass'])
passed = set()
for tc in ET.parse(sys.argv[1]).getroot().iter('testcase'):
    ok = not any(ch.tag in ('failure', 'error', 'skipped') for ch in tc)
    if ok:
        passed.add(f"{tc.get('classname')}::{tc.get('name')}")
missing = sorted(stable - passed)
print(f"stable_pass={len(stable)} passed_now={len(passed)} missing={len(missing)}")
for m in missing[:20]:
    print("  MISSING", m)
sys.exit(1 if missing else 0)
PY
rc=$?
rm -f "$OUT"
exit $rc
