#!/usr/bin/env python3
"""Confirms a seeded change and runs the checks against it.

usage: tools/seed_mutant.py <property> <name> <dir with patch.diff demo.py notes.txt> [--no-suite]

1. scratch worktree of /repo HEAD under /tmp: demo.py passes; with the patch: demo.py fails and the pinned
   suite (stable_pass of BASELINE.json) still passes; the worktree is removed.
2. the patch is applied to /repo, every claimed check runs (quick, seed 0; the property's own check also
   seed 1), the patch is reverted (git checkout -- .) and the constants are re-extracted.
3. /verif/seeded/<property>-<name>/ gets patch.diff, demo.py, notes.txt and meta.json.
"""
import json
import os
import re
import shutil
import subprocess
import sys
from concurrent.futures import ThreadPoolExecutor

VERIF = os.path.dirname(os.path.dirname(os.path.abspath(__file__)))


def sh(cmd, **kw):
  return subprocess.run(cmd, shell=True, capture_output=True, text=True, **kw)


def main():
  prop, name, src = sys.argv[1:4]
  no_suite = "--no-suite" in sys.argv
  patch = os.path.abspath(os.path.join(src, "patch.diff"))
  demo = os.path.abspath(os.path.join(src, "demo.py"))
  wt = f"/tmp/confirm-{os.getpid()}"
  meta = {"property": prop, "name": name}
  prev_path = os.path.join(VERIF, "seeded", f"{prop}-{name}", "meta.json")
  if no_suite and os.path.exists(prev_path):
    prev = json.load(open(prev_path))
    for k in ("suite", "suite_ok"):
      if k in prev:
        meta[k] = prev[k]
    meta["suite_note"] = "suite result carried over from the first confirmation of this patch"
  assert sh("git -C /repo status --porcelain").stdout.strip() == "", "/repo is not clean"
  r = sh(f"git -C /repo worktree add --detach {wt} HEAD")
  assert r.returncode == 0, r.stderr
  try:
    env = f"cd {wt} && PYTHONPATH={wt} PYTHONHASHSEED=0 /venv/bin/python -B"
    shutil.copy(demo, f"{wt}/_demo.py")
    text = open(f"{wt}/_demo.py").read()
    text = re.sub(r"/tmp/mut-C\d+", wt, text)
    open(f"{wt}/_demo.py", "w").write(text)
    clean = sh(f"{env} _demo.py", timeout=600)
    meta["demo_clean_rc"] = clean.returncode
    ap = sh(f"git -C {wt} apply {patch}")
    meta["applies"] = ap.returncode == 0
    if ap.returncode != 0:
      meta["apply_error"] = ap.stderr[-500:]
      print(json.dumps(meta, indent=1))
      return 2
    mut = sh(f"{env} _demo.py", timeout=600)
    meta["demo_mutated_rc"] = mut.returncode
    meta["demo_mutated_output"] = (mut.stdout + mut.stderr)[-600:]
    os.remove(f"{wt}/_demo.py")
    if not no_suite:
      s = sh(f"{VERIF}/tools/baseline.sh {wt}", timeout=3600)
      meta["suite"] = s.stdout.strip().split("\n")[0]
      meta["suite_ok"] = s.returncode == 0
      if s.returncode != 0:
        meta["suite_missing"] = s.stdout.strip().split("\n")[1:6]
  finally:
    sh(f"git -C /repo worktree remove --force {wt}")
    shutil.rmtree(wt, ignore_errors=True)
  meta["confirmed"] = bool(meta.get("demo_clean_rc") == 0 and meta.get("demo_mutated_rc") not in (0, None)
                           and meta.get("suite_ok", False))
  # ---- run the checks against the change, in /repo itself
  ids = [c["property_id"] for c in json.load(open(f"{VERIF}/MANIFEST.json"))["checks"]]
  results = {}
  r = sh(f"git -C /repo apply {patch}")
  assert r.returncode == 0, r.stderr
  try:
    def one(job):
      pid, seed = job
      out = sh(f"cd {VERIF} && VERIF_SEED={seed} ./check {pid} quick", timeout=3600)
      lines = [l for l in out.stdout.split("\n") if l.startswith("VIOLATION")]
      return pid, seed, out.returncode, lines[:2]
    jobs = [(pid, 0) for pid in ids] + [(prop, 1)]
    if os.environ.get("SEED_ONLY_OWN"):
      jobs = [(prop, 0), (prop, 1)]      # (time-boxed batches: only the check of the change's own property)
      meta["only_own_check_run"] = True
    with ThreadPoolExecutor(max_workers=10) as ex:
      for pid, seed, rc, lines in ex.map(one, jobs):
        results[f"{pid}/seed{seed}"] = {"rc": rc, "violations": lines}
  finally:
    sh("git -C /repo checkout -- .")
    sh(f"cd {VERIF} && /venv/bin/python -B tools/extract_constants.py")
  assert sh("git -C /repo status --porcelain").stdout.strip() == "", "/repo not clean after revert"
  caught_by = sorted({k.split("/")[0] for k, v in results.items() if v["rc"] == 1})
  meta["caught_by"] = caught_by
  meta["own_check_catches"] = prop in caught_by
  meta["own_check_with_input"] = any(v["rc"] == 1 and v["violations"] and
                                     "no-failing-input-found" not in v["violations"][0]
                                     for k, v in results.items() if k.startswith(prop + "/"))
  meta["odd_exit_codes"] = {k: v["rc"] for k, v in results.items() if v["rc"] not in (0, 1)}
  meta["results"] = {k: v for k, v in results.items() if v["rc"] != 0}
  dst = os.path.join(VERIF, "seeded", f"{prop}-{name}")
  os.makedirs(dst, exist_ok=True)
  for f in ("patch.diff", "demo.py", "notes.txt"):
    if os.path.exists(os.path.join(src, f)) and os.path.abspath(src) != os.path.abspath(dst):
      shutil.copy(os.path.join(src, f), os.path.join(dst, f))
  json.dump(meta, open(os.path.join(dst, "meta.json"), "w"), indent=1)
  print(json.dumps({k: meta[k] for k in ("property", "name", "confirmed", "demo_clean_rc", "demo_mutated_rc",
                                         "suite", "caught_by", "own_check_catches", "own_check_with_input",
                                         "odd_exit_codes") if k in meta}, indent=1))
  return 0


if __name__ == "__main__":
  sys.exit(main())
