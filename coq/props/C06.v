(* C06 - == on Buildables is an equivalence relation congruent with build.
   Model: theories/Eq.v (Eq.veq / Eq.cfg_eq = Buildable.__eq__ with check_dag = True).
   Proofs: theories/Eq_proofs.v.

   Proved: == on leaves and the DAG comparison are equivalences; cfg_eq is reflexive on
   well-formed heaps whose dict keys are distinct up to Python ==, symmetric when dict keys are
   distinct, transitive unconditionally; its fuel is adequate when signature defaults are leaves;
   it distinguishes kinds, callables and leaf arguments.
   Refuted (the two known findings at _compare_buildable): == is not congruent with the sharing
   structure, and it depends on dict insertion order. *)
From Fiddle Require Import PyBase PySlice Sig ArgStore PyCall Heap Traverse Build Build_stmt
  Traverse_proofs Eq Eq_proofs.
From Coq Require Import List Arith Permutation.
Import ListNotations.
Local Open Scope nat_scope.

(* ------------------------------------------------------------------------------------------ *)
(* 1. Python == on leaves (bool is an int) is an equivalence *)

Theorem C06_atom_eq_refl : forall a, atom_py_eq a a = true.
Proof. exact atom_py_eq_refl. Qed.
Print Assumptions C06_atom_eq_refl.

Theorem C06_atom_eq_sym : forall a b, atom_py_eq a b = atom_py_eq b a.
Proof. exact atom_py_eq_sym. Qed.
Print Assumptions C06_atom_eq_sym.

Theorem C06_atom_eq_trans : forall a b c,
  atom_py_eq a b = true -> atom_py_eq b c = true -> atom_py_eq a c = true.
Proof. exact atom_py_eq_trans. Qed.
Print Assumptions C06_atom_eq_trans.

(* it is equality after reading True / False as 1 / 0 *)
Theorem C06_atom_eq_norm : forall a b, atom_py_eq a b = true <-> atom_norm a = atom_norm b.
Proof. exact atom_py_eq_norm. Qed.
Print Assumptions C06_atom_eq_norm.

(* ------------------------------------------------------------------------------------------ *)
(* 2. sorted(paths_x) == sorted(paths_y) is multiset equality; the DAG check is an equivalence *)

Theorem C06_perm_b_Permutation : forall a b : list path, perm_b a b = true <-> Permutation a b.
Proof. exact perm_b_Permutation. Qed.
Print Assumptions C06_perm_b_Permutation.

Theorem C06_perm_b_refl : forall a, perm_b a a = true.
Proof. exact perm_b_refl. Qed.
Print Assumptions C06_perm_b_refl.

Theorem C06_perm_b_sym : forall a b, perm_b a b = perm_b b a.
Proof. exact perm_b_sym. Qed.
Print Assumptions C06_perm_b_sym.

Theorem C06_perm_b_trans : forall a b c,
  perm_b a b = true -> perm_b b c = true -> perm_b a c = true.
Proof. exact perm_b_trans. Qed.
Print Assumptions C06_perm_b_trans.

Theorem C06_dag_eq_refl : forall e h r, dag_eq e h r r = true.
Proof. exact dag_eq_refl. Qed.
Print Assumptions C06_dag_eq_refl.

Theorem C06_dag_eq_sym : forall e h a b, dag_eq e h a b = dag_eq e h b a.
Proof. exact dag_eq_sym. Qed.
Print Assumptions C06_dag_eq_sym.

Theorem C06_dag_eq_trans : forall e h a b c,
  dag_eq e h a b = true -> dag_eq e h b c = true -> dag_eq e h a c = true.
Proof. exact dag_eq_trans. Qed.
Print Assumptions C06_dag_eq_trans.

(* ------------------------------------------------------------------------------------------ *)
(* 3. reflexivity.  keys_py_distinct h: in every dict / defaultdict node the keys are pairwise
   different for Python == (checked by computation: forallb ... h = true).  No hypothesis on the
   signature defaults is needed: comparing a value with itself never consults a default. *)

Theorem C06_eq_refl : forall e h,
  wf_b e h = true -> keys_py_distinct h ->
  forall r, root_ok h r -> cfg_eq e h r r = true.
Proof. exact cfg_eq_refl. Qed.
Print Assumptions C06_eq_refl.

(* with any fuel above the rank of the root *)
Theorem C06_veq_refl : forall e h,
  wf_b e h = true -> keys_py_distinct h ->
  forall f r, ref_rank r < f -> root_ok h r -> veq e h f r r = true.
Proof. exact veq_refl. Qed.
Print Assumptions C06_veq_refl.

(* both hypotheses are needed *)
Theorem C06_eq_refl_needs_distinct_keys :
  wf_b [] dupkey_heap = true /\
  cfg_eq [] dupkey_heap (RP 2) (RP 2) = false /\
  cfg_eq [] dupkey_heap (RP 4) (RP 3) = true /\ cfg_eq [] dupkey_heap (RP 3) (RP 4) = false.
Proof. exact keys_py_distinct_needed. Qed.
Print Assumptions C06_eq_refl_needs_distinct_keys.

Theorem C06_eq_refl_needs_wf :
  wf_b [] [NList [RP 0]] = false /\ keys_py_distinct [NList [RP 0]] /\
  cfg_eq [] [NList [RP 0]] (RP 0) (RP 0) = false.
Proof. exact wf_needed_for_refl. Qed.
Print Assumptions C06_eq_refl_needs_wf.

(* ------------------------------------------------------------------------------------------ *)
(* 4. symmetry (distinct dict keys; well-formedness not needed) and transitivity (no hypothesis),
   at every fuel and in particular for cfg_eq *)

Theorem C06_eq_sym : forall e h, keys_py_distinct h ->
  forall a b, cfg_eq e h a b = cfg_eq e h b a.
Proof. exact cfg_eq_sym. Qed.
Print Assumptions C06_eq_sym.

Theorem C06_veq_sym : forall e h, keys_py_distinct h ->
  forall f a b, veq e h f a b = veq e h f b a.
Proof. exact veq_sym. Qed.
Print Assumptions C06_veq_sym.

Theorem C06_eq_trans : forall e h a b c,
  cfg_eq e h a b = true -> cfg_eq e h b c = true -> cfg_eq e h a c = true.
Proof. exact cfg_eq_trans. Qed.
Print Assumptions C06_eq_trans.

Theorem C06_veq_trans : forall e h f a b c,
  veq e h f a b = true -> veq e h f b c = true -> veq e h f a c = true.
Proof. exact veq_trans. Qed.
Print Assumptions C06_veq_trans.

Theorem C06_eq_equivalence : forall e h, wf_b e h = true -> keys_py_distinct h ->
  (forall r, root_ok h r -> cfg_eq e h r r = true) /\
  (forall a b, cfg_eq e h a b = cfg_eq e h b a) /\
  (forall a b c, cfg_eq e h a b = true -> cfg_eq e h b c = true -> cfg_eq e h a c = true).
Proof. exact cfg_eq_equivalence. Qed.
Print Assumptions C06_eq_equivalence.

(* fuel: monotone always; on well-formed heaps whose signature defaults are all leaves
   (defaults_atomic, implied by the computable defaults_atomic_b) the fuel of cfg_eq is adequate,
   so a False answer is never an exhausted budget *)
Theorem C06_veq_fuel_mono : forall e h f f' a b,
  veq e h f a b = true -> f <= f' -> veq e h f' a b = true.
Proof. exact veq_fuel_mono. Qed.
Print Assumptions C06_veq_fuel_mono.

Theorem C06_veq_fuel_stable : forall e h,
  wf_b e h = true -> defaults_atomic e ->
  forall f1 f2 a b,
    ref_rank a < f1 -> ref_rank b < f1 -> ref_rank a < f2 -> ref_rank b < f2 ->
    veq e h f1 a b = veq e h f2 a b.
Proof. exact veq_fuel_stable. Qed.
Print Assumptions C06_veq_fuel_stable.

Theorem C06_eq_fuel_adequate : forall e h,
  wf_b e h = true -> defaults_atomic e ->
  forall f a b, S (length h) <= f -> veq e h f a b = cfg_eq e h a b.
Proof. exact cfg_eq_fuel_adequate. Qed.
Print Assumptions C06_eq_fuel_adequate.

Theorem C06_defaults_atomic_b_ok : forall e, defaults_atomic_b e = true -> defaults_atomic e.
Proof. exact defaults_atomic_b_ok. Qed.
Print Assumptions C06_defaults_atomic_b_ok.

(* ------------------------------------------------------------------------------------------ *)
(* 5. == distinguishes *)

(* == on two Buildables, one step unfolded: same kind, same callable, every key stored on either
   side has == values-or-defaults, and the same multiset of first-visit paths *)
Theorem C06_eq_buildables_unfold : forall e h i j k1 k2 fn1 fn2 a1 a2 t1 t2,
  nth_error h i = Some (NBuildable k1 fn1 a1 t1) ->
  nth_error h j = Some (NBuildable k2 fn2 a2 t2) ->
  cfg_eq e h (RP i) (RP j) =
  (if bkind_eq_dec k1 k2 then true else false) && N.eqb fn1 fn2
  && forallb (arg_ok e (veq e h (length h)) fn1 a1 fn2 a2) (union_keys a1 a2)
  && dag_eq e h (RP i) (RP j).
Proof. exact cfg_eq_buildables. Qed.
Print Assumptions C06_eq_buildables_unfold.

Theorem C06_eq_diff_kind : forall e h i j k1 k2 fn1 fn2 a1 a2 t1 t2,
  nth_error h i = Some (NBuildable k1 fn1 a1 t1) ->
  nth_error h j = Some (NBuildable k2 fn2 a2 t2) ->
  k1 <> k2 -> cfg_eq e h (RP i) (RP j) = false.
Proof. exact cfg_eq_diff_kind. Qed.
Print Assumptions C06_eq_diff_kind.

Theorem C06_eq_diff_callable : forall e h i j k1 k2 fn1 fn2 a1 a2 t1 t2,
  nth_error h i = Some (NBuildable k1 fn1 a1 t1) ->
  nth_error h j = Some (NBuildable k2 fn2 a2 t2) ->
  fn1 <> fn2 -> cfg_eq e h (RP i) (RP j) = false.
Proof. exact cfg_eq_diff_callable. Qed.
Print Assumptions C06_eq_diff_callable.

Theorem C06_eq_diff_leaf : forall e h i j k1 k2 fn1 fn2 a1 a2 t1 t2,
  nth_error h i = Some (NBuildable k1 fn1 a1 t1) ->
  nth_error h j = Some (NBuildable k2 fn2 a2 t2) ->
  forall key x y,
    sget a1 key = Some (RA x) -> sget a2 key = Some (RA y) -> atom_py_eq x y = false ->
    cfg_eq e h (RP i) (RP j) = false.
Proof. exact cfg_eq_diff_leaf. Qed.
Print Assumptions C06_eq_diff_leaf.

(* also against a default, for a key stored on at least one side *)
Theorem C06_eq_diff_leaf_or_default : forall e h i j k1 k2 fn1 fn2 a1 a2 t1 t2,
  nth_error h i = Some (NBuildable k1 fn1 a1 t1) ->
  nth_error h j = Some (NBuildable k2 fn2 a2 t2) ->
  forall key x y,
    In key (map fst a1) \/ In key (map fst a2) ->
    val_or_default e fn1 a1 key = Some (RA x) -> val_or_default e fn2 a2 key = Some (RA y) ->
    atom_py_eq x y = false -> cfg_eq e h (RP i) (RP j) = false.
Proof. exact cfg_eq_diff_leaf_or_default. Qed.
Print Assumptions C06_eq_diff_leaf_or_default.

Theorem C06_eq_missing_no_default : forall e h i j k1 k2 fn1 fn2 a1 a2 t1 t2,
  nth_error h i = Some (NBuildable k1 fn1 a1 t1) ->
  nth_error h j = Some (NBuildable k2 fn2 a2 t2) ->
  forall key,
    In key (map fst a1) -> sget a2 key = None -> default_of (sig_of e fn2) key = None ->
    cfg_eq e h (RP i) (RP j) = false.
Proof. exact cfg_eq_missing_no_default. Qed.
Print Assumptions C06_eq_missing_no_default.

(* ------------------------------------------------------------------------------------------ *)
(* 6. the known findings (refutations, by computation) *)

(* a = k(x=A, y=B, z=A) and b = k(x=A2, y=B2, z=B2) with A, B, A2, B2 four distinct == lists:
   a == b although x and z are one object in a and two objects in b *)
Theorem C06_congruent_refuted :
  wf_b cx1_env cx1_heap = true /\ keys_py_distinct cx1_heap /\ defaults_atomic_b cx1_env = true /\
  nth_error cx1_heap 4 = Some (NBuildable BConfig 1%N cx1_args_a []) /\
  nth_error cx1_heap 5 = Some (NBuildable BConfig 1%N cx1_args_b []) /\
  forallb (fun p => cfg_eq cx1_env cx1_heap (RP (fst p)) (RP (snd p)))
    [(0, 1); (0, 2); (0, 3); (1, 2); (1, 3); (2, 3)] = true /\
  cfg_eq cx1_env cx1_heap (RP 4) (RP 5) = true /\
  sget cx1_args_a (KName 10%N) = sget cx1_args_a (KName 12%N) /\
  sget cx1_args_b (KName 10%N) <> sget cx1_args_b (KName 12%N) /\
  iso_b cx1_heap cx1_heap (RP 4) (RP 5) = false.
Proof. exact eq_not_congruent_sharing. Qed.
Print Assumptions C06_congruent_refuted.

Theorem C06_congruent_refuted_forall :
  ~ (forall e h a b, wf_b e h = true -> keys_py_distinct h -> defaults_atomic e ->
                     cfg_eq e h a b = true -> iso_b h h a b = true).
Proof. exact eq_not_congruent. Qed.
Print Assumptions C06_congruent_refuted_forall.

(* a = f({'a': f(L), 'b': L}) and b = f({'b': L2, 'a': f(L2)}): the dict arguments are equal
   as maps and ==, the sharing is the same, only the insertion order differs; a != b *)
Theorem C06_dict_order_refuted :
  wf_b cx2_env cx2_heap = true /\ keys_py_distinct cx2_heap /\ defaults_atomic_b cx2_env = true /\
  nth_error cx2_heap 3 = Some (NBuildable BConfig 2%N [(KName 20%N, RP 2)] []) /\
  nth_error cx2_heap 7 = Some (NBuildable BConfig 2%N [(KName 20%N, RP 6)] []) /\
  nth_error cx2_heap 2 = Some (NDict cx2_d1) /\ nth_error cx2_heap 6 = Some (NDict cx2_d2) /\
  map fst cx2_d2 = rev (map fst cx2_d1) /\
  forallb (kv_ok (cfg_eq cx2_env cx2_heap) cx2_d2) cx2_d1 = true /\
  forallb (kv_ok (cfg_eq cx2_env cx2_heap) cx2_d1) cx2_d2 = true /\
  cfg_eq cx2_env cx2_heap (RP 2) (RP 6) = true /\
  (nth_error cx2_heap 1 = Some (NBuildable BConfig 2%N [(KName 20%N, RP 0)] []) /\
   akv_get cx2_d1 cx2_kb = Some (RP 0)) /\
  (nth_error cx2_heap 5 = Some (NBuildable BConfig 2%N [(KName 20%N, RP 4)] []) /\
   akv_get cx2_d2 cx2_kb = Some (RP 4)) /\
  cfg_eq cx2_env cx2_heap (RP 3) (RP 7) = false /\
  first_paths cx2_env cx2_heap (RP 3) =
    [[]; [PAttr 20%N]; [PAttr 20%N; PKey cx2_ka]; [PAttr 20%N; PKey cx2_ka; PAttr 20%N];
     [PAttr 20%N; PKey cx2_ka; PAttr 20%N; PIndex 0%Z]] /\
  first_paths cx2_env cx2_heap (RP 7) =
    [[]; [PAttr 20%N]; [PAttr 20%N; PKey cx2_kb]; [PAttr 20%N; PKey cx2_kb; PIndex 0%Z];
     [PAttr 20%N; PKey cx2_ka]].
Proof. exact eq_depends_on_dict_order. Qed.
Print Assumptions C06_dict_order_refuted.

(* ------------------------------------------------------------------------------------------ *)
(* 7. non-vacuity: k(x=f(a=L), y=f(a=L, b=7)) twice (distinct objects, L shared: a diamond) and
   once with another leaf in L *)

Theorem C06_example :
  wf_b eqx_env eqx_heap = true /\ keys_py_distinct eqx_heap /\ defaults_atomic_b eqx_env = true /\
  cfg_eq eqx_env eqx_heap (RP 3) (RP 7) = true /\
  cfg_eq eqx_env eqx_heap (RP 7) (RP 3) = true /\
  cfg_eq eqx_env eqx_heap (RP 3) (RP 3) = true /\
  cfg_eq eqx_env eqx_heap (RP 1) (RP 2) = true /\
  iso_b eqx_heap eqx_heap (RP 3) (RP 7) = true /\
  cfg_eq eqx_env eqx_heap (RP 3) (RP 11) = false /\
  cfg_eq eqx_env eqx_heap (RP 11) (RP 7) = false.
Proof. exact eq_example. Qed.
Print Assumptions C06_example.
