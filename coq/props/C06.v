(* C06 - == on Buildables is an equivalence relation congruent with build. *)
From Fiddle Require Import PyBase PySlice Sig ArgStore PyCall Heap Traverse Eq Anchors.

Example C06_placeholder : True. Proof. exact I. Qed.
