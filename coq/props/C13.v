(* placeholder until the C13 theorems are merged *)
Example C13_placeholder : True. Proof. exact I. Qed.
Print Assumptions C13_placeholder.
