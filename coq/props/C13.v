(* C13 - "the fiddler function emitted by fiddler_from_diff, applied to a copy of the old
   configuration, produces exactly the configuration that apply_diff produces."

   Model: Fiddler.fiddler_order = the order in which codegen_diff.fiddler_from_diff emits the
   statements (changes grouped by parent path; inside a group: deletes and remove_tag calls in diff
   order, then update_callable, then assignments and add_tag calls in diff order);
   Fiddler.exec_fiddler = every parent path captured in a variable first, then the statements run in
   that order; Diff.apply_changes = diffing._apply_changes (five global phases).
   Statements only; proofs are in theories/Fiddler_proofs.v (and Diff_proofs.v).

   Hypotheses, all evaluable booleans (Fiddler_proofs):
     targets_distinct e h root cs  - no two changes write the same thing on the same object: the pairs
                    (resolved parent object, argument | dict key | list slot | argument & tag | callable)
                    of the changes whose parent resolves are pairwise different;
     heap_wf h    - argument dicts, tag dicts and dicts have distinct keys; tag sets are strictly
                    sorted lists (the representation of Python sets used by History.tset_add and the
                    harness);
     paths_injective e h root cs - two changes whose parents resolve to the same object have the same
                    parent path (no object is edited through two paths);
     modifies_in_place e h root cs - every CModify of an argument / dict item finds that argument /
                    item present in the old object (true of a diff computed by build_diff: a
                    ModifyValue is emitted for a key that exists);
     parents : NoDup, containing every parent path (parents_of cs is such a list).

   What is proved:
     C13_fiddler_agrees_exact  targets_distinct, paths_injective, modifies_in_place: the two heaps are
                               EQUAL (no well-formedness needed).
     C13_fiddler_agrees        targets_distinct, heap_wf: the two heaps are equal up to the order of the
                               entries of argument stores, tag maps and dict items (heap_equiv);
       .._maps                 the same as finite maps (each key once, same value: heap_rel);
       .._canon / .._sorted    the same in the normal form the harness compares
                               (C13Check.canon_node_tags: Codegen.sort_store on the arguments, tag map
                               sorted by key without empty entries); dict nodes up to Permutation.
     C13_fiddler_exact_refuted, .._alias  exact equality FAILS without modifies_in_place, and without
                               paths_injective: appended keys land in a different order.
     C13_needs_targets_distinct  without targets_distinct the results differ in a value.
     C13_needs_sorted_tags     heap_wf cannot be dropped from C13_fiddler_agrees.
     C13_any_parent_order(_exact/_sorted)  the order of the groups does not matter. *)
From Fiddle Require Import PyBase PySlice Sig ArgStore PyCall Heap Traverse Tags History Diff Fiddler
  Lang Codegen C02Check C13Check Diff_proofs Fiddler_proofs.
From Fiddle Require Import AnchorsDiff.
From Coq Require Import List Permutation Sorting.Sorted.
Import ListNotations.
Local Open Scope nat_scope.

(* ------------------------------------------------------------------------------------------ *)
(* the emitted order *)

(* every change is emitted exactly once *)
Theorem C13_fiddler_is_permutation : forall cs : list change,
  Permutation (fiddler_order (parents_of cs) cs) cs.
Proof. exact Fiddler_proofs.fiddler_is_permutation. Qed.
Print Assumptions C13_fiddler_is_permutation.

Theorem C13_fiddler_is_permutation_general : forall (cs : list change) (parents : list path),
  NoDup parents -> (forall c, In c cs -> In (parent_of c) parents) ->
  Permutation (fiddler_order parents cs) cs.
Proof. exact Fiddler_proofs.fiddler_order_perm. Qed.
Print Assumptions C13_fiddler_is_permutation_general.

Theorem C13_parents_of_ok : forall cs : list change,
  NoDup (parents_of cs) /\ (forall c, In c cs -> In (parent_of c) (parents_of cs)).
Proof. exact Fiddler_proofs.parents_of_ok. Qed.
Print Assumptions C13_parents_of_ok.

(* inside a group the stages are in order, and the changes of one stage keep their diff order *)
Theorem C13_group_order_stages : forall g : list change,
  StronglySorted (fun a b => stage a <= stage b) (group_order g)
  /\ (forall k, filter (in_stage k) (group_order g) = filter (in_stage k) g).
Proof. exact Fiddler_proofs.group_order_stages. Qed.
Print Assumptions C13_group_order_stages.

(* ------------------------------------------------------------------------------------------ *)
(* the fiddler against apply_diff *)

(* exact equality for diffs as build_diff produces them *)
Theorem C13_fiddler_agrees_exact : forall (e : sigenv) (h : heap) (root : ref) (parents : list path)
                                          (cs : list change),
  targets_distinct e h root cs = true ->
  paths_injective e h root cs = true ->
  modifies_in_place e h root cs = true ->
  NoDup parents -> (forall c, In c cs -> In (parent_of c) parents) ->
  exec_fiddler e h root parents cs = apply_changes e h root cs.
Proof. exact Fiddler_proofs.fiddler_agrees_exact. Qed.
Print Assumptions C13_fiddler_agrees_exact.

(* in general: equal up to the order of entries.  heap_equiv = Forall2 node_equiv, and node_equiv
   relates two Buildables with the same kind and callable and Permutation-related argument stores
   and tag maps, two dicts with Permutation-related items, and otherwise is equality. *)
Theorem C13_fiddler_agrees : forall (e : sigenv) (h : heap) (root : ref) (parents : list path)
                                    (cs : list change),
  heap_wf h = true -> targets_distinct e h root cs = true ->
  NoDup parents -> (forall c, In c cs -> In (parent_of c) parents) ->
  heap_equiv (exec_fiddler e h root parents cs) (apply_changes e h root cs).
Proof. exact Fiddler_proofs.fiddler_agrees. Qed.
Print Assumptions C13_fiddler_agrees.

(* as finite maps: heap_rel = Forall2 node_rel; node_rel on Buildables: same kind, same callable,
   meq on the arguments and on the tag maps (both sides have distinct keys and dget agrees on every
   key), tag sets sorted *)
Theorem C13_fiddler_agrees_maps : forall (e : sigenv) (h : heap) (root : ref) (parents : list path)
                                         (cs : list change),
  heap_wf h = true -> targets_distinct e h root cs = true ->
  NoDup parents -> (forall c, In c cs -> In (parent_of c) parents) ->
  heap_rel (exec_fiddler e h root parents cs) (apply_changes e h root cs).
Proof. exact Fiddler_proofs.fiddler_agrees_maps. Qed.
Print Assumptions C13_fiddler_agrees_maps.

(* in the normal form of the harness: every node but a dict has the same canon_node_tags on both
   sides (sort_store on arguments, canon_tags on tag maps); a dict has the same items *)
Theorem C13_fiddler_agrees_canon : forall (e : sigenv) (h : heap) (root : ref) (parents : list path)
                                          (cs : list change),
  heap_wf h = true -> targets_distinct e h root cs = true ->
  NoDup parents -> (forall c, In c cs -> In (parent_of c) parents) ->
  heap_canon_same (exec_fiddler e h root parents cs) (apply_changes e h root cs).
Proof. exact Fiddler_proofs.fiddler_agrees_canon. Qed.
Print Assumptions C13_fiddler_agrees_canon.

Theorem C13_fiddler_agrees_sorted : forall (e : sigenv) (h : heap) (root : ref) (parents : list path)
                                           (cs : list change),
  heap_wf h = true -> no_dicts h = true -> targets_distinct e h root cs = true ->
  NoDup parents -> (forall c, In c cs -> In (parent_of c) parents) ->
  map canon_node_tags (exec_fiddler e h root parents cs)
  = map canon_node_tags (apply_changes e h root cs).
Proof. exact Fiddler_proofs.fiddler_agrees_sorted. Qed.
Print Assumptions C13_fiddler_agrees_sorted.

(* the per-node fact behind all of these: with pairwise different targets, any two orders of the
   same operations give the same node (as finite maps) *)
Theorem C13_operations_commute : forall (l l' : list change),
  Permutation l l' -> NoDup (map target_of l) ->
  forall n n', node_rel n n' -> node_rel (apply_ops l n) (apply_ops l' n').
Proof. exact Fiddler_proofs.apply_ops_perm. Qed.
Print Assumptions C13_operations_commute.

(* exact equality fails in general: (a) a CModify of an argument that is not set appends it, and the
   two orders append in different orders (one parent, distinct targets, well-formed heap) *)
Theorem C13_fiddler_exact_refuted :
  exists (e : sigenv) (h : heap) (root : ref) (cs : list change),
    heap_wf h = true /\ targets_distinct e h root cs = true
    /\ paths_injective e h root cs = true
    /\ exec_fiddler e h root (parents_of cs) cs <> apply_changes e h root cs.
Proof. exact Fiddler_proofs.fiddler_exact_refuted. Qed.
Print Assumptions C13_fiddler_exact_refuted.

(* (b) one object edited through two paths: the groups of the fiddler interleave differently from
   the phases *)
Theorem C13_fiddler_exact_refuted_alias :
  exists (e : sigenv) (h : heap) (root : ref) (cs : list change),
    heap_wf h = true /\ targets_distinct e h root cs = true
    /\ modifies_in_place e h root cs = true
    /\ exec_fiddler e h root (parents_of cs) cs <> apply_changes e h root cs.
Proof. exact Fiddler_proofs.fiddler_exact_refuted_alias. Qed.
Print Assumptions C13_fiddler_exact_refuted_alias.

(* the hypothesis is needed: a SetValue and a ModifyValue of the same argument end with different
   values (apply_diff: the set wins; the fiddler: the later statement wins) *)
Theorem C13_needs_targets_distinct :
  exists (e : sigenv) (h : heap) (root : ref) (cs : list change),
    heap_wf h = true /\ paths_injective e h root cs = true /\ modifies_in_place e h root cs = true
    /\ targets_distinct e h root cs = false
    /\ ~ heap_equiv (exec_fiddler e h root (parents_of cs) cs) (apply_changes e h root cs).
Proof. exact Fiddler_proofs.needs_targets_distinct. Qed.
Print Assumptions C13_needs_targets_distinct.

Theorem C13_needs_sorted_tags :
  exists (e : sigenv) (h : heap) (root : ref) (cs : list change) (ps : list path),
    heap_wf h = false /\ targets_distinct e h root cs = true
    /\ NoDup ps /\ (forall c, In c cs -> In (parent_of c) ps)
    /\ ~ heap_equiv (exec_fiddler e h root ps cs) (apply_changes e h root cs).
Proof. exact Fiddler_proofs.needs_sorted_tags. Qed.
Print Assumptions C13_needs_sorted_tags.

(* ------------------------------------------------------------------------------------------ *)
(* the order of the groups *)

Theorem C13_any_parent_order : forall (e : sigenv) (h : heap) (root : ref) (parents1 parents2 : list path)
                                      (cs : list change),
  heap_wf h = true -> targets_distinct e h root cs = true ->
  NoDup parents1 -> NoDup parents2 -> Permutation parents1 parents2 ->
  heap_equiv (exec_fiddler e h root parents1 cs) (exec_fiddler e h root parents2 cs).
Proof. exact Fiddler_proofs.any_parent_order. Qed.
Print Assumptions C13_any_parent_order.

Theorem C13_any_parent_order_sorted : forall (e : sigenv) (h : heap) (root : ref)
                                             (parents1 parents2 : list path) (cs : list change),
  heap_wf h = true -> no_dicts h = true -> targets_distinct e h root cs = true ->
  NoDup parents1 -> NoDup parents2 -> Permutation parents1 parents2 ->
  map canon_node_tags (exec_fiddler e h root parents1 cs)
  = map canon_node_tags (exec_fiddler e h root parents2 cs).
Proof. exact Fiddler_proofs.any_parent_order_sorted. Qed.
Print Assumptions C13_any_parent_order_sorted.

(* when no object is edited through two paths the heaps are equal, whatever the changes *)
Theorem C13_any_parent_order_exact : forall (e : sigenv) (h : heap) (root : ref)
                                            (parents1 parents2 : list path) (cs : list change),
  paths_injective e h root cs = true ->
  NoDup parents1 -> NoDup parents2 -> Permutation parents1 parents2 ->
  exec_fiddler e h root parents1 cs = exec_fiddler e h root parents2 cs.
Proof. exact Fiddler_proofs.any_parent_order_exact. Qed.
Print Assumptions C13_any_parent_order_exact.

Theorem C13_any_parent_order_exact_refuted :
  exists (e : sigenv) (h : heap) (root : ref) (cs : list change) (ps1 ps2 : list path),
    heap_wf h = true /\ targets_distinct e h root cs = true
    /\ NoDup ps1 /\ NoDup ps2 /\ Permutation ps1 ps2
    /\ exec_fiddler e h root ps1 cs <> exec_fiddler e h root ps2 cs.
Proof. exact Fiddler_proofs.any_parent_order_exact_refuted. Qed.
Print Assumptions C13_any_parent_order_exact_refuted.

(* ------------------------------------------------------------------------------------------ *)
(* The hypotheses hold of a concrete configuration: Config(f7, a1 = {"a": 1, "b": 2}, a2 = [10, 20],
   a3 = Config(f8, a1 = 5) with tag 3 on a1) and a diff with all five kinds of change on three
   parents. *)
Definition ex_env : sigenv :=
  [(7%N, [mkparam 1%N PosOrKw None false; mkparam 2%N PosOrKw None false;
          mkparam 3%N PosOrKw (Some (RA ANone)) false]);
   (8%N, [mkparam 1%N PosOrKw None false; mkparam 2%N PosOrKw None false])].
Definition ex_heap : heap :=
  [NDict [(AStr [97%N], RA (AInt 1)); (AStr [98%N], RA (AInt 2))];
   NList [RA (AInt 10); RA (AInt 20)];
   NBuildable BConfig 8%N [(KName 1%N, RA (AInt 5))] [(KName 1%N, [3%N])];
   NBuildable BConfig 7%N [(KName 1%N, RP 0); (KName 2%N, RP 1); (KName 3%N, RP 2)] []].
Definition ex_root : ref := RP 3.
Definition ex_changes : list change :=
  [CSet [PAttr 3%N] (LAttr 2%N) (RA (AInt 6));
   CModify [PAttr 3%N] (LAttr 1%N) (RA (AInt 7));
   CModify [PAttr 3%N] LFn (RA (ASym 9%N));
   CAddTag [PAttr 3%N] 2%N 4%N;
   CRemoveTag [PAttr 3%N] 1%N 3%N;
   CDelete [PAttr 1%N] (LKey (AStr [97%N]));
   CSet [PAttr 1%N] (LKey (AStr [99%N])) (RA (AInt 3));
   CModify [PAttr 2%N] (LIndex 1) (RA (AInt 21))].

Example C13_ex_hypotheses :
  heap_wf ex_heap = true /\ targets_distinct ex_env ex_heap ex_root ex_changes = true
  /\ paths_injective ex_env ex_heap ex_root ex_changes = true
  /\ modifies_in_place ex_env ex_heap ex_root ex_changes = true
  /\ parents_of ex_changes = [[PAttr 3%N]; [PAttr 1%N]; [PAttr 2%N]].
Proof. vm_compute. repeat split; reflexivity. Qed.

Example C13_ex_order :
  fiddler_order (parents_of ex_changes) ex_changes
  = [CRemoveTag [PAttr 3%N] 1%N 3%N;
     CModify [PAttr 3%N] LFn (RA (ASym 9%N));
     CSet [PAttr 3%N] (LAttr 2%N) (RA (AInt 6));
     CModify [PAttr 3%N] (LAttr 1%N) (RA (AInt 7));
     CAddTag [PAttr 3%N] 2%N 4%N;
     CDelete [PAttr 1%N] (LKey (AStr [97%N]));
     CSet [PAttr 1%N] (LKey (AStr [99%N])) (RA (AInt 3));
     CModify [PAttr 2%N] (LIndex 1) (RA (AInt 21))].
Proof. vm_compute. reflexivity. Qed.

Example C13_ex_result :
  exec_fiddler ex_env ex_heap ex_root (parents_of ex_changes) ex_changes
  = [NDict [(AStr [98%N], RA (AInt 2)); (AStr [99%N], RA (AInt 3))];
     NList [RA (AInt 10); RA (AInt 21)];
     NBuildable BConfig 9%N [(KName 1%N, RA (AInt 7)); (KName 2%N, RA (AInt 6))]
                [(KName 1%N, []); (KName 2%N, [4%N])];
     NBuildable BConfig 7%N [(KName 1%N, RP 0); (KName 2%N, RP 1); (KName 3%N, RP 2)] []].
Proof. vm_compute. reflexivity. Qed.

(* the theorem on the example *)
Example C13_ex_agrees :
  exec_fiddler ex_env ex_heap ex_root (parents_of ex_changes) ex_changes
  = apply_changes ex_env ex_heap ex_root ex_changes.
Proof.
  destruct C13_ex_hypotheses as (_ & H1 & H2 & H3 & _).
  apply C13_fiddler_agrees_exact; try assumption; apply C13_parents_of_ok.
Qed.

(* one Buildable held twice by a list and edited through both paths (Fiddler_proofs.wb_heap,
   wb_changes): heap_wf and targets_distinct hold, the heaps differ in the order of the appended
   arguments and have the same normal form *)
Example C13_ex_alias :
  heap_wf wb_heap = true /\ no_dicts wb_heap = true
  /\ targets_distinct [] wb_heap (RP 1) wb_changes = true
  /\ paths_injective [] wb_heap (RP 1) wb_changes = false
  /\ exec_fiddler [] wb_heap (RP 1) (parents_of wb_changes) wb_changes
     = [NBuildable BConfig 8%N [(KName 1%N, RA (AInt 1)); (KName 3%N, RA (AInt 3)); (KName 2%N, RA (AInt 2))] [];
        NList [RP 0; RP 0]]
  /\ apply_changes [] wb_heap (RP 1) wb_changes
     = [NBuildable BConfig 8%N [(KName 1%N, RA (AInt 1)); (KName 2%N, RA (AInt 2)); (KName 3%N, RA (AInt 3))] [];
        NList [RP 0; RP 0]].
Proof. vm_compute. repeat split; reflexivity. Qed.

Example C13_ex_alias_sorted :
  map canon_node_tags (exec_fiddler [] wb_heap (RP 1) (parents_of wb_changes) wb_changes)
  = map canon_node_tags (apply_changes [] wb_heap (RP 1) wb_changes).
Proof.
  destruct C13_ex_alias as (H1 & H2 & H3 & _).
  apply C13_fiddler_agrees_sorted; try assumption; apply C13_parents_of_ok.
Qed.
