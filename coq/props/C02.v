(* C02 - one invocation per Buildable instance; the built graph mirrors the config graph.
   Every theorem is about a run of fdl.build (Build.build_node under Traverse.mrun) on a
   well-formed heap with a valid root.  Proofs: theories/Traverse_proofs.v, Build_proofs.v. *)
From Fiddle Require Import PyBase PySlice Sig ArgStore PyCall Heap Traverse Build Build_stmt
  Traverse_proofs Build_proofs AnchorsBuild C08Check Cycle_proofs.
From Coq Require Import Relations.

Local Open Scope nat_scope.

Theorem C02_pure : forall e fails h r s res,
  wf_b e h = true -> root_ok h r -> mrun e h (build_node e fails) r = (s, res) ->
  pure_stmt h s.
Proof. exact pure_holds. Qed.
Print Assumptions C02_pure.

Theorem C02_once : forall e fails h r s res,
  wf_b e h = true -> root_ok h r -> mrun e h (build_node e fails) r = (s, res) ->
  once_stmt s.
Proof. exact once_holds. Qed.
Print Assumptions C02_once.

Theorem C02_memo_function : forall e fails h r s res,
  wf_b e h = true -> root_ok h r -> mrun e h (build_node e fails) r = (s, res) ->
  memo_function_stmt s.
Proof. exact memo_function_holds. Qed.
Print Assumptions C02_memo_function.

Theorem C02_enough_fuel : forall e fails h r s res,
  wf_b e h = true -> root_ok h r -> mrun e h (build_node e fails) r = (s, res) ->
  enough_fuel_stmt res.
Proof. exact enough_fuel_holds. Qed.
Print Assumptions C02_enough_fuel.

(* only_reach_stmt and exactly_reach_stmt are FALSE as stated (a dictionary-like node with a
   duplicated key has a child that is traversed but that no path addresses): see
   C02_only_reach_stmt_false / C02_exactly_reach_stmt_false below.  They hold with the extra
   hypothesis [keys_ok h] (distinct keys in NDict / NDefaultDict / NNamedTuple nodes), and
   without any extra hypothesis when reachability is by child steps (creach). *)
Theorem C02_only_reach_partial : forall e fails h r s res,
  wf_b e h = true -> root_ok h r -> mrun e h (build_node e fails) r = (s, res) ->
  keys_ok h -> only_reach_stmt e h r s.
Proof. exact only_reach_partial. Qed.
Print Assumptions C02_only_reach_partial.

Theorem C02_exactly_reach_partial : forall e fails h r s res,
  wf_b e h = true -> root_ok h r -> mrun e h (build_node e fails) r = (s, res) ->
  keys_ok h -> exactly_reach_stmt e h r s res.
Proof. exact exactly_reach_partial. Qed.
Print Assumptions C02_exactly_reach_partial.

Theorem C02_reach_processed : forall e fails h r s res,
  wf_b e h = true -> root_ok h r -> mrun e h (build_node e fails) r = (s, res) ->
  forall r' i, res = inl r' -> reach e h r i -> In i (log s).
Proof. exact reach_processed. Qed.
Print Assumptions C02_reach_processed.

Theorem C02_only_creach : forall e fails h r s res,
  wf_b e h = true -> root_ok h r -> mrun e h (build_node e fails) r = (s, res) ->
  forall i, In i (log s) -> creach e h r i.
Proof. exact only_creach_holds. Qed.
Print Assumptions C02_only_creach.

Theorem C02_exactly_creach : forall e fails h r s res,
  wf_b e h = true -> root_ok h r -> mrun e h (build_node e fails) r = (s, res) ->
  forall r', res = inl r' -> forall i, In i (log s) <-> creach e h r i.
Proof. exact exactly_creach_holds. Qed.
Print Assumptions C02_exactly_creach.

Theorem C02_creach_reach : forall e h r k, keys_ok h -> (creach e h r k <-> reach e h r k).
Proof.
  intros e h r k Hk. split; [apply creach_reach, keys_ok_elts_ok; exact Hk | apply reach_creach].
Qed.
Print Assumptions C02_creach_reach.

Theorem C02_children_first : forall e fails h r s res,
  wf_b e h = true -> root_ok h r -> mrun e h (build_node e fails) r = (s, res) ->
  children_first_stmt e h s.
Proof. exact children_first_holds. Qed.
Print Assumptions C02_children_first.

Theorem C02_fresh_distinct : forall e fails h r s res,
  wf_b e h = true -> root_ok h r -> mrun e h (build_node e fails) r = (s, res) ->
  fresh_distinct_stmt h s.
Proof. exact fresh_distinct_holds. Qed.
Print Assumptions C02_fresh_distinct.

Theorem C02_mirrors : forall e fails h r s res,
  wf_b e h = true -> root_ok h r -> mrun e h (build_node e fails) r = (s, res) ->
  mirrors_stmt e h s.
Proof. exact mirrors_holds. Qed.
Print Assumptions C02_mirrors.

(* failure_prefix_stmt is FALSE as stated, for two reasons: its [reach] conjunct (as above), and
   its [fails k = Some x] conjunct, which fails when the raising node is a TaggedValue without a
   value (build_node raises FRaise k 0 there whatever the oracle says): see
   C02_failure_prefix_stmt_false.  The exact statement holds under [keys_ok h] and "if the raising
   node is such a TaggedValue then the oracle says so" (in particular when the raising node is not
   a TaggedValue: C02_failure_prefix_untagged); C02_failure_prefix_core is the hypothesis-free
   version (creach instead of reach, [fails k = Some x \/ (x = 0 /\ is_tagged h k)]). *)
Theorem C02_failure_prefix : forall e fails h r s res,
  wf_b e h = true -> root_ok h r -> mrun e h (build_node e fails) r = (s, res) ->
  keys_ok h -> (forall k, res = inr (FRaise k 0%N) -> is_tagged h k -> fails k = Some 0%N) ->
  failure_prefix_stmt e fails h r s res.
Proof. exact failure_prefix_partial. Qed.
Print Assumptions C02_failure_prefix.

Theorem C02_failure_prefix_untagged : forall e fails h r s res,
  wf_b e h = true -> root_ok h r -> mrun e h (build_node e fails) r = (s, res) ->
  keys_ok h -> (forall k x, res = inr (FRaise k x) -> ~ is_tagged h k) ->
  failure_prefix_stmt e fails h r s res.
Proof. exact failure_prefix_partial_untagged. Qed.
Print Assumptions C02_failure_prefix_untagged.

Theorem C02_keys_ok_b : forall h, keys_ok_b h = true -> keys_ok h.
Proof. exact keys_ok_b_spec. Qed.
Print Assumptions C02_keys_ok_b.

Theorem C02_failure_prefix_core : forall e fails h r s res,
  wf_b e h = true -> root_ok h r -> mrun e h (build_node e fails) r = (s, res) ->
  forall k x, res = inr (FRaise k x) ->
    creach e h r k /\ ~ In k (log s) /\ (fails k = Some x \/ (x = 0%N /\ is_tagged h k)) /\
    (forall j, child_of e h k j -> In j (log s)) /\
    (forall i, In i (log s) ->
       fails i = None \/ is_buildable h i = false
       \/ (exists fn a t, nth_error h i = Some (NBuildable BPartial fn a t))
       \/ (exists fn a t, nth_error h i = Some (NBuildable BArgFactory fn a t))
       \/ (exists fn a t, nth_error h i = Some (NBuildable BTagged fn a t))).
Proof. exact failure_prefix_core. Qed.
Print Assumptions C02_failure_prefix_core.

(* the counterexamples *)
Theorem C02_only_reach_stmt_false :
  exists e fails h r s res,
    wf_b e h = true /\ root_ok h r /\ mrun e h (build_node e fails) r = (s, res) /\
    ~ only_reach_stmt e h r s.
Proof. exact only_reach_stmt_false. Qed.
Print Assumptions C02_only_reach_stmt_false.

Theorem C02_exactly_reach_stmt_false :
  exists e fails h r s res,
    wf_b e h = true /\ root_ok h r /\ mrun e h (build_node e fails) r = (s, res) /\
    ~ exactly_reach_stmt e h r s res.
Proof. exact exactly_reach_stmt_false. Qed.
Print Assumptions C02_exactly_reach_stmt_false.

Theorem C02_failure_prefix_stmt_false :
  exists e fails h r s res,
    wf_b e h = true /\ root_ok h r /\ mrun e h (build_node e fails) r = (s, res) /\
    keys_ok h /\ ~ failure_prefix_stmt e fails h r s res.
Proof. exact failure_prefix_stmt_false. Qed.
Print Assumptions C02_failure_prefix_stmt_false.

Eval vm_compute in
  (wf_b [] cex_dup_heap, mrun [] cex_dup_heap (build_node [] no_fail_) (RP 1)).
Eval vm_compute in
  (wf_b [] cex_tag_heap, mrun [] cex_tag_heap (build_node [] no_fail_) (RP 0)).

(* non-vacuity: a diamond.  Config 0 is shared by Configs 1 and 2, which sit in the list 3. *)
Definition diamond_env : sigenv :=
  [(1%N, [mkparam 5%N PosOrKw None false]);
   (2%N, [mkparam 6%N PosOrKw None false]);
   (3%N, [mkparam 7%N PosOnly None false; mkparam 8%N KwOnly (Some (RA (AInt 0))) false])].
Definition diamond_heap : heap :=
  [NBuildable BConfig 1%N [(KName 5%N, RA (AInt 1))] [];
   NBuildable BConfig 2%N [(KName 6%N, RP 0)] [];
   NBuildable BConfig 3%N [(KPos 0%Z, RP 0)] [];
   NList [RP 1; RP 2]].

Example C02_nonvacuous :
  wf_b diamond_env diamond_heap = true /\ root_ok diamond_heap (RP 3) /\ keys_ok diamond_heap /\
  exists s r',
    mrun diamond_env diamond_heap (build_node diamond_env no_fail_) (RP 3) = (s, inl r') /\
    log s = [0; 1; 2; 3] /\ r' = RP 7 /\
    skipn 4 (out s) =
      [NObj 1%N [(5%N, PV (RA (AInt 1)))];
       NObj 2%N [(6%N, PV (RP 4))];
       NObj 3%N [(7%N, PV (RP 4)); (8%N, PV (RA (AInt 0)))];
       NList [RP 5; RP 6]].
Proof.
  split; [vm_compute; reflexivity |]. split; [vm_compute; lia |].
  split; [apply keys_ok_b_spec; vm_compute; reflexivity |].
  eexists. eexists. split; [vm_compute; reflexivity |].
  split; [reflexivity |]. split; reflexivity.
Qed.
Print Assumptions C02_nonvacuous.

(* On ARBITRARY heaps (cycles allowed): fdl.build never recurses without bound - it ends with a result
   or an error - and a cycle error names an object that really reaches itself. *)
Theorem C02_build_never_recurses_forever : forall e fails h r s res,
  mrun e h (build_node e fails) r = (s, res) -> res <> inr FOutOfFuel.
Proof. exact build_never_out_of_fuel. Qed.
Print Assumptions C02_build_never_recurses_forever.

Theorem C02_build_reported_cycle_is_real : forall e fails h r s c,
  mrun e h (build_node e fails) r = (s, inr (FCycle c)) -> clos_trans nat (cstep e h) c c.
Proof. exact build_cycle_real. Qed.
Print Assumptions C02_build_reported_cycle_is_real.
