(* C02 - one invocation per Buildable instance; the built graph mirrors the config graph. *)
From Fiddle Require Import PyBase PySlice Sig ArgStore PyCall Heap Traverse Build Anchors.

Example C02_placeholder : True. Proof. exact I. Qed.
