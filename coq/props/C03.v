(* C03 - attribute, index and slice edits behave like edits to a bound-argument list. *)
From Fiddle Require Import PyBase PySlice Sig ArgStore Anchors.

Example C03_placeholder : True. Proof. exact I. Qed.
