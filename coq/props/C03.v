(* C03 - attribute, index and slice edits behave like edits to a bound-argument list.
   Model: ArgStore.step (the algorithms of config.py / signatures.py on __arguments__).
   Specification: ArgSpec.spec_step (fixed-length prefix + Python list + dict), related by ArgSpec.abs.
   This file contains statements only; proofs live in theories/ArgStore_proofs.v. *)
From Fiddle Require Import PyBase PySlice Sig ArgStore ArgSpec ArgStore_proofs AnchorsEdit.

(* Invalid edits raise and leave the reported arguments unchanged (on the specification). *)
Theorem C03_errors_frame :
  forall sg sp o sp' e, spec_step sg sp o = (sp', OErr e) -> sp' = sp.
Proof. exact spec_errors_frame. Qed.
Print Assumptions C03_errors_frame.

(* Attribute reads and edits refine the specification. *)
Theorem C03_refines_getattr :
  forall sg st n, valid_sig sg = true -> inv sg st -> refines_step sg st (OGetAttr n).
Proof. exact refines_getattr. Qed.
Print Assumptions C03_refines_getattr.

Theorem C03_refines_setattr :
  forall sg st n v, valid_sig sg = true -> inv sg st -> op_ok (OSetAttr n v) = true ->
                    refines_step sg st (OSetAttr n v).
Proof. exact refines_setattr. Qed.
Print Assumptions C03_refines_setattr.

Theorem C03_refines_delattr :
  forall sg st n, valid_sig sg = true -> inv sg st -> refines_step sg st (ODelAttr n).
Proof. exact refines_delattr. Qed.
Print Assumptions C03_refines_delattr.

(* cfg[:] is the specification's positional list, and has its length. *)
Theorem C03_positional_view_abs :
  forall sg st, valid_sig sg = true -> inv sg st -> positional_view sg st = spec_view sg (abs sg st).
Proof. exact positional_view_abs. Qed.
Print Assumptions C03_positional_view_abs.

Theorem C03_all_positional_length :
  forall sg st, valid_sig sg = true -> zlen (all_positional sg st) = spec_len sg (abs sg st).
Proof. exact all_positional_length. Qed.
Print Assumptions C03_all_positional_length.

Theorem C03_refines_getitem :
  forall sg st i, valid_sig sg = true -> inv sg st -> refines_step sg st (OGetItem i).
Proof. exact refines_getitem. Qed.
Print Assumptions C03_refines_getitem.

Theorem C03_refines_getslice :
  forall sg st sl, valid_sig sg = true -> inv sg st -> refines_step sg st (OGetSlice sl).
Proof. exact refines_getslice. Qed.
Print Assumptions C03_refines_getslice.

(* Single-index and slice edits refine the specification. *)
Theorem C03_refines_setitem :
  forall sg st i v, valid_sig sg = true -> inv sg st -> op_ok (OSetItem i v) = true ->
                    refines_step sg st (OSetItem i v).
Proof. exact refines_setitem. Qed.
Print Assumptions C03_refines_setitem.

Theorem C03_refines_delitem :
  forall sg st i, valid_sig sg = true -> inv sg st -> refines_step sg st (ODelItem i).
Proof. exact refines_delitem. Qed.
Print Assumptions C03_refines_delitem.

Theorem C03_refines_setslice :
  forall sg st sl vs, valid_sig sg = true -> inv sg st -> op_ok (OSetSlice sl vs) = true ->
                      refines_step sg st (OSetSlice sl vs).
Proof. exact refines_setslice. Qed.
Print Assumptions C03_refines_setslice.

Theorem C03_refines_delslice :
  forall sg st sl, valid_sig sg = true -> inv sg st -> refines_step sg st (ODelSlice sl).
Proof. exact refines_delslice. Qed.
Print Assumptions C03_refines_delslice.

(* One step of any operation: same result, abstraction commutes, invariant preserved.
   refines_step sg st o unfolds to
     let '(st', r) := step sg st o in
     let '(sp', r') := spec_step sg (abs sg st) o in
     r = r' /\ abs sg st' = sp' /\ inv sg st'. *)
Theorem C03_refines_all :
  forall sg st o, valid_sig sg = true -> inv sg st -> op_ok o = true ->
    let '(st', r) := step sg st o in
    let '(sp', r') := spec_step sg (abs sg st) o in
    r = r' /\ abs sg st' = sp' /\ inv sg st'.
Proof. exact refines_all. Qed.
Print Assumptions C03_refines_all.

(* Any edit history: the invariant is maintained and the abstraction of the final store is the
   specification's final state. *)
Theorem C03_refines_history :
  forall sg ops st, valid_sig sg = true -> inv sg st -> forallb op_ok ops = true ->
    let run := fold_left (fun s o => fst (step sg s o)) ops st in
    inv sg run
    /\ abs sg run = fold_left (fun sp o => fst (spec_step sg sp o)) ops (abs sg st).
Proof. exact refines_history. Qed.
Print Assumptions C03_refines_history.

(* ... and every value / exception reported along the way is the specification's. *)
Theorem C03_refines_history_outputs :
  forall sg ops st, valid_sig sg = true -> inv sg st -> forallb op_ok ops = true ->
    outs_model sg st ops = outs_spec sg (abs sg st) ops.
Proof. exact refines_history_outputs. Qed.
Print Assumptions C03_refines_history_outputs.

(* Non-vacuity: a signature with every parameter kind and a store with several entries satisfy
   the hypotheses. *)
Theorem C03_nonvacuous : valid_sig ex_sig = true /\ inv ex_sig ex_store.
Proof. exact ex_nonvacuous. Qed.
Print Assumptions C03_nonvacuous.
