(* C03 - attribute, index and slice edits behave like edits to a bound-argument list.
   Model: ArgStore.step (the algorithms of config.py / signatures.py on __arguments__).
   Specification: ArgSpec.spec_step (fixed-length prefix + Python list + dict), related by ArgSpec.abs.
   This file contains statements only; proofs live in theories/ArgStore_proofs.v. *)
From Fiddle Require Import PyBase PySlice Sig ArgStore ArgSpec ArgStore_proofs Anchors.

(* Invalid edits raise and leave the reported arguments unchanged (on the specification). *)
Theorem C03_errors_frame :
  forall sg sp o sp' e, spec_step sg sp o = (sp', OErr e) -> sp' = sp.
Proof. exact spec_errors_frame. Qed.
Print Assumptions C03_errors_frame.
