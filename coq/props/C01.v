(* C01 - build(Config(f, ...)) calls f with exactly the configured arguments. *)
From Fiddle Require Import PyBase PySlice Sig ArgStore ArgSpec PyCall C01Check AnchorsBuild AnchorsEdit PyCall_proofs PyCall_more.
From Coq Require Import List.

(* For every valid signature and every argument store satisfying the C01 storage invariant, what the
   callee observes after Fiddle's transformation + CPython's binding is the reference view: every
   parameter gets its configured value, else its own default, else the call fails on both sides;
   *args is the contiguous run of stored indices from var_positional_start; **kwargs the stored
   names that are not nameable parameters, in store order. *)
Theorem C01_build_binds_exactly : forall sg st,
  valid_sig sg = true -> inv01_b sg st = true -> build1 sg st = reference_view sg st.
Proof. exact build_binds_exactly. Qed.
Print Assumptions C01_build_binds_exactly.

(* no value is ever bound to a different parameter *)
Theorem C01_no_value_moves : forall sg st vw,
  valid_sig sg = true -> inv01_b sg st = true -> build1 sg st = Some vw ->
  forall p i x, nth_error sg i = Some p ->
  (pk p = PosOnly \/ pk p = PosOrKw \/ pk p = KwOnly) ->
  In (pname p, PV x) vw ->
  let key := match pk p with PosOnly => kpos i | _ => KName (pname p) end in
  (sget st key = Some x) \/ (sget st key = None /\ pdefault p = Some x).
Proof. exact no_value_moves. Qed.
Print Assumptions C01_no_value_moves.

(* non-vacuity: def f(a, b=10, /, c=20, d=30, *args, k, m=5, **kw) with
   {0: 1, 'c': 33, 4: 100, 5: 101, 'k': 66, 'z': 99} *)
Theorem C01_nonvacuous :
  valid_sig ex_sg = true /\ inv01_b ex_sg ex_st = true /\
  build1 ex_sg ex_st =
  Some [ (1%N, PV (RA (AInt 1))); (2%N, PV (RA (AInt 10))); (3%N, PV (RA (AInt 33)));
         (4%N, PV (RA (AInt 30))); (5%N, PTuple [RA (AInt 100); RA (AInt 101)]);
         (6%N, PV (RA (AInt 66))); (7%N, PV (RA (AInt 5)));
         (8%N, PDict [(9%N, RA (AInt 99))]) ].
Proof. exact ex_nonvacuous. Qed.
Print Assumptions C01_nonvacuous.

Theorem C01_missing_required :
  valid_sig ex_sg = true /\ inv01_b ex_sg ex_st_missing = true /\
  build1 ex_sg ex_st_missing = None /\ reference_view ex_sg ex_st_missing = None.
Proof. exact ex_missing_required. Qed.
Print Assumptions C01_missing_required.

Theorem C01_missing_required_kw :
  inv01_b ex_sg ex_st_missing_kw = true /\
  transform_build ex_sg ex_st_missing_kw <> None /\
  build1 ex_sg ex_st_missing_kw = None.
Proof. exact ex_missing_required_kw. Qed.
Print Assumptions C01_missing_required_kw.

(* the callee sees every parameter exactly once, in signature order *)
Theorem C01_view_names_are_parameters : forall sg st vw,
  valid_sig sg = true -> inv01_b sg st = true -> build1 sg st = Some vw ->
  map fst vw = map pname sg.
Proof. exact view_names_are_parameters. Qed.
Print Assumptions C01_view_names_are_parameters.

(* the build fails EXACTLY when some required (non-variadic, default-less) parameter has no stored value *)
Theorem C01_fails_iff_required_unset : forall sg st,
  valid_sig sg = true -> inv01_b sg st = true ->
  (build1 sg st = None <->
   exists j p, nth_error sg j = Some p /\ plain_kind p = true /\
               sget st (pkey p j) = None /\ pdefault p = None).
Proof. exact build_fails_iff_required_unset. Qed.
Print Assumptions C01_fails_iff_required_unset.

(* *args is exactly the contiguous stored run from its index; **kwargs exactly the stored extra names *)
Theorem C01_star_arguments_exact : forall sg st vw j p,
  valid_sig sg = true -> inv01_b sg st = true -> build1 sg st = Some vw ->
  nth_error sg j = Some p ->
  (pk p = VarPos -> nth_error vw j = Some (pname p, PTuple (varargs_of (length st) st j))) /\
  (pk p = VarKw -> nth_error vw j = Some (pname p, PDict (extras_of sg st))).
Proof. exact star_arguments_exact. Qed.
Print Assumptions C01_star_arguments_exact.
