(* C01 - build(Config(f, ...)) calls f with exactly the configured arguments. *)
From Fiddle Require Import PyBase PySlice Sig ArgStore ArgSpec PyCall Anchors.

Example C01_placeholder : True. Proof. exact I. Qed.
