(* placeholder until the C12 theorems are merged *)
Example C12_placeholder : True. Proof. exact I. Qed.
Print Assumptions C12_placeholder.
