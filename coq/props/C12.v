(* C12 - code generation round trip.
   "The module text emitted by the code generators, when executed, yields a configuration equal to
    the input in callables, arguments, tags and sharing structure; a configuration a generator
    cannot express is rejected with an error, never emitted inexactly."

   Model: Codegen.gen (shared nodes -> variables, everything else inline, Buildables as constructor
   calls with int-keyed arguments positionally and names as keywords; None = the generator raises),
   Lang.run_program true (what executing the emitted `fdl.Config(fn, ...)` text computes, through
   SignatureInfo.signature_binding), Codegen.canon_heap (configurations are compared up to the
   storage order of __arguments__).  Statements only; proofs are in theories/Codegen_proofs.v.

   Isomorphism is stated as in C07 / C11 (Iso_proofs): a one-to-one correspondence m between object
   ids (bij_wf) under which corresponding objects have the same type, callable, argument names,
   tags and non-reference data and corresponding references (simulates), and which relates the two
   roots (rel_ref).  One-to-one is the sharing structure: two slots hold the same object in the
   rebuilt configuration exactly when they do in the input.

   Hypotheses of the main theorem:
     wf_b       - the input is a well-formed (acyclic) heap;
     stores_ok  - a boolean check: every reachable Buildable holds a store that its constructor
                  produces, up to order, from the arguments the emitter writes (sort_store of
                  signature_binding (sig_of e fn) pos kw, for (pos, kw) = emit_split of the store,
                  is sort_store of the store), and no reachable node is an empty tuple (the empty
                  tuple is a leaf in this model).  C12_needs_stores_ok: without it the emitted
                  call can be rejected by the constructor;
     contains_buildable - the root is a Buildable or a container holding one: run_program (the
                  as_buildable semantics) raises otherwise (C12_needs_buildable_root).
   The fuel bound is explicit: every fuel above the size of the input heap gives the same result. *)
From Fiddle Require Import PyBase PySlice Sig ArgStore PyCall Heap Traverse Build Iso_proofs
  Lang Lang_proofs Codegen C12Check Codegen_proofs.
From Coq Require Import List Permutation.
Import ListNotations.
Local Open Scope nat_scope.

(* 1. Faithfulness: executing the generated program rebuilds the input, sharing included, and
   creates nothing else (one object per object reachable in the input). *)
Theorem C12_gen_faithful : forall e h r p,
  wf_b e h = true ->
  gen e h r = Some p ->
  stores_ok e h r = true ->
  contains_buildable (S (length h)) h r = true ->
  exists h' r',
    (forall fuel, length h < fuel -> run_program e true fuel [] [] p = (h', Some r')) /\
    length h' = length (reachable_ids e h r) /\
    exists m, bij_wf m /\ simulates (canon_heap h') (canon_heap h) m /\ rel_ref m r' r.
Proof. exact Codegen_proofs.gen_faithful. Qed.
Print Assumptions C12_gen_faithful.

(* ... in the executable form evaluated by the harness (C12Check.rebuilds, fuel 64): the checker
   iso_b finds the correspondence *)
Theorem C12_gen_faithful_check : forall e h r p,
  wf_b e h = true ->
  gen e h r = Some p ->
  stores_ok e h r = true ->
  contains_buildable (S (length h)) h r = true ->
  length h < 64 ->
  rebuilds e h r p = true.
Proof.
  exact (fun e h r p H1 H2 H3 H4 H5 => Codegen_proofs.gen_rebuilds_check e h r p H1 H2 H3 H4 64 H5).
Qed.
Print Assumptions C12_gen_faithful_check.

(* (iso_b answers true on every pair of configurations that correspond one-to-one, the first of
   which is acyclic) *)
Theorem C12_iso_b_complete : forall h1 h2 m,
  bij_wf m -> simulates h1 h2 m ->
  (forall i n k, nth_error h1 i = Some n -> In (RP k) (refs_of n) -> k < i) ->
  forall r1 r2, rel_ref m r1 r2 -> iso_b h1 h2 r1 r2 = true.
Proof. exact Codegen_proofs.iso_b_complete. Qed.
Print Assumptions C12_iso_b_complete.

(* the same for the statements and the return expression alone (no test on the kind of the
   result); moreover the variables of the program hold the copies of the shared nodes: each shared
   node is named exactly once (ow lists the shared reachable nodes without repetition) *)
Theorem C12_gen_rebuilds : forall e h r p,
  wf_b e h = true ->
  gen e h r = Some p ->
  stores_ok e h r = true ->
  exists h1 env h' r',
    (forall fuel, length h < fuel ->
       run_body e true fuel [] [] (p_body p) = (h1, Some env) /\
       eval e true fuel env h1 (p_ret p) = (h', Some r')) /\
    length h' = length (reachable_ids e h r) /\
    exists m, bij_wf m /\ simulates (canon_heap h') (canon_heap h) m /\ rel_ref m r' r /\
      exists ow,
        Permutation ow (filter (shared_in e h (reachable_ids e h r)) (reachable_ids e h r)) /\
        Forall2 (fun v i => rel_ref m v (RP i)) env ow.
Proof. exact Codegen_proofs.gen_rebuilds. Qed.
Print Assumptions C12_gen_rebuilds.

(* what the boolean side condition says *)
Theorem C12_stores_ok_spec : forall e h r,
  stores_ok e h r = true <->
  forall j n, In j (reachable_ids e h r) -> nth_error h j = Some n ->
    match n with
    | NTuple [] => False
    | NBuildable _ fn st _ =>
        forall pos kw, emit_split st = Some (pos, kw) ->
          exists st0, signature_binding (sig_of e fn) pos kw = Some st0 /\
                      sort_store st0 = sort_store st
    | _ => True
    end.
Proof. exact Codegen_proofs.stores_ok_spec. Qed.
Print Assumptions C12_stores_ok_spec.

(* a diamond (the Config c is used by the Partial and by the root), a shared list, a Partial with a
   positional argument, stores not in constructor order: the hypotheses hold, the program has two
   variables, and the executable statement of C12Check agrees *)
Example C12_gen_faithful_nonvacuous :
  wf_b ex_env c12_heap = true /\
  gen ex_env c12_heap c12_root = Some c12_prog /\
  stores_ok ex_env c12_heap c12_root = true /\
  contains_buildable (S (length c12_heap)) c12_heap c12_root = true /\
  (exists h' r', run_program ex_env true 5 [] [] c12_prog = (h', Some r') /\
                 iso_b (canon_heap h') (canon_heap c12_heap) r' c12_root = true) /\
  rebuilds ex_env c12_heap c12_root c12_prog = true.
Proof.
  repeat (split; [vm_compute; reflexivity |]).
  split; [| vm_compute; reflexivity].
  do 2 eexists. split; vm_compute; reflexivity.
Qed.

(* the side condition is a property of the stores, not of their order: the rebuilt configuration
   holds its arguments in the constructor's order, the input did not *)
Example C12_gen_faithful_order :
  exists h' r', run_program ex_env true 5 [] [] c12_prog = (h', Some r') /\
                h' <> c12_heap /\ canon_heap h' = canon_heap c12_heap.
Proof.
  do 2 eexists. split; [vm_compute; reflexivity |]. split; [discriminate | vm_compute; reflexivity].
Qed.

(* the side conditions are needed *)
Theorem C12_needs_stores_ok :
  exists e h r p,
    wf_b e h = true /\ gen e h r = Some p /\
    contains_buildable (S (length h)) h r = true /\
    stores_ok e h r = false /\
    ~ exists h' r', forall fuel, length h < fuel -> run_program e true fuel [] [] p = (h', Some r').
Proof. exact Codegen_proofs.needs_stores_ok. Qed.
Print Assumptions C12_needs_stores_ok.

Theorem C12_needs_buildable_root :
  exists e h r p,
    wf_b e h = true /\ gen e h r = Some p /\ stores_ok e h r = true /\
    contains_buildable (S (length h)) h r = false /\
    ~ exists h' r', forall fuel, length h < fuel -> run_program e true fuel [] [] p = (h', Some r').
Proof. exact Codegen_proofs.needs_buildable_root. Qed.
Print Assumptions C12_needs_buildable_root.

(* the third clause of stores_ok: an empty tuple held as a node (no encoder produces one) is
   re-created as the leaf () *)
Example C12_empty_tuple_is_a_leaf :
  wf_b ex_env c12_emptytuple_heap = true /\
  stores_ok ex_env c12_emptytuple_heap (RP 1) = false /\
  gen ex_env c12_emptytuple_heap (RP 1) = Some (mkprog [] (ECall 10 [] [(1%N, ETuple [])])) /\
  run_program ex_env true 5 [] [] (mkprog [] (ECall 10 [] [(1%N, ETuple [])]))
  = ([NBuildable BConfig 10 [(KName 1, RA AEmptyTuple)] []], Some (RP 0)).
Proof. repeat split; vm_compute; reflexivity. Qed.

(* 2. Rejection: when the generator answers, every reachable object is a list, a tuple, a dict, or
   an untagged Config / Partial whose arguments the emitter can split (int keys contiguous);
   anything else - a tagged Buildable, an ArgFactory, a TaggedValue, an object, a
   functools.partial, a namedtuple, a defaultdict, a set, an opaque value, int keys with a gap -
   makes it raise: never an inexact program. *)
Theorem C12_gen_expressible : forall e h r p,
  wf_b e h = true -> gen e h r = Some p ->
  forall j, In j (reachable_ids e h r) ->
  exists n, nth_error h j = Some n /\
    match n with
    | NList _ | NTuple _ | NDict _ => True
    | NBuildable BConfig _ st [] | NBuildable BPartial _ st [] => exists pk, emit_split st = Some pk
    | _ => False
    end.
Proof. exact Codegen_proofs.gen_expressible_kinds. Qed.
Print Assumptions C12_gen_expressible.

Theorem C12_gen_rejects : forall e h r j n,
  wf_b e h = true -> In j (reachable_ids e h r) -> nth_error h j = Some n ->
  match n with
  | NList _ | NTuple _ | NDict _ => False
  | NBuildable BConfig _ st [] | NBuildable BPartial _ st [] => emit_split st = None
  | _ => True
  end ->
  gen e h r = None.
Proof. exact Codegen_proofs.gen_rejects_kinds. Qed.
Print Assumptions C12_gen_rejects.

(* the emitter splits a store exactly when its int keys are 0 .. n-1, in any order *)
Theorem C12_emit_split_contiguous : forall st,
  (exists pk, emit_split st = Some pk) <->
  let ks := flat_map (fun kv => match fst kv with KPos z => [z] | KName _ => [] end) st in
  Permutation ks (map Z.of_nat (nat_seq 0 (length ks))).
Proof. exact Codegen_proofs.emit_split_contiguous_keys. Qed.
Print Assumptions C12_emit_split_contiguous.

(* ... and what it emits are the stored values, rearranged: nothing dropped, nothing repeated *)
Theorem C12_emit_split_complete : forall st pos kw,
  emit_split st = Some (pos, kw) -> Permutation (pos ++ map snd kw) (map snd st).
Proof. exact (fun st pos kw H => proj2 (Codegen_proofs.emit_split_perm st pos kw H)). Qed.
Print Assumptions C12_emit_split_complete.

Example C12_gen_rejects_tagged :
  wf_b ex_env c12_tagged_heap = true /\
  In 0 (reachable_ids ex_env c12_tagged_heap (RP 1)) /\
  nth_error c12_tagged_heap 0 = Some (NBuildable BConfig 10 [(KName 1, RA (AInt 1))] [(KName 1, [77%N])]) /\
  gen ex_env c12_tagged_heap (RP 1) = None.
Proof.
  split; [reflexivity |]. split; [vm_compute; auto |].
  split; [reflexivity | vm_compute; reflexivity].
Qed.

Example C12_gen_rejects_gap_and_object :
  gen ex_env c12_gap_heap (RP 0) = None /\ gen ex_env c12_obj_heap (RP 1) = None.
Proof. split; vm_compute; reflexivity. Qed.

(* 3. Variables: the program declares one variable per shared reachable node, and none for a tree. *)
Theorem C12_variables_are_shared : forall e h r p,
  wf_b e h = true -> gen e h r = Some p ->
  length (p_body p)
  = length (filter (shared_in e h (reachable_ids e h r)) (reachable_ids e h r)).
Proof. exact Codegen_proofs.gen_variables. Qed.
Print Assumptions C12_variables_are_shared.

Theorem C12_tree_has_no_variables : forall e h r p,
  wf_b e h = true -> gen e h r = Some p ->
  (forall i, In i (reachable_ids e h r) -> shared_in e h (reachable_ids e h r) i = false) ->
  p_body p = [].
Proof. exact Codegen_proofs.gen_tree_no_variables. Qed.
Print Assumptions C12_tree_has_no_variables.

Example C12_variables_are_shared_nonvacuous :
  filter (shared_in ex_env c12_heap (reachable_ids ex_env c12_heap c12_root))
         (reachable_ids ex_env c12_heap c12_root) = [1; 0] /\
  length (p_body c12_prog) = 2 /\
  (exists p, gen ex_env c12_tree_heap (RP 2) = Some p /\ p_body p = [] /\
             rebuilds ex_env c12_tree_heap (RP 2) p = true).
Proof.
  split; [vm_compute; reflexivity |]. split; [reflexivity |].
  eexists. split; [vm_compute; reflexivity |]. split; [reflexivity | vm_compute; reflexivity].
Qed.
