(* C19 - threads working on different configurations do not interfere.
   The theorems quantify over ALL interleavings of the modelled atomic actions on the module-level
   state (per-thread build guard and tracking switch, the global sequence counter, the shared
   caches).  Atomicity of each action under the GIL is the assumption. *)
From Fiddle Require Import Threads Threads_proofs Threads_more.
From Coq Require Import List Sorted.
Import ListNotations.

Theorem C19_noninterference : forall f t sched g g',
  agree t g g' ->
  map erase (proj t (snd (run f g sched))) = map erase (proj t (snd (run f g' (only t sched)))).
Proof. exact noninterference. Qed.
Print Assumptions C19_noninterference.

Theorem C19_seq_increasing_globally : forall f sched g,
  StronglySorted lt (all_seqs (snd (run f g sched))).
Proof. exact seqs_strictly_increasing. Qed.
Print Assumptions C19_seq_increasing_globally.

Theorem C19_seq_unique : forall f sched g, NoDup (all_seqs (snd (run f g sched))).
Proof. exact seqs_unique. Qed.
Print Assumptions C19_seq_unique.

Theorem C19_seq_increasing_per_thread : forall f t sched g,
  StronglySorted lt (seqs_of (proj t (snd (run f g sched)))).
Proof. exact seqs_increasing_per_thread. Qed.
Print Assumptions C19_seq_increasing_per_thread.

Theorem C19_cache_sound : forall f sched g,
  cache_ok f g ->
  cache_ok f (fst (run f g sched)) /\
  (forall t v, In (t, OCache (Some v)) (snd (run f g sched)) -> exists k, v = f k).
Proof. exact cache_sound. Qed.
Print Assumptions C19_cache_sound.

(* any two interleavings of the same per-thread programs look the same to every thread *)
Theorem C19_interleaving_irrelevant : forall f t s1 s2 g,
  only t s1 = only t s2 ->
  map erase (proj t (snd (run f g s1))) = map erase (proj t (snd (run f g s2))).
Proof. exact interleaving_irrelevant. Qed.
Print Assumptions C19_interleaving_irrelevant.

Theorem C19_independent_actions_commute : forall f t pre t1 a1 t2 a2 post g,
  t1 <> t2 ->
  map erase (proj t (snd (run f g (pre ++ (t1, a1) :: (t2, a2) :: post)))) =
  map erase (proj t (snd (run f g (pre ++ (t2, a2) :: (t1, a1) :: post)))).
Proof. exact independent_swap. Qed.
Print Assumptions C19_independent_actions_commute.

(* the per-thread flags (build guard, tracking switch) at the end are those of the solo run *)
Theorem C19_final_flags_as_alone : forall f t sched g g',
  agree t g g' -> agree t (fst (run f g sched)) (fst (run f g' (only t sched))).
Proof. exact final_flags_agree. Qed.
Print Assumptions C19_final_flags_as_alone.

Theorem C19_guard_answer_as_alone : forall f t sched g g',
  agree t g g' ->
  snd (step f (fst (run f g sched)) t AEnterBuild) =
  snd (step f (fst (run f g' (only t sched))) t AEnterBuild).
Proof. exact enter_after_interleaving. Qed.
Print Assumptions C19_guard_answer_as_alone.

Theorem C19_seq_count_as_alone : forall f t sched g g',
  agree t g g' ->
  length (seqs_of (proj t (snd (run f g sched)))) =
  length (seqs_of (proj t (snd (run f g' (only t sched))))).
Proof. exact seq_count_same. Qed.
Print Assumptions C19_seq_count_as_alone.

(* get-or-compute on a shared cache always yields the pure function of the key *)
Theorem C19_cache_value_exact : forall f pre t k g,
  cache_ok f g -> used f k (snd (step f (fst (run f g pre)) t (ACacheGet k))) = f k.
Proof. exact cache_value_exact. Qed.
Print Assumptions C19_cache_value_exact.

(* non-vacuity: two threads, one building, one editing under suspend_tracking, interleaved *)
Example C19_nonvacuous :
  let g0 := mk_g (fun _ => false) (fun _ => true) 7 (fun _ => None) in
  let sched := [(1, AEnterBuild); (2, ANextSeq); (2, ASetTracking false); (1, ACacheGet 5);
                (2, ANextSeq); (1, ACachePut 5); (2, AEnterBuild); (1, AEnterBuild);
                (2, ASetTracking true); (1, AExitBuild); (2, ANextSeq); (2, ACacheGet 5)] in
  proj 2 (snd (run (fun k => k * 10) g0 sched)) =
    [OSeq (Some 7); ODone; OSeq None; OOk; ODone; OSeq (Some 8); OCache (Some 50)] /\
  proj 1 (snd (run (fun k => k * 10) g0 sched)) = [OOk; OCache None; ODone; ONested; ODone].
Proof. vm_compute. split; reflexivity. Qed.
Print Assumptions C19_nonvacuous.
