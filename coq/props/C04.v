(* C04 - a built Partial is functools.partial; ArgFactory arguments are fresh per call.
   Model: theories/Partial.v (validated against the implementation by theories/C04Check.v).
   Proofs: theories/Partial_proofs.v. *)
From Fiddle Require Import PyBase PySlice Sig ArgStore PyCall Heap Traverse Partial Partial_proofs AnchorsBuild
  C08Check Cycle_proofs CyclePartial_proofs.
From Coq Require Import List Arith Relations.
Import ListNotations.
Local Open Scope nat_scope.

(* ---- 1. calling a built partial only appends to the heap ---- *)

Theorem C04_call_partial_appends : forall e fuel o p cpos ckw o' r,
  call_partial e fuel o p cpos ckw = (o', r) -> exists ext, o' = o ++ ext.
Proof. exact call_partial_appends. Qed.
Print Assumptions C04_call_partial_appends.

Theorem C04_invoke_arg_appends : forall e fuel o x o' r,
  invoke_arg e fuel o x = (o', r) -> exists ext, o' = o ++ ext.
Proof. exact invoke_arg_appends. Qed.
Print Assumptions C04_invoke_arg_appends.

Theorem C04_invoke_factory_appends : forall e fuel o g o' r,
  invoke_factory e fuel o g = (o', r) -> exists ext, o' = o ++ ext.
Proof. exact invoke_factory_appends. Qed.
Print Assumptions C04_invoke_factory_appends.

Theorem C04_invoke_struct_appends : forall e fuel o m x o' m' r,
  invoke_struct e fuel o m x = (o', m', r) -> exists ext, o' = o ++ ext.
Proof. exact invoke_struct_appends. Qed.
Print Assumptions C04_invoke_struct_appends.

Theorem C04_call_appends : forall e o p cpos ckw o' r,
  call e o p cpos ckw = (o', r) -> exists ext, o' = o ++ ext.
Proof. exact call_appends. Qed.
Print Assumptions C04_call_appends.

(* the configuration, the build-time objects and the objects of earlier calls are never modified,
   whatever the outcome of the call *)
Theorem C04_call_partial_frame : forall e fuel o p cpos ckw o' r,
  call_partial e fuel o p cpos ckw = (o', r) ->
  firstn (length o) o' = o /\ length o <= length o' /\
  (forall i, i < length o -> nth_error o' i = nth_error o i).
Proof. exact call_partial_frame. Qed.
Print Assumptions C04_call_partial_frame.

Theorem C04_call_frame : forall e o p cpos ckw o' r,
  call e o p cpos ckw = (o', r) ->
  firstn (length o) o' = o /\ length o <= length o' /\
  (forall i, i < length o -> nth_error o' i = nth_error o i).
Proof. exact call_frame. Qed.
Print Assumptions C04_call_frame.

(* two successive calls: the results are different fresh objects, and every node the second call
   allocates has an id >= the size of the heap the first call left *)
Theorem C04_two_calls_disjoint : forall e o p a1 k1 a2 k2 o1 r1 o2 r2,
  call e o p a1 k1 = (o1, Some r1) -> call e o1 p a2 k2 = (o2, Some r2) ->
  exists j1 j2, r1 = RP j1 /\ r2 = RP j2 /\
    length o <= j1 /\ j1 < length o1 /\ length o1 <= j2 /\ j2 < length o2 /\ r1 <> r2 /\
    firstn (length o1) o2 = o1 /\
    (forall i, i < length o1 -> nth_error o2 i = nth_error o1 i) /\
    (forall i n, nth_error o2 i = Some n -> nth_error o1 i = None -> length o1 <= i).
Proof. exact two_calls_disjoint. Qed.
Print Assumptions C04_two_calls_disjoint.

(* ---- 2. the result of a successful call is a freshly allocated NObj ---- *)

Theorem C04_call_partial_result : forall e fuel o p cpos ckw o' r,
  call_partial e fuel o p cpos ckw = (o', Some r) ->
  exists i fn pos kw vw,
    p = RP i /\ nth_error o i = Some (NPartialObj fn pos kw) /\
    r = RP (length o' - 1) /\ nth_error o' (length o' - 1) = Some (NObj fn vw) /\
    length o <= length o' - 1.
Proof. exact call_partial_result. Qed.
Print Assumptions C04_call_partial_result.

Theorem C04_call_result : forall e o p cpos ckw o' r,
  call e o p cpos ckw = (o', Some r) ->
  exists i fn pos kw vw,
    p = RP i /\ nth_error o i = Some (NPartialObj fn pos kw) /\
    r = RP (length o' - 1) /\ nth_error o' (length o' - 1) = Some (NObj fn vw) /\
    length o <= length o' - 1.
Proof. exact call_result. Qed.
Print Assumptions C04_call_result.

(* functools.partial: the callable is called with the bound positionals followed by the call-time
   ones, and with the merged keywords (bound keyword order first) *)
Theorem C04_call_partial_received : forall e fuel o p cpos ckw o' r i fn pos kw,
  call_partial e fuel o p cpos ckw = (o', Some r) -> p = RP i ->
  nth_error o i = Some (NPartialObj fn pos kw) ->
  exists pos' kw' vw,
    length pos' = length pos + length cpos /\
    map fst kw' = map fst (merge_kw kw ckw) /\
    py_call (sig_of e fn) pos' (map (fun kv => (KName (fst kv), snd kv)) kw') = Some vw /\
    nth_error o' (length o' - 1) = Some (NObj fn vw).
Proof. exact call_partial_received. Qed.
Print Assumptions C04_call_partial_received.

(* ---- 3. keyword override (functools.partial keyword merge) ---- *)

Theorem C04_merge_kw_get : forall bound call k,
  dget N.eqb (merge_kw bound call) k =
  match dget N.eqb (rev call) k with Some v => Some v | None => dget N.eqb bound k end.
Proof. exact merge_kw_get. Qed.
Print Assumptions C04_merge_kw_get.

Theorem C04_merge_kw_override : forall bound call k v,
  NoDup (map fst call) -> In (k, v) call -> dget N.eqb (merge_kw bound call) k = Some v.
Proof. exact merge_kw_override. Qed.
Print Assumptions C04_merge_kw_override.

Theorem C04_merge_kw_not_called : forall bound call k,
  ~ In k (map fst call) -> dget N.eqb (merge_kw bound call) k = dget N.eqb bound k.
Proof. exact merge_kw_not_called. Qed.
Print Assumptions C04_merge_kw_not_called.

Theorem C04_merge_kw_keys_prefix : forall bound call,
  exists ext, map fst (merge_kw bound call) = map fst bound ++ ext /\
              (forall k, In k ext -> In k (map fst call) /\ ~ In k (map fst bound)).
Proof. exact merge_kw_keys_prefix. Qed.
Print Assumptions C04_merge_kw_keys_prefix.

Theorem C04_merge_kw_position : forall bound call i k,
  nth_error (map fst bound) i = Some k -> nth_error (map fst (merge_kw bound call)) i = Some k.
Proof. exact merge_kw_position. Qed.
Print Assumptions C04_merge_kw_position.

Theorem C04_merge_kw_keys_nodup : forall bound call,
  NoDup (map fst bound) -> NoDup (map fst (merge_kw bound call)).
Proof. exact merge_kw_keys_nodup. Qed.
Print Assumptions C04_merge_kw_keys_nodup.

(* ---- 4. arguments without factories keep their build-time identity ---- *)

Theorem C04_invoke_arg_passthrough : forall e fuel o x,
  0 < fuel -> contains_factory e (S (length o)) o x = false ->
  invoke_arg e fuel o x = (o, Some x).
Proof. exact invoke_arg_passthrough. Qed.
Print Assumptions C04_invoke_arg_passthrough.

Theorem C04_invoke_arg_not_wrapper : forall e f o x,
  is_wrapper o x = false -> invoke_arg e (S f) o x = (o, Some x).
Proof. exact invoke_arg_not_wrapper. Qed.
Print Assumptions C04_invoke_arg_not_wrapper.

(* no copy of a structure that holds no factory (struct_fuel (RP i) = i + 2, struct_fuel (RA _) = 1) *)
Theorem C04_invoke_struct_passthrough : forall e o fuel x,
  wf_b e o = true -> struct_fuel x <= fuel ->
  contains_factory e (S (length o)) o x = false ->
  exists m', invoke_struct e fuel o [] x = (o, m', Some x).
Proof. exact invoke_struct_passthrough. Qed.
Print Assumptions C04_invoke_struct_passthrough.

(* fuel = id + 1 is not enough *)
Example C04_invoke_struct_fuel_tight :
  invoke_struct [] 1 [NList [RA (AInt 1%Z)]] [] (RP 0) = ([NList [RA (AInt 1%Z)]], [], None) /\
  invoke_struct [] 2 [NList [RA (AInt 1%Z)]] [] (RP 0)
    = ([NList [RA (AInt 1%Z)]], [(0, RP 0)], Some (RP 0)).
Proof. exact invoke_struct_fuel_tight. Qed.
Print Assumptions C04_invoke_struct_fuel_tight.

(* ---- 5. bind_arg: a new wrapper per binding ---- *)

Theorem C04_bind_arg_factory : forall e o r o' r' i n t f,
  bind_arg e o r = (o', r') -> r = RP i -> nth_error o i = Some n -> factory_of n = Some (t, f) ->
  r' = RP (length o) /\ o' = o ++ [mk_factory 2 f].
Proof. exact bind_arg_factory_inv. Qed.
Print Assumptions C04_bind_arg_factory.

Theorem C04_bind_arg_plain : forall e o r,
  contains_factory e (S (length o)) o r = false -> bind_arg e o r = (o, r).
Proof. exact bind_arg_plain. Qed.
Print Assumptions C04_bind_arg_plain.

Theorem C04_bind_arg_container : forall e o i n,
  nth_error o i = Some n -> factory_of n = None ->
  contains_factory e (S (length o)) o (RP i) = true ->
  bind_arg e o (RP i) = (o ++ [mk_factory 3 (RP i)], RP (length o)).
Proof. exact bind_arg_container. Qed.
Print Assumptions C04_bind_arg_container.

Theorem C04_bind_arg_twice_distinct : forall e o i n t f o1 r1 o2 r2,
  nth_error o i = Some n -> factory_of n = Some (t, f) ->
  bind_arg e o (RP i) = (o1, r1) -> bind_arg e o1 (RP i) = (o2, r2) ->
  r1 = RP (length o) /\ r2 = RP (S (length o)) /\ r1 <> r2 /\
  o2 = o ++ [mk_factory 2 f; mk_factory 2 f].
Proof. exact bind_arg_twice_distinct. Qed.
Print Assumptions C04_bind_arg_twice_distinct.

Theorem C04_bind_arg_appends : forall e o r o' r',
  bind_arg e o r = (o', r') -> exists ext, o' = o ++ ext.
Proof. exact bind_arg_appends. Qed.
Print Assumptions C04_bind_arg_appends.

(* ---- 7. ArgFactory arguments are fresh per call ---- *)
(* extends o o' := exists ext, o' = o ++ ext;
   arg_rel o o' x x': how the argument x of a call that starts in heap o and ends in heap o' is
   received; in_base o x: x is an atom or points into o;
   wrappers_ok_b e o: every container wrapper NNamedTuple FACTORY [(3, c)] of o wraps a container c
   that holds a factory (the only way bind_arg makes one, cf. C04_bind_arg_container). *)
Theorem C04_arg_rel_def : forall o o' x x',
  arg_rel o o' x x' <->
  (if is_wrapper o x then exists j, x' = RP j /\ length o <= j /\ j < length o' else x' = x).
Proof. exact arg_rel_def. Qed.
Print Assumptions C04_arg_rel_def.

Theorem C04_in_base_def : forall o x,
  in_base o x <-> match x with RA _ => True | RP i => i < length o end.
Proof. exact in_base_def. Qed.
Print Assumptions C04_in_base_def.

Theorem C04_wrappers_ok_b_def : forall e o,
  wrappers_ok_b e o =
  forallb (fun n => match factory_of n with
                    | Some (t, g) => if N.eqb t 3 then contains_factory e (S (length o)) o g else true
                    | None => true
                    end) o.
Proof. reflexivity. Qed.
Print Assumptions C04_wrappers_ok_b_def.

(* every argument bound through a factory wrapper (an ArgFactory, or a container holding one) is
   received as an object allocated by this very call; every other argument is received unchanged *)
Theorem C04_call_partial_args_fresh : forall e fuel o p cpos ckw o' r i fn pos kw,
  wf_b e o = true -> wrappers_ok_b e o = true ->
  Forall (in_base o) cpos -> Forall (in_base o) (map snd ckw) ->
  p = RP i -> nth_error o i = Some (NPartialObj fn pos kw) ->
  call_partial e fuel o p cpos ckw = (o', Some r) ->
  exists pos' kw' vw,
    Forall2 (arg_rel o o') (pos ++ cpos) pos' /\
    Forall2 (fun a b => fst a = fst b /\ arg_rel o o' (snd a) (snd b)) (merge_kw kw ckw) kw' /\
    py_call (sig_of e fn) pos' (map (fun kv => (KName (fst kv), snd kv)) kw') = Some vw /\
    r = RP (length o' - 1) /\ nth_error o' (length o' - 1) = Some (NObj fn vw).
Proof. exact call_partial_args_fresh. Qed.
Print Assumptions C04_call_partial_args_fresh.

Theorem C04_call_args_fresh : forall e o p cpos ckw o' r i fn pos kw,
  wf_b e o = true -> wrappers_ok_b e o = true ->
  Forall (in_base o) cpos -> Forall (in_base o) (map snd ckw) ->
  p = RP i -> nth_error o i = Some (NPartialObj fn pos kw) ->
  call e o p cpos ckw = (o', Some r) ->
  exists pos' kw' vw,
    Forall2 (arg_rel o o') (pos ++ cpos) pos' /\
    Forall2 (fun a b => fst a = fst b /\ arg_rel o o' (snd a) (snd b)) (merge_kw kw ckw) kw' /\
    py_call (sig_of e fn) pos' (map (fun kv => (KName (fst kv), snd kv)) kw') = Some vw /\
    r = RP (length o' - 1) /\ nth_error o' (length o' - 1) = Some (NObj fn vw).
Proof. exact call_args_fresh. Qed.
Print Assumptions C04_call_args_fresh.

(* the copy made for a promoted container: a part that holds a factory is replaced by an object of
   this call, a part that holds none is shared with build time *)
Theorem C04_invoke_struct_elements : forall e o0 fuel o x o' m' r,
  wf_b e o0 = true -> wrappers_ok_b e o0 = true -> extends o0 o -> in_base o0 x ->
  invoke_struct e fuel o [] x = (o', m', Some r) ->
  if contains_factory e (S (length o0)) o0 x
  then exists j, r = RP j /\ length o0 <= j /\ j < length o'
  else r = x.
Proof. exact invoke_struct_elements. Qed.
Print Assumptions C04_invoke_struct_elements.

Theorem C04_invoke_factory_fresh : forall e fuel o g o' r,
  invoke_factory e fuel o g = (o', Some r) ->
  exists j, r = RP j /\ length o <= j /\ j < length o'.
Proof. exact invoke_factory_fresh. Qed.
Print Assumptions C04_invoke_factory_fresh.

(* the hypotheses hold for the example below, after the build and after a call *)
Example C04_example_hyps :
  let o := out (fst (pbuild ex_env ex_heap (RP 4))) in
  wf_b ex_env o = true /\ wrappers_ok_b ex_env o = true /\
  let o1 := fst (call ex_env o (RP 11) [] []) in
  wf_b ex_env o1 = true /\ wrappers_ok_b ex_env o1 = true.
Proof. exact example_hyps. Qed.
Print Assumptions C04_example_hyps.

(* ---- 8. the binding step of the build keeps the hypotheses of C04_call_args_fresh ---- *)
Theorem C04_bind_arg_preserves : forall e o r o' r',
  wf_b e o = true -> wrappers_ok_b e o = true -> in_base o r ->
  bind_arg e o r = (o', r') ->
  wf_b e o' = true /\ wrappers_ok_b e o' = true /\ in_base o' r' /\
  (is_wrapper o' r' = true \/ (o' = o /\ r' = r /\ contains_factory e (S (length o)) o r = false)).
Proof. exact bind_arg_preserves. Qed.
Print Assumptions C04_bind_arg_preserves.

Theorem C04_promote_all_preserves : forall e rs o o' rs',
  wf_b e o = true -> wrappers_ok_b e o = true -> Forall (in_base o) rs ->
  promote_all e o rs = (o', rs') ->
  wf_b e o' = true /\ wrappers_ok_b e o' = true /\ extends o o' /\ Forall (in_base o') rs'.
Proof. exact promote_all_preserves. Qed.
Print Assumptions C04_promote_all_preserves.

Theorem C04_promote_kw_preserves : forall e kw o o' kw',
  wf_b e o = true -> wrappers_ok_b e o = true -> Forall (in_base o) (map snd kw) ->
  promote_kw e o kw = (o', kw') ->
  wf_b e o' = true /\ wrappers_ok_b e o' = true /\ extends o o' /\
  Forall (in_base o') (map snd kw') /\ map fst kw' = map fst kw.
Proof. exact promote_kw_preserves. Qed.
Print Assumptions C04_promote_kw_preserves.

(* ---- 6. non-vacuity ---- *)
(* Partial(f, x=ArgFactory(g), y=[ArgFactory(g), Config(h)]) built and called twice: different
   objects for x and for y[0], the same (build-time) object for y[1]; a call-time keyword
   overrides the bound factory. *)
Example C04_two_calls_example :
  wf_b ex_env ex_heap = true /\
  let b := pbuild ex_env ex_heap (RP 4) in
  let o := out (fst b) in
  snd b = inl (RP 11) /\ length o = 12 /\
  nth_error o 11 = Some (NPartialObj 10%N [] [(1%N, RP 9); (2%N, RP 10)]) /\
  nth_error o 9 = Some (mk_factory 2 (RA (ASym 20%N))) /\
  nth_error o 10 = Some (mk_factory 3 (RP 8)) /\
  nth_error o 8 = Some (NList [RP 6; RP 7]) /\
  nth_error o 6 = Some (mk_factory 0 (RA (ASym 20%N))) /\
  nth_error o 7 = Some (NObj 30%N []) /\
  let c1 := call ex_env o (RP 11) [] [] in
  let c2 := call ex_env (fst c1) (RP 11) [] [] in
  let o2 := fst c2 in
  snd c1 = Some (RP 15) /\ snd c2 = Some (RP 19) /\
  nth_error o2 15 = Some (NObj 10%N [(1%N, PV (RP 12)); (2%N, PV (RP 14))]) /\
  nth_error o2 19 = Some (NObj 10%N [(1%N, PV (RP 16)); (2%N, PV (RP 18))]) /\
  nth_error o2 12 = Some (NObj 20%N []) /\ nth_error o2 16 = Some (NObj 20%N []) /\
  nth_error o2 14 = Some (NList [RP 13; RP 7]) /\ nth_error o2 18 = Some (NList [RP 17; RP 7]) /\
  nth_error o2 13 = Some (NObj 20%N []) /\ nth_error o2 17 = Some (NObj 20%N []) /\
  nth_error o2 7 = Some (NObj 30%N []) /\
  firstn 12 o2 = o /\
  let c3 := call ex_env o (RP 11) [] [(1%N, RA (AInt 5%Z))] in
  snd c3 = Some (RP 14) /\
  nth_error (fst c3) 14 = Some (NObj 10%N [(1%N, PV (RA (AInt 5%Z))); (2%N, PV (RP 13))]) /\
  nth_error (fst c3) 13 = Some (NList [RP 12; RP 7]).
Proof. exact two_calls_example. Qed.
Print Assumptions C04_two_calls_example.

(* ---- building Partials / ArgFactories on ARBITRARY heaps (reference cycles allowed) ---- *)
(* the build never recurses without bound, and a cycle error names an object that reaches itself *)
Theorem C04_partial_build_never_recurses_forever : forall e h r s res,
  pbuild e h r = (s, res) -> res <> inr FOutOfFuel.
Proof. exact pbuild_never_out_of_fuel. Qed.
Print Assumptions C04_partial_build_never_recurses_forever.

Theorem C04_partial_build_reported_cycle_is_real : forall e h r s c,
  pbuild e h r = (s, inr (FCycle c)) -> clos_trans nat (cstep e h) c c.
Proof. exact pbuild_cycle_real. Qed.
Print Assumptions C04_partial_build_reported_cycle_is_real.
