(* C04 - a built Partial is functools.partial; ArgFactory arguments are fresh per call. *)
From Fiddle Require Import PyBase PySlice Sig ArgStore PyCall Heap Traverse Partial Anchors.

Example C04_placeholder : True. Proof. exact I. Qed.
