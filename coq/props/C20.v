(* C20 - meaning-preserving transformations preserve what is built. *)
From Fiddle Require Import PyBase PySlice Sig ArgStore PyCall Heap Traverse Transform Anchors.

Example C20_placeholder : True. Proof. exact I. Qed.
