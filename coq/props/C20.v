(* C20 - meaning-preserving transformations preserve what is built. *)
From Fiddle Require Import PyBase PySlice Sig ArgStore ArgSpec PyCall C01Check Heap Traverse Build
  Build_stmt Traverse_proofs Tags Eq Transform AnchorsBuild PyCall_proofs Iso_proofs Copy_proofs
  Transform_proofs.

(* ------------------------------------------------------------------ materialize_defaults, one Buildable *)

(* materialize never overwrites a stored argument *)
Theorem C20_materialize_keeps : forall sg st k v,
  sget st k = Some v -> sget (materialize sg st) k = Some v.
Proof. exact materialize_keeps. Qed.
Print Assumptions C20_materialize_keeps.

(* afterwards every parameter with a default value (not a default_factory) is stored *)
Theorem C20_materialize_total : forall sg st i p d,
  nth_error sg i = Some p -> pdefault p = Some d -> pfactory p = false ->
  (pk p = PosOnly \/ pk p = PosOrKw \/ pk p = KwOnly) ->
  smem (materialize sg st)
       (match pk p with PosOnly => kpos i | _ => KName (pname p) end) = true.
Proof. exact materialize_total. Qed.
Print Assumptions C20_materialize_total.

Theorem C20_materialize_idempotent : forall sg st,
  materialize sg (materialize sg st) = materialize sg st.
Proof. exact materialize_idempotent. Qed.
Print Assumptions C20_materialize_idempotent.

(* the reference view does not change (no storage invariant needed) ... *)
Theorem C20_materialize_preserves_view : forall sg st,
  valid_sig sg = true -> reference_view sg (materialize sg st) = reference_view sg st.
Proof. exact materialize_preserves_view. Qed.
Print Assumptions C20_materialize_preserves_view.

(* ... the storage invariant is kept ... *)
Theorem C20_materialize_preserves_inv : forall sg st,
  valid_sig sg = true -> inv01_b sg st = true -> inv01_b sg (materialize sg st) = true.
Proof. exact materialize_preserves_inv. Qed.
Print Assumptions C20_materialize_preserves_inv.

(* ... hence the callee observes the same call *)
Theorem C20_materialize_preserves_build : forall sg st,
  valid_sig sg = true -> inv01_b sg st = true -> build1 sg (materialize sg st) = build1 sg st.
Proof. exact materialize_preserves_build. Qed.
Print Assumptions C20_materialize_preserves_build.

(* ------------------------------------------------------------------ with_defaults_trimmed, one Buildable *)

(* trim only removes entries *)
Theorem C20_trim_subset : forall sg veq st kv, In kv (trim sg veq st) -> In kv st.
Proof. exact trim_subset. Qed.
Print Assumptions C20_trim_subset.

Theorem C20_trim_only_removes : forall sg veq st k v,
  keys_distinct st = true -> sget (trim sg veq st) k = Some v -> sget st k = Some v.
Proof. exact trim_only_removes. Qed.
Print Assumptions C20_trim_only_removes.

Theorem C20_trim_preserves_inv : forall sg veq st,
  inv01_b sg st = true -> inv01_b sg (trim sg veq st) = true.
Proof. exact trim_preserves_inv. Qed.
Print Assumptions C20_trim_preserves_inv.

(* a **kwargs entry spelled like a positional-only parameter is not compared with that parameter's
   default (this input was dropped before with_defaults_trimmed was repaired):
   def f(a=1, /, **kw); Config(f, 5, a=1) *)
Theorem C20_trim_keeps_kwargs :
  valid_sig cx_sg = true /\ inv01_b cx_sg cx_st = true /\
  trim cx_sg ref_eqb cx_st = cx_st /\
  build1 cx_sg cx_st = Some [ (1%N, PV (cx_int 5)); (8%N, PDict [(1%N, cx_int 1)]) ] /\
  build1 cx_sg (trim cx_sg ref_eqb cx_st) = Some [ (1%N, PV (cx_int 5)); (8%N, PDict [(1%N, cx_int 1)]) ].
Proof. exact trim_keeps_kwargs. Qed.
Print Assumptions C20_trim_keeps_kwargs.

(* with exact equality of values the view is unchanged *)
Theorem C20_trim_preserves_view : forall sg st,
  valid_sig sg = true -> keys_distinct st = true ->
  reference_view sg (trim sg ref_eqb st) = reference_view sg st.
Proof. exact trim_preserves_view. Qed.
Print Assumptions C20_trim_preserves_view.

Theorem C20_trim_preserves_build : forall sg st,
  valid_sig sg = true -> inv01_b sg st = true ->
  build1 sg (trim sg ref_eqb st) = build1 sg st.
Proof. exact trim_preserves_build. Qed.
Print Assumptions C20_trim_preserves_build.

(* an arbitrary reflexive equality (Python ==): the callee's view after trimming is the view before
   with some values replaced by the veq-equal parameter default; *args and **kwargs are identical *)
Theorem C20_trim_view_rel : forall veq sg st,
  (forall a, veq a a = true) ->
  valid_sig sg = true -> keys_distinct st = true ->
  view_rel veq (reference_view sg (trim sg veq st)) (reference_view sg st).
Proof. exact trim_view_rel. Qed.
Print Assumptions C20_trim_view_rel.

Theorem C20_trim_build_rel : forall veq sg st,
  (forall a, veq a a = true) ->
  valid_sig sg = true -> inv01_b sg st = true ->
  view_rel veq (build1 sg (trim sg veq st)) (build1 sg st).
Proof. exact trim_build_rel. Qed.
Print Assumptions C20_trim_build_rel.

Theorem C20_view_rel_exact : forall a b, view_rel ref_eqb a b -> a = b.
Proof. exact view_rel_eq. Qed.
Print Assumptions C20_view_rel_exact.

(* trimming what was materialized gives back the same view *)
Theorem C20_trim_materialize_view_rel : forall veq sg st,
  (forall a, veq a a = true) ->
  valid_sig sg = true -> keys_distinct st = true ->
  view_rel veq (reference_view sg (trim sg veq (materialize sg st))) (reference_view sg st).
Proof. exact trim_materialize_view_rel. Qed.
Print Assumptions C20_trim_materialize_view_rel.

Theorem C20_trim_materialize_view : forall sg st,
  valid_sig sg = true -> keys_distinct st = true ->
  reference_view sg (trim sg ref_eqb (materialize sg st)) = reference_view sg st.
Proof. exact trim_materialize_view. Qed.
Print Assumptions C20_trim_materialize_view.

Theorem C20_trim_materialize_build : forall sg st,
  valid_sig sg = true -> inv01_b sg st = true ->
  build1 sg (trim sg ref_eqb (materialize sg st)) = build1 sg st.
Proof. exact trim_materialize_build. Qed.
Print Assumptions C20_trim_materialize_build.

(* the sget form of "only removes" needs distinct keys *)
Theorem C20_trim_sget_needs_distinct :
  sget (trim cx_sg2 ref_eqb cx_st2) (KName 3) = Some (cx_int 5) /\
  sget cx_st2 (KName 3) = Some (cx_int 3).
Proof. exact trim_sget_needs_distinct. Qed.
Print Assumptions C20_trim_sget_needs_distinct.

(* non-vacuity: def f(a=1, b=2, /, c=3, *, k=4); {1: 20, 'k': 4} *)
Theorem C20_nonvacuous :
  valid_sig ex20_sg = true /\ inv01_b ex20_sg ex20_st = true /\
  materialize ex20_sg ex20_st =
    [ (KPos 1, cx_int 20); (KName 4, cx_int 4); (KPos 0, cx_int 1); (KName 3, cx_int 3) ] /\
  build1 ex20_sg ex20_st = Some ex20_view /\
  build1 ex20_sg (materialize ex20_sg ex20_st) = Some ex20_view /\
  trim ex20_sg ref_eqb (materialize ex20_sg ex20_st) = [ (KPos 1, cx_int 20); (KPos 0, cx_int 1) ] /\
  build1 ex20_sg (trim ex20_sg ref_eqb (materialize ex20_sg ex20_st)) = Some ex20_view.
Proof. exact ex20_nonvacuous. Qed.
Print Assumptions C20_nonvacuous.

(* FINDING (known): == is not identity.  def g(x=1); Config(g, x=True): True == 1, x is trimmed and
   g receives 1; C20_trim_build_rel is the most that holds for Python equality *)
Theorem C20_trim_py_eq_changes_value :
  valid_sig cx_sg3 = true /\ inv01_b cx_sg3 cx_st3 = true /\
  build1 cx_sg3 cx_st3 = Some [ (1%N, PV (RA (ABool true))) ] /\
  build1 cx_sg3 (trim cx_sg3 leaf_eq cx_st3) = Some [ (1%N, PV (cx_int 1)) ].
Proof. exact trim_py_eq_changes_value. Qed.
Print Assumptions C20_trim_py_eq_changes_value.

Theorem C20_leaf_eq_refl : forall a, leaf_eq a a = true.
Proof. exact leaf_eq_refl. Qed.
Print Assumptions C20_leaf_eq_refl.

(* ------------------------------------------------------------------ materialize_defaults on a graph *)

Theorem C20_materialize_defaults_length : forall e h r,
  length (materialize_defaults e h r) = length h.
Proof. exact materialize_defaults_length. Qed.
Print Assumptions C20_materialize_defaults_length.

(* only argument stores of Buildables change, and only by materialize *)
Theorem C20_materialize_defaults_buildable : forall e h r i k fn args tags,
  nth_error h i = Some (NBuildable k fn args tags) ->
  exists args', nth_error (materialize_defaults e h r) i = Some (NBuildable k fn args' tags) /\
                (args' = args \/ args' = materialize (sig_of e fn) args).
Proof. exact materialize_defaults_buildable. Qed.
Print Assumptions C20_materialize_defaults_buildable.

Theorem C20_materialize_defaults_other : forall e h r i n,
  nth_error h i = Some n -> (forall k fn args tags, n <> NBuildable k fn args tags) ->
  nth_error (materialize_defaults e h r) i = Some n.
Proof. exact materialize_defaults_other. Qed.
Print Assumptions C20_materialize_defaults_other.

(* every Buildable of the graph is called exactly as before *)
Theorem C20_materialize_defaults_preserves_calls : forall e h r i k fn args tags,
  nth_error h i = Some (NBuildable k fn args tags) ->
  valid_sig (sig_of e fn) = true ->
  exists args', nth_error (materialize_defaults e h r) i = Some (NBuildable k fn args' tags) /\
    reference_view (sig_of e fn) args' = reference_view (sig_of e fn) args /\
    (inv01_b (sig_of e fn) args = true ->
     inv01_b (sig_of e fn) args' = true /\ build1 (sig_of e fn) args' = build1 (sig_of e fn) args).
Proof. exact materialize_defaults_preserves_calls. Qed.
Print Assumptions C20_materialize_defaults_preserves_calls.

(* a TaggedValue is never touched (its `tags` parameter is supplied by TaggedValueCls.__build__) *)
Theorem C20_materialize_defaults_tagged : forall e h r i fn args tags,
  nth_error h i = Some (NBuildable BTagged fn args tags) ->
  nth_error (materialize_defaults e h r) i = Some (NBuildable BTagged fn args tags).
Proof. exact materialize_defaults_tagged. Qed.
Print Assumptions C20_materialize_defaults_tagged.

(* every Buildable the root still reaches, except a TaggedValue (unchanged), is materialized ... *)
Theorem C20_materialize_defaults_reachable : forall e h r i k fn args tags,
  wf_b e (map (mat_node e) h) = true -> root_ok h r ->
  nth_error h i = Some (NBuildable k fn args tags) ->
  creach e (materialize_defaults e h r) r i ->
  nth_error (materialize_defaults e h r) i =
    Some (NBuildable k fn
            (match k with BTagged => args | _ => materialize (sig_of e fn) args end) tags).
Proof. exact materialize_defaults_reachable. Qed.
Print Assumptions C20_materialize_defaults_reachable.

(* ... and so has all its defaults stored *)
Theorem C20_materialize_defaults_reachable_total : forall e h r i k fn args tags,
  wf_b e (map (mat_node e) h) = true -> root_ok h r ->
  nth_error h i = Some (NBuildable k fn args tags) -> k <> BTagged ->
  creach e (materialize_defaults e h r) r i ->
  exists args', nth_error (materialize_defaults e h r) i = Some (NBuildable k fn args' tags) /\
    forall j p d, nth_error (sig_of e fn) j = Some p -> pdefault p = Some d -> pfactory p = false ->
      (pk p = PosOnly \/ pk p = PosOrKw \/ pk p = KwOnly) ->
      smem args' (match pk p with PosOnly => kpos j | _ => KName (pname p) end) = true.
Proof. exact materialize_defaults_reachable_total. Qed.
Print Assumptions C20_materialize_defaults_reachable_total.

Theorem C20_materialize_defaults_idempotent : forall e h r,
  materialize_defaults e (materialize_defaults e h r) r = materialize_defaults e h r.
Proof. exact materialize_defaults_idempotent. Qed.
Print Assumptions C20_materialize_defaults_idempotent.

(* ------------------------------------------------------------------ with_defaults_trimmed on a graph *)

Theorem C20_wdt_total : forall e h r s res,
  wf_b e h = true -> root_ok h r -> with_defaults_trimmed e h r = (s, res) ->
  exists r', res = inl r'.
Proof. exact wdt_total. Qed.
Print Assumptions C20_wdt_total.

(* the input graph is not modified *)
Theorem C20_wdt_pure : forall e h r s res,
  with_defaults_trimmed e h r = (s, res) ->
  firstn (length h) (out s) = h /\ (length h <= length (out s))%nat.
Proof. exact wdt_pure. Qed.
Print Assumptions C20_wdt_pure.

Theorem C20_wdt_once : forall e h r s res,
  wf_b e h = true -> root_ok h r -> with_defaults_trimmed e h r = (s, res) -> NoDup (log s).
Proof. exact wdt_once. Qed.
Print Assumptions C20_wdt_once.

(* the returned graph is a one-to-one image of the graph of trimmed Buildables *)
Theorem C20_wdt_faithful : forall e h r s res,
  wf_b e h = true -> root_ok h r -> with_defaults_trimmed e h r = (s, res) ->
  (forall i n, creach e (pre_trim e h) r i -> nth_error (pre_trim e h) i = Some n -> node_canonical e n) ->
  forall r', res = inl r' ->
  bij_wf (memo_bij (memo s)) /\ simulates (pre_trim e h) (out s) (memo_bij (memo s)) /\
  rel_ref (memo_bij (memo s)) r r'.
Proof. exact wdt_faithful. Qed.
Print Assumptions C20_wdt_faithful.

(* and each of those is called with ==-equal arguments *)
Theorem C20_wdt_preserves_calls : forall e h i k fn args tags,
  nth_error h i = Some (NBuildable k fn args tags) ->
  valid_sig (sig_of e fn) = true -> keys_distinct args = true ->
  exists args', nth_error (pre_trim e h) i = Some (NBuildable k fn args' tags) /\
    view_rel leaf_eq (reference_view (sig_of e fn) args') (reference_view (sig_of e fn) args).
Proof. exact wdt_preserves_calls. Qed.
Print Assumptions C20_wdt_preserves_calls.

(* ------------------------------------------------------------------ the identity rebuild (clear_argument_history) *)

Theorem C20_clear_history_total : forall e h r s res,
  wf_b e h = true -> root_ok h r -> mrun e h (trim_node e) r = (s, res) -> exists r', res = inl r'.
Proof. exact clear_history_total. Qed.
Print Assumptions C20_clear_history_total.

Theorem C20_clear_history_pure : forall e h r s res,
  wf_b e h = true -> root_ok h r -> mrun e h (trim_node e) r = (s, res) ->
  firstn (length h) (out s) = h /\ (length h <= length (out s))%nat.
Proof. exact clear_history_pure. Qed.
Print Assumptions C20_clear_history_pure.

Theorem C20_clear_history_once : forall e h r s res,
  wf_b e h = true -> root_ok h r -> mrun e h (trim_node e) r = (s, res) -> NoDup (log s).
Proof. exact clear_history_once. Qed.
Print Assumptions C20_clear_history_once.

Theorem C20_clear_history_faithful : forall e h r s res,
  wf_b e h = true -> root_ok h r -> mrun e h (trim_node e) r = (s, res) ->
  (forall i n, creach e h r i -> nth_error h i = Some n -> node_canonical e n) ->
  forall r', res = inl r' ->
  bij_wf (memo_bij (memo s)) /\ simulates h (out s) (memo_bij (memo s)) /\
  rel_ref (memo_bij (memo s)) r r'.
Proof. exact clear_history_faithful. Qed.
Print Assumptions C20_clear_history_faithful.

(* ------------------------------------------------------------------ simplify_partials *)

Theorem C20_simplify_total : forall e h r s res,
  wf_b e h = true -> root_ok h r -> simplify_partials e h r = (s, res) -> exists r', res = inl r'.
Proof. exact simplify_total. Qed.
Print Assumptions C20_simplify_total.

Theorem C20_simplify_pure : forall e h r s res,
  wf_b e h = true -> root_ok h r -> simplify_partials e h r = (s, res) ->
  firstn (length h) (out s) = h /\ (length h <= length (out s))%nat.
Proof. exact simplify_pure. Qed.
Print Assumptions C20_simplify_pure.

Theorem C20_simplify_once : forall e h r s res,
  wf_b e h = true -> root_ok h r -> simplify_partials e h r = (s, res) -> NoDup (log s).
Proof. exact simplify_once. Qed.
Print Assumptions C20_simplify_once.

Theorem C20_simplify_exactly_creach : forall e h r s res,
  wf_b e h = true -> root_ok h r -> simplify_partials e h r = (s, res) ->
  forall i, In i (log s) <-> creach e h r i.
Proof. exact simplify_exactly_creach. Qed.
Print Assumptions C20_simplify_exactly_creach.

(* an unconfigured Partial becomes its callable, every other container is rebuilt over the images
   of its children, everything else is kept *)
Theorem C20_simplify_mirrors : forall e h r s res,
  wf_b e h = true -> root_ok h r -> simplify_partials e h r = (s, res) ->
  forall i n ri, nth_error h i = Some n -> memo_get (memo s) i = Some ri ->
  exists rs, map (map_ref (memo s)) (children e n) = map Some rs /\
    ((traversable n = false /\ ri = RP i) \/
     (exists fn args tags, n = NBuildable BPartial fn args tags /\
                           nondefault_args e fn args = [] /\ ri = RA (ASym fn)) \/
     (traversable n = true /\
      exists k, ri = RP k /\ (length h <= k)%nat /\
                nth_error (out s) k = Some (with_children e n rs))).
Proof. exact simplify_mirrors. Qed.
Print Assumptions C20_simplify_mirrors.

(* ------------------------------------------------------------------ materialize_tags *)

Theorem C20_mattags_total : forall e h r s res,
  wf_b e h = true -> root_ok h r -> materialize_tags e h r = (s, res) -> exists r', res = inl r'.
Proof. exact mattags_total. Qed.
Print Assumptions C20_mattags_total.

Theorem C20_mattags_pure : forall e h r s res,
  wf_b e h = true -> root_ok h r -> materialize_tags e h r = (s, res) ->
  firstn (length h) (out s) = h /\ (length h <= length (out s))%nat.
Proof. exact mattags_pure. Qed.
Print Assumptions C20_mattags_pure.

Theorem C20_mattags_once : forall e h r s res,
  wf_b e h = true -> root_ok h r -> materialize_tags e h r = (s, res) -> NoDup (log s).
Proof. exact mattags_once. Qed.
Print Assumptions C20_mattags_once.

Theorem C20_mattags_exactly_creach : forall e h r s res,
  wf_b e h = true -> root_ok h r -> materialize_tags e h r = (s, res) ->
  forall i, In i (log s) <-> creach e h r i.
Proof. exact mattags_exactly_creach. Qed.
Print Assumptions C20_mattags_exactly_creach.

(* a TaggedValue holding a value becomes (the image of) that value *)
Theorem C20_mattags_mirrors : forall e h r s res,
  wf_b e h = true -> root_ok h r -> materialize_tags e h r = (s, res) ->
  forall i n ri, nth_error h i = Some n -> memo_get (memo s) i = Some ri ->
  exists rs, map (map_ref (memo s)) (children e n) = map Some rs /\
    ((traversable n = false /\ ri = RP i) \/
     (exists fn args tags, n = NBuildable BTagged fn args tags /\
        sget (combine (map fst (flat_args e fn args)) rs) (KName 0%N) = Some ri /\ ri <> NoValue) \/
     (traversable n = true /\
      exists k, ri = RP k /\ (length h <= k)%nat /\
                nth_error (out s) k = Some (with_children e n rs))).
Proof. exact mattags_mirrors. Qed.
Print Assumptions C20_mattags_mirrors.

(* non-vacuity at the graph level: [cfg, partial(f), TaggedValue(7), cfg] with cfg shared *)
Theorem C20_graph_nonvacuous :
  wf_b ex20_env ex20_heap = true /\
  nth_error (materialize_defaults ex20_env ex20_heap (RP 3)) 0 =
    Some (NBuildable BConfig 10
            [ (KPos 1, cx_int 20); (KName 4, cx_int 4); (KPos 0, cx_int 1); (KName 3, cx_int 3) ] []) /\
  nth_error (materialize_defaults ex20_env ex20_heap (RP 3)) 1 =
    Some (NBuildable BPartial 10
            [ (KPos 0, cx_int 1); (KPos 1, cx_int 2); (KName 3, cx_int 3); (KName 4, cx_int 4) ] []) /\
  (let sr := with_defaults_trimmed ex20_env (materialize_defaults ex20_env ex20_heap (RP 3)) (RP 3) in
   node_at sr = Some (NList [ RP 4; RP 5; RP 6; RP 4 ]) /\
   nth_error (out (fst sr)) 4 =
     Some (NBuildable BConfig 10 [ (KPos 0, cx_int 1); (KPos 1, cx_int 20) ] []) /\
   firstn 4 (out (fst sr)) = materialize_defaults ex20_env ex20_heap (RP 3)) /\
  node_at (simplify_partials ex20_env ex20_heap (RP 3)) =
    Some (NList [ RP 4; RA (ASym 10); RP 5; RP 4 ]) /\
  node_at (materialize_tags ex20_env ex20_heap (RP 3)) =
    Some (NList [ RP 4; RP 5; cx_int 7; RP 4 ]).
Proof. exact ex20_graph. Qed.
Print Assumptions C20_graph_nonvacuous.
