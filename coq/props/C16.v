(* C16 - argument history is a faithful, ordered log of edits.
   Model: History.hstep / hrun (History.v) over ArgStore.step_w; the boolean invariants
   seqs_ok_b and last_is_current_b are the ones C16Check tests against the implementation.
   This file contains statements only; proofs live in theories/History_proofs.v. *)
From Fiddle Require Import PyBase PySlice Sig ArgStore ArgSpec History History_proofs AnchorsEdit.

(* ---- 1. sequence numbers: below the counter, unique, increasing per key -- every operation *)
Theorem C16_seqs_ok_hstep :
  forall sg s o, seqs_ok_b s = true -> seqs_ok_b (fst (hstep sg s o)) = true.
Proof. exact seqs_ok_hstep. Qed.
Print Assumptions C16_seqs_ok_hstep.

Theorem C16_seqs_ok_hrun :
  forall sg ops s, seqs_ok_b s = true -> seqs_ok_b (hrun sg s ops) = true.
Proof. exact seqs_ok_hrun. Qed.
Print Assumptions C16_seqs_ok_hrun.

Theorem C16_counter_mono_hstep : forall sg s o, (b_counter s <= b_counter (fst (hstep sg s o)))%nat.
Proof. exact counter_mono_hstep. Qed.
Print Assumptions C16_counter_mono_hstep.

Theorem C16_counter_mono_hrun : forall sg ops s, (b_counter s <= b_counter (hrun sg s ops))%nat.
Proof. exact counter_mono_hrun. Qed.
Print Assumptions C16_counter_mono_hrun.

(* every entry of the new history is an old one or is numbered in [old counter, new counter) *)
Theorem C16_new_entries_hstep :
  forall sg s o en,
    In en (all_entries (b_hist (fst (hstep sg s o)))) ->
    In en (all_entries (b_hist s)) \/
    (b_counter s <= he_seq en < b_counter (fst (hstep sg s o)))%nat.
Proof. exact hstep_new_entries. Qed.
Print Assumptions C16_new_entries_hstep.

Theorem C16_new_entries_hrun :
  forall sg ops s en,
    In en (all_entries (b_hist (hrun sg s ops))) ->
    In en (all_entries (b_hist s)) \/ (b_counter s <= he_seq en < b_counter (hrun sg s ops))%nat.
Proof. exact hrun_new_entries. Qed.
Print Assumptions C16_new_entries_hrun.

(* append-only, key by key *)
Theorem C16_append_only_hrun :
  forall sg ops s k,
    exists suffix,
      hist_get (b_hist (hrun sg s ops)) k = hist_get (b_hist s) k ++ suffix /\
      (forall en, In en suffix -> (b_counter s <= he_seq en < b_counter (hrun sg s ops))%nat).
Proof. exact hrun_append_only. Qed.
Print Assumptions C16_append_only_hrun.

(* program order *)
Theorem C16_program_order :
  forall sg s ops e1 e2,
    seqs_ok_b s = true ->
    In e1 (all_entries (b_hist s)) ->
    In e2 (all_entries (b_hist (hrun sg s ops))) -> ~ In e2 (all_entries (b_hist s)) ->
    (he_seq e1 < he_seq e2)%nat.
Proof. exact hrun_program_order. Qed.
Print Assumptions C16_program_order.

(* ---- 2. suspended tracking *)
Theorem C16_suspended_appends_nothing :
  forall sg s o,
    b_tracking s = false -> o <> HSuspendBegin -> o <> HSuspendEnd ->
    b_hist (fst (hstep sg s o)) = b_hist s /\ b_counter (fst (hstep sg s o)) = b_counter s.
Proof.
  intros sg s o T N1 N2. apply suspended_hstep; [exact T|].
  destruct o; try reflexivity; congruence.
Qed.
Print Assumptions C16_suspended_appends_nothing.

Theorem C16_switch_untouched :
  forall sg s o,
    o <> HSuspendBegin -> o <> HSuspendEnd ->
    b_tracking (fst (hstep sg s o)) = b_tracking s /\ b_stack (fst (hstep sg s o)) = b_stack s.
Proof.
  intros sg s o N1 N2. apply hstep_switch_same. destruct o; try reflexivity; congruence.
Qed.
Print Assumptions C16_switch_untouched.

(* balanced ops = depth_after 0 ops = Some 0: every end has a begin and all begins are closed *)
Theorem C16_balanced_restores :
  forall sg s ops,
    balanced ops ->
    b_tracking (hrun sg s ops) = b_tracking s /\ b_stack (hrun sg s ops) = b_stack s.
Proof. exact balanced_restores. Qed.
Print Assumptions C16_balanced_restores.

Theorem C16_suspend_block :
  forall sg s ops,
    balanced ops ->
    let s' := hrun sg s (HSuspendBegin :: ops ++ [HSuspendEnd]) in
    b_tracking s' = b_tracking s /\ b_stack s' = b_stack s /\
    b_hist s' = b_hist s /\ b_counter s' = b_counter s.
Proof. exact suspend_block. Qed.
Print Assumptions C16_suspend_block.

(* ---- 3. the history is unobservable (same_core = equal b_args and equal b_tags) *)
Theorem C16_history_unobservable_hstep :
  forall sg s1 s2 o,
    b_args s1 = b_args s2 /\ b_tags s1 = b_tags s2 ->
    (b_args (fst (hstep sg s1 o)) = b_args (fst (hstep sg s2 o)) /\
     b_tags (fst (hstep sg s1 o)) = b_tags (fst (hstep sg s2 o))) /\
    snd (hstep sg s1 o) = snd (hstep sg s2 o).
Proof. exact hstep_core. Qed.
Print Assumptions C16_history_unobservable_hstep.

Theorem C16_history_unobservable_hrun :
  forall sg ops s1 s2,
    same_core s1 s2 ->
    same_core (hrun sg s1 ops) (hrun sg s2 ops) /\ houts sg s1 ops = houts sg s2 ops.
Proof. exact hrun_core. Qed.
Print Assumptions C16_history_unobservable_hrun.

Theorem C16_suspend_ops_change_nothing :
  forall sg s o,
    is_suspend o = true ->
    (b_args (fst (hstep sg s o)) = b_args s /\ b_tags (fst (hstep sg s o)) = b_tags s) /\
    snd (hstep sg s o) = OUnit.
Proof. exact hstep_suspend_core. Qed.
Print Assumptions C16_suspend_ops_change_nothing.

(* ---- 4. one entry per primitive write, in order, numbered counter, counter+1, ... *)
Theorem C16_edit_entries :
  forall sg s ed,
    b_tracking s = true ->
    let writes := snd (fst (step_w sg (b_args s) ed)) in
    let s' := fst (hstep sg s (HEdit ed)) in
    b_hist s' = hreplay (b_hist s) (b_counter s) (map write_entry writes) /\
    b_counter s' = (b_counter s + length writes)%nat /\
    length (all_entries (b_hist s')) = (length (all_entries (b_hist s)) + length writes)%nat /\
    b_args s' = fst (fst (step_w sg (b_args s) ed)) /\ b_tags s' = b_tags s.
Proof. exact edit_entries. Qed.
Print Assumptions C16_edit_entries.

Theorem C16_edit_entries_indexed :
  forall sg s ed,
    b_tracking s = true ->
    let writes := snd (fst (step_w sg (b_args s) ed)) in
    b_hist (fst (hstep sg s (HEdit ed))) =
    fold_left (fun h iw => hist_append h (fst (snd iw)) (mk_he (b_counter s + fst iw) (snd (snd iw))))
              (combine (seq 0 (length writes)) (map write_entry writes)) (b_hist s).
Proof. exact edit_entries_indexed. Qed.
Print Assumptions C16_edit_entries_indexed.

(* ---- 5. the last entry is current *)
(* the write log of every edit replays to the final store (delete only of present keys) *)
Theorem C16_step_w_replay :
  forall sg args o,
    replay_writes args (snd (fst (step_w sg args o))) = Some (fst (fst (step_w sg args o))).
Proof. exact step_w_replay. Qed.
Print Assumptions C16_step_w_replay.

Theorem C16_step_w_keys_distinct :
  forall sg args o,
    keys_distinct args = true -> keys_distinct (fst (fst (step_w sg args o))) = true.
Proof. exact step_w_keys_distinct. Qed.
Print Assumptions C16_step_w_keys_distinct.

(* the requested statement is false when the history lists a key twice ... *)
Theorem C16_last_is_current_counterexample :
  exists sg s o,
    b_tracking s = true /\ keys_distinct (b_args s) = true /\ last_is_current_b s = true /\
    seqs_ok_b s = true /\ is_suspend o = false /\
    last_is_current_b (fst (hstep sg s o)) = false.
Proof. exact last_is_current_needs_distinct_history_keys. Qed.
Print Assumptions C16_last_is_current_counterexample.

(* ... and holds for every operation when the history keys are distinct (a dict) *)
Theorem C16_last_is_current_hstep_partial :
  forall sg s o,
    b_tracking s = true -> keys_distinct (b_args s) = true -> NoDup (map fst (b_hist s)) ->
    last_is_current_b s = true -> is_suspend o = false ->
    last_is_current_b (fst (hstep sg s o)) = true.
Proof. exact last_is_current_hstep_partial. Qed.
Print Assumptions C16_last_is_current_hstep_partial.

(* the three hypotheses form an invariant of every step taken with tracking on (or a switch) *)
Theorem C16_hist_inv_hstep :
  forall sg s o,
    hist_inv s -> b_tracking s = true \/ is_suspend o = true -> hist_inv (fst (hstep sg s o)).
Proof. exact hist_inv_hstep. Qed.
Print Assumptions C16_hist_inv_hstep.

Theorem C16_last_is_current_hrun_partial :
  forall sg s ops,
    b_tracking s = true -> keys_distinct (b_args s) = true -> NoDup (map fst (b_hist s)) ->
    last_is_current_b s = true -> forallb (fun o => negb (is_suspend o)) ops = true ->
    last_is_current_b (hrun sg s ops) = true.
Proof. exact last_is_current_hrun_partial. Qed.
Print Assumptions C16_last_is_current_hrun_partial.

(* tracked_run: every operation other than the switch runs with tracking on (C16Check's `clean`) *)
Theorem C16_last_is_current_tracked_run :
  forall sg s ops,
    keys_distinct (b_args s) = true -> NoDup (map fst (b_hist s)) -> last_is_current_b s = true ->
    tracked_run sg s ops = true -> last_is_current_b (hrun sg s ops) = true.
Proof. exact last_is_current_tracked_run. Qed.
Print Assumptions C16_last_is_current_tracked_run.

Theorem C16_hist_inv_hrun :
  forall sg ops s, hist_inv s -> tracked_run sg s ops = true -> hist_inv (hrun sg s ops).
Proof. exact hist_inv_hrun. Qed.
Print Assumptions C16_hist_inv_hrun.

(* the two side conditions are invariants of every run, tracked or not *)
Theorem C16_side_conditions_hrun :
  forall sg ops s,
    keys_distinct (b_args s) = true -> NoDup (map fst (b_hist s)) ->
    keys_distinct (b_args (hrun sg s ops)) = true /\ NoDup (map fst (b_hist (hrun sg s ops))).
Proof. exact side_conditions_hrun. Qed.
Print Assumptions C16_side_conditions_hrun.

Theorem C16_tag_ops_keep_args :
  forall sg s o,
    match o with HEdit _ => False | _ => True end -> b_args (fst (hstep sg s o)) = b_args s.
Proof. exact tag_ops_keep_args. Qed.
Print Assumptions C16_tag_ops_keep_args.

(* from a configuration whose history is still empty both invariants hold after any tracked run *)
Theorem C16_invariants_from_empty_history :
  forall sg args tags c tr st ops,
    keys_distinct args = true ->
    tracked_run sg (mk_bs args tags [] c tr st) ops = true ->
    last_is_current_b (hrun sg (mk_bs args tags [] c tr st) ops) = true /\
    seqs_ok_b (hrun sg (mk_bs args tags [] c tr st) ops) = true.
Proof. exact last_is_current_from_empty. Qed.
Print Assumptions C16_invariants_from_empty_history.

(* an edit under suspended tracking breaks it, as designed *)
Theorem C16_last_is_current_needs_tracking :
  let ops := [HSuspendBegin; HEdit (OSetAttr 2%N (RA (AInt 3))); HSuspendEnd] in
  hist_inv cx_tracked /\ seqs_ok_b (hrun cx_sig cx_tracked ops) = true /\
  b_hist (hrun cx_sig cx_tracked ops) = b_hist cx_tracked /\
  last_is_current_b (hrun cx_sig cx_tracked ops) = false.
Proof. exact last_is_current_needs_tracking. Qed.
Print Assumptions C16_last_is_current_needs_tracking.

(* ---- 6. non-vacuity *)
Theorem C16_example_hypotheses :
  valid_sig ex16_sig = true /\ inv ex16_sig (b_args ex16_state) /\
  b_tracking ex16_state = true /\ hist_inv ex16_state /\ seqs_ok_b ex16_state = true /\
  tracked_run ex16_sig ex16_state ex16_ops = true /\ length ex16_ops = 11%nat.
Proof. exact ex16_hypotheses. Qed.
Print Assumptions C16_example_hypotheses.

Theorem C16_example_invariants :
  invariants_along ex16_sig ex16_state ex16_ops = true /\
  b_counter (hrun ex16_sig ex16_state ex16_ops) = 17%nat /\
  seqs_ok_b (hrun ex16_sig ex16_state ex16_ops) = true /\
  last_is_current_b (hrun ex16_sig ex16_state ex16_ops) = true.
Proof.
  split; [exact (proj1 ex16_run)|]. split; [|exact ex16_by_theorem].
  rewrite (proj2 (proj2 ex16_run)). reflexivity.
Qed.
Print Assumptions C16_example_invariants.
