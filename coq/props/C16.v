(* C16 - argument history is a faithful, ordered log of edits. *)
From Fiddle Require Import PyBase PySlice Sig ArgStore History Anchors.

Example C16_placeholder : True. Proof. exact I. Qed.
