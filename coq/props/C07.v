(* C07 - copies are faithful and independent.
   Deep copies (copy.deepcopy, pickle round trip) are runs of the memoized traversal with
   Copy.copy_node on a well-formed heap with a valid root; shallow copies / casts are Copy.shallow.
   The correspondence checks compare object graphs with the isomorphism checker Traverse.iso,
   whose soundness is the first group of theorems.
   Proofs: theories/Iso_proofs.v, theories/Copy_proofs.v (on top of Traverse_proofs.v). *)
From Fiddle Require Import PyBase PySlice Sig ArgStore PyCall Heap Traverse Build Build_stmt
  Traverse_proofs C08Check Copy Iso_proofs Copy_proofs.
From Coq Require Import List Arith.
Import ListNotations.
Local Open Scope nat_scope.

(* ------------------------------------------------------------------------------------------ *)
(* A. the isomorphism checker is sound *)

Theorem C07_iso_sound : forall h1 h2 fuel r1 r2 m,
  iso h1 h2 fuel [] r1 r2 = Some m ->
  bij_wf m /\ simulates h1 h2 m /\ rel_ref m r1 r2.
Proof. exact iso_sound. Qed.
Print Assumptions C07_iso_sound.

(* started from any bijection m0: the result extends m0, stays one-to-one if m0 was, every pair
   it adds is simulated with respect to the result, and the two references correspond *)
Theorem C07_iso_sound_gen : forall h1 h2 fuel m0 r1 r2 m,
  iso h1 h2 fuel m0 r1 r2 = Some m ->
  (exists ext, m = ext ++ m0 /\ (bij_wf m0 -> bij_wf m) /\
               (forall i j, In (i, j) ext -> sim_pair h1 h2 m i j)) /\
  rel_ref m r1 r2.
Proof. exact iso_sound_gen. Qed.
Print Assumptions C07_iso_sound_gen.

Theorem C07_iso_sound_from : forall h1 h2 fuel m0 r1 r2 m,
  bij_wf m0 -> simulates h1 h2 m0 -> iso h1 h2 fuel m0 r1 r2 = Some m ->
  incl m0 m /\ bij_wf m /\ simulates h1 h2 m /\ rel_ref m r1 r2.
Proof. exact iso_sound_from. Qed.
Print Assumptions C07_iso_sound_from.

Theorem C07_iso_b_sound : forall h1 h2 r1 r2,
  iso_b h1 h2 r1 r2 = true -> exists m, bij_wf m /\ simulates h1 h2 m /\ rel_ref m r1 r2.
Proof. exact iso_b_sound. Qed.
Print Assumptions C07_iso_b_sound.

Theorem C07_shape_refs_determine : forall n1 n2,
  shape n1 = shape n2 -> refs_of n1 = refs_of n2 -> n1 = n2.
Proof. exact shape_refs_determine. Qed.
Print Assumptions C07_shape_refs_determine.

Theorem C07_simulates_same_refs : forall h1 h2 m i j n1 n2,
  simulates h1 h2 m -> In (i, j) m -> nth_error h1 i = Some n1 -> nth_error h2 j = Some n2 ->
  refs_of n1 = refs_of n2 -> n1 = n2.
Proof. exact simulates_same_refs. Qed.
Print Assumptions C07_simulates_same_refs.

(* ------------------------------------------------------------------------------------------ *)
(* B. deep copy *)

Theorem C07_deepcopy_total : forall e pickle h r s res,
  wf_b e h = true -> root_ok h r -> mrun e h (copy_node e pickle) r = (s, res) ->
  exists r', res = inl r'.
Proof. exact deepcopy_total. Qed.
Print Assumptions C07_deepcopy_total.

Theorem C07_deepcopy_pure : forall e pickle h r s res,
  wf_b e h = true -> root_ok h r -> mrun e h (copy_node e pickle) r = (s, res) ->
  firstn (length h) (out s) = h /\ length h <= length (out s).
Proof. exact deepcopy_pure. Qed.
Print Assumptions C07_deepcopy_pure.

Theorem C07_deepcopy_once : forall e pickle h r s res,
  wf_b e h = true -> root_ok h r -> mrun e h (copy_node e pickle) r = (s, res) ->
  NoDup (log s).
Proof. exact deepcopy_once. Qed.
Print Assumptions C07_deepcopy_once.

Theorem C07_deepcopy_memo_function : forall e pickle h r s res,
  wf_b e h = true -> root_ok h r -> mrun e h (copy_node e pickle) r = (s, res) ->
  NoDup (map fst (memo s)) /\ (forall i, In i (log s) <-> In i (map fst (memo s))).
Proof. exact deepcopy_memo_function. Qed.
Print Assumptions C07_deepcopy_memo_function.

Theorem C07_deepcopy_exactly_creach : forall e pickle h r s res,
  wf_b e h = true -> root_ok h r -> mrun e h (copy_node e pickle) r = (s, res) ->
  forall i, In i (log s) <-> creach e h r i.
Proof. exact deepcopy_exactly_creach. Qed.
Print Assumptions C07_deepcopy_exactly_creach.

Theorem C07_deepcopy_root_image : forall e pickle h r s res,
  wf_b e h = true -> root_ok h r -> mrun e h (copy_node e pickle) r = (s, res) ->
  forall r', res = inl r' -> map_ref (memo s) r = Some r'.
Proof. exact deepcopy_root_image. Qed.
Print Assumptions C07_deepcopy_root_image.

(* copy_kept pickle n rs: n is a tuple all of whose children came back identical (deepcopy only),
   or a non-traversable node other than a set *)
Theorem C07_deepcopy_mirrors : forall e pickle h r s res,
  wf_b e h = true -> root_ok h r -> mrun e h (copy_node e pickle) r = (s, res) ->
  forall i n ri,
    In i (log s) -> nth_error h i = Some n -> memo_get (memo s) i = Some ri ->
    exists rs, map (map_ref (memo s)) (children e n) = map Some rs /\
      ((ri = RP i /\
        ((pickle = false /\ exists xs, n = NTuple xs /\ rs = xs) \/
         (traversable n = false /\ is_set n = false))) \/
       (exists k, ri = RP k /\ length h <= k /\
                  nth_error (out s) k = Some (with_children e n rs) /\
                  ~ ((pickle = false /\ exists xs, n = NTuple xs /\ rs = xs) \/
                     (traversable n = false /\ is_set n = false)))).
Proof. exact deepcopy_mirrors. Qed.
Print Assumptions C07_deepcopy_mirrors.

Theorem C07_deepcopy_set : forall e pickle h r s res,
  wf_b e h = true -> root_ok h r -> mrun e h (copy_node e pickle) r = (s, res) ->
  forall i fz xs ri,
    nth_error h i = Some (NSet fz xs) -> memo_get (memo s) i = Some ri ->
    exists k, ri = RP k /\ length h <= k /\ nth_error (out s) k = Some (NSet fz xs).
Proof. exact deepcopy_set. Qed.
Print Assumptions C07_deepcopy_set.

(* every result is the object itself or a new object; distinct objects have distinct results *)
Theorem C07_deepcopy_fresh_distinct : forall e pickle h r s res,
  wf_b e h = true -> root_ok h r -> mrun e h (copy_node e pickle) r = (s, res) ->
  forall i j ri rj,
    memo_get (memo s) i = Some ri -> memo_get (memo s) j = Some rj ->
    ((ri = RP i /\ i < length h) \/ (exists k, ri = RP k /\ length h <= k < length (out s))) /\
    (i <> j -> ri <> rj).
Proof. exact deepcopy_fresh_distinct. Qed.
Print Assumptions C07_deepcopy_fresh_distinct.

(* nothing but copies of processed objects is allocated *)
Theorem C07_deepcopy_covered : forall e pickle h r s res,
  wf_b e h = true -> root_ok h r -> mrun e h (copy_node e pickle) r = (s, res) ->
  forall k, length h <= k < length (out s) -> exists i, memo_get (memo s) i = Some (RP k).
Proof. exact deepcopy_covered. Qed.
Print Assumptions C07_deepcopy_covered.

(* FAITHFUL.  For configurations in canonical encoding (node_canonical: Buildable arguments stored
   in signature order, no empty tag sets, no built objects; this is the encoding the harness
   emits, checkable with heap_canonical_b), the memo is a one-to-one correspondence between the
   originals and their copies under which corresponding nodes have the same data and
   corresponding references, and it relates the root to the result.  Without the hypothesis the
   statement is false: C07_deepcopy_faithful_needs_canonical. *)
Theorem C07_deepcopy_faithful_partial : forall e pickle h r s res,
  wf_b e h = true -> root_ok h r -> mrun e h (copy_node e pickle) r = (s, res) ->
  (forall i n, creach e h r i -> nth_error h i = Some n -> node_canonical e n) ->
  forall r', res = inl r' ->
    bij_wf (memo_bij (memo s)) /\ simulates h (out s) (memo_bij (memo s)) /\
    rel_ref (memo_bij (memo s)) r r'.
Proof. exact deepcopy_faithful. Qed.
Print Assumptions C07_deepcopy_faithful_partial.

(* INDEPENDENT.  Whatever the copy reaches, through any stored reference, is a new object, or an
   old object that is legitimately shared: a tuple that deepcopy returned as it is (then
   everything below it is shared and immutable too) or an opaque leaf object.  After a pickle
   round trip only opaque leaves.  Without the hypothesis the statement is false:
   C07_deepcopy_independent_needs_canonical. *)
Theorem C07_deepcopy_independent_partial : forall e pickle h r s res,
  wf_b e h = true -> root_ok h r -> mrun e h (copy_node e pickle) r = (s, res) ->
  (forall i n, creach e h r i -> nth_error h i = Some n -> node_canonical e n) ->
  forall r', res = inl r' ->
  forall k, rreach (out s) r' k ->
    length h <= k \/
    (k < length h /\ memo_get (memo s) k = Some (RP k) /\
     exists n, nth_error h k = Some n /\
               ((pickle = false /\ exists xs, n = NTuple xs) \/ exists x, n = NOpaque x)).
Proof. exact deepcopy_independent. Qed.
Print Assumptions C07_deepcopy_independent_partial.

Theorem C07_heap_canonical_b_spec : forall e h,
  heap_canonical_b e h = true ->
  forall (r : ref) i n, creach e h r i -> nth_error h i = Some n -> node_canonical e n.
Proof. exact heap_canonical_b_spec. Qed.
Print Assumptions C07_heap_canonical_b_spec.

Theorem C07_deepcopy_faithful_needs_canonical :
  exists e pickle h r s r',
    wf_b e h = true /\ root_ok h r /\ mrun e h (copy_node e pickle) r = (s, inl r') /\
    ~ simulates h (out s) (memo_bij (memo s)) /\ iso_b (out s) (out s) r r' = false.
Proof. exact deepcopy_faithful_needs_canonical. Qed.
Print Assumptions C07_deepcopy_faithful_needs_canonical.

Theorem C07_deepcopy_independent_needs_canonical :
  exists e pickle h r s r' k,
    wf_b e h = true /\ root_ok h r /\ mrun e h (copy_node e pickle) r = (s, inl r') /\
    rreach (out s) r' k /\ k < length h /\ memo_get (memo s) k = None /\
    nth_error h k = Some (NList []).
Proof. exact deepcopy_independent_needs_canonical. Qed.
Print Assumptions C07_deepcopy_independent_needs_canonical.

(* ------------------------------------------------------------------------------------------ *)
(* C. shallow copy and cast *)

Theorem C07_shallow_spec : forall e k' h r h' r',
  shallow e k' h r = Some (h', r') ->
  exists i kind fn args tags,
    r = RP i /\ nth_error h i = Some (NBuildable kind fn args tags) /\
    r' = RP (length h) /\ firstn (length h) h' = h /\
    nth_error h' (length h) =
      Some (NBuildable (match k' with Some x => x | None => kind end) fn (flat_args e fn args)
              (filter (fun kt => match snd kt with [] => false | _ => true end) tags)).
Proof. exact shallow_spec. Qed.
Print Assumptions C07_shallow_spec.

Theorem C07_shallow_one_node : forall e k' h r h' r',
  shallow e k' h r = Some (h', r') -> exists nd, h' = h ++ [nd].
Proof. exact shallow_one_node. Qed.
Print Assumptions C07_shallow_one_node.

(* ------------------------------------------------------------------------------------------ *)
(* D. identity rebuild (re-exported for C08) *)

Theorem C07_rebuild_total : forall e h r s res,
  wf_b e h = true -> root_ok h r -> mrun e h (rebuild_node e) r = (s, res) ->
  exists r', res = inl r'.
Proof. exact rebuild_total. Qed.
Print Assumptions C07_rebuild_total.

Theorem C07_rebuild_pure : forall e h r s res,
  wf_b e h = true -> root_ok h r -> mrun e h (rebuild_node e) r = (s, res) ->
  firstn (length h) (out s) = h /\ length h <= length (out s).
Proof. exact rebuild_pure. Qed.
Print Assumptions C07_rebuild_pure.

Theorem C07_rebuild_once : forall e h r s res,
  wf_b e h = true -> root_ok h r -> mrun e h (rebuild_node e) r = (s, res) ->
  NoDup (log s).
Proof. exact rebuild_once. Qed.
Print Assumptions C07_rebuild_once.

Theorem C07_rebuild_memo_function : forall e h r s res,
  wf_b e h = true -> root_ok h r -> mrun e h (rebuild_node e) r = (s, res) ->
  NoDup (map fst (memo s)) /\ (forall i, In i (log s) <-> In i (map fst (memo s))).
Proof. exact rebuild_memo_function. Qed.
Print Assumptions C07_rebuild_memo_function.

Theorem C07_rebuild_exactly_creach : forall e h r s res,
  wf_b e h = true -> root_ok h r -> mrun e h (rebuild_node e) r = (s, res) ->
  forall i, In i (log s) <-> creach e h r i.
Proof. exact rebuild_exactly_creach. Qed.
Print Assumptions C07_rebuild_exactly_creach.

Theorem C07_rebuild_root_image : forall e h r s res,
  wf_b e h = true -> root_ok h r -> mrun e h (rebuild_node e) r = (s, res) ->
  forall r', res = inl r' -> map_ref (memo s) r = Some r'.
Proof. exact rebuild_root_image. Qed.
Print Assumptions C07_rebuild_root_image.

Theorem C07_rebuild_mirrors : forall e h r s res,
  wf_b e h = true -> root_ok h r -> mrun e h (rebuild_node e) r = (s, res) ->
  forall i n ri,
    In i (log s) -> nth_error h i = Some n -> memo_get (memo s) i = Some ri ->
    exists rs, map (map_ref (memo s)) (children e n) = map Some rs /\
      if traversable n
      then exists k, ri = RP k /\ length h <= k /\ nth_error (out s) k = Some (with_children e n rs)
      else ri = RP i.
Proof. exact rebuild_mirrors. Qed.
Print Assumptions C07_rebuild_mirrors.

Theorem C07_rebuild_fresh_distinct : forall e h r s res,
  wf_b e h = true -> root_ok h r -> mrun e h (rebuild_node e) r = (s, res) ->
  forall i j ri rj,
    memo_get (memo s) i = Some ri -> memo_get (memo s) j = Some rj ->
    ((ri = RP i /\ i < length h) \/ (exists k, ri = RP k /\ length h <= k < length (out s))) /\
    (i <> j -> ri <> rj).
Proof. exact rebuild_fresh_distinct. Qed.
Print Assumptions C07_rebuild_fresh_distinct.

Theorem C07_rebuild_covered : forall e h r s res,
  wf_b e h = true -> root_ok h r -> mrun e h (rebuild_node e) r = (s, res) ->
  forall k, length h <= k < length (out s) -> exists i, memo_get (memo s) i = Some (RP k).
Proof. exact rebuild_covered. Qed.
Print Assumptions C07_rebuild_covered.

Theorem C07_rebuild_faithful_partial : forall e h r s res,
  wf_b e h = true -> root_ok h r -> mrun e h (rebuild_node e) r = (s, res) ->
  (forall i n, creach e h r i -> nth_error h i = Some n -> node_canonical e n) ->
  forall r', res = inl r' ->
    bij_wf (memo_bij (memo s)) /\ simulates h (out s) (memo_bij (memo s)) /\
    rel_ref (memo_bij (memo s)) r r'.
Proof. exact rebuild_faithful. Qed.
Print Assumptions C07_rebuild_faithful_partial.

Theorem C07_rebuild_independent_partial : forall e h r s res,
  wf_b e h = true -> root_ok h r -> mrun e h (rebuild_node e) r = (s, res) ->
  (forall i n, creach e h r i -> nth_error h i = Some n -> node_canonical e n) ->
  forall r', res = inl r' ->
  forall k, rreach (out s) r' k ->
    length h <= k \/
    (k < length h /\ memo_get (memo s) k = Some (RP k) /\
     exists n, nth_error h k = Some n /\
               ((exists fz xs, n = NSet fz xs) \/ exists x, n = NOpaque x)).
Proof. exact rebuild_independent. Qed.
Print Assumptions C07_rebuild_independent_partial.

(* ------------------------------------------------------------------------------------------ *)
(* E. non-vacuity *)

Theorem C07_deepcopy_example :
  wf_b ex_env ex_heap = true /\
  (let '(s, res) := deepcopy ex_env false ex_heap (RP 5) in
   res = inl (RP 10) /\
   iso_b (out s) (out s) (RP 5) (RP 10) = true /\
   memo_get (memo s) 0 = Some (RP 6) /\
   nth_error (out s) 7 = Some (NBuildable BConfig 11%N [(KName 1%N, RP 6)] []) /\
   nth_error (out s) 8 =
     Some (NBuildable BPartial 12%N [(KName 2%N, RP 6); (KName 3%N, RP 2)] [(KName 2%N, [5%N])]) /\
   memo_get (memo s) 2 = Some (RP 2) /\
   firstn 6 (out s) = ex_heap) /\
  (let '(s, res) := deepcopy ex_env true ex_heap (RP 5) in
   res = inl (RP 11) /\
   iso_b (out s) (out s) (RP 5) (RP 11) = true /\
   memo_get (memo s) 2 = Some (RP 8) /\
   firstn 6 (out s) = ex_heap).
Proof. exact deepcopy_example. Qed.
Print Assumptions C07_deepcopy_example.

Theorem C07_deepcopy_example_sharing_matters :
  let '(s, res) := deepcopy ex_env false ex_heap (RP 5) in
  iso_b (out s) ex_heap_unshared (RP 10) (RP 6) = false /\
  iso_b ex_heap ex_heap_unshared (RP 5) (RP 6) = false.
Proof. exact deepcopy_example_sharing_matters. Qed.
Print Assumptions C07_deepcopy_example_sharing_matters.

Theorem C07_ex_heap_canonical : heap_canonical_b ex_env ex_heap = true.
Proof. exact ex_heap_canonical. Qed.
Print Assumptions C07_ex_heap_canonical.
