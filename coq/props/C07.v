(* C07 - copies are faithful and independent. *)
From Fiddle Require Import PyBase PySlice Sig ArgStore PyCall Heap Traverse Copy Anchors.

Example C07_placeholder : True. Proof. exact I. Qed.
