(* C11 - auto_config: building as_buildable() equals calling the function. *)
From Fiddle Require Import PyBase PySlice Sig ArgStore PyCall Heap Traverse Build Lang Anchors.

Example C11_placeholder : True. Proof. exact I. Qed.
