(* C11 - auto_config: building as_buildable() equals calling the function.
   "For every function in auto_config's supported subset, fdl.build(fn.as_buildable( *args ))
    produces an object graph structurally identical in values, types and sharing to the one
    returned by fn( *args ); as_buildable itself invokes none of the configurable callables."

   Model: Lang.v (straight-line configuration programs with ONE evaluator: cfg = false runs the
   function, cfg = true is what as_buildable computes), Build.build_node + Traverse.mrun (fdl.build),
   PyCall.py_call (CPython's argument binding), Lang.norm_heap (functools.partial objects compared
   up to argument binding).  Statements only; proofs are in theories/Lang_proofs.v.

   Hypotheses of the main theorem:
     valid_sig / atom defaults - every callable has a valid Python parameter list whose default
       values are immutable leaves (a default is not configured, so it is not rebuilt);
     wf_b, Forall <plain container>, ref_below - the argument objects are well-formed (acyclic)
       lists / tuples / dicts / namedtuples of leaves and of each other: fdl.build copies such
       containers, it does not copy arbitrary objects (C11_needs_plain_args shows that the
       statement is false for an argument object that shares a list with another argument);
     both evaluations succeed (neither as_buildable nor the call raises TypeError).
   Isomorphism is stated as in C07 (Iso_proofs): a one-to-one correspondence m between object ids
   (bij_wf) under which corresponding objects have the same type and non-reference data and
   corresponding references (simulates), and which relates the two roots (rel_ref). *)
From Fiddle Require Import PyBase PySlice Sig ArgStore PyCall Heap Traverse Build Build_stmt
  Iso_proofs C02Check Lang Lang_proofs AnchorsBuild.
From Coq Require Import List.
Import ListNotations.
Local Open Scope nat_scope.

(* 1. as_buildable( *args ) invokes nothing: whether it succeeds or raises, it leaves the argument
   objects untouched (the initial heap is a prefix of the result) and everything it creates is a
   list, a tuple, a dict, a Config or a Partial (without tags) - never the result of calling a
   configurable callable (NObj), never a functools.partial (NPartialObj). *)
Theorem C11_as_buildable_no_invocation : forall e fuel args o p hc res,
  run_program e true fuel args o p = (hc, res) ->
  exists d, hc = o ++ d /\
    Forall (fun n => match n with
                     | NList _ | NTuple _ | NDict _ => True
                     | NBuildable BConfig _ _ [] | NBuildable BPartial _ _ [] => True
                     | _ => False
                     end) d.
Proof. exact as_buildable_no_invocation. Qed.
Print Assumptions C11_as_buildable_no_invocation.

Example C11_as_buildable_no_invocation_nonvacuous :
  exists hc rc, run_program ex_env true 10 ex_args ex_heap ex_prog = (hc, Some rc).
Proof. do 2 eexists. vm_compute. reflexivity. Qed.

(* 2. The Config that as_buildable makes from a call site f(ps, **ks) (inspect's bind_partial
   into Fiddle's storage format) is called by fdl.build - ordered arguments, build-time
   transformation, CPython binding - with exactly the view vw that the direct call gives f:
   build_node allocates NObj f vw.  (Argument values stand for themselves here; the next theorem
   is the same with built arguments.) *)
Theorem C11_binding_agrees : forall e fails i fn ps ks st vw o,
  valid_sig (sig_of e fn) = true ->
  signature_binding (sig_of e fn) ps ks = Some st ->
  py_call (sig_of e fn) ps (map (fun kv => (KName (fst kv), snd kv)) ks) = Some vw ->
  fails i = None ->
  build_node e fails i (NBuildable BConfig fn st []) (map snd (flat_args e fn st)) o
  = (o ++ [NObj fn vw], inl (RP (length o))).
Proof. exact binding_agrees. Qed.
Print Assumptions C11_binding_agrees.

(* ... and when every argument x has been built into mu x (mu leaves the callee's defaults alone),
   the callee observes the direct call's view with every value replaced by what it was built into *)
Theorem C11_binding_agrees_built : forall e fn ps ks st vw (mu : ref -> ref),
  valid_sig (sig_of e fn) = true ->
  (forall p d, In p (sig_of e fn) -> pdefault p = Some d -> mu d = d) ->
  signature_binding (sig_of e fn) ps ks = Some st ->
  py_call (sig_of e fn) ps (map (fun kv => (KName (fst kv), snd kv)) ks) = Some vw ->
  build1 (sig_of e fn)
    (combine (map fst (flat_args e fn st)) (map mu (map snd (flat_args e fn st))))
  = Some (map (fun nx => (fst nx,
                          match snd nx with
                          | PV v => PV (mu v)
                          | PTuple l => PTuple (map mu l)
                          | PDict d => PDict (map (fun kv => (fst kv, mu (snd kv))) d)
                          end)) vw).
Proof. exact binding_agrees_gen. Qed.
Print Assumptions C11_binding_agrees_built.

(* fb(x, /, y, *args, k=0, **kw) called as fb(1, 2, 3, k=4, z=5) *)
Example C11_binding_agrees_nonvacuous :
  valid_sig (sig_of ex_env 11) = true /\
  (exists st, signature_binding (sig_of ex_env 11) [RA (AInt 1); RA (AInt 2); RA (AInt 3)]
                [(6%N, RA (AInt 4)); (9%N, RA (AInt 5))] = Some st) /\
  (exists vw, py_call (sig_of ex_env 11) [RA (AInt 1); RA (AInt 2); RA (AInt 3)]
                (map (fun kv => (KName (fst kv), snd kv)) [(6%N, RA (AInt 4)); (9%N, RA (AInt 5))])
              = Some vw).
Proof. split; [reflexivity |]. split; eexists; vm_compute; reflexivity. Qed.

(* 3. The main theorem: whenever as_buildable( *args ) and fn( *args ) both succeed, fdl.build of
   the configuration succeeds (no TypeError, no cycle, enough fuel) and the object graph it
   returns is isomorphic - values, types, sharing - to the one the function returns. *)
Theorem C11_build_equals_call : forall e fuel args o p hc rc hp rp,
  (forall fn, valid_sig (sig_of e fn) = true) ->
  (forall fn q i, In q (sig_of e fn) -> pdefault q <> Some (RP i)) ->
  wf_b e o = true ->
  Forall (fun n => match n with
                   | NList _ | NTuple _ | NDict _ | NDefaultDict _ _ | NNamedTuple _ _ => True
                   | _ => False
                   end) o ->
  forallb (ref_below (length o)) args = true ->
  run_program e true fuel args o p = (hc, Some rc) ->
  run_program e false fuel args o p = (hp, Some rp) ->
  exists s rb,
    mrun e hc (build_node e no_fail) rc = (s, inl rb) /\
    exists m, bij_wf m /\ simulates (norm_heap e (out s)) (norm_heap e hp) m /\ rel_ref m rb rp.
Proof. exact build_equals_call. Qed.
Print Assumptions C11_build_equals_call.

(* a program with a local used twice, a functools.partial and *args / **kwargs: every hypothesis
   holds, and the executable checker of C11Check agrees *)
Example C11_build_equals_call_nonvacuous :
  env_ok_b ex_env = true /\ wf_b ex_env ex_heap = true /\ forallb plain_b ex_heap = true /\
  forallb (ref_below (length ex_heap)) ex_args = true /\
  exists hc rc hp rp s rb,
    run_program ex_env true 10 ex_args ex_heap ex_prog = (hc, Some rc) /\
    run_program ex_env false 10 ex_args ex_heap ex_prog = (hp, Some rp) /\
    mrun ex_env hc (build_node ex_env no_fail) rc = (s, inl rb) /\
    iso_b (norm_heap ex_env (out s)) (norm_heap ex_env hp) rb rp = true.
Proof.
  repeat (split; [reflexivity |]). do 6 eexists.
  split; [vm_compute; reflexivity |]. split; [vm_compute; reflexivity |].
  split; [vm_compute; reflexivity |]. vm_compute. reflexivity.
Qed.

(* the boolean checks used above imply the hypotheses of the theorem *)
Theorem C11_checks_sound : forall e o,
  (env_ok_b e = true ->
   (forall fn, valid_sig (sig_of e fn) = true) /\
   (forall fn q i, In q (sig_of e fn) -> pdefault q <> Some (RP i))) /\
  (forallb plain_b o = true ->
   Forall (fun n => match n with
                    | NList _ | NTuple _ | NDict _ | NDefaultDict _ _ | NNamedTuple _ _ => True
                    | _ => False
                    end) o).
Proof. exact checks_sound. Qed.
Print Assumptions C11_checks_sound.

(* The restriction on the argument objects is necessary: with an argument that is an arbitrary
   object holding a list that is also passed as an argument, both evaluations and the build
   succeed, but the results are NOT isomorphic (the build copied the list; the object still holds
   the original). *)
Theorem C11_needs_plain_args :
  exists o args p hc rc hp rp s rb,
    wf_b ex_env o = true /\ forallb (ref_below (length o)) args = true /\
    run_program ex_env true 10 args o p = (hc, Some rc) /\
    run_program ex_env false 10 args o p = (hp, Some rp) /\
    mrun ex_env hc (build_node ex_env no_fail) rc = (s, inl rb) /\
    ~ exists m, bij_wf m /\ simulates (norm_heap ex_env (out s)) (norm_heap ex_env hp) m /\
                rel_ref m rb rp.
Proof. exact build_equals_call_needs_plain_args. Qed.
Print Assumptions C11_needs_plain_args.
