(* C05 - a failing callable surfaces faithfully and leaves no residue. *)
From Fiddle Require Import PyBase PySlice Sig ArgStore PyCall Heap Traverse Build Anchors.

Example C05_placeholder : True. Proof. exact I. Qed.
