(* C05 - a failing callable surfaces faithfully and leaves no residue.
   Model: Build.build with a failure oracle `fails` and the in-build flag.  Statements only;
   proofs are in theories/Traverse_proofs.v and theories/Build_proofs.v. *)
From Fiddle Require Import PyBase PySlice Sig ArgStore PyCall Heap Traverse Build Build_stmt
  Traverse_proofs Build_proofs Iterate_proofs C05Check BuildPath_proofs AnchorsBuild BuildFail_more.

(* (hypotheses: dict / named-tuple keys are distinct, as in Python; the raising node is a Config,
   not an unfilled TaggedValue, whose own error is not governed by the failure oracle)
   No callable runs after the failing one: when the callable of Buildable k raises, the log holds
   exactly what completed before; k is reachable and not in the log, everything k depends on is
   done, and no logged Config was one the oracle makes fail. *)
Theorem C05_failure_prefix : forall e fails h r s res,
  wf_b e h = true -> root_ok h r -> mrun e h (build_node e fails) r = (s, res) ->
  keys_ok h -> (forall k x, res = inr (FRaise k x) -> ~ is_tagged h k) ->
  failure_prefix_stmt e fails h r s res.
Proof. exact failure_prefix_partial_untagged. Qed.
Print Assumptions C05_failure_prefix.

(* The configuration is unmodified, on success and on every failure. *)
Theorem C05_pure : forall e fails h r s res,
  wf_b e h = true -> root_ok h r ->
  mrun e h (build_node e fails) r = (s, res) -> pure_stmt h s.
Proof. exact pure_holds. Qed.
Print Assumptions C05_pure.

(* The in-build flag: a build started with the flag clear leaves it clear whatever happens; a build
   attempted while the flag is set is rejected, runs nothing and leaves the flag set. *)
Theorem C05_flag_reset : forall e fails h r,
  fst (build e fails false h r) = false.
Proof. intros; reflexivity. Qed.
Print Assumptions C05_flag_reset.

Theorem C05_nested_rejected : forall e fails h r,
  build e fails true h r = (true, (mk_ms [] h [], inr FNested)).
Proof. intros; reflexivity. Qed.
Print Assumptions C05_nested_rejected.

(* Repeated failures in sequence: every build of a sequence starts from a clear flag and the
   unmodified input, so each behaves as if it were run first. *)
Theorem C05_next_build : forall e h (runs : list ((nat -> option N) * ref)),
  wf_b e h = true ->
  Forall (fun fr => root_ok h (snd fr)) runs ->
  Forall (fun fr => let '(flag, (s, _)) := build e (fst fr) false h (snd fr) in
                    flag = false /\ firstn (length h) (out s) = h) runs.
Proof.
  intros e h runs Hwf Hroots. rewrite Forall_forall in *. intros [fl r] Hin.
  specialize (Hroots _ Hin). cbn [fst snd] in *. unfold build.
  destruct (mrun e h (build_node e fl) r) as [s res] eqn:Hrun.
  split; [reflexivity|]. exact (proj1 (pure_holds e fl h r s res Hwf Hroots Hrun)).
Qed.
Print Assumptions C05_next_build.

(* The path named by the escaping exception (state.current_path when the callable was invoked: the
   first path that reaches the failing Buildable in traversal order) really leads from the root to
   the failing Buildable, and it is the first of the paths collect_paths_by_id lists for it. *)
Theorem C05_path_leads_to_failing_node : forall e fails h r s res,
  wf_b e h = true -> root_ok h r -> mrun e h (build_node e fails) r = (s, res) ->
  keys_ok h -> (forall k x, res = inr (FRaise k x) -> ~ is_tagged h k) ->
  forall k x, res = inr (FRaise k x) ->
    follow e h r (failing_path e h r k) = Some (RP k)
    /\ hd_error (paths_to e h (S (length h)) r k) = Some (failing_path e h r k).
Proof. exact failing_path_leads. Qed.
Print Assumptions C05_path_leads_to_failing_node.

(* ... and it is the path under which a memoized traversal visits that Buildable (its only visit). *)
Theorem C05_path_is_visit_path : forall e h r,
  wf_b e h = true -> keys_ok h -> root_ok h r ->
  forall k p, In (RP k, p) (snd (iter_memo e h true (S (length h)) [] r [])) ->
    failing_path e h r k = p.
Proof. exact failing_path_is_visit_path. Qed.
Print Assumptions C05_path_is_visit_path.

(* Faithful in the other direction too: a build that returns normally invoked no failing callable
   (every Config reachable from the root is one the oracle lets succeed), hence a reachable failing
   Config always makes the build fail - a failure is never swallowed. *)
Theorem C05_success_means_no_reachable_failure : forall e fails h r s res r',
  wf_b e h = true -> root_ok h r -> mrun e h (build_node e fails) r = (s, res) ->
  res = inl r' ->
  forall i fn a t, reach e h r i -> nth_error h i = Some (NBuildable BConfig fn a t) -> fails i = None.
Proof. exact success_means_no_reachable_failure. Qed.
Print Assumptions C05_success_means_no_reachable_failure.

Theorem C05_failure_never_swallowed : forall e fails h r s res i fn a t x,
  wf_b e h = true -> root_ok h r -> mrun e h (build_node e fails) r = (s, res) ->
  reach e h r i -> nth_error h i = Some (NBuildable BConfig fn a t) -> fails i = Some x ->
  exists f, res = inr f.
Proof. exact reachable_failure_means_failure. Qed.
Print Assumptions C05_failure_never_swallowed.
