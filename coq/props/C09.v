(* C09 - JSON serialization is lossless or loud, and policy-gated.
   Statements only; proofs in theories/Serial_proofs.v and theories/Copy_proofs.v. *)
From Fiddle Require Import PyBase PySlice Sig ArgStore PyCall PyText Heap Traverse Build_stmt
  Traverse_proofs Copy Iso_proofs Copy_proofs Serial Serial_proofs Doc Doc_proofs.
Open Scope N_scope.

(* Bytes: every byte string survives the traverser's flatten / unflatten. *)
Theorem C09_bytes_roundtrip : forall b : list N,
  forallb (fun c => c <? 256) b = true -> bytes_of_str (latin1_decode b) = b.
Proof. exact bytes_roundtrip. Qed.
Print Assumptions C09_bytes_roundtrip.

(* Why the codec was repaired: under raw_unicode_escape the six bytes  A  came back as "A". *)
Theorem C09_old_codec_lossy :
  forallb (fun c => c <? 256) lossy_witness = true /\
  rue_decode (S (length lossy_witness)) lossy_witness = Some [65] /\
  rue_encode [65] = [65] /\ rue_encode [65] <> lossy_witness.
Proof. exact old_codec_lossy. Qed.
Print Assumptions C09_old_codec_lossy.

(* ... and was lossless only away from backslashes *)
Theorem C09_old_codec_partial : forall b : list N,
  forallb (fun c => negb (c =? ch_bslash)) b = true ->
  forall fuel, (length b < fuel)%nat -> rue_decode fuel b = Some b.
Proof. exact rue_decode_no_backslash. Qed.
Print Assumptions C09_old_codec_partial.

(* Policy: a symbol is imported only after allows_import approved it, and a value is returned only
   after allows_value approved it; resolving a document's references imports nothing else. *)
Theorem C09_policy_gate : forall allows_import importer allows_value syms vals imp,
  resolve_all allows_import importer allows_value syms = (vals, imp) ->
  (forall s, In s imp -> allows_import s = true /\ In s syms) /\
  (forall vs, vals = Some vs ->
     length vs = length syms /\
     Forall2 (fun s v => allows_import s = true /\ importer s = Some v /\ allows_value v = true) syms vs).
Proof. exact resolve_all_gate. Qed.
Print Assumptions C09_policy_gate.

(* Graph level: (de)serialization is a memoized copy through a table of objects (pickle = true:
   every container is a new object).  The copy is total, leaves the input untouched, and is
   isomorphic to it under the memo (types, leaves, symbols, tags, sharing; unset stays unset). *)
Theorem C09_copy_total : forall e h r s res,
  wf_b e h = true -> root_ok h r -> mrun e h (copy_node e true) r = (s, res) ->
  exists r', res = inl r'.
Proof. intros e h r s res. exact (deepcopy_total e true h r s res). Qed.
Print Assumptions C09_copy_total.

Theorem C09_roundtrip_graph : forall e h r s res,
  wf_b e h = true -> root_ok h r -> mrun e h (copy_node e true) r = (s, res) ->
  (forall i n, creach e h r i -> nth_error h i = Some n -> node_canonical e n) ->
  forall r', res = inl r' ->
    bij_wf (memo_bij (memo s)) /\ simulates h (out s) (memo_bij (memo s)) /\
    rel_ref (memo_bij (memo s)) r r'.
Proof. intros e h r s res. exact (deepcopy_faithful e true h r s res). Qed.
Print Assumptions C09_roundtrip_graph.

(* The document itself (Doc.v): the object table written by dump_json.  ser e h r is the table of
   the value (h, r); loading a table is the same memoized walk (deser = ser).  all_writable: every
   object the walk reaches is a container, a set or a Buildable (anything else is passed through by
   the copy and has no entry). *)

(* a written document, loaded and written again, is literally the same document *)
Theorem C09_doc_fixpoint : forall e h r d rd,
  wf_b e h = true -> root_ok h r -> all_writable e h r = true ->
  ser e h r = Some (d, rd) -> ser e d rd = Some (d, rd).
Proof. exact ser_fixpoint. Qed.
Print Assumptions C09_doc_fixpoint.

Theorem C09_doc_roundtrip_is_doc : forall e h r,
  wf_b e h = true -> root_ok h r -> all_writable e h r = true -> roundtrip e h r = ser e h r.
Proof. exact roundtrip_is_doc. Qed.
Print Assumptions C09_doc_roundtrip_is_doc.

Theorem C09_doc_redump_same : forall e h r,
  wf_b e h = true -> root_ok h r -> all_writable e h r = true -> redump e h r = ser e h r.
Proof. exact redump_same. Qed.
Print Assumptions C09_doc_redump_same.

(* the hypothesis all_writable cannot be dropped *)
Theorem C09_doc_fixpoint_needs_writable :
  exists e h r d rd,
    wf_b e h = true /\ root_ok h r /\ all_writable e h r = false /\
    ser e h r = Some (d, rd) /\ ser e d rd = None /\ wf_b e d = false.
Proof. exact ser_fixpoint_needs_writable. Qed.
Print Assumptions C09_doc_fixpoint_needs_writable.

Theorem C09_doc_total : forall e h r,
  wf_b e h = true -> root_ok h r -> exists d rd, ser e h r = Some (d, rd).
Proof. exact ser_total. Qed.
Print Assumptions C09_doc_total.

Theorem C09_doc_wf : forall e h r d rd,
  wf_b e h = true -> root_ok h r -> all_writable e h r = true -> ser e h r = Some (d, rd) ->
  wf_b e d = true /\ root_ok d rd /\ all_writable e d rd = true.
Proof. exact ser_wf. Qed.
Print Assumptions C09_doc_wf.

(* exactly one entry per reachable writable object ... *)
Theorem C09_doc_entries : forall e h r d rd,
  wf_b e h = true -> root_ok h r -> ser e h r = Some (d, rd) ->
  length d = length (filter (node_writable h) (doc_order e h r)).
Proof. exact ser_entries. Qed.
Print Assumptions C09_doc_entries.

(* ... and no garbage; the walk over the document finishes the entries in table order *)
Theorem C09_doc_compact : forall e h r d rd,
  wf_b e h = true -> root_ok h r -> all_writable e h r = true -> ser e h r = Some (d, rd) ->
  length d = length (doc_order e h r) /\
  length d = length (filter (node_writable h) (doc_order e h r)) /\
  (forall k, (k < length d)%nat -> creach e d rd k).
Proof. exact ser_compact. Qed.
Print Assumptions C09_doc_compact.

Theorem C09_doc_order_of_doc : forall e h r d rd,
  wf_b e h = true -> root_ok h r -> all_writable e h r = true -> ser e h r = Some (d, rd) ->
  doc_order e d rd = seq 0 (length d).
Proof. exact doc_order_of_doc. Qed.
Print Assumptions C09_doc_order_of_doc.

Theorem C09_doc_index_range : forall e h r d rd i k,
  wf_b e h = true -> root_ok h r -> ser e h r = Some (d, rd) ->
  doc_index e h r i = Some k -> (k < length d)%nat /\ In i (doc_order e h r).
Proof. exact doc_index_range. Qed.
Print Assumptions C09_doc_index_range.

Theorem C09_doc_index_injective : forall e h r i j k,
  wf_b e h = true -> root_ok h r ->
  doc_index e h r i = Some k -> doc_index e h r j = Some k -> i = j.
Proof. exact doc_index_injective. Qed.
Print Assumptions C09_doc_index_injective.

Theorem C09_doc_index_children_first : forall e h r i j ki kj,
  wf_b e h = true -> root_ok h r -> child_of e h i j ->
  doc_index e h r i = Some ki -> doc_index e h r j = Some kj -> (kj < ki)%nat.
Proof. exact doc_index_children_first. Qed.
Print Assumptions C09_doc_index_children_first.

Theorem C09_doc_index_position : forall e h r t i,
  wf_b e h = true -> root_ok h r -> all_writable e h r = true ->
  nth_error (doc_order e h r) t = Some i -> doc_index e h r i = Some t.
Proof. exact doc_index_position. Qed.
Print Assumptions C09_doc_index_position.

Theorem C09_doc_order_spec : forall e h r,
  wf_b e h = true -> root_ok h r ->
  NoDup (doc_order e h r) /\ (forall i, In i (doc_order e h r) <-> creach e h r i).
Proof. exact doc_order_spec. Qed.
Print Assumptions C09_doc_order_spec.

(* the table is isomorphic to the input, under the correspondence object i <-> entry doc_index i *)
Theorem C09_doc_iso : forall e h r d rd,
  wf_b e h = true -> root_ok h r -> all_writable e h r = true ->
  (forall i n, creach e h r i -> nth_error h i = Some n -> node_canonical e n) ->
  ser e h r = Some (d, rd) ->
  exists m, bij_wf m /\ simulates h d m /\ rel_ref m r rd /\
            (forall i k, In (i, k) m <-> doc_index e h r i = Some k).
Proof. exact ser_iso. Qed.
Print Assumptions C09_doc_iso.

(* refcounts: the item slots of the table that hold the entry, plus one for the root *)
Theorem C09_doc_refcount : forall e h r d rd i k,
  wf_b e h = true -> root_ok h r -> all_writable e h r = true ->
  ser e h r = Some (d, rd) -> doc_index e h r i = Some k ->
  doc_refcount e h r i = (slot_count e d k + (if ref_eq_dec rd (RP k) then 1 else 0))%nat.
Proof. exact doc_refcount_spec. Qed.
Print Assumptions C09_doc_refcount.

(* __flatten__ after __unflatten__: the argument order of ordered_arguments is stable *)
Theorem C09_doc_flatten_stable : forall e fn args rs,
  length rs = length (flat_args e fn args) ->
  flat_args e fn (combine (map fst (flat_args e fn args)) rs) = combine (map fst (flat_args e fn args)) rs.
Proof. exact flat_args_fix. Qed.
Print Assumptions C09_doc_flatten_stable.
