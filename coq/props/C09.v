(* C09 - JSON serialization is lossless or loud, and policy-gated.
   Statements only; proofs in theories/Serial_proofs.v and theories/Copy_proofs.v. *)
From Fiddle Require Import PyBase PySlice Sig ArgStore PyCall PyText Heap Traverse Build_stmt
  Traverse_proofs Copy Iso_proofs Copy_proofs Serial Serial_proofs.
Open Scope N_scope.

(* Bytes: every byte string survives the traverser's flatten / unflatten. *)
Theorem C09_bytes_roundtrip : forall b : list N,
  forallb (fun c => c <? 256) b = true -> bytes_of_str (latin1_decode b) = b.
Proof. exact bytes_roundtrip. Qed.
Print Assumptions C09_bytes_roundtrip.

(* Why the codec was repaired: under raw_unicode_escape the six bytes  A  came back as "A". *)
Theorem C09_old_codec_lossy :
  forallb (fun c => c <? 256) lossy_witness = true /\
  rue_decode (S (length lossy_witness)) lossy_witness = Some [65] /\
  rue_encode [65] = [65] /\ rue_encode [65] <> lossy_witness.
Proof. exact old_codec_lossy. Qed.
Print Assumptions C09_old_codec_lossy.

(* ... and was lossless only away from backslashes *)
Theorem C09_old_codec_partial : forall b : list N,
  forallb (fun c => negb (c =? ch_bslash)) b = true ->
  forall fuel, (length b < fuel)%nat -> rue_decode fuel b = Some b.
Proof. exact rue_decode_no_backslash. Qed.
Print Assumptions C09_old_codec_partial.

(* Policy: a symbol is imported only after allows_import approved it, and a value is returned only
   after allows_value approved it; resolving a document's references imports nothing else. *)
Theorem C09_policy_gate : forall allows_import importer allows_value syms vals imp,
  resolve_all allows_import importer allows_value syms = (vals, imp) ->
  (forall s, In s imp -> allows_import s = true /\ In s syms) /\
  (forall vs, vals = Some vs ->
     length vs = length syms /\
     Forall2 (fun s v => allows_import s = true /\ importer s = Some v /\ allows_value v = true) syms vs).
Proof. exact resolve_all_gate. Qed.
Print Assumptions C09_policy_gate.

(* Graph level: (de)serialization is a memoized copy through a table of objects (pickle = true:
   every container is a new object).  The copy is total, leaves the input untouched, and is
   isomorphic to it under the memo (types, leaves, symbols, tags, sharing; unset stays unset). *)
Theorem C09_copy_total : forall e h r s res,
  wf_b e h = true -> root_ok h r -> mrun e h (copy_node e true) r = (s, res) ->
  exists r', res = inl r'.
Proof. intros e h r s res. exact (deepcopy_total e true h r s res). Qed.
Print Assumptions C09_copy_total.

Theorem C09_roundtrip_graph : forall e h r s res,
  wf_b e h = true -> root_ok h r -> mrun e h (copy_node e true) r = (s, res) ->
  (forall i n, creach e h r i -> nth_error h i = Some n -> node_canonical e n) ->
  forall r', res = inl r' ->
    bij_wf (memo_bij (memo s)) /\ simulates h (out s) (memo_bij (memo s)) /\
    rel_ref (memo_bij (memo s)) r r'.
Proof. intros e h r s res. exact (deepcopy_faithful e true h r s res). Qed.
Print Assumptions C09_roundtrip_graph.
