(* C09 - JSON serialization is lossless or loud, and policy-gated. *)
From Fiddle Require Import PyBase PyText Serial Anchors.

Example C09_placeholder : True. Proof. exact I. Qed.
