(* C18 - printed paths are valid override paths; flag directives apply in order. *)
From Fiddle Require Import PyBase PyText PathText Anchors.

Example C18_placeholder : True. Proof. exact I. Qed.
