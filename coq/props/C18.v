(* C18 - printed paths are valid override paths; flag directives apply in order.
   Model: PyText (repr / literal_eval unescaping / decimal), PathText (daglish.path_str printers,
   the command-line path grammar, the FiddleFlag directive fold).  C18Check tests these models
   (and the statement of C18_parse_print on every generated case) against the implementation.
   This file contains statements only; proofs live in theories/PathText_proofs.v.
   Character codes: 46 '.', 91 '[', 93 ']', 39 single quote, 34 double quote, 92 backslash. *)
From Fiddle Require Import PyBase PyText PathText C18Check PathText_proofs AnchorsPath.
Open Scope N_scope.

(* ---- 1. repr / literal_eval on ASCII strings *)

(* one escaped character is undone by one unescape step, whatever follows *)
Theorem C18_unescape_repr_char :
  forall q c rest f t,
    q = 39 \/ q = 34 -> is_ascii c = true ->
    unescape f rest = Some t ->
    unescape (S f) (repr_char q c ++ rest) = Some (c :: t).
Proof. exact unescape_repr_char. Qed.
Print Assumptions C18_unescape_repr_char.

Theorem C18_unhex_hex_digit : forall d, d < 16 -> unhex (hex_digit d) = Some d.
Proof. exact unhex_hex_digit. Qed.
Print Assumptions C18_unhex_hex_digit.

(* literal_eval (repr s) = s; body strips the two quotes (C18Check.body = removelast . tl) *)
Theorem C18_repr_unescape_roundtrip :
  forall s, forallb is_ascii s = true ->
    unescape (S (length (repr_str s))) (body (repr_str s)) = Some s.
Proof. exact repr_unescape_roundtrip. Qed.
Print Assumptions C18_repr_unescape_roundtrip.

(* any fuel above the length of the string is enough *)
Theorem C18_unescape_flat_map :
  forall q s, q = 39 \/ q = 34 -> forallb is_ascii s = true ->
    forall f, (length s < f)%nat -> unescape f (flat_map (repr_char q) s) = Some s.
Proof. exact unescape_flat_map. Qed.
Print Assumptions C18_unescape_flat_map.

(* a quote-free key is printed with single quotes and its body has no single quote *)
Theorem C18_key_ok_body_no_squote :
  forall k, key_ok k = true ->
    repr_quote k = 39 /\ forallb (fun x => negb (x =? 39)) (body (repr_str k)) = true.
Proof. exact key_ok_body_no_squote. Qed.
Print Assumptions C18_key_ok_body_no_squote.

(* more generally: if the delimiter does not occur in the key, it does not occur in the body *)
Theorem C18_body_no_delimiter :
  forall q k, q = 39 \/ q = 34 -> forallb is_ascii k = true -> mem_ch q k = false ->
    forallb (fun x => negb (x =? q)) (flat_map (repr_char q) k) = true.
Proof. exact flat_map_repr_no_q. Qed.
Print Assumptions C18_body_no_delimiter.

(* ---- 2. decimal integers *)

Theorem C18_parse_print_nat : forall n, parse_digits (print_nat n) 0 = n.
Proof. exact parse_print_nat. Qed.
Print Assumptions C18_parse_print_nat.

Theorem C18_print_nat_digits : forall n, forallb is_digit (print_nat n) = true.
Proof. exact print_nat_digits. Qed.
Print Assumptions C18_print_nat_digits.

Theorem C18_print_nat_nonempty : forall n, print_nat n <> [].
Proof. exact print_nat_nonempty. Qed.
Print Assumptions C18_print_nat_nonempty.

(* ---- 3. what the printers emit is accepted by the command-line grammar and reads back as the
        same path (an Index reads back as an integer Key: erase) *)

(* one path element, provided the following text does not extend the token *)
Theorem C18_match_part_print_telt :
  forall t rest,
    telt_ok t = true ->
    match rest with [] => true | c :: _ => negb (is_word c) end = true ->
    match_part 0 (print_telt t ++ rest) = Some (erase t, rest).
Proof. exact match_part_print_telt. Qed.
Print Assumptions C18_match_part_print_telt.

(* the full text, with the leading dot *)
Theorem C18_parse_print_tpath :
  forall p, forallb telt_ok p = true ->
    parse_tpath 0 (S (length (print_tpath p))) (print_tpath p) = Some (map erase p).
Proof. exact parse_print_tpath. Qed.
Print Assumptions C18_parse_print_tpath.

(* main theorem, in the shape C18Check.check_case tests it: whether or not the printer stripped
   the leading dot, parse_path (which puts the dot back) returns the printed path *)
Theorem C18_parse_print :
  forall p (strip : bool),
    forallb telt_ok p = true -> p <> [] ->
    parse_path_text 0 (if strip then strip_leading_dot (print_tpath p) else print_tpath p)
    = Some (map erase p).
Proof. exact parse_print_roundtrip. Qed.
Print Assumptions C18_parse_print.

Theorem C18_parse_print_printer :
  forall p,
    forallb telt_ok p = true -> p <> [] ->
    parse_path_text 0
      (if match p with TAttr _ :: _ => true | _ => false end
       then strip_leading_dot (print_tpath p) else print_tpath p)
    = Some (map erase p).
Proof. exact parse_print_roundtrip_printer. Qed.
Print Assumptions C18_parse_print_printer.

(* the same on a wider key domain: ASCII keys that do not contain BOTH kinds of quote *)
Theorem C18_parse_print_weak :
  forall p (strip : bool),
    forallb
      (fun t => match t with
                | TAttr nm => ident_ok nm
                | TKeyStr k => forallb is_ascii k && negb (mem_ch 39 k && mem_ch 34 k)
                | _ => true
                end) p = true ->
    p <> [] ->
    parse_path_text 0 (if strip then strip_leading_dot (print_tpath p) else print_tpath p)
    = Some (map erase p).
Proof. exact parse_print_roundtrip_weak. Qed.
Print Assumptions C18_parse_print_weak.

(* the third conjunct of C18Check.check_case holds on every case whose text is the printed text *)
Theorem C18_check_case_third_conjunct :
  forall c,
    c_text c = (if c_strip c then strip_leading_dot (print_tpath (c_path c)) else print_tpath (c_path c)) ->
    c_path c <> [] ->
    negb (forallb telt_ok (c_path c))
    || (if otpath_eq_dec (parse_path_text 0 (c_text c)) (Some (map erase (c_path c))) then true else false)
    = true.
Proof. exact check_case_third_conjunct. Qed.
Print Assumptions C18_check_case_third_conjunct.

(* the hypotheses are needed: empty path, key with both quotes, non-identifier names *)
Theorem C18_empty_path_not_roundtrip : parse_path_text 0 (print_tpath []) = None.
Proof. exact empty_path_not_roundtrip. Qed.
Print Assumptions C18_empty_path_not_roundtrip.

Theorem C18_both_quotes_not_roundtrip :
  print_tpath [TAttr [120]; TKeyStr [39; 34]] = [46; 120; 91; 39; 92; 39; 34; 39; 93] /\
  parse_path_text 0 (print_tpath [TAttr [120]; TKeyStr [39; 34]]) = None.
Proof. exact both_quotes_not_roundtrip. Qed.
Print Assumptions C18_both_quotes_not_roundtrip.

Theorem C18_bad_ident_not_roundtrip :
  parse_path_text 0 (print_tpath [TAttr [120; 45]]) = None /\
  parse_path_text 0 (print_tpath [TAttr []; TAttr [120]]) = None.
Proof. exact bad_ident_not_roundtrip. Qed.
Print Assumptions C18_bad_ident_not_roundtrip.

(* ---- 4. why the grammar was repaired: x[''].x is printed for the empty key and the
        unrepaired grammar ('[^']+', key_min_len = 1) rejects it *)
Theorem C18_empty_key_needs_star :
  let text := print_tpath [TAttr [120]; TKeyStr []; TAttr [120]] in
  text = [46; 120; 91; 39; 39; 93; 46; 120] /\
  parse_path_text 1 (strip_leading_dot text) = None /\
  parse_path_text 1 text = None /\
  parse_path_text 0 (strip_leading_dot text) = Some [TAttr [120]; TKeyStr []; TAttr [120]].
Proof. exact empty_key_needs_star. Qed.
Print Assumptions C18_empty_key_needs_star.

(* ---- 5. flag directives: consumed strictly in order *)

(* success iff the list is empty or is one base directive followed by non-base ones; the applied
   list is then the input list itself: nothing dropped, nothing reordered *)
Theorem C18_directives_ok_iff :
  forall ds ds',
    run_directives ds false [] = FOk ds' <->
    (ds' = ds /\
     (ds = [] \/
      exists d rest, ds = d :: rest /\ is_base d = true /\
                     forallb (fun x => negb (is_base x)) rest = true)).
Proof. exact directives_ok_iff. Qed.
Print Assumptions C18_directives_ok_iff.

Theorem C18_directives_applied_in_order :
  forall ds ds', run_directives ds false [] = FOk ds' -> ds' = ds.
Proof. exact directives_applied_in_order. Qed.
Print Assumptions C18_directives_applied_in_order.

Theorem C18_directives_err_first_iff :
  forall ds,
    run_directives ds false [] = FErrFirstNotBase <->
    exists d rest, ds = d :: rest /\ is_base d = false.
Proof. exact directives_err_first_iff. Qed.
Print Assumptions C18_directives_err_first_iff.

Theorem C18_directives_err_second_iff :
  forall ds,
    run_directives ds false [] = FErrSecondBase <->
    exists d rest, ds = d :: rest /\ is_base d = true /\ existsb is_base rest = true.
Proof. exact directives_err_second_iff. Qed.
Print Assumptions C18_directives_err_second_iff.

(* the general fold, from the state "base already seen" with an arbitrary accumulator *)
Theorem C18_run_directives_after_base :
  forall ds acc r,
    run_directives ds true acc = FOk r <->
    (r = acc ++ ds /\ forallb (fun x => negb (is_base x)) ds = true).
Proof. exact run_true_ok. Qed.
Print Assumptions C18_run_directives_after_base.

Theorem C18_directives_order_sensitive :
  run_directives [DConfig 1; DSet 2; DFiddler 3] false [] = FOk [DConfig 1; DSet 2; DFiddler 3] /\
  run_directives [DSet 2; DConfig 1; DFiddler 3] false [] = FErrFirstNotBase /\
  run_directives [DConfig 1; DSet 2; DConfigStr 4] false [] = FErrSecondBase /\
  run_directives [DConfig 1; DFiddler 3; DSet 2] false [] = FOk [DConfig 1; DFiddler 3; DSet 2].
Proof. exact directives_order_sensitive. Qed.
Print Assumptions C18_directives_order_sensitive.

(* ---- 6. non-vacuity: model.layers[3]['drop \out<LF><SOH><DEL>'][10].rate *)
Theorem C18_example_roundtrip :
  let p := [TAttr [109;111;100;101;108]; TAttr [108;97;121;101;114;115]; TIndex 3;
            TKeyStr [100;114;111;112;32;92;111;117;116;10;1;127]; TKeyInt 10; TAttr [114;97;116;101]] in
  forallb telt_ok p = true /\
  strip_leading_dot (print_tpath p) =
    [109;111;100;101;108; 46; 108;97;121;101;114;115; 91;51;93;
     91;39; 100;114;111;112;32; 92;92; 111;117;116; 92;110; 92;120;48;49; 92;120;55;102; 39;93;
     91;49;48;93; 46; 114;97;116;101] /\
  parse_path_text 0 (strip_leading_dot (print_tpath p)) =
    Some [TAttr [109;111;100;101;108]; TAttr [108;97;121;101;114;115]; TKeyInt 3;
          TKeyStr [100;114;111;112;32;92;111;117;116;10;1;127]; TKeyInt 10; TAttr [114;97;116;101]] /\
  parse_path_text 0 (print_tpath p) = Some (map erase p).
Proof. exact example_roundtrip. Qed.
Print Assumptions C18_example_roundtrip.
