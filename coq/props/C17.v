(* C17 - read-only and copy-returning APIs never modify their input. *)
From Fiddle Require Import PyBase PySlice Sig ArgStore PyCall Heap Traverse Build Build_stmt Traverse_proofs
  Build_proofs Anchors.

Example C17_placeholder : True. Proof. exact I. Qed.
