(* C17 - read-only and copy-returning APIs never modify their input.
   Every modelled API is a memoized traversal whose node function only appends to the output heap;
   for those the input heap is a prefix of the output heap, whatever the outcome (also on failure). *)
From Fiddle Require Import PyBase PySlice Sig ArgStore PyCall Heap Traverse Build Build_stmt
  Traverse_proofs Build_proofs Copy Tags Eq Transform C08Check Frame_proofs
  History Diff DiffBuild FrameDiff_proofs Doc Partial FramePartial_proofs.

Theorem C17_frame : forall e h on_node,
  wf_b e h = true -> appends on_node ->
  forall r s res, root_ok h r -> mrun e h on_node r = (s, res) ->
    firstn (length h) (out s) = h /\ (length h <= length (out s))%nat.
Proof. exact frame_generic. Qed.
Print Assumptions C17_frame.

(* the modelled APIs satisfy the discipline *)
Theorem C17_build_disciplined : forall e fails, appends (build_node e fails).
Proof. exact build_appends. Qed.
Print Assumptions C17_build_disciplined.

Theorem C17_copy_disciplined : forall e pickle, appends (copy_node e pickle).
Proof. exact copy_appends. Qed.
Print Assumptions C17_copy_disciplined.

Theorem C17_rebuild_disciplined : forall e, appends (rebuild_node e).
Proof. exact rebuild_appends. Qed.
Print Assumptions C17_rebuild_disciplined.

Theorem C17_trim_disciplined : forall e, appends (trim_node e).
Proof. exact trim_appends. Qed.
Print Assumptions C17_trim_disciplined.

Theorem C17_simplify_disciplined : forall e, appends (simplify_node e).
Proof. exact simplify_appends. Qed.
Print Assumptions C17_simplify_disciplined.

Theorem C17_materialize_tags_disciplined : forall e, appends (mattags_node e).
Proof. exact mattags_appends. Qed.
Print Assumptions C17_materialize_tags_disciplined.

(* fdl.build never modifies the configuration: the instance for the build traversal *)
Theorem C17_build_frame : forall e fails h r s res,
  wf_b e h = true -> root_ok h r -> mrun e h (build_node e fails) r = (s, res) ->
  firstn (length h) (out s) = h /\ (length h <= length (out s))%nat.
Proof. intros e fails h r s res Hwf Hr Hrun. eapply frame_generic; eauto using build_appends. Qed.
Print Assumptions C17_build_frame.

(* == and the path-reporting traversals are pure functions of the heap: they return no heap at all
   (Eq.cfg_eq : ... -> bool, Traverse.iter_basic / iter_memo / paths_to : ... -> list _). *)
Example C17_nonvacuous :
  let e : sigenv := [(7%N, [mkparam 1%N PosOrKw None false])] in
  let h : heap := [NList [RA (AInt 1)]; NBuildable BConfig 7%N [(KName 1%N, RP 0)] []; NList [RP 1; RP 1]] in
  wf_b e h = true /\
  firstn 3 (out (fst (mrun e h (copy_node e false) (RP 2)))) = h /\
  length (out (fst (mrun e h (copy_node e false) (RP 2)))) = 6%nat.
Proof. vm_compute. repeat split. Qed.
Print Assumptions C17_nonvacuous.

(* Diffing: build_diff (given the alignment) only allocates the copies of new, unaligned objects; the
   heap that holds old and new is a prefix of the heap that holds the diff's values. *)
Theorem C17_diff_disciplined : forall e al, appends (db_node e al).
Proof. exact db_appends. Qed.
Print Assumptions C17_diff_disciplined.

Theorem C17_build_diff_frame : forall e al h rold rnew o cs,
  wf_b e h = true -> root_ok h rnew ->
  build_changes e al h rold rnew = Some (o, cs) ->
  firstn (length h) o = h /\ (length h <= length o)%nat.
Proof. exact build_changes_frame. Qed.
Print Assumptions C17_build_diff_frame.

(* Serializing: the document is computed from a memoized copy, which leaves the input as it is. *)
Theorem C17_serialize_frame : forall e h r s res,
  wf_b e h = true -> root_ok h r -> mrun e h (copy_node e true) r = (s, res) ->
  firstn (length h) (out s) = h /\ (length h <= length (out s))%nat.
Proof. intros e h r s res Hwf Hroot Hrun. exact (frame_generic e h _ Hwf (copy_appends e true) r s res Hroot Hrun). Qed.
Print Assumptions C17_serialize_frame.

(* fdl.build of configurations holding Partials / ArgFactories (promotion of nested factories, the
   wrapper layers of arg_factory.partial) only appends as well: the configuration is not modified *)
Theorem C17_partial_build_disciplined : forall e, appends (pbuild_node e).
Proof. exact pbuild_appends. Qed.
Print Assumptions C17_partial_build_disciplined.

Theorem C17_partial_build_frame : forall e h r s res,
  wf_b e h = true -> root_ok h r -> pbuild e h r = (s, res) ->
  firstn (length h) (out s) = h /\ (length h <= length (out s))%nat.
Proof. exact pbuild_frame. Qed.
Print Assumptions C17_partial_build_frame.
