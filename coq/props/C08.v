(* C08 - traversal paths are sound and complete; identity traversal rebuilds faithfully. *)
From Fiddle Require Import PyBase PySlice Sig ArgStore PyCall Heap Traverse Anchors.

Example C08_placeholder : True. Proof. exact I. Qed.
