(* C08 - traversal paths are sound and complete; identity traversal rebuilds faithfully.
   Model: Traverse.iter_basic (daglish.iterate, un-memoized), Traverse.iter_memo (memoized),
   Traverse.paths_to (collect_paths_by_id), Heap.follow (PathElement.follow).  Statements only;
   proofs are in theories/Iterate_proofs.v.
   Hypotheses: wf_b = children point to smaller ids (acyclic); keys_ok = dict / named-tuple keys
   are distinct, as in Python (follow looks a key up by first match); root_ok = the root is not a
   dangling pointer.  Hypotheses a statement does not need have been dropped. *)
From Fiddle Require Import PyBase PySlice Sig ArgStore PyCall Heap Traverse Build Build_stmt
  Traverse_proofs Build_proofs Iterate_proofs C08Check Cycle_proofs.
From Coq Require Import List Relations.
Import ListNotations.
Local Open Scope nat_scope.

(* Every (value, path) pair the un-memoized iteration reports is what following the path from the
   root gives - whatever the depth bound. *)
Theorem C08_iter_basic_sound : forall e h, keys_ok h -> forall fuel r v p,
  In (v, p) (iter_basic e h fuel r []) -> follow e h r p = Some v.
Proof. exact iter_basic_sound. Qed.
Print Assumptions C08_iter_basic_sound.

(* Every path that can be followed from the root is reported, with the value it leads to. *)
Theorem C08_iter_basic_complete : forall e h, wf_b e h = true -> forall r v p,
  follow e h r p = Some v -> In (v, p) (iter_basic e h (S (length h)) r []).
Proof. exact iter_basic_complete. Qed.
Print Assumptions C08_iter_basic_complete.

(* Every path is reported exactly once. *)
Theorem C08_iter_basic_nodup : forall e h, keys_ok h -> forall fuel r,
  NoDup (map snd (iter_basic e h fuel r [])).
Proof. exact iter_basic_nodup. Qed.
Print Assumptions C08_iter_basic_nodup.

(* collect_paths_by_id: the paths listed for an object are exactly the paths that lead to it, each
   once. *)
Theorem C08_paths_to_exact : forall e h, wf_b e h = true -> keys_ok h -> forall r i,
  (forall p, In p (paths_to e h (S (length h)) r i) <-> follow e h r p = Some (RP i)) /\
  NoDup (paths_to e h (S (length h)) r i).
Proof. exact paths_to_exact. Qed.
Print Assumptions C08_paths_to_exact.

(* The memoized iteration only reports correct paths, in either mode, from any memo. *)
Theorem C08_iter_memo_sound : forall e h mi, keys_ok h -> forall fuel seen r v p,
  In (v, p) (snd (iter_memo e h mi fuel seen r [])) -> follow e h r p = Some v.
Proof. exact iter_memo_sound. Qed.
Print Assumptions C08_iter_memo_sound.

(* memoize_internables = False: every reachable object that is not internable (every mutable
   object, every tuple that holds one) is yielded exactly once; only reachable objects are
   yielded. *)
Theorem C08_iter_memo_once : forall e h r,
  wf_b e h = true -> keys_ok h -> root_ok h r ->
  let ys := snd (iter_memo e h false (S (length h)) [] r []) in
  (forall i, reach e h r i -> internable h (S (length h)) (RP i) = false ->
             count_occ ref_eq_dec (map fst ys) (RP i) = 1) /\
  (forall i, In (RP i) (map fst ys) -> reach e h r i).
Proof. exact iter_memo_once. Qed.
Print Assumptions C08_iter_memo_once.

(* memoize_internables = True: the objects yielded exactly once are exactly the reachable ones. *)
Theorem C08_iter_memo_once_all : forall e h r,
  wf_b e h = true -> keys_ok h -> root_ok h r ->
  let ys := snd (iter_memo e h true (S (length h)) [] r []) in
  forall i, reach e h r i <-> count_occ ref_eq_dec (map fst ys) (RP i) = 1.
Proof. exact iter_memo_once_all. Qed.
Print Assumptions C08_iter_memo_once_all.

(* In either mode nothing that has an identity for the traversal (a function or class, an object
   the mode memoizes) is yielded twice - with no hypothesis on the heap at all. *)
Theorem C08_iter_memo_at_most_once : forall e h mi fuel r p x,
  has_id h mi x = true ->
  count_occ ref_eq_dec (map fst (snd (iter_memo e h mi fuel [] r p))) x <= 1.
Proof. exact iter_memo_at_most_once. Qed.
Print Assumptions C08_iter_memo_at_most_once.

(* The path under which such an object is yielded is its first path: the head of what
   collect_paths_by_id lists for it. *)
Theorem C08_iter_memo_first : forall e h r,
  wf_b e h = true -> keys_ok h -> root_ok h r ->
  forall i p, In (RP i, p) (snd (iter_memo e h false (S (length h)) [] r [])) ->
    internable h (S (length h)) (RP i) = false ->
    hd_error (paths_to e h (S (length h)) r i) = Some p.
Proof. exact iter_memo_first. Qed.
Print Assumptions C08_iter_memo_first.

Theorem C08_iter_memo_first_all : forall e h r,
  wf_b e h = true -> keys_ok h -> root_ok h r ->
  forall i p, In (RP i, p) (snd (iter_memo e h true (S (length h)) [] r [])) ->
    hd_error (paths_to e h (S (length h)) r i) = Some p.
Proof. exact iter_memo_first_all. Qed.
Print Assumptions C08_iter_memo_first_all.

(* Memoization only removes entries. *)
Theorem C08_iter_memo_subset : forall e h mi,
  wf_b e h = true -> keys_ok h -> forall fuel seen r v p,
  In (v, p) (snd (iter_memo e h mi fuel seen r [])) -> In (v, p) (iter_basic e h (S (length h)) r []).
Proof. exact iter_memo_subset. Qed.
Print Assumptions C08_iter_memo_subset.

(* Non-vacuity: a heap in which one list is shared by a Config, a dict and a tuple (three paths)
   and an internable tuple is shared too (two paths); it satisfies the hypotheses above. *)
Example C08_example_hyps :
  wf_b ex_env ex_heap = true /\ keys_ok ex_heap /\ root_ok ex_heap ex_root.
Proof. exact ex_hyps. Qed.
Print Assumptions C08_example_hyps.

Example C08_nonvacuous :
  let fuel := S (length ex_heap) in
  paths_to ex_env ex_heap fuel ex_root 0 =
    [[PKey (AStr [1%N]); PAttr 1%N]; [PKey (AStr [2%N])]; [PKey (AStr [4%N]); PIndex 0]] /\
  paths_to ex_env ex_heap fuel ex_root 1 =
    [[PKey (AStr [1%N]); PAttr 2%N]; [PKey (AStr [3%N])]] /\
  length (iter_basic ex_env ex_heap fuel ex_root []) = 17 /\
  count_occ ref_eq_dec (map fst (iter_basic ex_env ex_heap fuel ex_root [])) (RP 0) = 3 /\
  internable ex_heap fuel (RP 0) = false /\ internable ex_heap fuel (RP 1) = true /\
  internable ex_heap fuel (RP 2) = false /\
  filter (fun vp => ref_eqb (fst vp) (RP 0)) (snd (iter_memo ex_env ex_heap false fuel [] ex_root []))
    = [(RP 0, [PKey (AStr [1%N]); PAttr 1%N])] /\
  count_occ ref_eq_dec (map fst (snd (iter_memo ex_env ex_heap false fuel [] ex_root []))) (RP 1) = 2 /\
  count_occ ref_eq_dec (map fst (snd (iter_memo ex_env ex_heap true fuel [] ex_root []))) (RP 1) = 1 /\
  length (snd (iter_memo ex_env ex_heap false fuel [] ex_root [])) = 13.
Proof. exact iterate_nonvacuous. Qed.
Print Assumptions C08_nonvacuous.

(* ------------------------------------------------------------------------------------------ *)
(* Cycles: on ARBITRARY heaps (no well-formedness: reference cycles and dangling pointers allowed)
   the memoized identity traversal never exhausts its fuel - the stack holds distinct valid ids, so
   the recursion is never deeper than the number of objects: it ends with a result or an error -
   and the cycle error is sound: FCycle c is reported only if c reaches itself through child
   pointers; on an acyclic heap it is never reported.  (That every reachable cycle IS reported is
   validated by the correspondence stream c08_cycles, not proved.) *)
Theorem C08_cycle_never_recurses_forever : forall e h r s res,
  mrun e h (rebuild_node e) r = (s, res) -> res <> inr FOutOfFuel.
Proof. exact rebuild_never_out_of_fuel. Qed.
Print Assumptions C08_cycle_never_recurses_forever.

Theorem C08_reported_cycle_is_real : forall e h r s c,
  mrun e h (rebuild_node e) r = (s, inr (FCycle c)) -> clos_trans nat (cstep e h) c c.
Proof. exact rebuild_cycle_real. Qed.
Print Assumptions C08_reported_cycle_is_real.

Theorem C08_no_cycle_error_on_acyclic : forall e h r s c,
  wf_b e h = true -> mrun e h (rebuild_node e) r <> (s, inr (FCycle c)).
Proof. exact rebuild_no_cycle_on_wf. Qed.
Print Assumptions C08_no_cycle_error_on_acyclic.

(* the same for any traversal function that does not itself produce those two failures *)
Theorem C08_generic_never_recurses_forever : forall e h on_node,
  (forall i n rs o o', on_node i n rs o <> (o', inr FOutOfFuel)) ->
  forall r s res, mrun e h on_node r = (s, res) -> res <> inr FOutOfFuel.
Proof. exact mrun_never_out_of_fuel. Qed.
Print Assumptions C08_generic_never_recurses_forever.

(* non-vacuity: a list that contains itself through a dict *)
Example C08_cycle_nonvacuous :
  let h := [NList [RP 1]; NDict [(AStr [1%N], RP 0)]] in
  snd (mrun [] h (rebuild_node []) (RP 1)) = inr (FCycle 1) /\ wf_b [] h = false.
Proof. vm_compute. split; reflexivity. Qed.
Print Assumptions C08_cycle_nonvacuous.
