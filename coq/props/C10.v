(* C10 - applying build_diff(old, new) to old yields new. *)
From Fiddle Require Import PyBase PySlice Sig ArgStore PyCall Heap Traverse Diff Anchors.

Example C10_placeholder : True. Proof. exact I. Qed.
