(* C10 - "applying build_diff(old, new) to a copy of old yields new ..."

   The model covers the APPLY half: Diff.apply_changes = diffing._apply_changes on a resolved diff.
   Every parent path is looked up (Diff.resolve_parents, Heap.follow) in the structure as it is BEFORE
   any change, then the operations run in five global phases (Diff.phase_order: deletes, tag
   removals, modifications, sets, tag additions; inside a phase in diff order), each one overwriting
   its parent node in place (Diff.apply_one / Diff.apply_op).  Statements only; proofs are in
   theories/Diff_proofs.v.

   What is proved:
     C10_apply_length        no object is created or destroyed (ids, hence the root, are preserved);
     C10_apply_frame         an object that is not the resolved parent of a change is untouched;
     C10_apply_node          the five global phases decompose per parent object: the node at id i
                             afterwards is apply_op folded over the changes whose parent resolves to
                             i (changes_for e h root i cs phase), phase after phase;
     C10_apply_run           ... the whole result is one left fold of apply_one over the resolved
                             changes sorted by phase;
     C10_apply_op_cases_*    what one operation does to its parent node;
     C10_phase_order_matters another phase order gives another configuration.
   No hypothesis is needed for the first four (the heap may be ill-formed, paths may dangle: a change
   whose parent path does not resolve to an object does nothing). *)
From Fiddle Require Import PyBase PySlice Sig ArgStore PyCall Heap Traverse Tags History Diff
  Diff_proofs.
From Fiddle Require Import AnchorsDiff.
From Coq Require Import List Permutation.
Import ListNotations.
Local Open Scope nat_scope.

(* 1. identities are preserved *)
Theorem C10_apply_length : forall (e : sigenv) (h : heap) (root : ref) (cs : list change),
  length (apply_changes e h root cs) = length h.
Proof. exact Diff_proofs.apply_length. Qed.
Print Assumptions C10_apply_length.

(* 2. frame *)
Theorem C10_apply_frame : forall (e : sigenv) (h : heap) (root : ref) (cs : list change) (i : nat),
  (forall c, In c cs -> follow e h root (parent_of c) <> Some (RP i)) ->
  nth_error (apply_changes e h root cs) i = nth_error h i.
Proof. exact Diff_proofs.apply_frame. Qed.
Print Assumptions C10_apply_frame.

(* 3. per parent node.  changes_for e h root i cs ty = the changes of type ty whose parent path
   resolves to object i, in diff order:
     filter (fun c => is_type ty c && resolves_to e h root i c) cs
   and apply_ops l n = fold_left (fun n c => apply_op c n) l n. *)
Theorem C10_apply_node : forall (e : sigenv) (h : heap) (root : ref) (cs : list change) (i : nat),
  nth_error (apply_changes e h root cs) i
  = option_map
      (apply_ops (changes_for e h root i cs OpDelete ++ changes_for e h root i cs OpRemoveTag
                  ++ changes_for e h root i cs OpModify ++ changes_for e h root i cs OpSet
                  ++ changes_for e h root i cs OpAddTag))
      (nth_error h i).
Proof. exact Diff_proofs.apply_node. Qed.
Print Assumptions C10_apply_node.

Theorem C10_changes_for_spec : forall (e : sigenv) (h : heap) (root : ref) (i : nat) (cs : list change)
                                      (ty : optype) (c : change),
  In c (changes_for e h root i cs ty)
  <-> In c cs /\ type_of c = ty /\ follow e h root (parent_of c) = Some (RP i).
Proof. exact Diff_proofs.changes_for_spec. Qed.
Print Assumptions C10_changes_for_spec.

(* the five phases are one pass over the changes sorted by phase (phase_sort: stable) *)
Theorem C10_apply_run : forall (e : sigenv) (h : heap) (root : ref) (cs : list change),
  apply_changes e h root cs
  = fold_left apply_one (resolve_parents e h root (phase_sort cs)) h.
Proof. exact Diff_proofs.apply_changes_run. Qed.
Print Assumptions C10_apply_run.

(* 4. one operation on its parent node *)

(* an assignment (CSet of a new argument, CModify of an old one) sets exactly that argument and
   keeps the tags and the callable *)
Theorem C10_apply_op_cases_set_attr : forall c p a v k fn args tags,
  c = CSet p (LAttr a) v \/ c = CModify p (LAttr a) v ->
  exists args',
    apply_op c (NBuildable k fn args tags) = NBuildable k fn args' tags
    /\ sget args' (KName a) = Some v
    /\ (forall k', k' <> KName a -> sget args' k' = sget args k').
Proof. exact Diff_proofs.apply_op_set_attr. Qed.
Print Assumptions C10_apply_op_cases_set_attr.

(* ... in place when the argument is set already, appended last otherwise *)
Theorem C10_apply_op_cases_set_attr_keys : forall c p a v k fn args tags,
  c = CSet p (LAttr a) v \/ c = CModify p (LAttr a) v ->
  exists args',
    apply_op c (NBuildable k fn args tags) = NBuildable k fn args' tags
    /\ (In (KName a) (map fst args) -> map fst args' = map fst args)
    /\ (~ In (KName a) (map fst args) -> args' = args ++ [(KName a, v)]).
Proof. exact Diff_proofs.apply_op_set_attr_keys. Qed.
Print Assumptions C10_apply_op_cases_set_attr_keys.

(* CDelete removes exactly that argument (the keys of a Python dict are distinct) *)
Theorem C10_apply_op_cases_delete_attr : forall p a k fn args tags,
  exists args',
    apply_op (CDelete p (LAttr a)) (NBuildable k fn args tags) = NBuildable k fn args' tags
    /\ (NoDup (map fst args) -> sget args' (KName a) = None)
    /\ (forall k', k' <> KName a -> sget args' k' = sget args k').
Proof. exact Diff_proofs.apply_op_delete_attr. Qed.
Print Assumptions C10_apply_op_cases_delete_attr.

(* CAddTag / CRemoveTag change the tag set of that argument only, by that tag only *)
Theorem C10_apply_op_cases_add_tag : forall p a t k fn args tags,
  exists tags',
    apply_op (CAddTag p a t) (NBuildable k fn args tags) = NBuildable k fn args tags'
    /\ (forall x, In x (tags_get tags' (KName a)) <-> x = t \/ In x (tags_get tags (KName a)))
    /\ (forall k', k' <> KName a -> tags_get tags' k' = tags_get tags k').
Proof. exact Diff_proofs.apply_op_add_tag. Qed.
Print Assumptions C10_apply_op_cases_add_tag.

Theorem C10_apply_op_cases_remove_tag : forall p a t k fn args tags,
  exists tags',
    apply_op (CRemoveTag p a t) (NBuildable k fn args tags) = NBuildable k fn args tags'
    /\ (forall x, In x (tags_get tags' (KName a)) <-> x <> t /\ In x (tags_get tags (KName a)))
    /\ (forall k', k' <> KName a -> tags_get tags' k' = tags_get tags k').
Proof. exact Diff_proofs.apply_op_remove_tag. Qed.
Print Assumptions C10_apply_op_cases_remove_tag.

(* update_callable changes the callable only *)
Theorem C10_apply_op_cases_callable : forall p f k fn args tags,
  apply_op (CModify p LFn (RA (ASym f))) (NBuildable k fn args tags) = NBuildable k f args tags.
Proof. exact Diff_proofs.apply_op_callable. Qed.
Print Assumptions C10_apply_op_cases_callable.

(* dict items and list slots *)
Theorem C10_apply_op_cases_dict_set : forall c p key v kvs,
  c = CSet p (LKey key) v \/ c = CModify p (LKey key) v ->
  exists kvs',
    apply_op c (NDict kvs) = NDict kvs'
    /\ dget atom_eqb kvs' key = Some v
    /\ (forall k', k' <> key -> dget atom_eqb kvs' k' = dget atom_eqb kvs k').
Proof. exact Diff_proofs.apply_op_dict_set. Qed.
Print Assumptions C10_apply_op_cases_dict_set.

Theorem C10_apply_op_cases_dict_delete : forall p key kvs,
  exists kvs',
    apply_op (CDelete p (LKey key)) (NDict kvs) = NDict kvs'
    /\ (NoDup (map fst kvs) -> dget atom_eqb kvs' key = None)
    /\ (forall k', k' <> key -> dget atom_eqb kvs' k' = dget atom_eqb kvs k').
Proof. exact Diff_proofs.apply_op_dict_delete. Qed.
Print Assumptions C10_apply_op_cases_dict_delete.

Theorem C10_apply_op_cases_list_index : forall p i v xs,
  exists xs',
    apply_op (CModify p (LIndex i) v) (NList xs) = NList xs'
    /\ length xs' = length xs
    /\ (Z.to_nat i < length xs -> nth_error xs' (Z.to_nat i) = Some v)
    /\ (forall j, j <> Z.to_nat i -> nth_error xs' j = nth_error xs j).
Proof. exact Diff_proofs.apply_op_list_index. Qed.
Print Assumptions C10_apply_op_cases_list_index.

(* 5. the phase order is not vacuous: running the sets before the deletes (apply_changes_with =
   _apply_changes with the phases in the given order; apply_changes is apply_changes_with
   phase_order by definition) gives another configuration: "delete x; set x" then loses x. *)
Theorem C10_phase_order_matters :
  exists (e : sigenv) (h : heap) (root : ref) (cs : list change) (order : list optype),
    Permutation order phase_order
    /\ apply_changes_with e order h root cs <> apply_changes e h root cs.
Proof. exact Diff_proofs.phase_order_matters. Qed.
Print Assumptions C10_phase_order_matters.

Theorem C10_apply_changes_with_phase_order : forall e h root cs,
  apply_changes e h root cs = apply_changes_with e phase_order h root cs.
Proof. exact Diff_proofs.apply_changes_with_phase_order. Qed.
Print Assumptions C10_apply_changes_with_phase_order.

(* ------------------------------------------------------------------------------------------ *)
(* A concrete configuration: Config(f7, a1 = {"a": 1, "b": 2}, a2 = [10, 20],
   a3 = Config(f8, a1 = 5) with tag 3 on a1), and a diff touching the dict, the list and the inner
   Config with all five kinds of change. *)
Definition ex_env : sigenv :=
  [(7%N, [mkparam 1%N PosOrKw None false; mkparam 2%N PosOrKw None false;
          mkparam 3%N PosOrKw (Some (RA ANone)) false]);
   (8%N, [mkparam 1%N PosOrKw None false; mkparam 2%N PosOrKw None false])].
Definition ex_heap : heap :=
  [NDict [(AStr [97%N], RA (AInt 1)); (AStr [98%N], RA (AInt 2))];
   NList [RA (AInt 10); RA (AInt 20)];
   NBuildable BConfig 8%N [(KName 1%N, RA (AInt 5))] [(KName 1%N, [3%N])];
   NBuildable BConfig 7%N [(KName 1%N, RP 0); (KName 2%N, RP 1); (KName 3%N, RP 2)] []].
Definition ex_root : ref := RP 3.
Definition ex_changes : list change :=
  [CSet [PAttr 3%N] (LAttr 2%N) (RA (AInt 6));
   CModify [PAttr 3%N] (LAttr 1%N) (RA (AInt 7));
   CModify [PAttr 3%N] LFn (RA (ASym 9%N));
   CAddTag [PAttr 3%N] 2%N 4%N;
   CRemoveTag [PAttr 3%N] 1%N 3%N;
   CDelete [PAttr 1%N] (LKey (AStr [97%N]));
   CSet [PAttr 1%N] (LKey (AStr [99%N])) (RA (AInt 3));
   CModify [PAttr 2%N] (LIndex 1) (RA (AInt 21))].

Example C10_ex_parents :
  map (fun c => follow ex_env ex_heap ex_root (parent_of c)) ex_changes
  = [Some (RP 2); Some (RP 2); Some (RP 2); Some (RP 2); Some (RP 2);
     Some (RP 0); Some (RP 0); Some (RP 1)].
Proof. vm_compute. reflexivity. Qed.

Example C10_ex_result :
  apply_changes ex_env ex_heap ex_root ex_changes
  = [NDict [(AStr [98%N], RA (AInt 2)); (AStr [99%N], RA (AInt 3))];
     NList [RA (AInt 10); RA (AInt 21)];
     NBuildable BConfig 9%N [(KName 1%N, RA (AInt 7)); (KName 2%N, RA (AInt 6))]
                [(KName 1%N, []); (KName 2%N, [4%N])];
     NBuildable BConfig 7%N [(KName 1%N, RP 0); (KName 2%N, RP 1); (KName 3%N, RP 2)] []].
Proof. vm_compute. reflexivity. Qed.

Example C10_ex_changes_for :
  changes_for ex_env ex_heap ex_root 2 ex_changes OpModify
  = [CModify [PAttr 3%N] (LAttr 1%N) (RA (AInt 7)); CModify [PAttr 3%N] LFn (RA (ASym 9%N))]
  /\ changes_for ex_env ex_heap ex_root 0 ex_changes OpDelete = [CDelete [PAttr 1%N] (LKey (AStr [97%N]))].
Proof. vm_compute. split; reflexivity. Qed.

(* the hypothesis of the frame theorem holds of the root, which is the parent of no change *)
Example C10_ex_frame_hyp :
  forall c, In c ex_changes -> follow ex_env ex_heap ex_root (parent_of c) <> Some (RP 3).
Proof.
  intros c Hc. cbn [ex_changes In] in Hc.
  repeat (destruct Hc as [Hc|Hc]; [subst c; vm_compute; discriminate |]). destruct Hc.
Qed.

Example C10_ex_frame : nth_error (apply_changes ex_env ex_heap ex_root ex_changes) 3 = nth_error ex_heap 3.
Proof. apply C10_apply_frame. exact C10_ex_frame_hyp. Qed.

(* ======================================================================================
   Part 2: the whole round trip (merged from the round-trip proof development)
   ====================================================================================== *)
(* C10 (round trip) - applying build_diff(old, new) to old yields a configuration equal to new in
   callables, arguments, tags and sharing structure; the root (and every aligned object of old) keeps
   its identity; nothing else is touched.

   Model: DiffBuild.patch = build_diff_from_alignment + resolve_diff_references + apply_diff on one
   heap h that holds both structures, for the alignment `al` (pairs old id / new id) the builder
   ended with.  Graphs are compared up to C10Check.canon_node_tags (storage order of arguments,
   dict insertion order, empty tag entries), by a one-to-one correspondence m between pointers.

   Side conditions (all boolean, all evaluated on the examples below):
     wf_b e h                  children before parents (the harness's encoding; acyclic)
     heap_ok_b h               distinct keys in argument stores / dicts / namedtuples; no built
                               objects (NObj / NPartialObj) in the configurations
     alignment_ok al h ro rn   DiffBuild: one-to-one, roots aligned, same_kind for every pair
     align_tags_ok_b al h      aligned Buildables: one tag entry per argument, named arguments only,
                               tag sets in the harness's sorted encoding
     old_reach_b e al h ro     every aligned old object is reachable from the old root
   NOT needed: disjointness of the two structures (only used for "new is untouched"), reachability
   of aligned new objects (only used for C10_patch_frame's pointer statement), and any acyclicity
   condition on the alignment (see C10_cycle_alignment_example). *)
From Fiddle Require Import PyBase PySlice Sig ArgStore PyCall Heap Traverse Build Build_stmt Tags History
  Diff Lang Codegen C02Check DiffBuild C10Check Iso_proofs Copy_proofs DiffBuild_proofs.
From Coq Require Import List Arith.
Import ListNotations.
Local Open Scope nat_scope.

(* 1. MAIN: the patched old structure is isomorphic to the new one; the heap only grows; objects
   that are not aligned old objects are unchanged (in particular unaligned old objects); if the two
   structures are disjoint the whole new structure is unchanged. *)
Theorem C10_patch_yields_new : forall e al h rold rnew,
  wf_b e h = true ->
  heap_ok_b h = true ->
  alignment_ok al h rold rnew = true ->
  align_tags_ok_b al h = true ->
  old_reach_b e al h rold = true ->
  exists h',
    patch e al h rold rnew = Some h' /\
    (exists m, bij_wf m /\
               simulates (map canon_node_tags h') (map canon_node_tags h) m /\
               rel_ref m rold rnew) /\
    length h <= length h' /\
    (forall i, i < length h -> ~ In i (map fst al) -> nth_error h' i = nth_error h i) /\
    (disjoint_b e h rold rnew = true ->
     forall j, Build_stmt.reach e h rnew j -> nth_error h' j = nth_error h j).
Proof. exact DiffBuild_proofs.patch_yields_new. Qed.
Print Assumptions C10_patch_yields_new.

(* the boolean comparison the harness evaluates implies the correspondence used above *)
Theorem C10_same_graph_sound : forall h1 r1 h2 r2,
  same_graph h1 r1 h2 r2 = true ->
  exists m, bij_wf m /\
            simulates (map canon_node_tags h1) (map canon_node_tags h2) m /\
            rel_ref m r1 r2.
Proof. exact DiffBuild_proofs.same_graph_iso. Qed.
Print Assumptions C10_same_graph_sound.

(* 1c. the per-pair lemma behind 1: for an aligned pair, the operations _DiffFromAlignmentBuilder
   records, applied in the five phases of _apply_changes, turn the old node into the new node with
   its references mapped by tau (aligned -> old object, otherwise -> its copy), up to normalisation *)
Theorem C10_node_patch_ok : forall al memo p no nn,
  same_kind al no nn = true ->
  node_ok_b no = true -> node_ok_b nn = true -> tags_ok_b no = true -> tags_ok_b nn = true ->
  (forall vo vn, In vn (refs_of nn) -> aligned_or_equal al vo vn = true -> vo = tau memo vn) ->
  canon_node_tags (apply_phases (node_changes al memo p no nn) no) =
  canon_node_tags (map_node_refs (tau memo) nn).
Proof. exact DiffBuild_proofs.node_patch_ok. Qed.
Print Assumptions C10_node_patch_ok.

(* 2. FRAME: the traversal only appends copies to the heap; apply_diff changes aligned old objects
   only; every pointer a change stores is an aligned old object or a copy made by the traversal *)
Theorem C10_patch_frame : forall e al h rold rnew,
  wf_b e h = true ->
  heap_ok_b h = true ->
  alignment_ok al h rold rnew = true ->
  align_tags_ok_b al h = true ->
  old_reach_b e al h rold = true ->
  exists o cs,
    build_changes e al h rold rnew = Some (o, cs) /\
    patch e al h rold rnew = Some (apply_changes e o rold cs) /\
    (exists ext, o = h ++ ext) /\
    length (apply_changes e o rold cs) = length o /\
    (forall i, ~ In i (map fst al) -> nth_error (apply_changes e o rold cs) i = nth_error o i) /\
    (new_reach_b e al h rnew = true ->
     forall c k, In c cs -> change_value c = Some (RP k) ->
                 In k (map fst al) \/ length h <= k < length o).
Proof. exact DiffBuild_proofs.patch_frame. Qed.
Print Assumptions C10_patch_frame.

(* 2b. whatever the patched old structure reaches (through any stored reference) is an aligned old
   object or a fresh copy: it shares no object with the new structure *)
Theorem C10_patch_independent : forall e al h rold rnew h',
  wf_b e h = true ->
  heap_ok_b h = true ->
  alignment_ok al h rold rnew = true ->
  align_tags_ok_b al h = true ->
  old_reach_b e al h rold = true ->
  patch e al h rold rnew = Some h' ->
  forall k, rreach h' rold k -> In k (map fst al) \/ length h <= k < length h'.
Proof. exact DiffBuild_proofs.patch_independent. Qed.
Print Assumptions C10_patch_independent.

(* 3. an aligned pair whose callable, tags and contents are aligned_or_equal records nothing *)
Theorem C10_unchanged_gives_no_changes : forall al memo p no nn,
  node_unchanged_b al no nn = true -> node_changes al memo p no nn = [].
Proof. exact DiffBuild_proofs.unchanged_gives_no_changes. Qed.
Print Assumptions C10_unchanged_gives_no_changes.

(* 4. necessity: a tuple aligned although an element changed (same_kind's tuple condition dropped),
   two new objects aligned with one old object (one-to-one dropped), a tag under an integer key
   (align_tags_ok_b dropped): in each case every other hypothesis holds and the conclusion fails *)
Theorem C10_patch_needs_tuple_condition :
  exists e al h rold rnew h',
    wf_b e h = true /\ heap_ok_b h = true /\
    alignment_ok_no_tuple al h rold rnew = true /\
    align_tags_ok_b al h = true /\ old_reach_b e al h rold = true /\
    new_reach_b e al h rnew = true /\ disjoint_b e h rold rnew = true /\
    patch e al h rold rnew = Some h' /\
    same_graph h' rold h rnew = false /\
    ~ graph_iso h' rold h rnew.
Proof. exact DiffBuild_proofs.patch_needs_tuple_condition. Qed.
Print Assumptions C10_patch_needs_tuple_condition.

Theorem C10_patch_needs_one_to_one :
  exists e al h rold rnew h',
    wf_b e h = true /\ heap_ok_b h = true /\
    alignment_ok_not_1to1 al h rold rnew = true /\
    align_tags_ok_b al h = true /\ old_reach_b e al h rold = true /\
    new_reach_b e al h rnew = true /\ disjoint_b e h rold rnew = true /\
    patch e al h rold rnew = Some h' /\
    same_graph h' rold h rnew = false /\
    ~ graph_iso h' rold h rnew.
Proof. exact DiffBuild_proofs.patch_needs_one_to_one. Qed.
Print Assumptions C10_patch_needs_one_to_one.

Theorem C10_patch_needs_named_tags :
  exists e al h rold rnew h',
    wf_b e h = true /\ heap_ok_b h = true /\
    alignment_ok al h rold rnew = true /\
    old_reach_b e al h rold = true /\
    new_reach_b e al h rnew = true /\ disjoint_b e h rold rnew = true /\
    align_tags_ok_b al h = false /\
    patch e al h rold rnew = Some h' /\
    same_graph h' rold h rnew = false /\
    ~ graph_iso h' rold h rnew.
Proof. exact DiffBuild_proofs.patch_needs_named_tags. Qed.
Print Assumptions C10_patch_needs_named_tags.

(* 5. EXAMPLES.  Old: root 1 = Config(f10, a0=S, a1=S, a2=7, a3="h") with a tag on a0, S = 0 shared.
   New: root 4 = Config(f11, a0=S', a2=8, a4=L, a1=L) with tags on a0 and a2; S' = 2 aligned with S;
   L = 3 a new list referenced twice.  Callable changed, a3 deleted, a4 added, a1 and a2 modified, a
   tag added, the new shared object copied once (5) and referenced twice. *)
Example C10_example_hypotheses :
  wf_b rt_env rt_heap = true /\
  heap_ok_b rt_heap = true /\
  alignment_ok rt_al rt_heap (RP 1) (RP 4) = true /\
  align_tags_ok_b rt_al rt_heap = true /\
  old_reach_b rt_env rt_al rt_heap (RP 1) = true /\
  new_reach_b rt_env rt_al rt_heap (RP 4) = true /\
  disjoint_b rt_env rt_heap (RP 1) (RP 4) = true.
Proof. vm_compute. repeat split. Qed.

Example C10_example_changes :
  build_changes rt_env rt_al rt_heap (RP 1) (RP 4) =
  Some (rt_heap ++ [NList [RA (AInt 5)]],
        [CModify [] LFn (RA (ASym 11%N));
         CAddTag [] 2%N 21%N;
         CModify [] (LAttr 1%N) (RP 5);
         CModify [] (LAttr 2%N) (RA (AInt 8));
         CDelete [] (LAttr 3%N);
         CSet [] (LAttr 4%N) (RP 5)]).
Proof. vm_compute. reflexivity. Qed.

Example C10_example_patch :
  patch rt_env rt_al rt_heap (RP 1) (RP 4) =
  Some [ NBuildable BConfig 12%N [(KName 5%N, RA (AInt 1))] [];
         NBuildable BConfig 11%N
           [(KName 0%N, RP 0); (KName 1%N, RP 5); (KName 2%N, RA (AInt 8)); (KName 4%N, RP 5)]
           [(KName 0%N, [20%N]); (KName 2%N, [21%N])];
         NBuildable BConfig 12%N [(KName 5%N, RA (AInt 1))] [];
         NList [RA (AInt 5)];
         NBuildable BConfig 11%N
           [(KName 0%N, RP 2); (KName 2%N, RA (AInt 8)); (KName 4%N, RP 3); (KName 1%N, RP 3)]
           [(KName 0%N, [20%N]); (KName 2%N, [21%N])];
         NList [RA (AInt 5)] ].
Proof. vm_compute. reflexivity. Qed.

Example C10_example_same_graph :
  match patch rt_env rt_al rt_heap (RP 1) (RP 4) with
  | Some h' => same_graph h' (RP 1) rt_heap (RP 4)
  | None => false
  end = true.
Proof. vm_compute. reflexivity. Qed.

(* the diff of a configuration with its deep copy under the identity alignment is empty *)
Example C10_identity_alignment_example :
  alignment_ok id_al id_heap (RP 2) (RP 5) = true /\
  forallb (fun ij => match nth_error id_heap (fst ij), nth_error id_heap (snd ij) with
                     | Some no, Some nn => node_unchanged_b id_al no nn
                     | _, _ => false
                     end) id_al = true /\
  build_changes rt_env id_al id_heap (RP 2) (RP 5) = Some (id_heap, []).
Proof. vm_compute. repeat split. Qed.

(* an alignment the real DiffAlignment refuses ("would create a cycle") satisfies every hypothesis of
   C10_patch_yields_new; the patched structure is isomorphic to new (hence acyclic), though the heap
   is no longer in children-first order *)
Example C10_cycle_alignment_example :
  wf_b [] cyc_heap = true /\ heap_ok_b cyc_heap = true /\
  alignment_ok cyc_al cyc_heap (RP 2) (RP 5) = true /\
  align_tags_ok_b cyc_al cyc_heap = true /\ old_reach_b [] cyc_al cyc_heap (RP 2) = true /\
  patch [] cyc_al cyc_heap (RP 2) (RP 5) =
    Some [ NList [RP 1]; NList [RA (AInt 9)]; NList [RP 0];
           NList [RA (AInt 9)]; NList [RP 3]; NList [RP 4] ] /\
  match patch [] cyc_al cyc_heap (RP 2) (RP 5) with
  | Some h' => same_graph h' (RP 2) cyc_heap (RP 5) && negb (wf_b [] h')
  | None => false
  end = true.
Proof. vm_compute. repeat split. Qed.
