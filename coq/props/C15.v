(* C15 - select() hits exactly the matching nodes; replace keeps the rest intact.
   Model: Tags.post_order (selection._memoized_walk_leaves_first), Tags.matches / select_ids
   (NodeSelection.__iter__), Tags.select_set (NodeSelection.set), Tags.rp_visit / select_replace
   (NodeSelection.replace(value, deepcopy=False)), Tags.tag_iter (TagSelection.__iter__).
   Statements only; proofs are in theories/Select_proofs.v.
   Hypotheses: wf_b = children point to smaller ids (acyclic); root_ok = the root is not a dangling
   pointer; keys_ok (only where paths are mentioned) = dict / named-tuple keys are distinct.
   creach e h r i: object i is reached from r by child steps; under keys_ok it is the same as
   reach e h r i (some path leads from r to i).  Hypotheses a statement does not need have been
   dropped. *)
From Fiddle Require Import PyBase PySlice Sig ArgStore PyCall Heap Traverse Build Build_stmt
  Traverse_proofs Build_proofs Tags Select_proofs.
From Coq Require Import List.
Import ListNotations.
Local Open Scope nat_scope.

(* ---------------------------------------------------------------- what a selector matches *)

(* A node matches iff it is a Buildable of an accepted kind whose callable is the selected one,
   or - with match_subclasses, when both are classes - a subclass of it. *)
Theorem C15_matches_char : forall subclasses classes sel n,
  matches subclasses classes sel n = true <->
  exists k fn args tags,
    n = NBuildable k fn args tags /\ btype_ok (s_btype sel) k = true /\
    (fn = s_fn sel \/
     (s_match_sub sel = true /\ In (s_fn sel) classes /\ In fn classes /\
      pair_mem subclasses fn (s_fn sel) = true)).
Proof. exact matches_char. Qed.
Print Assumptions C15_matches_char.

(* ---------------------------------------------------------------- the walk *)

(* Every object is visited at most once ... *)
Theorem C15_post_order_nodup : forall e h, wf_b e h = true -> forall r, root_ok h r ->
  NoDup (snd (post_order e (S (length h)) h ([], []) r)).
Proof. exact post_order_nodup. Qed.
Print Assumptions C15_post_order_nodup.

(* ... the visited objects are exactly the reachable ones ... *)
Theorem C15_post_order_exact : forall e h, wf_b e h = true -> forall r, root_ok h r -> forall i,
  In i (snd (post_order e (S (length h)) h ([], []) r)) <-> creach e h r i.
Proof. exact post_order_exact. Qed.
Print Assumptions C15_post_order_exact.

Theorem C15_post_order_exact_reach : forall e h, wf_b e h = true -> keys_ok h ->
  forall r, root_ok h r -> forall i,
  In i (snd (post_order e (S (length h)) h ([], []) r)) <-> reach e h r i.
Proof. exact post_order_exact_reach. Qed.
Print Assumptions C15_post_order_exact_reach.

(* ... and an object comes after everything it points to (leaves first). *)
Theorem C15_post_order_children_first : forall e h, wf_b e h = true -> forall r, root_ok h r ->
  forall i n j,
  In i (snd (post_order e (S (length h)) h ([], []) r)) ->
  nth_error h i = Some n -> In (RP j) (children e n) ->
  before j i (snd (post_order e (S (length h)) h ([], []) r)).
Proof. exact post_order_children_first. Qed.
Print Assumptions C15_post_order_children_first.

(* ---------------------------------------------------------------- select *)

(* Iterating a selection yields each reachable matching Buildable exactly once, and nothing
   else - however many parents share it and however deeply it is nested in other matches. *)
Theorem C15_select_nodup : forall e subclasses classes sel h,
  wf_b e h = true -> forall r, root_ok h r ->
  NoDup (select_ids e subclasses classes sel h r).
Proof. exact select_nodup. Qed.
Print Assumptions C15_select_nodup.

Theorem C15_select_exact : forall e subclasses classes sel h,
  wf_b e h = true -> forall r, root_ok h r -> forall i,
  In i (select_ids e subclasses classes sel h r) <->
  creach e h r i /\ exists n, nth_error h i = Some n /\ matches subclasses classes sel n = true.
Proof. exact select_exact. Qed.
Print Assumptions C15_select_exact.

Theorem C15_select_exact_reach : forall e subclasses classes sel h,
  wf_b e h = true -> keys_ok h -> forall r, root_ok h r -> forall i,
  In i (select_ids e subclasses classes sel h r) <->
  reach e h r i /\ exists n, nth_error h i = Some n /\ matches subclasses classes sel n = true.
Proof. exact select_exact_reach. Qed.
Print Assumptions C15_select_exact_reach.

(* every selected id holds a (matching) Buildable *)
Theorem C15_select_ids_buildable : forall e subclasses classes sel h r i,
  In i (select_ids e subclasses classes sel h r) ->
  exists k fn args tags, nth_error h i = Some (NBuildable k fn args tags) /\
                         matches subclasses classes sel (NBuildable k fn args tags) = true.
Proof. exact select_ids_buildable. Qed.
Print Assumptions C15_select_ids_buildable.

(* ---------------------------------------------------------------- set *)

(* NodeSelection.set( **kvs ): no object is created or moved; objects outside the selection are
   untouched; a selected Buildable keeps its kind, callable and tags and gets exactly the given
   attributes assigned, in order. *)
Theorem C15_select_set_exact : forall e subclasses classes sel h r kvs,
  wf_b e h = true -> root_ok h r ->
  let ids := select_ids e subclasses classes sel h r in
  let h' := select_set e subclasses classes sel h r kvs in
  length h' = length h /\
  (forall i, ~ In i ids -> nth_error h' i = nth_error h i) /\
  (forall i k fn args tags, In i ids -> nth_error h i = Some (NBuildable k fn args tags) ->
     nth_error h' i =
     Some (NBuildable k fn (fold_left (fun a kv => sset a (KName (fst kv)) (snd kv)) kvs args) tags)).
Proof. exact select_set_exact. Qed.
Print Assumptions C15_select_set_exact.

(* ---------------------------------------------------------------- replace *)

(* NodeSelection.replace(x, deepcopy=False).  sreach ... r i: object i is reached from r without
   entering a matching node (matching nodes themselves are reached, their contents are not, unless
   by another way).  memo1 maps every processed object to what stands for it afterwards. *)
Theorem C15_replace_identity : forall e subclasses classes sel x h,
  wf_b e h = true -> forall r, root_ok h r -> forall memo1 h1 r1,
  rp_visit e subclasses classes (S (length h)) sel x ([], h) r = ((memo1, h1), r1) ->
  (* the value returned for the root; the memo is a function, defined exactly on the objects
     reached outside matching nodes *)
  map_ref memo1 r = Some r1 /\
  NoDup (map fst memo1) /\
  (forall i, (exists v, memo_get memo1 i = Some v) <-> sreach e subclasses classes sel h r i) /\
  (* (a) nothing is removed, and an object is modified only if it is a processed non-matching
     Buildable *)
  length h <= length h1 /\
  (forall i n, nth_error h i = Some n ->
               memo_get memo1 i = None \/ matches subclasses classes sel n = true \/ is_bld n = false ->
               nth_error h1 i = Some n) /\
  (* (b) a processed Buildable that does not match keeps its identity; it is rebuilt in place
     over the images of its arguments: same kind, callable, argument keys; empty tag sets dropped *)
  (forall i ri n, memo_get memo1 i = Some ri -> nth_error h i = Some n ->
                  is_bld n = true -> matches subclasses classes sel n = false ->
                  ri = RP i /\
                  exists rs, map (map_ref memo1) (children e n) = map Some rs /\
                             nth_error h1 i = Some (with_children e n rs)) /\
  (* (c) a processed matching node is replaced by x *)
  (forall i ri n, memo_get memo1 i = Some ri -> nth_error h i = Some n ->
                  matches subclasses classes sel n = true -> ri = x) /\
  (* (d) any other container is re-created as a new object over the images of its elements *)
  (forall i ri n, memo_get memo1 i = Some ri -> nth_error h i = Some n ->
                  traversable n = true -> is_bld n = false ->
                  exists rs k, map (map_ref memo1) (children e n) = map Some rs /\
                               ri = RP k /\ length h <= k /\
                               nth_error h1 k = Some (with_children e n rs)) /\
  (* (e) objects the traversers do not enter are kept *)
  (forall i ri n, memo_get memo1 i = Some ri -> nth_error h i = Some n ->
                  traversable n = false -> ri = RP i).
Proof. exact replace_identity. Qed.
Print Assumptions C15_replace_identity.

(* (b) spelled out for a Buildable *)
Theorem C15_replace_buildable_kept : forall e subclasses classes sel x h,
  wf_b e h = true -> forall r, root_ok h r -> forall i ri k fn args tags,
  let res := rp_visit e subclasses classes (S (length h)) sel x ([], h) r in
  memo_get (fst (fst res)) i = Some ri -> nth_error h i = Some (NBuildable k fn args tags) ->
  matches subclasses classes sel (NBuildable k fn args tags) = false ->
  ri = RP i /\
  exists rs, map (map_ref (fst (fst res))) (map snd (flat_args e fn args)) = map Some rs /\
    nth_error (snd (fst res)) i =
    Some (NBuildable k fn (combine (map fst (flat_args e fn args)) rs)
            (filter (fun kt => match snd kt with [] => false | _ => true end) tags)).
Proof. exact replace_buildable_kept. Qed.
Print Assumptions C15_replace_buildable_kept.

(* objects that are not reached outside matching nodes are untouched by select_replace *)
Theorem C15_replace_unreached : forall e subclasses classes sel x h,
  wf_b e h = true -> forall r, root_ok h r -> forall i,
  ~ sreach e subclasses classes sel h r i -> i < length h ->
  nth_error (select_replace e subclasses classes sel h r x) i = nth_error h i.
Proof. exact replace_unreached. Qed.
Print Assumptions C15_replace_unreached.

(* every processed object is reachable *)
Theorem C15_replace_processed_reach : forall e subclasses classes sel x h,
  wf_b e h = true -> forall r, root_ok h r -> forall i v,
  memo_get (fst (fst (rp_visit e subclasses classes (S (length h)) sel x ([], h) r))) i = Some v ->
  creach e h r i.
Proof. exact replace_processed_reach. Qed.
Print Assumptions C15_replace_processed_reach.

(* distinct containers are re-created as distinct new objects (and a shared one only once) *)
Theorem C15_replace_fresh_distinct : forall e subclasses classes sel x h,
  wf_b e h = true -> forall r, root_ok h r -> forall i j ri rj ni nj,
  let memo1 := fst (fst (rp_visit e subclasses classes (S (length h)) sel x ([], h) r)) in
  memo_get memo1 i = Some ri -> memo_get memo1 j = Some rj ->
  nth_error h i = Some ni -> nth_error h j = Some nj ->
  traversable ni = true -> is_bld ni = false -> traversable nj = true -> is_bld nj = false ->
  i <> j -> ri <> rj.
Proof. exact replace_fresh_distinct. Qed.
Print Assumptions C15_replace_fresh_distinct.

(* ---------------------------------------------------------------- tag selections *)

(* list(select(cfg, tag=T)): node by node in the order of the walk, and inside a node in the order
   of __argument_tags__, one value per argument with a tag that is a subclass of T: the stored
   value, else the default (tag_default: the parameter's default unless it is a default_factory,
   NO_VALUE otherwise). *)
Theorem C15_tag_iter_flat : forall e subtags h r T,
  tag_iter e subtags h r T =
  flat_map (fun i => match nth_error h i with
                     | Some (NBuildable _ fn args tags) =>
                         map (fun key => match sget args key with
                                         | Some v => v
                                         | None => tag_default e fn key
                                         end)
                             (map fst (filter (fun kt => tag_matches subtags T (snd kt)) tags))
                     | _ => []
                     end)
           (snd (post_order e (S (length h)) h ([], []) r)).
Proof. exact tag_iter_flat. Qed.
Print Assumptions C15_tag_iter_flat.

Theorem C15_tag_iter_length : forall e subtags h r T,
  length (tag_iter e subtags h r T) =
  list_sum (map (fun i => match nth_error h i with
                          | Some (NBuildable _ _ _ tags) =>
                              length (filter (fun kt => tag_matches subtags T (snd kt)) tags)
                          | _ => 0
                          end) (snd (post_order e (S (length h)) h ([], []) r))).
Proof. exact tag_iter_length. Qed.
Print Assumptions C15_tag_iter_length.

Theorem C15_tag_iter_in : forall e subtags h r T, wf_b e h = true -> root_ok h r -> forall v,
  In v (tag_iter e subtags h r T) <->
  exists i k fn args tags key ts,
    creach e h r i /\ nth_error h i = Some (NBuildable k fn args tags) /\
    In (key, ts) tags /\ tag_matches subtags T ts = true /\
    (sget args key = Some v \/ (sget args key = None /\ v = tag_default e fn key)).
Proof. exact tag_iter_in. Qed.
Print Assumptions C15_tag_iter_in.

(* what tag_default is *)
Theorem C15_tag_default_char : forall e fn key,
  tag_default e fn key =
  match key with
  | KName nm =>
      match find_param (sig_of e fn) nm with
      | Some p => if pfactory p then NoValue
                  else match pdefault p with Some d => d | None => NoValue end
      | None => NoValue
      end
  | KPos z =>
      match nth_error (sig_of e fn) (Z.to_nat z) with
      | Some p => if is_prefix_kind (pk p)
                  then match pdefault p with Some d => d | None => NoValue end
                  else NoValue
      | None => NoValue
      end
  end.
Proof. reflexivity. Qed.
Print Assumptions C15_tag_default_char.

(* ---------------------------------------------------------------- non-vacuity *)

Theorem C15_example_hyps : wf_b sx_env sx_heap = true /\ keys_ok sx_heap /\ root_ok sx_heap (RP 5).
Proof. exact sx_hyps. Qed.
Print Assumptions C15_example_hyps.

(* a Sub config shared by a Base config (matching), a list and the root tuple *)
Theorem C15_example :
  select_ids sx_env sx_subclasses sx_classes sx_sel sx_heap (RP 5) = [0; 1] /\
  select_ids sx_env sx_subclasses sx_classes sx_sel_exact sx_heap (RP 5) = [1] /\
  nth_error (select_set sx_env sx_subclasses sx_classes sx_sel sx_heap (RP 5) [(0%N, RA (AInt 9))]) 1 =
    Some (NBuildable BConfig 20%N [(KName 1%N, RP 0); (KName 0%N, RA (AInt 9))] []) /\
  select_replace sx_env sx_subclasses sx_classes sx_sel sx_heap (RP 5) sx_x =
    [ NBuildable BConfig 21%N [(KName 0%N, RA (AInt 1))] [];
      NBuildable BConfig 20%N [(KName 1%N, RP 0)] [];
      NList [RP 0; RA (AInt 2)];
      NBuildable BPartial 30%N [(KName 2%N, sx_x); (KName 3%N, RP 6)]
                 [(KName 2%N, [50%N]); (KName 4%N, [51%N])];
      NSet false [AInt 7];
      NTuple [RP 3; RP 0; RP 4];
      NList [sx_x; RA (AInt 2)];
      NTuple [RP 3; sx_x; RP 4] ] /\
  tag_iter sx_env sx_subtags sx_heap (RP 5) 50%N = [RP 1; RA (AInt 5)].
Proof. vm_compute. repeat split. Qed.
Print Assumptions C15_example.

(* root_ok is needed: a dangling root is reachable from itself (by the empty path) but the walk
   yields nothing *)
Theorem C15_post_order_exact_needs_root_ok :
  ~ (forall e h, wf_b e h = true -> forall r i,
       In i (snd (post_order e (S (length h)) h ([], []) r)) <-> creach e h r i).
Proof. exact post_order_exact_needs_root_ok. Qed.
Print Assumptions C15_post_order_exact_needs_root_ok.
