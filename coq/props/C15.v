(* C15 - select() hits exactly the matching nodes; replace keeps the rest intact. *)
From Fiddle Require Import PyBase PySlice Sig ArgStore PyCall Heap Traverse Tags Anchors.

Example C15_placeholder : True. Proof. exact I. Qed.
