(* C14 - tags select exactly the tagged arguments and survive every transformation. *)
From Fiddle Require Import PyBase PySlice Sig ArgStore PyCall Heap Traverse Tags Anchors.

Example C14_placeholder : True. Proof. exact I. Qed.
