(* C14 - tags select exactly the tagged arguments and survive every transformation.
   Model: Tags.apply_tagged / Tags.set_tagged (tagging.set_tagged: a lazy memoized pre-order walk
   that overwrites a Buildable BEFORE enumerating its children), Tags.list_tags, and the
   per-Buildable tag operations History.add_tag / remove_tag / clear_tags / set_tags.
   Statements only; proofs are in theories/Tags_proofs.v.
   Hypotheses: wf_b = children point to smaller ids (acyclic); keys_ok = dict / named-tuple keys
   are distinct; root_ok = the root is not a dangling pointer; args_ok = the argument dict of a
   Buildable has distinct keys.  creach e h r i = object i is reachable from r by child steps in
   heap h; reach = reachable by a path of PathElement.follow steps (the same under keys_ok).
   Hypotheses a statement does not need have been dropped. *)
From Fiddle Require Import PyBase PySlice Sig ArgStore History PyCall Heap Traverse Build Build_stmt
  Traverse_proofs Build_proofs Tags Tags_proofs.
From Coq Require Import List Sorted.
Import ListNotations.
Local Open Scope nat_scope.

(* ------------------------------------------------------------------------------------------ *)
(* 1. one object *)

(* apply_tagged sets exactly the arguments whose tag set contains a subtag of T, keeps the tag map
   and the callable, and leaves every other kind of object alone.  (Distinct tag keys are not
   needed.) *)
Theorem C14_apply_tagged_char : forall (subtags : list (N * N)) (T : N) (x : ref) (n : node),
  match n with
  | NBuildable k fn args tags =>
      exists args' : store,
        apply_tagged subtags T x n = NBuildable k fn args' tags /\
        (forall kk : skey,
           ((exists ts, In (kk, ts) tags /\ tag_matches subtags T ts = true) -> sget args' kk = Some x) /\
           (~ (exists ts, In (kk, ts) tags /\ tag_matches subtags T ts = true) ->
            sget args' kk = sget args kk))
  | _ => apply_tagged subtags T x n = n
  end.
Proof. exact apply_tagged_char. Qed.
Print Assumptions C14_apply_tagged_char.

(* ------------------------------------------------------------------------------------------ *)
(* 2. set_tagged with a leaf value *)

Theorem C14_set_tagged_length : forall e subtags T a h r,
  length (set_tagged e subtags h r T (RA a)) = length h.
Proof. exact set_tagged_leaf_length. Qed.
Print Assumptions C14_set_tagged_length.

(* An object that is still reachable from the root in the NEW heap holds apply_tagged of its old
   value; every other object is unchanged. *)
Theorem C14_set_tagged_nodes : forall e subtags T a h r,
  wf_b e h = true -> root_ok h r ->
  forall i n, nth_error h i = Some n ->
    (creach e (set_tagged e subtags h r T (RA a)) r i ->
     nth_error (set_tagged e subtags h r T (RA a)) i = Some (apply_tagged subtags T (RA a) n)) /\
    (~ creach e (set_tagged e subtags h r T (RA a)) r i ->
     nth_error (set_tagged e subtags h r T (RA a)) i = Some n).
Proof. exact set_tagged_leaf_nodes. Qed.
Print Assumptions C14_set_tagged_nodes.

(* The same with reachability by paths (PathElement.follow). *)
Theorem C14_set_tagged_nodes_reach : forall e subtags T a h r,
  wf_b e h = true -> root_ok h r -> keys_ok h ->
  forall i n, nth_error h i = Some n ->
    (reach e (set_tagged e subtags h r T (RA a)) r i ->
     nth_error (set_tagged e subtags h r T (RA a)) i = Some (apply_tagged subtags T (RA a) n)) /\
    (~ reach e (set_tagged e subtags h r T (RA a)) r i ->
     nth_error (set_tagged e subtags h r T (RA a)) i = Some n).
Proof. exact set_tagged_leaf_nodes_reach. Qed.
Print Assumptions C14_set_tagged_nodes_reach.

(* The "if" form, for any value and any heap: `visited` is the memo of the walk (decidable);
   C14_set_tagged_visited says what it is. *)
Theorem C14_set_tagged_marked : forall e subtags T x h r,
  length (set_tagged e subtags h r T x) = length h /\
  forall i n, nth_error h i = Some n ->
    nth_error (set_tagged e subtags h r T x) i =
    Some (if existsb (Nat.eqb i) (visited e subtags T x h r) then apply_tagged subtags T x n else n).
Proof. exact set_tagged_marked. Qed.
Print Assumptions C14_set_tagged_marked.

(* The objects the walk visits (Tags_proofs.visited: the memo of st_visit) are exactly those
   reachable from the root in the new heap ... *)
Theorem C14_set_tagged_visited : forall e subtags T a h r,
  wf_b e h = true -> root_ok h r ->
  forall i, In i (visited e subtags T (RA a) h r) <-> creach e (set_tagged e subtags h r T (RA a)) r i.
Proof. exact set_tagged_leaf_visited. Qed.
Print Assumptions C14_set_tagged_visited.

(* ... and they were reachable in the old heap. *)
Theorem C14_set_tagged_reach_subset : forall e subtags T a h r,
  wf_b e h = true -> root_ok h r -> args_ok h ->
  forall i, creach e (set_tagged e subtags h r T (RA a)) r i -> creach e h r i.
Proof. exact set_tagged_leaf_reach_old. Qed.
Print Assumptions C14_set_tagged_reach_subset.

(* The new heap is again well-formed. *)
Theorem C14_set_tagged_wf : forall e subtags T a h r,
  wf_b e h = true -> root_ok h r -> wf_b e (set_tagged e subtags h r T (RA a)) = true.
Proof. exact set_tagged_leaf_wf. Qed.
Print Assumptions C14_set_tagged_wf.

(* Every argument of every Buildable still reachable from the root whose tag set contains a subtag
   of T holds the value; no other argument, no tag set, no callable and no other object changed. *)
Theorem C14_set_tagged_exact : forall e subtags T a h r,
  wf_b e h = true -> root_ok h r ->
  length (set_tagged e subtags h r T (RA a)) = length h /\
  (forall i n, nth_error h i = Some n ->
     (forall k fn args tags, n <> NBuildable k fn args tags) ->
     nth_error (set_tagged e subtags h r T (RA a)) i = Some n) /\
  (forall i k fn args tags, nth_error h i = Some (NBuildable k fn args tags) ->
     exists args' : store,
       nth_error (set_tagged e subtags h r T (RA a)) i = Some (NBuildable k fn args' tags) /\
       (~ creach e (set_tagged e subtags h r T (RA a)) r i -> args' = args) /\
       (forall kk : skey,
          (creach e (set_tagged e subtags h r T (RA a)) r i /\
           (exists ts, In (kk, ts) tags /\ tag_matches subtags T ts = true) ->
           sget args' kk = Some (RA a)) /\
          (~ (creach e (set_tagged e subtags h r T (RA a)) r i /\
              (exists ts, In (kk, ts) tags /\ tag_matches subtags T ts = true)) ->
           sget args' kk = sget args kk))).
Proof. exact set_tagged_exact. Qed.
Print Assumptions C14_set_tagged_exact.

(* "Reachable" has to be read in the NEW heap: an object that hangs under an overwritten argument
   is reachable in the old heap, may carry a matching tag, and is not updated. *)
Theorem C14_set_tagged_old_reach_false :
  creach tg_env tg_heap tg_root 1 /\
  (exists k fn args tags kk ts,
     nth_error tg_heap 1 = Some (NBuildable k fn args tags) /\ In (kk, ts) tags /\
     tag_matches tg_subtags 100%N ts = true) /\
  nth_error (set_tagged tg_env tg_subtags tg_heap tg_root 100%N (RA (AInt 9))) 1 = nth_error tg_heap 1.
Proof. exact set_tagged_old_reach_false. Qed.
Print Assumptions C14_set_tagged_old_reach_false.

(* ------------------------------------------------------------------------------------------ *)
(* 3. set_tagged with any value that is older than the objects it is stored in *)

Theorem C14_set_tagged_nodes_gen : forall e subtags T x h r,
  wf_b e h = true -> root_ok h r ->
  (forall i n, nth_error h i = Some n -> apply_tagged subtags T x n <> n -> ref_below i x = true) ->
  forall i n, nth_error h i = Some n ->
    (creach e (set_tagged e subtags h r T x) r i ->
     nth_error (set_tagged e subtags h r T x) i = Some (apply_tagged subtags T x n)) /\
    (~ creach e (set_tagged e subtags h r T x) r i ->
     nth_error (set_tagged e subtags h r T x) i = Some n).
Proof. exact set_tagged_nodes_gen. Qed.
Print Assumptions C14_set_tagged_nodes_gen.

Theorem C14_set_tagged_ptr_nodes : forall e subtags T (v : nat) h r,
  wf_b e h = true -> root_ok h r ->
  (forall i k fn args tags kk ts,
     nth_error h i = Some (NBuildable k fn args tags) ->
     In (kk, ts) tags -> tag_matches subtags T ts = true -> v < i) ->
  forall i n, nth_error h i = Some n ->
    (creach e (set_tagged e subtags h r T (RP v)) r i ->
     nth_error (set_tagged e subtags h r T (RP v)) i = Some (apply_tagged subtags T (RP v) n)) /\
    (~ creach e (set_tagged e subtags h r T (RP v)) r i ->
     nth_error (set_tagged e subtags h r T (RP v)) i = Some n).
Proof. exact set_tagged_ptr_nodes. Qed.
Print Assumptions C14_set_tagged_ptr_nodes.

Theorem C14_set_tagged_ptr_wf : forall e subtags T (v : nat) h r,
  wf_b e h = true -> root_ok h r ->
  (forall i k fn args tags kk ts,
     nth_error h i = Some (NBuildable k fn args tags) ->
     In (kk, ts) tags -> tag_matches subtags T ts = true -> v < i) ->
  wf_b e (set_tagged e subtags h r T (RP v)) = true.
Proof. exact set_tagged_ptr_wf. Qed.
Print Assumptions C14_set_tagged_ptr_wf.

(* ------------------------------------------------------------------------------------------ *)
(* 4. list_tags *)

Theorem C14_list_tags_in : forall e h r, wf_b e h = true -> root_ok h r -> forall t,
  In t (list_tags e h r) <->
  exists i k fn args tags kk ts,
    creach e h r i /\ nth_error h i = Some (NBuildable k fn args tags) /\ In (kk, ts) tags /\ In t ts.
Proof. exact list_tags_in. Qed.
Print Assumptions C14_list_tags_in.

Theorem C14_list_tags_in_reach : forall e h r, wf_b e h = true -> keys_ok h -> root_ok h r -> forall t,
  In t (list_tags e h r) <->
  exists i k fn args tags kk ts,
    reach e h r i /\ nth_error h i = Some (NBuildable k fn args tags) /\ In (kk, ts) tags /\ In t ts.
Proof. exact list_tags_in_reach. Qed.
Print Assumptions C14_list_tags_in_reach.

Theorem C14_list_tags_sorted : forall e h r, StronglySorted N.lt (list_tags e h r).
Proof. exact list_tags_sorted. Qed.
Print Assumptions C14_list_tags_sorted.

Theorem C14_list_tags_nodup : forall e h r, NoDup (list_tags e h r).
Proof. exact list_tags_nodup. Qed.
Print Assumptions C14_list_tags_nodup.

(* ------------------------------------------------------------------------------------------ *)
(* 5. the tag operations of one Buildable: only the tag set of the named argument moves *)

Theorem C14_add_tag_frame : forall sg s a t s', add_tag sg s a t = (s', None) ->
  exists k, targ_key sg s a = inl k /\
    b_args s' = b_args s /\
    (forall k', k' <> k -> tags_get (b_tags s') k' = tags_get (b_tags s) k') /\
    tags_get (b_tags s') k = tset_add t (tags_get (b_tags s) k).
Proof. exact add_tag_frame. Qed.
Print Assumptions C14_add_tag_frame.

Theorem C14_add_tag_error : forall sg s a t s' ex, add_tag sg s a t = (s', Some ex) -> s' = s.
Proof. exact add_tag_error. Qed.
Print Assumptions C14_add_tag_error.

Theorem C14_remove_tag_frame : forall sg s a t s', remove_tag sg s a t = (s', None) ->
  exists k, targ_key sg s a = inl k /\
    b_args s' = b_args s /\
    (forall k', k' <> k -> tags_get (b_tags s') k' = tags_get (b_tags s) k') /\
    tags_get (b_tags s') k = tset_remove t (tags_get (b_tags s) k) /\ In t (tags_get (b_tags s) k).
Proof. exact remove_tag_frame. Qed.
Print Assumptions C14_remove_tag_frame.

(* a failing remove_tag may create an empty entry (the defaultdict was read), nothing else *)
Theorem C14_remove_tag_error : forall sg s a t s' ex, remove_tag sg s a t = (s', Some ex) ->
  b_args s' = b_args s /\ forall k', tags_get (b_tags s') k' = tags_get (b_tags s) k'.
Proof. exact remove_tag_error. Qed.
Print Assumptions C14_remove_tag_error.

Theorem C14_clear_tags_frame : forall sg s a s', clear_tags sg s a = (s', None) ->
  exists k, targ_key sg s a = inl k /\
    b_args s' = b_args s /\
    (forall k', k' <> k -> tags_get (b_tags s') k' = tags_get (b_tags s) k') /\
    tags_get (b_tags s') k = [].
Proof. exact clear_tags_frame. Qed.
Print Assumptions C14_clear_tags_frame.

Theorem C14_clear_tags_error : forall sg s a s' ex, clear_tags sg s a = (s', Some ex) -> s' = s.
Proof. exact clear_tags_error. Qed.
Print Assumptions C14_clear_tags_error.

(* duplicates in ts are harmless *)
Theorem C14_set_tags_frame : forall sg s a ts s', set_tags sg s a ts = (s', None) ->
  exists k, targ_key sg s a = inl k /\
    b_args s' = b_args s /\
    (forall k', k' <> k -> tags_get (b_tags s') k' = tags_get (b_tags s) k') /\
    (forall t, In t (tags_get (b_tags s') k) <-> In t ts).
Proof. exact set_tags_frame. Qed.
Print Assumptions C14_set_tags_frame.

Theorem C14_set_tags_error : forall sg s a ts s' ex, set_tags sg s a ts = (s', Some ex) -> s' = s.
Proof. exact set_tags_error. Qed.
Print Assumptions C14_set_tags_error.

(* ------------------------------------------------------------------------------------------ *)
(* 6. non-vacuity: f(p0, /, a, b, c) tagged on p0 (tag 101 <: 100), a (tag 102) and c (100, 102);
   a shared child tagged 100; a child under p0 tagged 101 *)

Theorem C14_example_hyps :
  wf_b tg_env tg_heap = true /\ keys_ok tg_heap /\ root_ok tg_heap tg_root /\ args_ok tg_heap.
Proof. exact tg_hyps. Qed.
Print Assumptions C14_example_hyps.

Theorem C14_set_tagged_nonvacuous :
  set_tagged tg_env tg_subtags tg_heap tg_root 100%N (RA (AInt 9)) =
  [ NBuildable BConfig 11%N [(KName 2%N, RA (AInt 9))] [(KName 2%N, [100%N])];
    NBuildable BConfig 11%N [(KName 2%N, RA (AInt 6))] [(KName 2%N, [101%N])];
    NList [RP 0];
    NBuildable BConfig 10%N
      [(KPos 0, RA (AInt 9)); (KName 2%N, RP 0); (KName 3%N, RP 2); (KName 4%N, RA (AInt 9))]
      [(KPos 0, [101%N]); (KName 2%N, [102%N]); (KName 4%N, [100%N; 102%N])] ] /\
  visited tg_env tg_subtags 100%N (RA (AInt 9)) tg_heap tg_root = [2; 0; 3] /\
  list_tags tg_env tg_heap tg_root = [100%N; 101%N; 102%N] /\
  set_tagged tg_env tg_subtags tg_heap tg_root 103%N (RA (AInt 9)) = tg_heap /\
  set_tagged tg_env tg_subtags tg_heap tg_root 101%N (RP 0) =
  [ NBuildable BConfig 11%N [(KName 2%N, RA (AInt 5))] [(KName 2%N, [100%N])];
    NBuildable BConfig 11%N [(KName 2%N, RA (AInt 6))] [(KName 2%N, [101%N])];
    NList [RP 0];
    NBuildable BConfig 10%N
      [(KPos 0, RP 0); (KName 2%N, RP 0); (KName 3%N, RP 2); (KName 4%N, RA (AInt 1))]
      [(KPos 0, [101%N]); (KName 2%N, [102%N]); (KName 4%N, [100%N; 102%N])] ].
Proof. exact set_tagged_nonvacuous. Qed.
Print Assumptions C14_set_tagged_nonvacuous.
