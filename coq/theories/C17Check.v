(* C17Check: the modelled read-only / copy-returning APIs never write below the end of the input
   heap: every one of them is an instance of the memoized traversal, which only appends. *)
From Fiddle Require Import PyBase PySlice Sig ArgStore PyCall Heap Traverse Build Copy Tags Eq Transform
  C02Check C08Check.

Record case := mkcase { c_env : sigenv; c_heap : heap; c_root : ref }.

Definition untouched (h : heap) (s : mstate) : bool :=
  if heap_eq_dec (firstn (length h) (out s)) h then true else false.

Definition check_case (c : case) : bool :=
  let e := c_env c in let h := c_heap c in let r := c_root c in
  untouched h (fst (mrun e h (build_node e no_fail) r))
  && untouched h (fst (deepcopy e false h r))
  && untouched h (fst (deepcopy e true h r))
  && untouched h (fst (mrun e h (rebuild_node e) r))
  && untouched h (fst (with_defaults_trimmed e h r))
  && untouched h (fst (simplify_partials e h r))
  && untouched h (fst (materialize_tags e h r)).

Definition explain_case (c : case) := wf_b (c_env c) (c_heap c).
