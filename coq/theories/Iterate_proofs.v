(* Iterate_proofs: the path-reporting traversals (Traverse.iter_basic, iter_memo, paths_to) report
   exactly the paths that PathElement.follow accepts, each once; the memoized iteration visits
   every object that has an identity exactly once. *)
From Fiddle Require Import PyBase PySlice Sig ArgStore PyCall Heap Traverse Build Build_stmt
  Traverse_proofs Build_proofs.
From Coq Require Import List Arith Lia Bool ZArith NArith.
Import ListNotations.
Local Open Scope nat_scope.

(* ------------------------------------------------------------------------------------------ *)
(* list facts *)

Lemma nodup_app_intro {A} (l1 l2 : list A) :
  NoDup l1 -> NoDup l2 -> (forall x, In x l1 -> In x l2 -> False) -> NoDup (l1 ++ l2).
Proof.
  induction l1 as [|a l1 IH]; intros Hnd1 Hnd2 Hdisj; cbn [app]; [exact Hnd2 |].
  inversion Hnd1 as [|? ? Hnotin Hnd1']; subst. constructor.
  - intros Hin. apply in_app_or in Hin. destruct Hin as [Hin|Hin]; [auto |].
    apply (Hdisj a); [left; reflexivity | exact Hin].
  - apply IH; auto. intros x Hx1 Hx2. apply (Hdisj x); [right; exact Hx1 | exact Hx2].
Qed.

Lemma nodup_map_filter {A B} (g : A -> B) (f : A -> bool) l :
  NoDup (map g l) -> NoDup (map g (filter f l)).
Proof.
  induction l as [|a l IH]; cbn [map filter]; intros Hnd; [constructor |].
  inversion Hnd as [|? ? Hnotin Hnd']; subst.
  destruct (f a); cbn [map]; [| auto]. constructor; [| auto].
  intros Hin. apply Hnotin. apply in_map_iff in Hin. destruct Hin as (x & Hx & Hin).
  apply filter_In in Hin. apply in_map_iff. exists x. tauto.
Qed.

Lemma app_inv_prefix {A} (p a b : list A) : p ++ a = p ++ b -> a = b.
Proof. apply app_inv_head. Qed.

(* aligned association lists *)
Lemma assoc_elt_combine es : forall cs pe c,
  assoc_elt es cs pe = Some c -> In (c, pe) (combine cs es).
Proof.
  induction es as [|x es IH]; intros cs pe c Ha; cbn [assoc_elt] in Ha; [discriminate |].
  destruct cs as [|c0 cs]; [discriminate |]. cbn [combine].
  destruct (pelt_eq_dec x pe) as [Heq|Hne].
  - inversion Ha; subst. left; reflexivity.
  - right. apply IH; exact Ha.
Qed.

Lemma combine_assoc_elt es : forall cs pe c,
  NoDup es -> In (c, pe) (combine cs es) -> assoc_elt es cs pe = Some c.
Proof.
  induction es as [|x es IH]; intros cs pe c Hnd Hin.
  - destruct cs; destruct Hin.
  - destruct cs as [|c0 cs]; [destruct Hin |]. cbn [combine] in Hin. cbn [assoc_elt].
    inversion Hnd as [|? ? Hnotin Hnd']; subst.
    destruct Hin as [Heq|Hin].
    + inversion Heq; subst. destruct (pelt_eq_dec pe pe); congruence.
    + destruct (pelt_eq_dec x pe) as [Heq|Hne]; [| apply IH; auto].
      subst x. exfalso. apply Hnotin. apply in_combine_r in Hin. exact Hin.
Qed.

(* ------------------------------------------------------------------------------------------ *)
(* daglish.iterate, un-memoized *)

Section Basic.
  Variable e : sigenv.
  Variable h : heap.

  (* the loop over the children, as a named function *)
  Fixpoint bgo (visit : ref -> path -> list (ref * path)) (p : path) (cs : list ref) (es : list pelt)
    : list (ref * path) :=
    match cs, es with
    | c :: cs', pe :: es' => visit c (p ++ [pe]) ++ bgo visit p cs' es'
    | _, _ => []
    end.

  Lemma iter_basic_O r p : iter_basic e h 0 r p = [(r, p)].
  Proof. destruct r; reflexivity. Qed.

  Lemma iter_basic_atom fuel a p : iter_basic e h fuel (RA a) p = [(RA a, p)].
  Proof. destruct fuel; reflexivity. Qed.

  Lemma iter_basic_S f i p :
    iter_basic e h (S f) (RP i) p =
    (RP i, p) :: match nth_error h i with
                 | Some n => bgo (iter_basic e h f) p (children e n) (elts e n)
                 | None => []
                 end.
  Proof.
    cbn [iter_basic]. f_equal. destruct (nth_error h i) as [n|]; [| reflexivity].
    generalize (children e n) (elts e n). intros cs. induction cs as [|c cs IH]; intros es.
    - reflexivity.
    - destruct es as [|pe es]; [reflexivity |]. cbn [bgo]. rewrite <- IH. reflexivity.
  Qed.

  Lemma bgo_in visit p : forall cs es x,
    In x (bgo visit p cs es) <->
    exists c pe, In (c, pe) (combine cs es) /\ In x (visit c (p ++ [pe])).
  Proof.
    induction cs as [|c cs IH]; intros es x.
    - cbn [bgo combine]. split; [intros [] | intros (c & pe & [] & _)].
    - destruct es as [|pe es].
      + cbn [bgo combine]. split; [intros [] | intros (c0 & pe & [] & _)].
      + cbn [bgo combine]. rewrite in_app_iff, IH. split.
        * intros [Hin|(c0 & pe0 & Hc & Hin)].
          -- exists c, pe. split; [left; reflexivity | exact Hin].
          -- exists c0, pe0. split; [right; exact Hc | exact Hin].
        * intros (c0 & pe0 & [Heq|Hc] & Hin).
          -- inversion Heq; subst. left; exact Hin.
          -- right. exists c0, pe0. split; assumption.
  Qed.

  (* every reported path extends the prefix *)
  Lemma iter_basic_prefix : forall fuel r p v q,
    In (v, q) (iter_basic e h fuel r p) -> exists s, q = p ++ s.
  Proof.
    induction fuel as [|f IH]; intros r p v q Hin.
    - rewrite iter_basic_O in Hin. destruct Hin as [Heq|[]]. inversion Heq; subst.
      exists []. rewrite app_nil_r. reflexivity.
    - destruct r as [a|i].
      + rewrite iter_basic_atom in Hin. destruct Hin as [Heq|[]]. inversion Heq; subst.
        exists []. rewrite app_nil_r. reflexivity.
      + rewrite iter_basic_S in Hin. destruct Hin as [Heq|Hin].
        * inversion Heq; subst. exists []. rewrite app_nil_r. reflexivity.
        * destruct (nth_error h i) as [n|]; [| destruct Hin].
          apply bgo_in in Hin. destruct Hin as (c & pe & _ & Hin).
          apply IH in Hin. destruct Hin as [s Hs]. exists (pe :: s).
          rewrite Hs, <- app_assoc. reflexivity.
  Qed.

  (* 1. soundness: every reported (value, path) is what follow computes *)
  Lemma iter_basic_sound_gen (Hok : elts_ok e h) : forall fuel r p v q,
    In (v, q) (iter_basic e h fuel r p) -> exists s, q = p ++ s /\ follow e h r s = Some v.
  Proof.
    induction fuel as [|f IH]; intros r p v q Hin.
    - rewrite iter_basic_O in Hin. destruct Hin as [Heq|[]]. inversion Heq; subst.
      exists []. rewrite app_nil_r. split; reflexivity.
    - destruct r as [a|i].
      + rewrite iter_basic_atom in Hin. destruct Hin as [Heq|[]]. inversion Heq; subst.
        exists []. rewrite app_nil_r. split; reflexivity.
      + rewrite iter_basic_S in Hin. destruct Hin as [Heq|Hin].
        * inversion Heq; subst. exists []. rewrite app_nil_r. split; reflexivity.
        * destruct (nth_error h i) as [n|] eqn:Hn; [| destruct Hin].
          apply bgo_in in Hin. destruct Hin as (c & pe & Hc & Hin).
          apply IH in Hin. destruct Hin as (s & Hs & Hf). exists (pe :: s).
          split; [rewrite Hs, <- app_assoc; reflexivity |].
          cbn [follow]. rewrite Hn. unfold follow_node.
          destruct (Hok i n Hn) as [Hnd _].
          rewrite (combine_assoc_elt _ _ _ _ Hnd Hc). exact Hf.
  Qed.

  Theorem iter_basic_sound (Hk : keys_ok h) fuel r v p :
    In (v, p) (iter_basic e h fuel r []) -> follow e h r p = Some v.
  Proof.
    intros Hin. apply (iter_basic_sound_gen (keys_ok_elts_ok e h Hk)) in Hin.
    destruct Hin as (s & Hs & Hf). cbn [app] in Hs. subst s. exact Hf.
  Qed.

  (* 2. completeness *)
  Lemma iter_basic_complete_gen (Hwf : wf_b e h = true) : forall s fuel r p v,
    (forall i, r = RP i -> i < fuel) ->
    follow e h r s = Some v -> In (v, p ++ s) (iter_basic e h fuel r p).
  Proof.
    induction s as [|pe s IH]; intros fuel r p v Hfuel Hf; cbn [follow] in Hf.
    - inversion Hf; subst. rewrite app_nil_r. destruct fuel; destruct v; left; reflexivity.
    - destruct r as [a|i]; [discriminate |].
      destruct (nth_error h i) as [n|] eqn:Hn; [| discriminate].
      destruct (follow_node e n pe) as [c|] eqn:Hc; [| discriminate].
      specialize (Hfuel i eq_refl). destruct fuel as [|f]; [lia |].
      rewrite iter_basic_S, Hn. right. apply bgo_in. exists c, pe.
      split; [apply assoc_elt_combine; exact Hc |].
      replace (p ++ pe :: s) with ((p ++ [pe]) ++ s) by (rewrite <- app_assoc; reflexivity).
      apply IH; [| exact Hf].
      intros j Hj. subst c. unfold follow_node in Hc. apply assoc_elt_in in Hc.
      pose proof (wf_children_lt e h i n j Hwf Hn Hc). lia.
  Qed.

  Theorem iter_basic_complete (Hwf : wf_b e h = true) r v p :
    follow e h r p = Some v -> In (v, p) (iter_basic e h (S (length h)) r []).
  Proof.
    intros Hf. destruct p as [|pe p].
    - cbn [follow] in Hf. inversion Hf; subst. destruct v; left; reflexivity.
    - apply (iter_basic_complete_gen Hwf (pe :: p) (S (length h)) r [] v); [| exact Hf].
      intros i Hr. subst r. cbn [follow] in Hf.
      destruct (nth_error h i) as [n|] eqn:Hn; [| discriminate].
      assert (i < length h) by (apply nth_error_Some; congruence). lia.
  Qed.

  (* 3. every path is reported once *)
  Lemma iter_basic_nodup_gen (Hok : elts_ok e h) : forall fuel r p,
    NoDup (map snd (iter_basic e h fuel r p)).
  Proof.
    induction fuel as [|f IH]; intros r p.
    - rewrite iter_basic_O. cbn [map snd]. constructor; [intros [] | constructor].
    - destruct r as [a|i].
      + rewrite iter_basic_atom. cbn [map snd]. constructor; [intros [] | constructor].
      + rewrite iter_basic_S. cbn [map snd]. destruct (nth_error h i) as [n|] eqn:Hn.
        2:{ constructor; [intros [] | constructor]. }
        destruct (Hok i n Hn) as [Hnd _]. constructor.
        * intros Hin. apply in_map_iff in Hin. destruct Hin as ([v q] & Hq & Hin).
          cbn [snd] in Hq. subst q. apply bgo_in in Hin. destruct Hin as (c & pe & _ & Hin).
          apply iter_basic_prefix in Hin. destruct Hin as [s Hs].
          rewrite <- app_assoc in Hs. rewrite <- (app_nil_r p) in Hs at 1.
          apply app_inv_head in Hs. discriminate.
        * revert Hnd. generalize (elts e n) (children e n). intros es cs. revert es.
          induction cs as [|c cs IHc]; intros es Hnd; [constructor |].
          destruct es as [|pe es]; [constructor |]. cbn [bgo]. rewrite map_app.
          inversion Hnd as [|? ? Hnotin Hnd']; subst.
          apply nodup_app_intro; [apply IH | apply IHc; exact Hnd' |].
          intros q Hq1 Hq2.
          apply in_map_iff in Hq1. destruct Hq1 as ([v1 q1] & Hq1 & Hin1). cbn [snd] in Hq1. subst q1.
          apply in_map_iff in Hq2. destruct Hq2 as ([v2 q2] & Hq2 & Hin2). cbn [snd] in Hq2. subst q2.
          apply iter_basic_prefix in Hin1. destruct Hin1 as [s1 Hs1].
          apply bgo_in in Hin2. destruct Hin2 as (c2 & pe2 & Hc2 & Hin2).
          apply iter_basic_prefix in Hin2. destruct Hin2 as [s2 Hs2].
          rewrite Hs1, <- !app_assoc in Hs2. apply app_inv_head in Hs2. cbn [app] in Hs2.
          inversion Hs2; subst pe2. apply Hnotin. apply in_combine_r in Hc2. exact Hc2.
  Qed.

  Theorem iter_basic_nodup (Hk : keys_ok h) fuel r :
    NoDup (map snd (iter_basic e h fuel r [])).
  Proof. apply iter_basic_nodup_gen. apply keys_ok_elts_ok; exact Hk. Qed.

  (* 4. collect_paths_by_id *)
  Lemma paths_to_in fuel r i p :
    In p (paths_to e h fuel r i) <-> In (RP i, p) (iter_basic e h fuel r []).
  Proof.
    unfold paths_to. rewrite in_map_iff. split.
    - intros ([v q] & Hq & Hin). cbn [snd] in Hq. subst q. apply filter_In in Hin.
      destruct Hin as [Hin Hv]. cbn [fst] in Hv. destruct v as [a|j]; [discriminate |].
      apply Nat.eqb_eq in Hv. subst j. exact Hin.
    - intros Hin. exists (RP i, p). split; [reflexivity |]. apply filter_In.
      split; [exact Hin |]. cbn [fst]. apply Nat.eqb_refl.
  Qed.

  Theorem paths_to_exact (Hwf : wf_b e h = true) (Hk : keys_ok h) r i :
    (forall p, In p (paths_to e h (S (length h)) r i) <-> follow e h r p = Some (RP i)) /\
    NoDup (paths_to e h (S (length h)) r i).
  Proof.
    split.
    - intros p. rewrite paths_to_in. split.
      + apply iter_basic_sound; exact Hk.
      + apply iter_basic_complete; exact Hwf.
    - unfold paths_to. apply nodup_map_filter. apply iter_basic_nodup; exact Hk.
  Qed.
End Basic.

(* ------------------------------------------------------------------------------------------ *)
(* daglish.iterate, memoized *)

Lemma count_occ_filter {A} (dec : forall a b : A, {a = b} + {a <> b}) (f : A -> bool) l x :
  f x = true -> count_occ dec (filter f l) x = count_occ dec l x.
Proof.
  intros Hx. induction l as [|a l IH]; cbn [filter count_occ]; [reflexivity |].
  destruct (dec a x) as [Heq|Hne].
  - subst a. rewrite Hx. cbn [count_occ]. destruct (dec x x); congruence.
  - destruct (f a); cbn [count_occ]; [destruct (dec a x); congruence | exact IH].
Qed.

Lemma in_combine_l_ex {A B} (l : list A) : forall (l' : list B) x,
  length l <= length l' -> In x l -> exists y, In (x, y) (combine l l').
Proof.
  induction l as [|a l IH]; intros l' x Hlen Hin; [destruct Hin |].
  destruct l' as [|b l']; cbn [length] in Hlen; [lia |]. cbn [combine].
  destruct Hin as [Heq|Hin].
  - subst. exists b. left; reflexivity.
  - destruct (IH l' x ltac:(lia) Hin) as [y Hy]. exists y. right; exact Hy.
Qed.

(* first occurrences *)
Definition is_ptr_to (k : nat) (vp : ref * path) : bool :=
  match fst vp with RP j => Nat.eqb k j | RA _ => false end.

Lemma is_ptr_to_true k vp : is_ptr_to k vp = true -> fst vp = RP k.
Proof.
  unfold is_ptr_to. destruct (fst vp) as [a|j]; [discriminate |].
  intros H. apply Nat.eqb_eq in H. subst; reflexivity.
Qed.

Lemma find_app {A} (f : A -> bool) l1 l2 :
  find f (l1 ++ l2) = match find f l1 with Some x => Some x | None => find f l2 end.
Proof. induction l1 as [|a l1 IH]; cbn [app find]; [reflexivity |]. destruct (f a); auto. Qed.

Lemma find_ptr_none k (l : list (ref * path)) :
  find (is_ptr_to k) l = None -> In (RP k) (map fst l) -> False.
Proof.
  intros Hf Hin. apply in_map_iff in Hin. destruct Hin as ([v q] & Hv & Hin). cbn [fst] in Hv. subst v.
  pose proof (find_none _ _ Hf _ Hin) as Hx. unfold is_ptr_to in Hx. cbn [fst] in Hx.
  rewrite Nat.eqb_refl in Hx. discriminate.
Qed.

Lemma find_ptr_unique (l : list (ref * path)) k p :
  count_occ ref_eq_dec (map fst l) (RP k) <= 1 -> In (RP k, p) l ->
  find (is_ptr_to k) l = Some (RP k, p).
Proof.
  induction l as [|[v q] l IH]; intros Hc Hin; [destruct Hin |].
  cbn [map fst count_occ] in Hc. cbn [find]. unfold is_ptr_to at 1. cbn [fst].
  destruct (ref_eq_dec v (RP k)) as [Heq|Hne].
  - subst v. rewrite Nat.eqb_refl. destruct Hin as [Heq|Hin]; [congruence |].
    exfalso. assert (Hin' : In (RP k) (map fst l)).
    { apply in_map_iff. exists (RP k, p). split; [reflexivity | exact Hin]. }
    apply (count_occ_In ref_eq_dec) in Hin'. lia.
  - destruct Hin as [Heq|Hin]; [inversion Heq; congruence |].
    destruct v as [a|j]; [apply IH; assumption |].
    destruct (Nat.eqb k j) eqn:Hkj; [apply Nat.eqb_eq in Hkj; congruence | apply IH; assumption].
Qed.

Lemma hd_map_filter {A B} (g : A -> B) (f : A -> bool) l :
  hd_error (map g (filter f l)) = option_map g (find f l).
Proof.
  induction l as [|a l IH]; cbn [filter find]; [reflexivity |].
  destruct (f a); [reflexivity | exact IH].
Qed.

Section Memo.
  Variable e : sigenv.
  Variable h : heap.
  Variable mi : bool.

  Definition memoized (r : ref) : bool := mi || negb (internable h (S (length h)) r).

  (* the values that have an identity for the memoized iteration *)
  Definition has_id (r : ref) : bool :=
    match r with
    | RA (ASym _) => true
    | RA _ => false
    | RP _ => memoized r
    end.

  Fixpoint igo (visit : list ref -> ref -> path -> list ref * list (ref * path))
      (p : path) (seen : list ref) (cs : list ref) (es : list pelt)
    : list ref * list (ref * path) :=
    match cs, es with
    | c :: cs', pe :: es' =>
        let '(s1, y1) := visit seen c (p ++ [pe]) in
        let '(s2, y2) := igo visit p s1 cs' es' in
        (s2, y1 ++ y2)
    | _, _ => (seen, [])
    end.

  Lemma iter_memo_sym fuel seen s p :
    iter_memo e h mi fuel seen (RA (ASym s)) p =
    if existsb (ref_eqb (RA (ASym s))) seen then (seen, []) else (RA (ASym s) :: seen, [(RA (ASym s), p)]).
  Proof. destruct fuel; reflexivity. Qed.

  Lemma iter_memo_atom fuel seen a p :
    (forall s, a <> ASym s) -> iter_memo e h mi fuel seen (RA a) p = (seen, [(RA a, p)]).
  Proof. intros Ha. destruct fuel; destruct a; try reflexivity; exfalso; eapply Ha; reflexivity. Qed.

  Lemma iter_memo_O seen i p : iter_memo e h mi 0 seen (RP i) p = (seen, []).
  Proof. cbn [iter_memo]. destruct (_ && _); reflexivity. Qed.

  Lemma iter_memo_S f seen i p :
    iter_memo e h mi (S f) seen (RP i) p =
    if memoized (RP i) && existsb (ref_eqb (RP i)) seen then (seen, []) else
    match nth_error h i with
    | Some n =>
        let '(seen', ys) := igo (iter_memo e h mi f) p
                              (if memoized (RP i) then RP i :: seen else seen)
                              (children e n) (elts e n) in
        (seen', (RP i, p) :: ys)
    | None => (seen, [])
    end.
  Proof.
    cbn [iter_memo]. fold (memoized (RP i)).
    destruct (memoized (RP i) && existsb (ref_eqb (RP i)) seen); [reflexivity |].
    destruct (nth_error h i) as [n|]; [| reflexivity].
    generalize (if memoized (RP i) then RP i :: seen else seen).
    generalize (children e n) (elts e n). intros cs. induction cs as [|c cs IH]; intros es s0.
    - reflexivity.
    - destruct es as [|pe es]; [reflexivity |]. cbn [igo].
      destruct (iter_memo e h mi f s0 c (p ++ [pe])) as [s1 y1].
      specialize (IH es s1).
      match type of IH with (let '(_, _) := ?X in _) = (let '(_, _) := ?Y in _) =>
        destruct X as [s2 y2]; destruct Y as [s2' y2'] end.
      inversion IH; subst. reflexivity.
  Qed.

  Lemma igo_in visit p : forall cs es seen x,
    In x (snd (igo visit p seen cs es)) ->
    exists c pe seen0, In (c, pe) (combine cs es) /\ In x (snd (visit seen0 c (p ++ [pe]))).
  Proof.
    induction cs as [|c cs IH]; intros es seen x Hin; [destruct Hin |].
    destruct es as [|pe es]; [destruct Hin |]. cbn [igo] in Hin.
    destruct (visit seen c (p ++ [pe])) as [s1 y1] eqn:Hv.
    destruct (igo visit p s1 cs es) as [s2 y2] eqn:Hg. cbn [snd] in Hin.
    apply in_app_or in Hin. destruct Hin as [Hin|Hin].
    - exists c, pe, seen. split; [left; reflexivity |]. rewrite Hv. exact Hin.
    - specialize (IH es s1 x). rewrite Hg in IH. destruct (IH Hin) as (c0 & pe0 & s0 & Hc & Hx).
      exists c0, pe0, s0. split; [right; exact Hc | exact Hx].
  Qed.

  (* 5. soundness, for any mode, fuel and memo *)
  Lemma iter_memo_sound_gen (Hok : elts_ok e h) : forall fuel seen r p v q,
    In (v, q) (snd (iter_memo e h mi fuel seen r p)) ->
    exists s, q = p ++ s /\ follow e h r s = Some v.
  Proof.
    assert (Hhere : forall r p, exists s : path, p = p ++ s /\ follow e h r s = Some r).
    { intros r p. exists []. rewrite app_nil_r. split; reflexivity. }
    induction fuel as [|f IH]; intros seen r p v q Hin.
    - destruct r as [a|i]; [| rewrite iter_memo_O in Hin; destruct Hin].
      destruct a; try (cbn [iter_memo snd] in Hin; destruct Hin as [Heq|[]]; inversion Heq; subst; apply Hhere).
      rewrite iter_memo_sym in Hin. destruct (existsb _ seen); [destruct Hin |].
      destruct Hin as [Heq|[]]; inversion Heq; subst; apply Hhere.
    - destruct r as [a|i].
      + destruct a; try (cbn [iter_memo snd] in Hin; destruct Hin as [Heq|[]]; inversion Heq; subst; apply Hhere).
        rewrite iter_memo_sym in Hin. destruct (existsb _ seen); [destruct Hin |].
        destruct Hin as [Heq|[]]; inversion Heq; subst; apply Hhere.
      + rewrite iter_memo_S in Hin.
        destruct (memoized (RP i) && existsb (ref_eqb (RP i)) seen); [destruct Hin |].
        destruct (nth_error h i) as [n|] eqn:Hn; [| destruct Hin].
        destruct (igo _ p _ (children e n) (elts e n)) as [seen' ys] eqn:Hg. cbn [snd] in Hin.
        destruct Hin as [Heq|Hin]; [inversion Heq; subst; apply Hhere |].
        assert (Hin' : In (v, q) (snd (igo (iter_memo e h mi f) p
                  (if memoized (RP i) then RP i :: seen else seen) (children e n) (elts e n)))).
        { rewrite Hg. exact Hin. }
        apply igo_in in Hin'. destruct Hin' as (c & pe & s0 & Hc & Hx).
        apply IH in Hx. destruct Hx as (s & Hs & Hf). exists (pe :: s).
        split; [rewrite Hs, <- app_assoc; reflexivity |].
        cbn [follow]. rewrite Hn. unfold follow_node.
        destruct (Hok i n Hn) as [Hnd _].
        rewrite (combine_assoc_elt _ _ _ _ Hnd Hc). exact Hf.
  Qed.

  Theorem iter_memo_sound (Hk : keys_ok h) fuel seen r v p :
    In (v, p) (snd (iter_memo e h mi fuel seen r [])) -> follow e h r p = Some v.
  Proof.
    intros Hin. apply (iter_memo_sound_gen (keys_ok_elts_ok e h Hk)) in Hin.
    destruct Hin as (s & Hs & Hf). cbn [app] in Hs. subst s. exact Hf.
  Qed.
  (* A. bookkeeping: what is added to the memo is exactly what is yielded with an identity, in
     order, and nothing is added twice *)
  Definition specA (seen seen' : list ref) (ys : list (ref * path)) : Prop :=
    exists new, seen' = new ++ seen /\ filter has_id (map fst ys) = rev new /\
                (NoDup seen -> NoDup seen').

  Lemma specA_refl seen : specA seen seen [].
  Proof. exists []. repeat split; auto. Qed.

  Lemma specA_trans s0 s1 s2 y1 y2 : specA s0 s1 y1 -> specA s1 s2 y2 -> specA s0 s2 (y1 ++ y2).
  Proof.
    intros (n1 & Hs1 & Hf1 & Hnd1) (n2 & Hs2 & Hf2 & Hnd2). exists (n2 ++ n1).
    split; [rewrite Hs2, Hs1, app_assoc; reflexivity |].
    split; [rewrite map_app, filter_app, Hf1, Hf2, rev_app_distr; reflexivity | auto].
  Qed.

  Lemma specA_no_id s0 s1 ys r p : has_id r = false -> specA s0 s1 ys -> specA s0 s1 ((r, p) :: ys).
  Proof.
    intros Hr (n1 & Hs1 & Hf1 & Hnd1). exists n1. split; [exact Hs1 |].
    split; [cbn [map fst filter]; rewrite Hr; exact Hf1 | exact Hnd1].
  Qed.

  Lemma specA_id s0 s1 ys r p :
    has_id r = true -> existsb (ref_eqb r) s0 = false -> specA (r :: s0) s1 ys ->
    specA s0 s1 ((r, p) :: ys).
  Proof.
    intros Hr Hex (n1 & Hs1 & Hf1 & Hnd1). exists (n1 ++ [r]).
    split; [rewrite Hs1, <- app_assoc; reflexivity |].
    split; [cbn [map fst filter]; rewrite Hr, Hf1, rev_unit; reflexivity |].
    intros Hnd. apply Hnd1. constructor; [| exact Hnd].
    intros Hin. assert (existsb (ref_eqb r) s0 = true); [| congruence].
    apply existsb_exists. exists r. split; [exact Hin | apply ref_eqb_eq; reflexivity].
  Qed.

  Lemma igo_A visit p
    (Hvis : forall seen c q, specA seen (fst (visit seen c q)) (snd (visit seen c q))) :
    forall cs es seen, specA seen (fst (igo visit p seen cs es)) (snd (igo visit p seen cs es)).
  Proof.
    induction cs as [|c cs IH]; intros es seen; [apply specA_refl |].
    destruct es as [|pe es]; [apply specA_refl |]. cbn [igo].
    specialize (Hvis seen c (p ++ [pe])).
    destruct (visit seen c (p ++ [pe])) as [s1 y1]. specialize (IH es s1).
    destruct (igo visit p s1 cs es) as [s2 y2]. cbn [fst snd] in *.
    eapply specA_trans; eauto.
  Qed.

  Lemma iter_memo_A : forall fuel seen r p,
    specA seen (fst (iter_memo e h mi fuel seen r p)) (snd (iter_memo e h mi fuel seen r p)).
  Proof.
    assert (Hatom : forall fuel seen a p,
      specA seen (fst (iter_memo e h mi fuel seen (RA a) p)) (snd (iter_memo e h mi fuel seen (RA a) p))).
    { intros fuel seen a p.
      destruct a; try (rewrite iter_memo_atom by discriminate; cbn [fst snd];
                       apply specA_no_id; [reflexivity | apply specA_refl]).
      rewrite iter_memo_sym. destruct (existsb _ seen) eqn:Hex; cbn [fst snd]; [apply specA_refl |].
      apply specA_id; [reflexivity | exact Hex | apply specA_refl]. }
    induction fuel as [|f IH]; intros seen r p.
    - destruct r as [a|i]; [apply Hatom |]. rewrite iter_memo_O. apply specA_refl.
    - destruct r as [a|i]; [apply Hatom |]. rewrite iter_memo_S.
      destruct (memoized (RP i)) eqn:Hm; cbn [andb].
      + destruct (existsb (ref_eqb (RP i)) seen) eqn:Hex; [apply specA_refl |].
        destruct (nth_error h i) as [n|]; [| apply specA_refl].
        pose proof (igo_A (iter_memo e h mi f) p IH (children e n) (elts e n) (RP i :: seen)) as Hg.
        destruct (igo _ p _ (children e n) (elts e n)) as [seen' ys]. cbn [fst snd] in *.
        apply specA_id; [exact Hm | exact Hex | exact Hg].
      + destruct (nth_error h i) as [n|]; [| apply specA_refl].
        pose proof (igo_A (iter_memo e h mi f) p IH (children e n) (elts e n) seen) as Hg.
        destruct (igo _ p _ (children e n) (elts e n)) as [seen' ys]. cbn [fst snd] in *.
        apply specA_no_id; [exact Hm | exact Hg].
  Qed.

  Lemma specA_incl s0 s1 ys x : specA s0 s1 ys -> In x s0 -> In x s1.
  Proof. intros (n1 & Hs1 & _) Hin. rewrite Hs1. apply in_or_app. right; exact Hin. Qed.

  Lemma specA_new s0 s1 ys x : specA s0 s1 ys -> In x s1 -> In x s0 \/ In x (map fst ys).
  Proof.
    intros (n1 & Hs1 & Hf1 & _) Hin. rewrite Hs1 in Hin. apply in_app_or in Hin.
    destruct Hin as [Hin|Hin]; [right | left; exact Hin].
    apply in_rev in Hin. rewrite <- Hf1 in Hin. apply filter_In in Hin. tauto.
  Qed.

  (* what a visit adds to the memo is reachable from the value visited *)
  Lemma iter_memo_new (Hok : elts_ok e h) fuel seen r p k :
    In (RP k) (fst (iter_memo e h mi fuel seen r p)) -> In (RP k) seen \/ creach e h r k.
  Proof.
    intros Hin. destruct (specA_new _ _ _ _ (iter_memo_A fuel seen r p) Hin) as [Hs|Hy]; [left; exact Hs |].
    right. apply in_map_iff in Hy. destruct Hy as ([v q] & Hv & Hy). cbn [fst] in Hv. subst v.
    apply iter_memo_sound_gen in Hy; [| exact Hok]. destruct Hy as (s & _ & Hf).
    apply reach_creach. exists s. exact Hf.
  Qed.

  Lemma igo_new (Hok : elts_ok e h) f p : forall cs es seen k,
    In (RP k) (fst (igo (iter_memo e h mi f) p seen cs es)) ->
    In (RP k) seen \/ exists c, In c cs /\ creach e h c k.
  Proof.
    induction cs as [|c cs IH]; intros es seen k Hin; [left; exact Hin |].
    destruct es as [|pe es]; [left; exact Hin |]. cbn [igo] in Hin.
    destruct (iter_memo e h mi f seen c (p ++ [pe])) as [s1 y1] eqn:Hv.
    specialize (IH es s1 k).
    destruct (igo (iter_memo e h mi f) p s1 cs es) as [s2 y2]. cbn [fst] in *.
    destruct (IH Hin) as [Hs1|(c0 & Hc0 & Hr)].
    - assert (Hs1' : In (RP k) (fst (iter_memo e h mi f seen c (p ++ [pe])))) by (rewrite Hv; exact Hs1).
      apply iter_memo_new in Hs1'; [| exact Hok]. destruct Hs1' as [Hs|Hr]; [left; exact Hs |].
      right. exists c. split; [left; reflexivity | exact Hr].
    - right. exists c0. split; [right; exact Hc0 | exact Hr].
  Qed.

  Lemma igo_incl f p cs es seen x :
    In x seen -> In x (fst (igo (iter_memo e h mi f) p seen cs es)).
  Proof.
    apply (specA_incl _ _ (snd (igo (iter_memo e h mi f) p seen cs es))).
    apply igo_A. intros s c q. apply iter_memo_A.
  Qed.

  (* B. coverage: after a visit, everything with an identity below the value visited is in the
     memo.  closed_below seen B: the memo entries below B have been visited completely. *)
  Definition closed_below (seen : list ref) (B : nat) : Prop :=
    forall j k, j < B -> In (RP j) seen -> creach e h (RP j) k -> has_id (RP k) = true ->
                In (RP k) seen.

  Definition visitB (f : nat) : Prop :=
    forall seen r p B,
      (forall i, r = RP i -> i < f /\ i < B /\ i < length h) -> closed_below seen B ->
      closed_below (fst (iter_memo e h mi f seen r p)) B /\
      (forall k, creach e h r k -> has_id (RP k) = true ->
                 In (RP k) (fst (iter_memo e h mi f seen r p))).

  Lemma igo_B f (Hvis : visitB f) p B : forall cs es seen,
    (forall j, In (RP j) cs -> j < f /\ j < B /\ j < length h) -> closed_below seen B ->
    closed_below (fst (igo (iter_memo e h mi f) p seen cs es)) B /\
    (forall c pe k, In (c, pe) (combine cs es) -> creach e h c k -> has_id (RP k) = true ->
                    In (RP k) (fst (igo (iter_memo e h mi f) p seen cs es))).
  Proof.
    induction cs as [|c cs IH]; intros es seen Hcs Hcl.
    - split; [exact Hcl | intros c pe k []].
    - destruct es as [|pe es]; [split; [exact Hcl | intros c0 pe k []] |].
      destruct (Hvis seen c (p ++ [pe]) B) as [Hcl1 Hcov1]; [| exact Hcl |].
      { intros i Hi. subst c. apply Hcs. left; reflexivity. }
      pose proof (igo_incl f p cs es (fst (iter_memo e h mi f seen c (p ++ [pe])))) as Hincl.
      destruct (IH es (fst (iter_memo e h mi f seen c (p ++ [pe])))) as [Hcl2 Hcov2];
        [intros j Hj; apply Hcs; right; exact Hj | exact Hcl1 |].
      cbn [igo combine]. destruct (iter_memo e h mi f seen c (p ++ [pe])) as [s1 y1].
      cbn [fst] in *.
      destruct (igo (iter_memo e h mi f) p s1 cs es) as [s2 y2]. cbn [fst] in *.
      split; [exact Hcl2 |].
      intros c0 pe0 k [Heq|Hin] Hr Hid.
      + inversion Heq; subst. apply Hincl. apply Hcov1; assumption.
      + eapply Hcov2; eauto.
  Qed.

  Lemma iter_memo_B (Hwf : wf_b e h = true) (Hok : elts_ok e h) : forall f, visitB f.
  Proof.
    induction f as [|f IH]; intros seen r p B Hr Hcl.
    - destruct r as [a|i]; [| destruct (Hr i eq_refl); lia].
      split; [| intros k Hc; exfalso; eapply creach_atom; eauto].
      destruct a; try (rewrite iter_memo_atom by discriminate; exact Hcl).
      rewrite iter_memo_sym. destruct (existsb _ seen); [exact Hcl |]. cbn [fst].
      intros j k Hj [Heq|Hin] Hc Hid; [discriminate |]. right. eapply Hcl; eauto.
    - destruct r as [a|i].
      { split; [| intros k Hc; exfalso; eapply creach_atom; eauto].
        destruct a; try (rewrite iter_memo_atom by discriminate; exact Hcl).
        rewrite iter_memo_sym. destruct (existsb _ seen); [exact Hcl |]. cbn [fst].
        intros j k Hj [Heq|Hin] Hc Hid; [discriminate |]. right. eapply Hcl; eauto. }
      destruct (Hr i eq_refl) as (Hif & HiB & Hih).
      rewrite iter_memo_S.
      destruct (nth_error h i) as [n|] eqn:Hn; [| apply nth_error_None in Hn; lia].
      assert (Hlt : forall j, In (RP j) (children e n) -> j < i).
      { intros j Hj. eapply wf_children_lt; eauto. }
      destruct (Hok i n Hn) as [_ Hlen].
      destruct (memoized (RP i)) eqn:Hm; cbn [andb].
      + destruct (existsb (ref_eqb (RP i)) seen) eqn:Hex.
        * cbn [fst]. split; [exact Hcl |]. intros k Hc Hid.
          apply existsb_exists in Hex. destruct Hex as (x & Hx & Heq). apply ref_eqb_eq in Heq. subst x.
          eapply Hcl; eauto.
        * assert (Hcl0 : closed_below (RP i :: seen) i).
          { intros j k Hj [Heq|Hin] Hc Hid; [inversion Heq; lia |]. right.
            apply (Hcl j k); auto. lia. }
          destruct (igo_B f IH p i (children e n) (elts e n) (RP i :: seen)) as [Hcl1 Hcov1];
            [intros j Hj; specialize (Hlt j Hj); lia | exact Hcl0 |].
          pose proof (igo_incl f p (children e n) (elts e n) (RP i :: seen)) as Hincl.
          pose proof (igo_new Hok f p (children e n) (elts e n) (RP i :: seen)) as Hnew.
          destruct (igo (iter_memo e h mi f) p (RP i :: seen) (children e n) (elts e n)) as [seen' ys].
          cbn [fst] in *.
          assert (Hcov : forall k, creach e h (RP i) k -> has_id (RP k) = true -> In (RP k) seen').
          { intros k Hc Hid. inversion Hc as [|? n0 c ? Hn0 Hc0 Hck]; subst.
            - apply Hincl. left; reflexivity.
            - rewrite Hn in Hn0. inversion Hn0; subst n0.
              destruct (in_combine_l_ex (children e n) (elts e n) c ltac:(lia) Hc0) as [pe Hpe].
              eapply Hcov1; eauto. }
          split; [| exact Hcov].
          intros j k Hj Hin Hc Hid.
          destruct (Nat.lt_trichotomy j i) as [Hji|[Hji|Hji]].
          -- eapply Hcl1; eauto.
          -- subst j. apply Hcov; assumption.
          -- destruct (Hnew j Hin) as [[Heq|Hs]|(c & Hc0 & Hcj)].
             ++ inversion Heq; lia.
             ++ apply Hincl. right. eapply Hcl; eauto.
             ++ destruct c as [a|j']; [exfalso; eapply creach_atom; eauto |].
                pose proof (creach_le e h Hwf _ _ Hcj j' eq_refl). specialize (Hlt j' Hc0). lia.
      + destruct (igo_B f IH p B (children e n) (elts e n) seen) as [Hcl1 Hcov1];
          [intros j Hj; specialize (Hlt j Hj); lia | exact Hcl |].
        destruct (igo (iter_memo e h mi f) p seen (children e n) (elts e n)) as [seen' ys].
        cbn [fst] in *. split; [exact Hcl1 |].
        intros k Hc Hid. inversion Hc as [|? n0 c ? Hn0 Hc0 Hck]; subst.
        * cbn [has_id] in Hid. congruence.
        * rewrite Hn in Hn0. inversion Hn0; subst n0.
          destruct (in_combine_l_ex (children e n) (elts e n) c ltac:(lia) Hc0) as [pe Hpe].
          eapply Hcov1; eauto.
  Qed.

  (* 6. every value with an identity is yielded at most once; every reachable object with an
     identity exactly once; and only reachable objects are yielded *)
  Theorem iter_memo_at_most_once fuel r p x :
    has_id x = true ->
    count_occ ref_eq_dec (map fst (snd (iter_memo e h mi fuel [] r p))) x <= 1.
  Proof.
    intros Hid. destruct (iter_memo_A fuel [] r p) as (new & Hs & Hf & Hnd).
    rewrite <- (count_occ_filter ref_eq_dec has_id _ _ Hid), Hf.
    rewrite app_nil_r in Hs. specialize (Hnd (NoDup_nil _)). rewrite Hs in Hnd.
    apply NoDup_rev in Hnd. apply (proj1 (NoDup_count_occ ref_eq_dec _) Hnd).
  Qed.

  Theorem iter_memo_once_gen (Hwf : wf_b e h = true) (Hk : keys_ok h) r (Hroot : root_ok h r) :
    let ys := snd (iter_memo e h mi (S (length h)) [] r []) in
    (forall i, reach e h r i -> memoized (RP i) = true ->
               count_occ ref_eq_dec (map fst ys) (RP i) = 1) /\
    (forall i, In (RP i) (map fst ys) -> reach e h r i).
  Proof.
    cbn zeta. pose proof (keys_ok_elts_ok e h Hk) as Hok. split.
    - intros i Hreach Hm.
      destruct (iter_memo_A (S (length h)) [] r []) as (new & Hs & Hf & Hnd).
      destruct (iter_memo_B Hwf Hok (S (length h)) [] r [] (S (length h))) as [_ Hcov].
      { intros j Hj. subst r. cbn [root_ok] in Hroot. lia. }
      { intros j k _ []. }
      specialize (Hcov i (reach_creach e h r i Hreach) Hm).
      rewrite <- (count_occ_filter ref_eq_dec has_id _ (RP i) Hm), Hf.
      rewrite app_nil_r in Hs. specialize (Hnd (NoDup_nil _)). rewrite Hs in *.
      apply NoDup_rev in Hnd. apply (proj1 (NoDup_count_occ' ref_eq_dec _) Hnd).
      apply in_rev in Hcov. exact Hcov.
    - intros i Hin. apply in_map_iff in Hin. destruct Hin as ([v p] & Hv & Hin). cbn [fst] in Hv.
      subst v. exists p. eapply iter_memo_sound; eauto.
  Qed.
  (* C. first visit: the path yielded for a memoized object is its first path in the un-memoized
     iteration, i.e. the first path collect_paths_by_id lists for it *)
  Definition visitF (f : nat) : Prop :=
    forall seen r p B,
      (forall i, r = RP i -> i < f /\ i < B /\ i < length h) -> closed_below seen B ->
      forall k, has_id (RP k) = true -> ~ In (RP k) seen ->
      find (is_ptr_to k) (snd (iter_memo e h mi f seen r p)) = find (is_ptr_to k) (iter_basic e h f r p).

  Lemma igo_F f (HB : visitB f) (HF : visitF f) p B : forall cs es seen,
    (forall j, In (RP j) cs -> j < f /\ j < B /\ j < length h) -> closed_below seen B ->
    forall k, has_id (RP k) = true -> ~ In (RP k) seen ->
    find (is_ptr_to k) (snd (igo (iter_memo e h mi f) p seen cs es)) =
    find (is_ptr_to k) (bgo (iter_basic e h f) p cs es).
  Proof.
    induction cs as [|c cs IH]; intros es seen Hcs Hcl k Hid Hnotin; [reflexivity |].
    destruct es as [|pe es]; [reflexivity |]. cbn [igo bgo].
    assert (Hc : forall i, c = RP i -> i < f /\ i < B /\ i < length h).
    { intros i Hi. subst c. apply Hcs. left; reflexivity. }
    pose proof (HF seen c (p ++ [pe]) B Hc Hcl k Hid Hnotin) as HF1.
    destruct (HB seen c (p ++ [pe]) B Hc Hcl) as [Hcl1 _].
    pose proof (specA_new _ _ _ (RP k) (iter_memo_A f seen c (p ++ [pe]))) as Hnew.
    destruct (iter_memo e h mi f seen c (p ++ [pe])) as [s1 y1]. cbn [fst snd] in *.
    specialize (IH es s1 (fun j Hj => Hcs j (or_intror Hj)) Hcl1 k Hid).
    destruct (igo (iter_memo e h mi f) p s1 cs es) as [s2 y2]. cbn [snd] in *.
    rewrite !find_app, HF1.
    destruct (find (is_ptr_to k) (iter_basic e h f c (p ++ [pe]))) as [x|] eqn:Hfind; [reflexivity |].
    apply IH. intros Hin. destruct (Hnew Hin) as [Hs|Hy]; [auto |].
    eapply find_ptr_none; eauto.
  Qed.

  Lemma iter_memo_F (Hwf : wf_b e h = true) (Hok : elts_ok e h) : forall f, visitF f.
  Proof.
    assert (Hatom : forall f seen a p k,
      find (is_ptr_to k) (snd (iter_memo e h mi f seen (RA a) p)) =
      find (is_ptr_to k) (iter_basic e h f (RA a) p)).
    { intros f seen a p k. rewrite iter_basic_atom.
      destruct a; try (rewrite iter_memo_atom by discriminate; reflexivity).
      rewrite iter_memo_sym. destruct (existsb _ seen); reflexivity. }
    induction f as [|f IH]; intros seen r p B Hr Hcl k Hid Hnotin.
    - destruct r as [a|i]; [apply Hatom | destruct (Hr i eq_refl); lia].
    - destruct r as [a|i]; [apply Hatom |].
      destruct (Hr i eq_refl) as (Hif & HiB & Hih).
      assert (Hreach : forall q, In (RP k, q) (iter_basic e h (S f) (RP i) p) -> creach e h (RP i) k).
      { intros q Hq. apply (iter_basic_sound_gen e h Hok) in Hq. destruct Hq as (s & _ & Hs).
        apply reach_creach. exists s. exact Hs. }
      pose proof (iter_memo_B Hwf Hok f) as HB.
      rewrite iter_memo_S. rewrite iter_basic_S in *.
      destruct (nth_error h i) as [n|] eqn:Hn; [| apply nth_error_None in Hn; lia].
      assert (Hlt : forall j, In (RP j) (children e n) -> j < i).
      { intros j Hj. eapply wf_children_lt; eauto. }
      destruct (memoized (RP i)) eqn:Hm; cbn [andb].
      + destruct (existsb (ref_eqb (RP i)) seen) eqn:Hex.
        * cbn [snd].
          destruct (find (is_ptr_to k) ((RP i, p) :: _)) as [[v q]|] eqn:Hfind; [| reflexivity].
          exfalso. apply find_some in Hfind. destruct Hfind as [Hin Hv].
          apply is_ptr_to_true in Hv. cbn [fst] in Hv. subst v.
          apply existsb_exists in Hex. destruct Hex as (x & Hx & Heq). apply ref_eqb_eq in Heq. subst x.
          apply Hnotin. eapply Hcl; eauto.
        * assert (Hcl0 : closed_below (RP i :: seen) i).
          { intros j k0 Hj [Heq|Hin] Hc Hid0; [inversion Heq; lia |]. right.
            apply (Hcl j k0); auto. lia. }
          pose proof (igo_F f HB IH p i (children e n) (elts e n) (RP i :: seen)
                        (fun j Hj => ltac:(specialize (Hlt j Hj); lia)) Hcl0 k Hid) as HF.
          destruct (igo (iter_memo e h mi f) p (RP i :: seen) (children e n) (elts e n)) as [seen' ys].
          cbn [snd find] in *. destruct (is_ptr_to k (RP i, p)) eqn:Hki; [reflexivity |].
          apply HF. intros [Heq|Hin]; [| auto]. inversion Heq; subst k.
          unfold is_ptr_to in Hki. cbn [fst] in Hki. rewrite Nat.eqb_refl in Hki. discriminate.
      + pose proof (igo_F f HB IH p B (children e n) (elts e n) seen
                      (fun j Hj => ltac:(specialize (Hlt j Hj); lia)) Hcl k Hid Hnotin) as HF.
        destruct (igo (iter_memo e h mi f) p seen (children e n) (elts e n)) as [seen' ys].
        cbn [snd find] in *. destruct (is_ptr_to k (RP i, p)); [reflexivity | exact HF].
  Qed.

  Theorem iter_memo_first_gen (Hwf : wf_b e h = true) (Hk : keys_ok h) r (Hroot : root_ok h r) i p :
    In (RP i, p) (snd (iter_memo e h mi (S (length h)) [] r [])) -> memoized (RP i) = true ->
    hd_error (paths_to e h (S (length h)) r i) = Some p.
  Proof.
    intros Hin Hm. pose proof (keys_ok_elts_ok e h Hk) as Hok.
    unfold paths_to. fold (is_ptr_to i). rewrite hd_map_filter.
    rewrite <- (iter_memo_F Hwf Hok (S (length h)) [] r [] (S (length h))); auto.
    - rewrite (find_ptr_unique _ i p); [reflexivity | | exact Hin].
      apply iter_memo_at_most_once. exact Hm.
    - intros j Hj. subst r. cbn [root_ok] in Hroot. lia.
    - intros j k _ [].
  Qed.
End Memo.

Theorem iter_memo_once e h r :
  wf_b e h = true -> keys_ok h -> root_ok h r ->
  let ys := snd (iter_memo e h false (S (length h)) [] r []) in
  (forall i, reach e h r i -> internable h (S (length h)) (RP i) = false ->
             count_occ ref_eq_dec (map fst ys) (RP i) = 1) /\
  (forall i, In (RP i) (map fst ys) -> reach e h r i).
Proof.
  intros Hwf Hk Hroot. destruct (iter_memo_once_gen e h false Hwf Hk r Hroot) as [H1 H2].
  split; [| exact H2]. intros i Hr Hi. apply H1; [exact Hr |]. unfold memoized. rewrite Hi. reflexivity.
Qed.

(* with memoize_internables = true every reachable object is yielded exactly once *)
Theorem iter_memo_once_all e h r :
  wf_b e h = true -> keys_ok h -> root_ok h r ->
  let ys := snd (iter_memo e h true (S (length h)) [] r []) in
  forall i, reach e h r i <-> count_occ ref_eq_dec (map fst ys) (RP i) = 1.
Proof.
  intros Hwf Hk Hroot. destruct (iter_memo_once_gen e h true Hwf Hk r Hroot) as [H1 H2].
  intros ys i. split.
  - intros Hr. apply H1; [exact Hr | reflexivity].
  - intros Hc. apply H2. apply (count_occ_In ref_eq_dec). fold ys. lia.
Qed.

(* the path yielded for an object that is visited once is the first one collect_paths_by_id lists *)
Theorem iter_memo_first e h r :
  wf_b e h = true -> keys_ok h -> root_ok h r ->
  forall i p, In (RP i, p) (snd (iter_memo e h false (S (length h)) [] r [])) ->
    internable h (S (length h)) (RP i) = false ->
    hd_error (paths_to e h (S (length h)) r i) = Some p.
Proof.
  intros Hwf Hk Hroot i p Hin Hi. eapply iter_memo_first_gen; eauto.
  unfold memoized. rewrite Hi. reflexivity.
Qed.

Theorem iter_memo_first_all e h r :
  wf_b e h = true -> keys_ok h -> root_ok h r ->
  forall i p, In (RP i, p) (snd (iter_memo e h true (S (length h)) [] r [])) ->
    hd_error (paths_to e h (S (length h)) r i) = Some p.
Proof. intros Hwf Hk Hroot i p Hin. eapply iter_memo_first_gen; eauto. Qed.

(* the memoized iteration reports a subset of what the un-memoized one reports *)
Theorem iter_memo_subset e h mi :
  wf_b e h = true -> keys_ok h -> forall fuel seen r v p,
  In (v, p) (snd (iter_memo e h mi fuel seen r [])) -> In (v, p) (iter_basic e h (S (length h)) r []).
Proof.
  intros Hwf Hk fuel seen r v p Hin. apply iter_basic_complete; [exact Hwf |].
  eapply iter_memo_sound; eauto.
Qed.

(* ------------------------------------------------------------------------------------------ *)
(* 7. non-vacuity: a Config, a dict and a tuple sharing one list; an internable tuple shared too *)

Definition ex_env : sigenv :=
  [(7%N, [mkparam 1%N PosOrKw None false; mkparam 2%N PosOrKw None false])].
Definition ex_heap : heap :=
  [ NList [RA (AInt 1)];                                             (* 0: the shared list *)
    NTuple [RA (AInt 2); RA (AInt 3)];                               (* 1: an internable tuple *)
    NTuple [RP 0; RA (AInt 5)];                                      (* 2: a tuple holding the list *)
    NBuildable BConfig 7%N [(KName 1%N, RP 0); (KName 2%N, RP 1)] [];
    NDict [(AStr [1%N], RP 3); (AStr [2%N], RP 0); (AStr [3%N], RP 1); (AStr [4%N], RP 2);
           (AStr [5%N], RA (ASym 9%N))] ].
Definition ex_root : ref := RP 4.

Lemma ex_hyps : wf_b ex_env ex_heap = true /\ keys_ok ex_heap /\ root_ok ex_heap ex_root.
Proof.
  split; [vm_compute; reflexivity |]. split; [apply keys_ok_b_spec; vm_compute; reflexivity |].
  cbn; lia.
Qed.

Example iterate_nonvacuous :
  let fuel := S (length ex_heap) in
  (* the shared list has three paths, the internable tuple two *)
  paths_to ex_env ex_heap fuel ex_root 0 =
    [[PKey (AStr [1%N]); PAttr 1%N]; [PKey (AStr [2%N])]; [PKey (AStr [4%N]); PIndex 0]] /\
  paths_to ex_env ex_heap fuel ex_root 1 =
    [[PKey (AStr [1%N]); PAttr 2%N]; [PKey (AStr [3%N])]] /\
  length (iter_basic ex_env ex_heap fuel ex_root []) = 17 /\
  count_occ ref_eq_dec (map fst (iter_basic ex_env ex_heap fuel ex_root [])) (RP 0) = 3 /\
  (* memoized: the list once (at its first path), the internable tuple at every occurrence *)
  internable ex_heap fuel (RP 0) = false /\ internable ex_heap fuel (RP 1) = true /\
  internable ex_heap fuel (RP 2) = false /\
  filter (fun vp => ref_eqb (fst vp) (RP 0)) (snd (iter_memo ex_env ex_heap false fuel [] ex_root []))
    = [(RP 0, [PKey (AStr [1%N]); PAttr 1%N])] /\
  count_occ ref_eq_dec (map fst (snd (iter_memo ex_env ex_heap false fuel [] ex_root []))) (RP 1) = 2 /\
  count_occ ref_eq_dec (map fst (snd (iter_memo ex_env ex_heap true fuel [] ex_root []))) (RP 1) = 1 /\
  length (snd (iter_memo ex_env ex_heap false fuel [] ex_root [])) = 13.
Proof. vm_compute. repeat split. Qed.
