(* Anchors: pins the constants regenerated from /repo (gen/Extracted.v) to what the models assume.
   If the source changes at an anchor, one of these Examples stops compiling and every property
   that depends on it reports a broken tie. *)
From Coq Require Import String List ZArith.
From FiddleGen Require Import Extracted.
Import ListNotations.
Open Scope string_scope.

(* C03: ArgStore.del_indices models the repaired __delitem__ *)
Example anchor_delitem_no_varargs : delitem_handles_no_varargs = true. Proof. reflexivity. Qed.
Example anchor_delitem_range : delitem_rejects_out_of_range = true. Proof. reflexivity. Qed.
Example anchor_delitem_iteration : delitem_iteration = "sorted(indices, reverse=True)".
Proof. reflexivity. Qed.
Example anchor_set_index_kinds : set_index_counts_positional_kinds = true. Proof. reflexivity. Qed.
Example anchor_set_slice_min : set_slice_uses_min_index = true. Proof. reflexivity. Qed.
Example anchor_set_slice_snapshot : set_slice_reads_snapshot = true. Proof. reflexivity. Qed.
Example anchor_index_to_key_negative : index_to_key_rejects_negative = true. Proof. reflexivity. Qed.

(* C01: PyCall.transform_build models the repaired transform_to_args_kwargs *)
Example anchor_transform_fills : transform_fills_skipped_positionals = true. Proof. reflexivity. Qed.
Example anchor_transform_posorkw :
  transform_posorkw_condition = "include_pos_or_kw_in_args or self.var_positional_start in arguments".
Proof. reflexivity. Qed.
Example anchor_ordered_arguments_posonly : ordered_arguments_posonly_by_index = true.
Proof. reflexivity. Qed.

(* C18: PathText.match_part models exactly these two alternatives (key_min_len = 0: repaired grammar) *)
Example anchor_path_part :
  path_part_alternatives =
    ["(?:{})"; "|"; "\.(?P<attr_name>[\w_]+)"; "\[(?P<key>\d+|'[^']*'|\""[^\""]*\"")\]"].
Proof. reflexivity. Qed.
Example anchor_command_re : command_re = "^(config|config_file|config_str|fiddler|set):(.+)$".
Proof. reflexivity. Qed.
Example anchor_base_directives : base_config_directives = ["config"; "config_file"; "config_str"].
Proof. reflexivity. Qed.
Example anchor_path_str : path_str_strips_leading_dot = true. Proof. reflexivity. Qed.

(* C10: Diff.phase_order / Diff.resolve_parents model this loop of _apply_changes *)
Example anchor_apply_changes_phases :
  apply_changes_phases = ["DeleteValue"; "RemoveTag"; "ModifyValue"; "SetValue"; "AddTag"].
Proof. reflexivity. Qed.
Example anchor_apply_changes_parents : apply_changes_resolves_parents_first = true.
Proof. reflexivity. Qed.
