(* Serial: the byte-string codec of the JSON serializer (latin-1, with the raw_unicode_escape
   fallback for documents written by earlier versions), and the policy gate on symbol resolution.
   At the graph level (de)serialization is a memoized copy (Copy.deepcopy with pickle = true). *)
From Fiddle Require Import PyBase PyText.
Open Scope N_scope.

(* bytes -> str with one code point per byte (what the traverser's flatten produces) *)
Definition latin1_decode (b : list N) : list N := b.
Definition latin1_encode (s : list N) : option (list N) :=
  if forallb (fun c => c <? 256) s then Some s else None.

(* CPython's raw_unicode_escape decoder.  None = UnicodeDecodeError. *)
Fixpoint take_hex (n : nat) (s : list N) (acc : N) : option (N * list N) :=
  match n with
  | O => Some (acc, s)
  | S n' => match s with
            | c :: s' => match unhex c with Some d => take_hex n' s' (acc * 16 + d) | None => None end
            | [] => None
            end
  end.

Fixpoint rue_decode (fuel : nat) (s : list N) : option (list N) :=
  match fuel with
  | O => None
  | S f =>
      match s with
      | [] => Some []
      | c :: rest =>
          if negb (c =? ch_bslash) then option_map (cons c) (rue_decode f rest) else
          match rest with
          | [] => Some [c]                                  (* a trailing backslash is literal *)
          | e :: rest' =>
              let esc (count : nat) :=
                match take_hex count rest' 0 with
                | Some (cp, rest'') =>
                    if cp <=? 1114111 then option_map (cons cp) (rue_decode f rest'') else None
                | None => None                               (* truncated escape *)
                end in
              if e =? 117 then esc 4%nat
              else if e =? 85 then esc 8%nat
              else option_map (fun t => c :: e :: t) (rue_decode f rest')
          end
      end
  end.

Fixpoint hex_pad (n : nat) (v : N) : list N :=
  match n with
  | O => []
  | S n' => hex_pad n' (v / 16) ++ [hex_digit (v mod 16)]
  end.

Definition rue_encode_char (c : N) : list N :=
  if c <? 256 then [c]
  else if c <? 65536 then ch_bslash :: 117 :: hex_pad 4 c
  else ch_bslash :: 85 :: hex_pad 8 c.
Definition rue_encode (s : list N) : list N := flat_map rue_encode_char s.

(* serialization._unflatten_bytes *)
Definition bytes_of_str (s : list N) : list N :=
  match latin1_encode s with Some b => b | None => rue_encode s end.

(* ---------------------------------------------------------------- the policy gate
   import_symbol(policy, module, symbol): allows_import is asked first; only then is the symbol
   imported; allows_value is asked on the imported value; anything else raises. *)
Section Policy.
  Variable allows_import : N -> bool.
  Variable importer : N -> option N.      (* symbol -> value (None: ModuleNotFoundError / AttributeError) *)
  Variable allows_value : N -> bool.

  Inductive presult := PValue (v : N) | PDenied | PImportError.

  Definition import_symbol (sym : N) : presult * list N (* symbols actually imported *) :=
    if allows_import sym then
      match importer sym with
      | Some v => if allows_value v then (PValue v, [sym]) else (PDenied, [sym])
      | None => (PImportError, [sym])
      end
    else (PDenied, []).

  (* resolving the pyrefs of a document in order; stops at the first failure *)
  Fixpoint resolve_all (syms : list N) : option (list N) * list N :=
    match syms with
    | [] => (Some [], [])
    | s :: rest =>
        match import_symbol s with
        | (PValue v, imp) =>
            let '(r, imp') := resolve_all rest in
            (option_map (cons v) r, imp ++ imp')
        | (_, imp) => (None, imp)
        end
    end.
End Policy.
