(* C17 frame discipline for the Partial / ArgFactory build traversal (Partial.pbuild_node): building a
   configuration that holds Partials and ArgFactories only appends to the heap, so the configuration
   itself is never modified (fdl.build is a read-only API for every Buildable kind). *)
From Fiddle Require Import PyBase PySlice Sig ArgStore PyCall Heap Traverse Build Build_stmt
  Traverse_proofs Build_proofs Partial Partial_proofs Frame_proofs.
From Coq Require Import List Arith Lia NArith.
Import ListNotations.

Lemma ext_trans (o o1 o2 : heap) :
  (exists ext, o1 = o ++ ext) -> (exists ext, o2 = o1 ++ ext) -> exists ext, o2 = o ++ ext.
Proof. intros [a ->] [b ->]. exists (a ++ b). rewrite app_assoc. reflexivity. Qed.

Lemma ext_refl (o : heap) : exists ext, o = o ++ ext.
Proof. exists []. rewrite app_nil_r. reflexivity. Qed.

Lemma promote_all_appends e : forall rs o o' rs',
  promote_all e o rs = (o', rs') -> exists ext, o' = o ++ ext.
Proof.
  induction rs as [|r rs IH]; intros o o' rs' H; cbn [promote_all] in H.
  - inversion H; subst. apply ext_refl.
  - destruct (bind_arg e o r) as [o1 r1] eqn:Hb.
    destruct (promote_all e o1 rs) as [o2 rs2] eqn:Hp. inversion H; subst.
    eapply ext_trans; [eapply bind_arg_appends; exact Hb | eapply IH; exact Hp].
Qed.

Lemma promote_kw_appends e : forall kw o o' kw',
  promote_kw e o kw = (o', kw') -> exists ext, o' = o ++ ext.
Proof.
  induction kw as [|[k r] kw IH]; intros o o' kw' H; cbn [promote_kw] in H.
  - inversion H; subst. apply ext_refl.
  - destruct (bind_arg e o r) as [o1 r1] eqn:Hb.
    destruct (promote_kw e o1 kw) as [o2 kw2] eqn:Hp. inversion H; subst.
    eapply ext_trans; [eapply bind_arg_appends; exact Hb | eapply IH; exact Hp].
Qed.

Lemma pbuild_appends e : appends (pbuild_node e).
Proof.
  intros i n rs o o' x H. unfold pbuild_node in H.
  destruct n; try (inversion H; subst; apply ext_refl);
    try (destruct (alloc o _) as [oa ra] eqn:Ha; inversion H; subst; eapply alloc_appends; exact Ha).
  destruct (transform_build _ _) as [[pos kws]|]; [|inversion H; subst; apply ext_refl].
  destruct k.
  - destruct (py_call _ pos kws); [|inversion H; subst; apply ext_refl].
    destruct (alloc o _) as [oa ra] eqn:Ha. inversion H; subst. eapply alloc_appends; exact Ha.
  - destruct (promote_all e o pos) as [o1 pos1] eqn:H1.
    destruct (promote_kw e o1 _) as [o2 kw1] eqn:H2.
    destruct (alloc o2 _) as [o3 r] eqn:H3. inversion H; subst.
    eapply ext_trans; [eapply promote_all_appends; exact H1|].
    eapply ext_trans; [eapply promote_kw_appends; exact H2|].
    eapply alloc_appends; exact H3.
  - match type of H with
    | context [promote_all e o pos] => idtac
    end.
    destruct pos as [|p0 pos'];
      [destruct (flat_map _ kws) as [|kv0 kw'] eqn:Hkw|].
    + destruct (alloc o _) as [oa ra] eqn:Ha. inversion H; subst. eapply alloc_appends; exact Ha.
    + destruct (promote_all e o []) as [o1 pos1] eqn:H1.
      destruct (promote_kw e o1 _) as [o2 kw1] eqn:H2.
      destruct (alloc o2 _) as [o3 p] eqn:H3.
      destruct (alloc o3 _) as [o4 r] eqn:H4. inversion H; subst.
      eapply ext_trans; [eapply promote_all_appends; exact H1|].
      eapply ext_trans; [eapply promote_kw_appends; exact H2|].
      eapply ext_trans; [eapply alloc_appends; exact H3|].
      eapply alloc_appends; exact H4.
    + destruct (promote_all e o (p0 :: pos')) as [o1 pos1] eqn:H1.
      destruct (promote_kw e o1 _) as [o2 kw1] eqn:H2.
      destruct (alloc o2 _) as [o3 p] eqn:H3.
      destruct (alloc o3 _) as [o4 r] eqn:H4. inversion H; subst.
      eapply ext_trans; [eapply promote_all_appends; exact H1|].
      eapply ext_trans; [eapply promote_kw_appends; exact H2|].
      eapply ext_trans; [eapply alloc_appends; exact H3|].
      eapply alloc_appends; exact H4.
  - inversion H; subst. apply ext_refl.
Qed.

Theorem pbuild_frame e h r s res :
  wf_b e h = true -> root_ok h r -> pbuild e h r = (s, res) ->
  firstn (length h) (out s) = h /\ (length h <= length (out s))%nat.
Proof.
  intros Hwf Hroot Hrun. unfold pbuild in Hrun.
  exact (frame_generic e h (pbuild_node e) Hwf (pbuild_appends e) r s res Hroot Hrun).
Qed.
