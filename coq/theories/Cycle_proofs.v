(* C08, last clause ("a reference cycle is reported as an error instead of recursing forever"), on
   ARBITRARY heaps - no well-formedness, cycles and dangling pointers allowed:
   (1) the memoized traversal never exhausts its fuel (the model's stand-in for unbounded recursion):
       the stack holds distinct valid ids, so it is never deeper than the heap is large;
   (2) a reported cycle is a real one: FCycle c is only returned when c reaches itself through one or
       more child pointers. *)
From Fiddle Require Import PyBase PySlice Sig ArgStore PyCall Heap Traverse Build Build_stmt
  Traverse_proofs Build_proofs C08Check.
From Coq Require Import List Arith Bool Lia Relations Operators_Properties.
Import ListNotations.
Local Open Scope nat_scope.

Section AnyHeap.
  Variable e : sigenv.
  Variable h : heap.
  Variable on_node : nat -> node -> list ref -> heap -> heap * (ref + fail).
  Hypothesis Hon_fuel : forall i n rs o o', on_node i n rs o <> (o', inr FOutOfFuel).
  Hypothesis Hon_cyc : forall i n rs o o' c, on_node i n rs o <> (o', inr (FCycle c)).

  Lemma stack_bound stack :
    NoDup stack -> (forall j, In j stack -> j < length h) -> length stack <= length h.
  Proof.
    intros Hnd Hlt. rewrite <- (seq_length (length h) 0). apply NoDup_incl_length; [exact Hnd|].
    intros j Hj. apply in_seq. specialize (Hlt j Hj). lia.
  Qed.

  Lemma existsb_false_notin i stack : existsb (Nat.eqb i) stack = false -> ~ In i stack.
  Proof.
    intros H Hin. assert (existsb (Nat.eqb i) stack = true).
    { apply existsb_exists. exists i. split; [exact Hin | apply Nat.eqb_refl]. }
    congruence.
  Qed.

  Lemma existsb_true_in i stack : existsb (Nat.eqb i) stack = true -> In i stack.
  Proof.
    intros H. apply existsb_exists in H. destruct H as (x & Hin & Hx).
    apply Nat.eqb_eq in Hx. subst. exact Hin.
  Qed.

  (* ---------- (1) never out of fuel ---------- *)
  Lemma mvisit_no_oof : forall fuel stack s r s' res,
    NoDup stack -> (forall j, In j stack -> j < length h) -> S (length h) <= length stack + fuel ->
    mvisit e h on_node fuel stack s r = (s', res) -> res <> inr FOutOfFuel.
  Proof.
    induction fuel as [|f IH]; intros stack s r s' res Hnd Hlt Hsz Hrun.
    - destruct r as [a|i]; cbn [mvisit] in Hrun; [inversion Hrun; discriminate|].
      destruct (memo_get (memo s) i); [inversion Hrun; discriminate|].
      destruct (existsb (Nat.eqb i) stack); [inversion Hrun; discriminate|].
      pose proof (stack_bound stack Hnd Hlt). lia.
    - destruct r as [a|i]; [cbn [mvisit] in Hrun; inversion Hrun; discriminate|].
      destruct (memo_get (memo s) i) as [r'|] eqn:Hm;
        [cbn [mvisit] in Hrun; rewrite Hm in Hrun; inversion Hrun; discriminate|].
      destruct (existsb (Nat.eqb i) stack) eqn:Hs;
        [cbn [mvisit] in Hrun; rewrite Hm, Hs in Hrun; inversion Hrun; discriminate|].
      destruct (nth_error h i) as [n|] eqn:Hn;
        [|cbn [mvisit] in Hrun; rewrite Hm, Hs, Hn in Hrun; inversion Hrun; discriminate].
      rewrite (mvisit_step e h on_node f stack s i n Hm Hs Hn) in Hrun.
      assert (Hnd' : NoDup (i :: stack)).
      { constructor; [apply existsb_false_notin; exact Hs | exact Hnd]. }
      assert (Hlt' : forall j, In j (i :: stack) -> j < length h).
      { intros j [<-|Hj]; [apply nth_error_Some; congruence | apply Hlt; exact Hj]. }
      assert (Hsz' : S (length h) <= length (i :: stack) + f) by (cbn [length]; lia).
      assert (Hgo : forall l s0 s1 fl,
                 mgo (mvisit e h on_node f (i :: stack)) s0 l = (s1, inr fl) -> fl <> FOutOfFuel).
      { induction l as [|x l IHl]; intros s0 s1 fl Hg; [cbn in Hg; discriminate|].
        rewrite mgo_cons in Hg.
        destruct (mvisit e h on_node f (i :: stack) s0 x) as [sa [xa|fa]] eqn:Hv.
        - destruct (mgo (mvisit e h on_node f (i :: stack)) sa l) as [sb [lb|fb]] eqn:Hg';
            [discriminate|]. inversion Hg; subst. eapply IHl. exact Hg'.
        - inversion Hg; subst. intros ->. eapply (IH (i :: stack)); eauto. }
      destruct (mgo (mvisit e h on_node f (i :: stack)) s (children e n)) as [s1 [rs|fl]] eqn:Hg.
      + destruct (on_node i n rs (out s1)) as [o' [r'|fl]] eqn:Ho; inversion Hrun; subst;
          [discriminate|]. intros Heq. inversion Heq; subst. eapply Hon_fuel. exact Ho.
      + inversion Hrun; subst. intros Heq. inversion Heq; subst. eapply Hgo; eauto.
  Qed.

  Theorem mrun_never_out_of_fuel r s res :
    mrun e h on_node r = (s, res) -> res <> inr FOutOfFuel.
  Proof.
    unfold mrun. intros H.
    eapply (mvisit_no_oof (S (length h)) []); [constructor | intros j [] | cbn [length]; lia | exact H].
  Qed.

  (* ---------- (2) a reported cycle is a real cycle ---------- *)
  Definition cstep (a b : nat) : Prop := child_of e h a b.

  Definition linked (stack : list nat) : Prop :=
    forall t rest, stack = t :: rest -> forall k, In k stack -> clos_refl_trans nat cstep k t.

  Definition from_top (stack : list nat) (j : nat) : Prop :=
    match stack with [] => True | t :: _ => cstep t j end.

  Lemma mvisit_cycle_real : forall fuel stack s r s' c,
    linked stack -> (forall j, r = RP j -> from_top stack j) ->
    mvisit e h on_node fuel stack s r = (s', inr (FCycle c)) -> clos_trans nat cstep c c.
  Proof.
    assert (Hhit : forall stack i, linked stack -> from_top stack i -> In i stack ->
                                   clos_trans nat cstep i i).
    { intros stack i Hl Hf Hin. destruct stack as [|t rest]; [destruct Hin|].
      cbn [from_top] in Hf. specialize (Hl t rest eq_refl i Hin).
      eapply clos_rt_t; [exact Hl | apply t_step; exact Hf]. }
    induction fuel as [|f IH]; intros stack s r s' c Hl Hf Hrun.
    - destruct r as [a|i]; cbn [mvisit] in Hrun; [inversion Hrun|].
      destruct (memo_get (memo s) i); [inversion Hrun|].
      destruct (existsb (Nat.eqb i) stack) eqn:Hs; [|inversion Hrun].
      inversion Hrun; subst. apply (Hhit stack c Hl (Hf c eq_refl)). apply existsb_true_in. exact Hs.
    - destruct r as [a|i]; [cbn [mvisit] in Hrun; inversion Hrun|].
      destruct (memo_get (memo s) i) as [r'|] eqn:Hm;
        [cbn [mvisit] in Hrun; rewrite Hm in Hrun; inversion Hrun|].
      destruct (existsb (Nat.eqb i) stack) eqn:Hs.
      { cbn [mvisit] in Hrun. rewrite Hm, Hs in Hrun. inversion Hrun; subst.
        apply (Hhit stack c Hl (Hf c eq_refl)). apply existsb_true_in. exact Hs. }
      destruct (nth_error h i) as [n|] eqn:Hn;
        [|cbn [mvisit] in Hrun; rewrite Hm, Hs, Hn in Hrun; inversion Hrun].
      rewrite (mvisit_step e h on_node f stack s i n Hm Hs Hn) in Hrun.
      assert (Hl' : linked (i :: stack)).
      { intros t rest Heq k Hk. inversion Heq; subst t rest. destruct Hk as [<-|Hk]; [apply rt_refl|].
        destruct stack as [|t0 rest0]; [destruct Hk|].
        eapply rt_trans; [exact (Hl t0 rest0 eq_refl k Hk)|]. apply rt_step.
        exact (Hf i eq_refl). }
      assert (Hgo : forall l s0 s1, (forall x, In x l -> In x (children e n)) ->
                 mgo (mvisit e h on_node f (i :: stack)) s0 l = (s1, inr (FCycle c)) ->
                 clos_trans nat cstep c c).
      { induction l as [|x l IHl]; intros s0 s1 Hsub Hg; [cbn in Hg; discriminate|].
        rewrite mgo_cons in Hg.
        destruct (mvisit e h on_node f (i :: stack) s0 x) as [sa [xa|fa]] eqn:Hv.
        - destruct (mgo (mvisit e h on_node f (i :: stack)) sa l) as [sb [lb|fb]] eqn:Hg';
            [discriminate|]. inversion Hg; subst.
          eapply IHl; [|exact Hg']. intros y Hy. apply Hsub. right. exact Hy.
        - inversion Hg; subst. eapply (IH (i :: stack)); [exact Hl' | | exact Hv].
          intros j ->. cbn [from_top]. exists n. split; [exact Hn|]. apply Hsub. left. reflexivity. }
      destruct (mgo (mvisit e h on_node f (i :: stack)) s (children e n)) as [s1 [rs|fl]] eqn:Hg.
      + destruct (on_node i n rs (out s1)) as [o' [r'|fl]] eqn:Ho; inversion Hrun; subst.
        exfalso. eapply Hon_cyc. exact Ho.
      + inversion Hrun; subst. eapply Hgo; [|exact Hg]. auto.
  Qed.

  Theorem mrun_cycle_real r s c :
    mrun e h on_node r = (s, inr (FCycle c)) -> clos_trans nat cstep c c.
  Proof.
    unfold mrun. intros H. eapply (mvisit_cycle_real (S (length h)) []); [| |exact H].
    - intros t rest Heq. discriminate.
    - intros j _. exact I.
  Qed.
End AnyHeap.

(* the identity traversal (MemoizedTraversal with map_children) *)
Lemma rebuild_no_fail e i n rs o o' fl : rebuild_node e i n rs o <> (o', inr fl).
Proof.
  unfold rebuild_node. destruct (traversable n); [destruct (alloc o _)|]; intros H; inversion H.
Qed.

Theorem rebuild_never_out_of_fuel e h r s res :
  mrun e h (rebuild_node e) r = (s, res) -> res <> inr FOutOfFuel.
Proof.
  apply mrun_never_out_of_fuel. intros i n rs o o'. apply rebuild_no_fail.
Qed.

Theorem rebuild_cycle_real e h r s c :
  mrun e h (rebuild_node e) r = (s, inr (FCycle c)) -> clos_trans nat (cstep e h) c c.
Proof.
  apply mrun_cycle_real. intros i n rs o o' c'. apply rebuild_no_fail.
Qed.

(* on an acyclic (well-formed) heap nothing reaches itself: the child relation descends *)
Lemma wf_no_self_reach e h : wf_b e h = true -> forall a b, clos_trans nat (cstep e h) a b -> b < a.
Proof.
  intros Hwf a b Hab. induction Hab as [a b Hs | a m b _ IH1 _ IH2]; [|lia].
  destruct Hs as (n & Hn & Hin). eapply wf_children_lt; eauto.
Qed.

Theorem rebuild_no_cycle_on_wf e h r s c :
  wf_b e h = true -> mrun e h (rebuild_node e) r <> (s, inr (FCycle c)).
Proof.
  intros Hwf H. apply rebuild_cycle_real in H. apply (wf_no_self_reach e h Hwf) in H. lia.
Qed.

(* fdl.build: on ANY heap the build traversal never exhausts its fuel either, and a cycle it reports
   is a real one (fdl.build on a cyclic configuration ends with an error, it does not recurse forever) *)
Theorem build_never_out_of_fuel e fails h r s res :
  mrun e h (build_node e fails) r = (s, res) -> res <> inr FOutOfFuel.
Proof.
  apply mrun_never_out_of_fuel. intros i n rs o o' H.
  apply build_fail in H. destruct H as [H|(x & H & _)]; discriminate.
Qed.

Theorem build_cycle_real e fails h r s c :
  mrun e h (build_node e fails) r = (s, inr (FCycle c)) -> clos_trans nat (cstep e h) c c.
Proof.
  apply mrun_cycle_real. intros i n rs o o' c' H.
  apply build_fail in H. destruct H as [H|(x & H & _)]; discriminate.
Qed.
