(* C06Check: the implementation's == on pairs of configurations against Eq.cfg_eq. *)
From Fiddle Require Import PyBase PySlice Sig ArgStore PyCall Heap Traverse Eq Eq_proofs.

Record case := mkcase { c_env : sigenv; c_heap : heap; c_a : ref; c_b : ref; c_obs : bool }.

Definition check_case (c : case) : bool :=
  wf_b (c_env c) (c_heap c)
  && forallb (fun n => cls_keys_distinct (classify n)) (c_heap c)   (* keys_py_distinct: hypothesis of C06_eq_refl / C06_eq_sym *)
  && Bool.eqb (cfg_eq (c_env c) (c_heap c) (c_a c) (c_b c)) (c_obs c)
  (* symmetry and reflexivity of the model on this case *)
  && Bool.eqb (cfg_eq (c_env c) (c_heap c) (c_b c) (c_a c)) (c_obs c)
  && cfg_eq (c_env c) (c_heap c) (c_a c) (c_a c)
  && cfg_eq (c_env c) (c_heap c) (c_b c) (c_b c).

Definition explain_case (c : case) :=
  (cfg_eq (c_env c) (c_heap c) (c_a c) (c_b c),
   first_paths (c_env c) (c_heap c) (c_a c), first_paths (c_env c) (c_heap c) (c_b c)).
