From Fiddle Require Import PyBase PySlice.

(* ---------- slice_indices ---------- *)

Lemma slice_indices_some start stop step len s e st :
  slice_indices start stop step len = Some (s, e, st) ->
  0 <= len ->
  st <> 0 /\ st = match step with None => 1 | Some x => x end
  /\ (0 < st -> 0 <= s <= len /\ 0 <= e <= len)
  /\ (st < 0 -> -1 <= s <= len - 1 /\ -1 <= e <= len - 1).
Proof.
  intros Hsi Hlen.
  unfold slice_indices in Hsi.
  set (st0 := match step with None => 1 | Some x => x end) in *.
  destruct (st0 =? 0) eqn:Hz; [discriminate Hsi|].
  apply Z.eqb_neq in Hz.
  injection Hsi as Hs He Hst.
  subst st.
  split; [exact Hz|]. split; [reflexivity|].
  destruct (st0 <? 0) eqn:Hneg; [apply Z.ltb_lt in Hneg | apply Z.ltb_ge in Hneg].
  - split; [intros Hpos; lia|]. intros _.
    subst s e.
    destruct start as [a|], stop as [b|];
      repeat match goal with
             | |- context [?v <? 0] => destruct (Z.ltb_spec v 0)
             end; lia.
  - split; [|intros Hn; lia]. intros _.
    subst s e.
    destruct start as [a|], stop as [b|];
      repeat match goal with
             | |- context [?v <? 0] => destruct (Z.ltb_spec v 0)
             end; lia.
Qed.

Lemma slice_indices_none start stop step len :
  slice_indices start stop step len = None <-> step = Some 0.
Proof.
  unfold slice_indices.
  split.
  - intros Hn.
    destruct step as [x|].
    + destruct (x =? 0) eqn:Hz; [|discriminate Hn].
      apply Z.eqb_eq in Hz. subst x. reflexivity.
    + change (1 =? 0) with false in Hn. discriminate Hn.
  - intros Hs. subst step. reflexivity.
Qed.

(* ---------- range_from ---------- *)

Lemma range_from_In x s st n :
  In x (range_from s st n) <-> exists k, (k < n)%nat /\ x = s + Z.of_nat k * st.
Proof.
  revert s. induction n as [|n IH]; intros s; cbn [range_from In].
  - split; [intros []|]. intros [k [Hk _]]. lia.
  - rewrite IH. split.
    + intros [Hx | [k [Hk Hx]]].
      * exists 0%nat. split; [lia|]. subst x. cbn [Z.of_nat]. lia.
      * exists (S k). split; [lia|]. rewrite Nat2Z.inj_succ. lia.
    + intros [k [Hk Hx]].
      destruct k as [|k].
      * left. subst x. cbn [Z.of_nat]. lia.
      * right. exists k. split; [lia|]. rewrite Nat2Z.inj_succ in Hx. lia.
Qed.

Lemma range_from_length s st n : length (range_from s st n) = n.
Proof.
  revert s. induction n as [|n IH]; intros s; cbn [range_from length].
  - reflexivity.
  - rewrite IH. reflexivity.
Qed.

Lemma range_from_nth s st n k :
  (k < n)%nat -> nth_error (range_from s st n) k = Some (s + Z.of_nat k * st).
Proof.
  revert s k. induction n as [|n IH]; intros s k Hk.
  - lia.
  - destruct k as [|k]; cbn [range_from nth_error].
    + f_equal. cbn [Z.of_nat]. lia.
    + rewrite IH by lia. f_equal. rewrite Nat2Z.inj_succ. lia.
Qed.

Lemma range_from_NoDup s st n : st <> 0 -> NoDup (range_from s st n).
Proof.
  intros Hst. revert s. induction n as [|n IH]; intros s; cbn [range_from].
  - constructor.
  - constructor; [|apply IH].
    rewrite range_from_In. intros [k [_ Hk]].
    assert (Hz : (Z.of_nat k + 1) * st = 0) by lia.
    apply Z.mul_eq_0 in Hz. lia.
Qed.

(* ---------- range_len ---------- *)

Lemma range_len_nonneg s e st : st <> 0 -> 0 <= range_len s e st.
Proof.
  intros Hst. unfold range_len.
  destruct (Z.ltb_spec 0 st) as [Hp|Hp].
  - destruct (Z.ltb_spec s e) as [Hse|Hse]; [|lia].
    apply Z.div_pos; lia.
  - destruct (Z.ltb_spec e s) as [Hse|Hse]; [|lia].
    apply Z.div_pos; lia.
Qed.

Lemma range_len_pos_spec s e st k :
  0 < st -> 0 <= k < range_len s e st -> s <= s + k * st < e.
Proof.
  intros Hst [Hk0 Hk]. unfold range_len in Hk.
  destruct (Z.ltb_spec 0 st) as [Hp|Hp]; [|lia].
  destruct (Z.ltb_spec s e) as [Hse|Hse]; [|lia].
  pose proof (Z.mul_div_le (e - s + st - 1) st Hst) as Hm.
  set (q := (e - s + st - 1) / st) in *.
  assert (Hq : st * (k + 1) <= st * q) by (apply Z.mul_le_mono_nonneg_l; lia).
  assert (Hk2 : 0 <= k * st) by (apply Z.mul_nonneg_nonneg; lia).
  lia.
Qed.

Lemma range_len_neg_spec s e st k :
  st < 0 -> 0 <= k < range_len s e st -> e < s + k * st <= s.
Proof.
  intros Hst [Hk0 Hk]. unfold range_len in Hk.
  destruct (Z.ltb_spec 0 st) as [Hp|Hp]; [lia|].
  destruct (Z.ltb_spec e s) as [Hse|Hse]; [|lia].
  assert (Hst' : 0 < - st) by lia.
  pose proof (Z.mul_div_le (s - e - st - 1) (- st) Hst') as Hm.
  set (q := (s - e - st - 1) / (- st)) in *.
  assert (Hq : (- st) * (k + 1) <= (- st) * q) by (apply Z.mul_le_mono_nonneg_l; lia).
  assert (Hk2 : 0 <= k * (- st)) by (apply Z.mul_nonneg_nonneg; lia).
  lia.
Qed.

(* ---------- py_range ---------- *)

Lemma py_range_In_bounds x s e st :
  st <> 0 -> In x (py_range s e st) ->
  (0 < st -> s <= x < e) /\ (st < 0 -> e < x <= s).
Proof.
  intros Hst Hin. unfold py_range in Hin.
  apply range_from_In in Hin. destruct Hin as [k [Hk Hx]].
  pose proof (range_len_nonneg s e st Hst) as Hnn.
  assert (Hk' : 0 <= Z.of_nat k < range_len s e st) by lia.
  subst x. split; intros Hsg.
  - apply range_len_pos_spec; assumption.
  - apply range_len_neg_spec; assumption.
Qed.

Lemma py_range_NoDup s e st : st <> 0 -> NoDup (py_range s e st).
Proof.
  intros Hst. unfold py_range. apply range_from_NoDup. exact Hst.
Qed.

(* a range taken from slice_indices over a list of length len only contains valid indices *)
Lemma slice_range_in_bounds start stop step len s e st x :
  slice_indices start stop step len = Some (s, e, st) -> 0 <= len ->
  In x (py_range s e st) -> 0 <= x < len.
Proof.
  intros Hsi Hlen Hin.
  destruct (slice_indices_some _ _ _ _ _ _ _ Hsi Hlen) as [Hst [_ [Hpos Hneg]]].
  destruct (py_range_In_bounds x s e st Hst Hin) as [Bpos Bneg].
  destruct (Z.lt_trichotomy st 0) as [Hl | [He | Hg]].
  - specialize (Hneg Hl). specialize (Bneg Hl). lia.
  - contradiction.
  - specialize (Hpos Hg). specialize (Bpos Hg). lia.
Qed.

Lemma range_len_step1 s e : range_len s e 1 = Z.max 0 (e - s).
Proof.
  unfold range_len. change (0 <? 1) with true. cbv iota.
  destruct (Z.ltb_spec s e) as [Hse|Hse].
  - replace (e - s + 1 - 1) with (e - s) by lia. rewrite Z.div_1_r. lia.
  - lia.
Qed.

Lemma py_range_step1 s e : py_range s e 1 = range_from s 1 (Z.to_nat (e - s)).
Proof.
  unfold py_range. rewrite range_len_step1. f_equal. lia.
Qed.

Lemma py_range_step1_length s e : Z.of_nat (length (py_range s e 1)) = Z.max 0 (e - s).
Proof.
  rewrite py_range_step1, range_from_length. lia.
Qed.

(* ---------- list_min ---------- *)

Lemma list_min_le d l x : In x l -> list_min d l <= x.
Proof.
  revert d. induction l as [|y l IH]; intros d Hin.
  - destruct Hin.
  - cbn [list_min]. destruct Hin as [Heq | Hin].
    + subst y. apply Z.le_min_l.
    + specialize (IH y Hin). lia.
Qed.

Lemma list_min_nil d : list_min d [] = d.
Proof. reflexivity. Qed.

Lemma list_min_head_le s l : list_min s (s :: l) <= s.
Proof. cbn [list_min]. apply Z.le_min_l. Qed.

Lemma list_min_lower d l m : m <= d -> (forall x, In x l -> m <= x) -> m <= list_min d l.
Proof.
  revert d. induction l as [|y l IH]; intros d Hd Hall.
  - exact Hd.
  - cbn [list_min].
    assert (Hy : m <= y) by (apply Hall; left; reflexivity).
    assert (Hr : m <= list_min y l).
    { apply IH; [exact Hy|]. intros x Hx. apply Hall. right. exact Hx. }
    lia.
Qed.

(* ---------- zmem ---------- *)

Lemma zmem_In x l : zmem x l = true <-> In x l.
Proof.
  unfold zmem. rewrite existsb_exists. split.
  - intros [y [Hin Heq]]. apply Z.eqb_eq in Heq. subst y. exact Hin.
  - intros Hin. exists x. split; [exact Hin | apply Z.eqb_refl].
Qed.

(* ---------- sort_desc ---------- *)

Lemma insert_desc_In x y l : In y (insert_desc x l) <-> y = x \/ In y l.
Proof.
  induction l as [|z l IH]; cbn [insert_desc].
  - cbn [In]. intuition.
  - destruct (z <=? x); cbn [In].
    + intuition.
    + rewrite IH. intuition.
Qed.

Lemma sort_desc_In x l : In x (sort_desc l) <-> In x l.
Proof.
  induction l as [|y l IH].
  - reflexivity.
  - change (sort_desc (y :: l)) with (insert_desc y (sort_desc l)).
    rewrite insert_desc_In, IH. cbn [In]. intuition.
Qed.

(* strictly descending *)
Inductive sdesc : list Z -> Prop :=
| sdesc_nil : sdesc []
| sdesc_cons x l : (forall y, In y l -> y < x) -> sdesc l -> sdesc (x :: l).

Lemma insert_desc_sdesc x l : sdesc l -> ~ In x l -> sdesc (insert_desc x l).
Proof.
  intros Hsd. induction Hsd as [|z l Hlt Hsd IH]; intros Hnin; cbn [insert_desc].
  - constructor; [intros y []|constructor].
  - destruct (Z.leb_spec z x) as [Hle|Hgt].
    + assert (Hzx : z < x).
      { assert (z <> x) by (intros Heq; apply Hnin; left; exact Heq). lia. }
      constructor.
      * intros y [Hy | Hy]; [subst y; exact Hzx|]. specialize (Hlt y Hy). lia.
      * constructor; assumption.
    + constructor.
      * intros y Hy. apply insert_desc_In in Hy. destruct Hy as [Hy | Hy].
        -- subst y. exact Hgt.
        -- apply Hlt. exact Hy.
      * apply IH. intros Hin. apply Hnin. right. exact Hin.
Qed.

Lemma sort_desc_sdesc l : NoDup l -> sdesc (sort_desc l).
Proof.
  intros Hnd. induction Hnd as [|x l Hnin Hnd IH].
  - constructor.
  - change (sort_desc (x :: l)) with (insert_desc x (sort_desc l)).
    apply insert_desc_sdesc; [exact IH|].
    rewrite sort_desc_In. exact Hnin.
Qed.

Lemma sort_desc_single x : sort_desc [x] = [x].
Proof. reflexivity. Qed.

Lemma insert_desc_length x l : length (insert_desc x l) = S (length l).
Proof.
  induction l as [|z l IH]; cbn [insert_desc].
  - reflexivity.
  - destruct (z <=? x); cbn [length].
    + reflexivity.
    + rewrite IH. reflexivity.
Qed.

Lemma sort_desc_length l : length (sort_desc l) = length l.
Proof.
  induction l as [|y l IH].
  - reflexivity.
  - change (sort_desc (y :: l)) with (insert_desc y (sort_desc l)).
    rewrite insert_desc_length, IH. reflexivity.
Qed.
