(* C11Hyps / C12Hyps: the side conditions of C11_build_equals_call and C12_gen_faithful evaluated on the
   real cases (on how many generated programs / configurations the theorems speak). *)
From Fiddle Require Import PyBase PySlice Sig ArgStore PyCall Heap Traverse Build Lang Codegen C02Check
  C11Check C12Check Lang_proofs Codegen_proofs.

Definition hyps_c11 (c : C11Check.case) : bool :=
  let e := C11Check.c_env c in
  env_ok_b e && wf_b e (c_arg_heap c) && forallb plain_b (c_arg_heap c)
  && forallb (ref_below (length (c_arg_heap c))) (c_args c)
  && match run_program e true 64 (c_args c) (c_arg_heap c) (c_prog c),
           run_program e false 64 (c_args c) (c_arg_heap c) (c_prog c) with
     | (_, Some _), (_, Some _) => true
     | _, _ => false
     end.

Definition hyps_c12 (c : C12Check.case) : bool :=
  let e := C12Check.c_env c in
  wf_b e (c_heap c)
  && match gen e (c_heap c) (c_root c) with Some _ => true | None => false end
  && stores_ok e (c_heap c) (c_root c)
  && contains_buildable (S (length (c_heap c))) (c_heap c) (c_root c)
  && Nat.ltb (length (c_heap c)) 64.
