(* PyBase: atoms, references, storage keys, insertion-ordered dictionaries (Python dict order). *)
From Coq Require Export ZArith NArith List Bool Lia.
Export ListNotations.
Open Scope Z_scope.

(* Leaves.  Strings and bytes are lists of code points / bytes.  Floats are carried as the
   characters of float.hex(); symbols (functions, classes, enum members, tags) are interned. *)
Inductive atom :=
| AInt (z : Z)
| ABool (b : bool)
| ANone
| AStr (s : list N)
| ABytes (s : list N)
| AFloat (s : list N)
| ASym (n : N)
| ANoValue
| AEllipsis
| AEmptyTuple
| AOpaque (n : N).

(* A reference is an inline leaf or a pointer into a heap. *)
Inductive ref := RA (a : atom) | RP (p : nat).

Definition listN_eq_dec : forall a b : list N, {a = b} + {a <> b} := list_eq_dec N.eq_dec.

Definition atom_eq_dec : forall a b : atom, {a = b} + {a <> b}.
Proof.
  decide equality; auto using Z.eq_dec, N.eq_dec, Bool.bool_dec, listN_eq_dec.
Defined.

Definition ref_eq_dec : forall a b : ref, {a = b} + {a <> b}.
Proof.
  decide equality; auto using atom_eq_dec, Nat.eq_dec.
Defined.

Definition atom_eqb (a b : atom) : bool := if atom_eq_dec a b then true else false.
Definition ref_eqb (a b : ref) : bool := if ref_eq_dec a b then true else false.

Lemma ref_eqb_eq a b : ref_eqb a b = true <-> a = b.
Proof. unfold ref_eqb; destruct (ref_eq_dec a b); split; congruence. Qed.

Definition NoValue : ref := RA ANoValue.

(* Keys of the canonical storage format: ints for positional-only / *args slots, names otherwise.
   The int is a Z because the unrepaired code could store a negative key. *)
Inductive skey := KPos (i : Z) | KName (n : N).

Definition skey_eq_dec : forall a b : skey, {a = b} + {a <> b}.
Proof. decide equality; auto using Z.eq_dec, N.eq_dec. Defined.

Definition skey_eqb (a b : skey) : bool := if skey_eq_dec a b then true else false.

Lemma skey_eqb_eq a b : skey_eqb a b = true <-> a = b.
Proof. unfold skey_eqb; destruct (skey_eq_dec a b); split; congruence. Qed.

Lemma skey_eqb_refl a : skey_eqb a a = true.
Proof. apply skey_eqb_eq; reflexivity. Qed.

Lemma skey_eqb_neq a b : a <> b -> skey_eqb a b = false.
Proof. unfold skey_eqb; destruct (skey_eq_dec a b); congruence. Qed.

(* Insertion-ordered dictionary, generic in the key's boolean equality. *)
Section Dict.
  Context {K V : Type} (keqb : K -> K -> bool).

  Fixpoint dget (d : list (K * V)) (k : K) : option V :=
    match d with
    | [] => None
    | (k', v) :: d' => if keqb k k' then Some v else dget d' k
    end.

  Definition dmem (d : list (K * V)) (k : K) : bool :=
    match dget d k with Some _ => true | None => false end.

  (* d[k] = v : overwrite in place, or append *)
  Fixpoint dset (d : list (K * V)) (k : K) (v : V) : list (K * V) :=
    match d with
    | [] => [(k, v)]
    | (k', v') :: d' => if keqb k k' then (k', v) :: d' else (k', v') :: dset d' k v
    end.

  Fixpoint ddel (d : list (K * V)) (k : K) : list (K * V) :=
    match d with
    | [] => []
    | (k', v') :: d' => if keqb k k' then d' else (k', v') :: ddel d' k
    end.

  Definition dkeys (d : list (K * V)) : list K := map fst d.
End Dict.

Definition store := list (skey * ref).
Definition sget : store -> skey -> option ref := dget skey_eqb.
Definition smem : store -> skey -> bool := dmem skey_eqb.
Definition sset : store -> skey -> ref -> store := dset skey_eqb.
Definition sdel : store -> skey -> store := ddel skey_eqb.

Definition store_eq_dec : forall a b : store, {a = b} + {a <> b}.
Proof. apply list_eq_dec. decide equality; auto using ref_eq_dec, skey_eq_dec. Defined.

(* Python exceptions the models distinguish. *)
Inductive exn := EAttribute | EIndex | EType | EValue | EKey | EAssert | EOther.
Definition exn_eq_dec : forall a b : exn, {a = b} + {a <> b}.
Proof. decide equality. Defined.

(* Helpers used by the generated case files. *)
Fixpoint failing_indices {A} (f : A -> bool) (l : list A) (i : nat) : list nat :=
  match l with
  | [] => []
  | x :: l' => if f x then failing_indices f l' (S i) else i :: failing_indices f l' (S i)
  end.

Fixpoint nat_seq (start len : nat) : list nat :=
  match len with O => [] | S l => start :: nat_seq (S start) l end.
