(* C19Check: the sequence of module-level-state events observed in a real multi-threaded run
   (under the deterministic scheduler) is replayed on the model. *)
From Fiddle Require Import Threads.
From Coq Require Import List Arith Bool.
Import ListNotations.

Definition obs_eq_dec : forall a b : obs, {a = b} + {a <> b}.
Proof. decide equality; decide equality; apply Nat.eq_dec. Defined.

Record case := mkcase { c_counter0 : nat; c_events : list (tid * action * obs) }.

(* caches are not replayed (hit / miss is timing dependent by design): f is irrelevant *)
Fixpoint replay (g : gstate) (evs : list (tid * action * obs)) : bool :=
  match evs with
  | [] => true
  | (t, a, o) :: rest =>
      let '(g', o') := step (fun k => k) g t a in
      (if obs_eq_dec o o' then true else false) && replay g' rest
  end.

Definition check_case (c : case) : bool :=
  replay (mk_g (fun _ => false) (fun _ => true) (c_counter0 c) (fun _ => None)) (c_events c).

Definition explain_case (c : case) :=
  snd (run (fun k => k) (mk_g (fun _ => false) (fun _ => true) (c_counter0 c) (fun _ => None))
           (map fst (c_events c))).
