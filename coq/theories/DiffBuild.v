(* DiffBuild: diffing.build_diff_from_alignment followed by resolve_diff_references, on a heap that
   holds both structures.  Given an alignment (pairs old id / new id, as left by the builder after it
   has un-aligned changed tuples), _DiffFromAlignmentBuilder walks `new` with a memoized post-order
   traversal:
     - a new object that is not aligned is described by a copy (one copy per object: objects reached
       twice become entries of new_shared_values and are referenced twice);
     - a new object aligned with an old one is described by a reference to the old object, and the
       operations that turn the old object into the new one are recorded: callable, tags, then for
       every argument / key / index of the old object Modify or Delete, then Set for what only the
       new object has.
   resolve_diff_references replaces references by the objects they denote.  Here both steps are one:
   the copies are allocated in the heap and the recorded values are pointers (tau). *)
From Fiddle Require Import PyBase PySlice Sig ArgStore PyCall Heap Traverse Tags History Diff.

Section DiffBuild.
  Variable e : sigenv.
  Variable al : list (nat * nat).          (* (old id, new id) *)

  Fixpoint old_of_in (l : list (nat * nat)) (j : nat) : option nat :=
    match l with [] => None | (i, j') :: l' => if Nat.eqb j j' then Some i else old_of_in l' j end.
  Definition old_of (j : nat) : option nat := old_of_in al j.

  (* _DiffFromAlignmentBuilder.aligned_or_equal *)
  Definition aligned_or_equal (ro rn : ref) : bool :=
    match ro, rn with
    | RA a, RA b => if atom_eq_dec a b then true else false     (* same type and == *)
    | RP i, RP j => match old_of j with Some i' => Nat.eqb i i' | None => false end
    | _, _ => false
    end.

  (* record_diffs on the way up: an aligned object is a reference to the old object, any other a copy *)
  Definition db_node (j : nat) (n : node) (rs : list ref) (o : heap) : heap * (ref + fail) :=
    match old_of j with
    | Some i => (o, inl (RP i))
    | None => let '(o', r) := alloc o (with_children e n rs) in (o', inl r)
    end.

  Definition tau (memo : list (nat * ref)) (r : ref) : ref :=
    match r with
    | RA a => RA a
    | RP j => match memo_get memo j with Some r' => r' | None => RP j end
    end.

  Section Changes.
    Variable memo : list (nat * ref).
    Variable p : path.                      (* path of the old object *)

    (* record_buildable_diffs, arguments *)
    Definition store_changes (so sn : store) : list change :=
      flat_map (fun kv =>
                  match fst kv with
                  | KName a =>
                      match sget sn (KName a) with
                      | Some vn => if aligned_or_equal (snd kv) vn then []
                                   else [CModify p (LAttr a) (tau memo vn)]
                      | None => [CDelete p (LAttr a)]
                      end
                  | KPos _ => []              (* integer keys are not supported by the differ *)
                  end) so
      ++ flat_map (fun kv =>
                     match fst kv with
                     | KName a => if smem so (KName a) then [] else [CSet p (LAttr a) (tau memo (snd kv))]
                     | KPos _ => []
                     end) sn.

    (* record_tag_diffs *)
    Definition tag_changes (to tn : tagmap) : list change :=
      let keys := map fst to ++ map fst (filter (fun kt => negb (existsb (fun k => if skey_eq_dec k (fst kt) then true else false) (map fst to))) tn) in
      flat_map (fun k =>
                  match k with
                  | KName a =>
                      let o := tags_get to k in
                      let n := tags_get tn k in
                      map (fun t => CRemoveTag p a t) (filter (fun t => negb (existsb (N.eqb t) n)) o)
                      ++ map (fun t => CAddTag p a t) (filter (fun t => negb (existsb (N.eqb t) o)) n)
                  | KPos _ => []
                  end) keys.

    (* record_dict_diffs *)
    Fixpoint akv_get (d : list (atom * ref)) (k : atom) : option ref :=
      match d with
      | [] => None
      | (k', v) :: d' => if atom_eqb k k' then Some v else akv_get d' k
      end.
    Definition dict_changes (kvo kvn : list (atom * ref)) : list change :=
      flat_map (fun kv =>
                  match akv_get kvn (fst kv) with
                  | Some vn => if aligned_or_equal (snd kv) vn then []
                               else [CModify p (LKey (fst kv)) (tau memo vn)]
                  | None => [CDelete p (LKey (fst kv))]
                  end) kvo
      ++ flat_map (fun kv => match akv_get kvo (fst kv) with
                             | Some _ => []
                             | None => [CSet p (LKey (fst kv)) (tau memo (snd kv))]
                             end) kvn.

    (* record_sequence_diffs *)
    Fixpoint seq_changes (idx : nat) (xo xn : list ref) : list change :=
      match xo, xn with
      | vo :: xo', vn :: xn' =>
          (if aligned_or_equal vo vn then [] else [CModify p (LIndex (Z.of_nat idx)) (tau memo vn)])
          ++ seq_changes (S idx) xo' xn'
      | _, _ => []
      end.

    Definition node_changes (no nn : node) : list change :=
      match no, nn with
      | NBuildable _ fo so to, NBuildable _ fn sn tn =>
          (if N.eqb fo fn then [] else [CModify p LFn (RA (ASym fn))])
          ++ tag_changes to tn ++ store_changes so sn
      | NDict kvo, NDict kvn | NDefaultDict _ kvo, NDefaultDict _ kvn => dict_changes kvo kvn
      | NList xo, NList xn => seq_changes 0 xo xn
      | _, _ => []          (* tuples / namedtuples stay aligned only when nothing changed *)
      end.
  End Changes.

  (* the first path under which collect_paths_by_id lists an object of old *)
  Definition first_path (h : heap) (rold : ref) (i : nat) : path :=
    match paths_to e h (S (length h)) rold i with
    | p :: _ => p
    | [] => []
    end.

  (* build_diff_from_alignment + resolve_diff_references: heap with the copies, and the changes.
     None: the traversal of new failed (dangling pointer / cycle): not a case of the property. *)
  Definition build_changes (h : heap) (rold rnew : ref) : option (heap * list change) :=
    match mrun e h db_node rnew with
    | (s, inl _) =>
        let cs := flat_map (fun ij =>
                              match nth_error h (fst ij), nth_error h (snd ij) with
                              | Some no, Some nn => node_changes (memo s) (first_path h rold (fst ij)) no nn
                              | _, _ => []
                              end) al in
        Some (out s, cs)
    | _ => None
    end.

  (* build_diff_from_alignment, then apply_diff on the old structure *)
  Definition patch (h : heap) (rold rnew : ref) : option heap :=
    match build_changes h rold rnew with
    | Some (o, cs) => Some (apply_changes e o rold cs)
    | None => None
    end.

  (* ---- what DiffAlignment guarantees (checked on every case; hypotheses of the theorem) ---------- *)
  Definition same_kind (no nn : node) : bool :=
    match no, nn with
    | NBuildable ko _ so _, NBuildable kn _ sn _ =>
        (if bkind_eq_dec ko kn then true else false)
        && forallb (fun kv => match fst kv with KName _ => true | KPos _ => false end) (so ++ sn)
    | NDict _, NDict _ => true
    | NDefaultDict fo _, NDefaultDict fn _ => if atom_eq_dec fo fn then true else false
    | NList xo, NList xn => Nat.eqb (length xo) (length xn)
    | NTuple xo, NTuple xn => Nat.eqb (length xo) (length xn) && forallb (fun ab => aligned_or_equal (fst ab) (snd ab)) (combine xo xn)
    | NNamedTuple to fo, NNamedTuple tn fn =>
        N.eqb to tn && (if list_eq_dec N.eq_dec (map fst fo) (map fst fn) then true else false)
        && forallb (fun ab => aligned_or_equal (fst ab) (snd ab)) (combine (map snd fo) (map snd fn))
    | _, _ => false
    end.

  Fixpoint nodup_nat (l : list nat) : bool :=
    match l with
    | [] => true
    | x :: l' => negb (existsb (Nat.eqb x) l') && nodup_nat l'
    end.

  Definition alignment_ok (h : heap) (rold rnew : ref) : bool :=
    (* one-to-one *)
    nodup_nat (map fst al)
    && nodup_nat (map snd al)
    (* the roots are aligned with each other *)
    && match rold, rnew with
       | RP i, RP j => existsb (fun ij => Nat.eqb (fst ij) i && Nat.eqb (snd ij) j) al
       | _, _ => false
       end
    (* compatible objects *)
    && forallb (fun ij => match nth_error h (fst ij), nth_error h (snd ij) with
                          | Some no, Some nn => same_kind no nn
                          | _, _ => false
                          end) al.
End DiffBuild.
