(* Proofs about ArgStore (the algorithm) against ArgSpec (the bound-argument list specification).
   Kept out of the model files so that the model still runs when a proof breaks. *)
From Fiddle Require Import PyBase PySlice Sig ArgStore ArgSpec.

(* The statements to be established (C03).  *)
Definition refines_step (sg : sig) (st : store) (o : op) : Prop :=
  let '(st', r) := step sg st o in
  let '(sp', r') := spec_step sg (abs sg st) o in
  r = r' /\ abs sg st' = sp' /\ inv sg st'.

(* rejected edits change nothing -- on the specification this is immediate *)
Lemma spec_errors_frame sg sp o sp' e : spec_step sg sp o = (sp', OErr e) -> sp' = sp.
Proof.
  destruct o; cbn [spec_step]; intros H;
    repeat match type of H with
           | context [match ?x with _ => _ end] => destruct x eqn:?
           | context [if ?x then _ else _] => destruct x eqn:?
           end; inversion H; subst; reflexivity.
Qed.

From Fiddle Require Import PySlice_proofs Store_proofs.

(* ================================================================== varargs runs *)

Definition va_run (st : store) (i : nat) (l : list ref) : Prop :=
  (forall j, (j < length l)%nat -> sget st (kpos (i + j)) = nth_error l j)
  /\ sget st (kpos (i + length l)) = None.

Lemma abs_varargs_of_run l : forall f st i,
  (length l <= f)%nat -> va_run st i l -> abs_varargs f st i = l.
Proof.
  induction l as [|v l IH]; intros f st i Hf [H1 H2].
  - cbn [length] in H2. rewrite Nat.add_0_r in H2.
    destruct f as [|f]; cbn [abs_varargs]; [reflexivity | rewrite H2; reflexivity].
  - destruct f as [|f]; [cbn [length] in Hf; lia|].
    cbn [abs_varargs].
    pose proof (H1 0%nat ltac:(cbn [length]; lia)) as H0.
    rewrite Nat.add_0_r in H0. cbn [nth_error] in H0. rewrite H0.
    f_equal. apply IH.
    + cbn [length] in Hf. lia.
    + split.
      * intros j Hj. replace (S i + j)%nat with (i + S j)%nat by lia.
        rewrite H1 by (cbn [length]; lia). reflexivity.
      * replace (S i + length l)%nat with (i + length (v :: l))%nat by (cbn [length]; lia).
        exact H2.
Qed.

Lemma abs_varargs_run_gen f : forall st i,
  (forall j, (j < length (abs_varargs f st i))%nat ->
             sget st (kpos (i + j)) = nth_error (abs_varargs f st i) j)
  /\ ((length (abs_varargs f st i) < f)%nat ->
      sget st (kpos (i + length (abs_varargs f st i))) = None)
  /\ (length (abs_varargs f st i) <= f)%nat.
Proof.
  induction f as [|f IH]; intros st i; cbn [abs_varargs].
  - cbn [length]. repeat split; intros; lia.
  - destruct (sget st (kpos i)) as [v|] eqn:E.
    + destruct (IH st (S i)) as [A [B C]]. cbn [length]. repeat split.
      * intros j Hj. destruct j as [|j].
        -- rewrite Nat.add_0_r. cbn [nth_error]. exact E.
        -- cbn [nth_error]. replace (i + S j)%nat with (S i + j)%nat by lia. apply A. lia.
      * intros Hl. replace (i + S (length (abs_varargs f st (S i))))%nat
          with (S i + length (abs_varargs f st (S i)))%nat by lia.
        apply B. lia.
      * lia.
    + cbn [length]. repeat split.
      * intros j Hj. lia.
      * intros _. rewrite Nat.add_0_r. exact E.
      * lia.
Qed.

Lemma va_run_present st i l j : va_run st i l -> (j < length l)%nat -> smem st (kpos (i + j)) = true.
Proof.
  intros [H _] Hj. apply smem_true. rewrite (H j Hj).
  destruct (nth_error l j) as [v|] eqn:E.
  - exists v. reflexivity.
  - apply nth_error_None in E. lia.
Qed.

Lemma va_run_length st i l : va_run st i l -> (length l <= length st)%nat.
Proof.
  intros H. apply (run_length_bound st i). intros j Hj. eapply va_run_present; eauto.
Qed.

Lemma abs_varargs_is_run st i : va_run st i (abs_varargs (length st) st i).
Proof.
  destruct (abs_varargs_run_gen (length st) st i) as [A [B C]].
  split; [exact A|].
  destruct (Nat.lt_ge_cases (length (abs_varargs (length st) st i)) (length st)) as [L|L].
  - apply B, L.
  - destruct (sget st (kpos (i + length (abs_varargs (length st) st i)))) as [v|] eqn:E;
      [|reflexivity].
    exfalso.
    assert (S (length (abs_varargs (length st) st i)) <= length st)%nat.
    { apply (run_length_bound st i). intros j Hj.
      apply smem_true.
      destruct (Nat.eq_dec j (length (abs_varargs (length st) st i))) as [Ej|Ej].
      - subst j. exists v. exact E.
      - rewrite A by lia.
        destruct (nth_error (abs_varargs (length st) st i) j) as [w|] eqn:N.
        + exists w. reflexivity.
        + apply nth_error_None in N. lia. }
    lia.
Qed.

Lemma abs_varargs_eq_run st i l : va_run st i l -> abs_varargs (length st) st i = l.
Proof.
  intros H. apply abs_varargs_of_run; [|exact H]. eapply va_run_length; eauto.
Qed.

Lemma va_run_ext st st' i l :
  (forall j, (i <= j)%nat -> sget st' (kpos j) = sget st (kpos j)) ->
  va_run st i l -> va_run st' i l.
Proof.
  intros E [A B]. split.
  - intros j Hj. rewrite E by lia. apply A, Hj.
  - rewrite E by lia. exact B.
Qed.

Lemma abs_varargs_ext st st' i :
  (forall j, (i <= j)%nat -> sget st' (kpos j) = sget st (kpos j)) ->
  abs_varargs (length st') st' i = abs_varargs (length st) st i.
Proof.
  intros E. apply abs_varargs_eq_run. eapply va_run_ext; [exact E|]. apply abs_varargs_is_run.
Qed.

Lemma va_run_fun st i l l' : va_run st i l -> va_run st i l' -> l = l'.
Proof.
  intros H H'. rewrite <- (abs_varargs_eq_run _ _ _ H). apply abs_varargs_eq_run. exact H'.
Qed.

(* ================================================================== the invariant, pointwise *)

Lemma inv_elim sg st :
  inv sg st ->
  keys_distinct st = true
  /\ (forall k v, sget st k = Some v -> key_ok sg st k = true /\ v <> NoValue).
Proof.
  unfold inv, inv_b. intros H.
  apply andb_prop in H. destruct H as [H H3]. apply andb_prop in H. destruct H as [H1 H2].
  split; [exact H1|]. intros k v G. apply sget_In in G.
  rewrite forallb_forall in H2, H3. split.
  - apply (H2 (k, v) G).
  - specialize (H3 (k, v) G). cbn [snd] in H3. apply negb_true_iff in H3.
    intros E. apply ref_eqb_eq in E. congruence.
Qed.

Lemma inv_intro sg st :
  keys_distinct st = true ->
  (forall k v, sget st k = Some v -> key_ok sg st k = true /\ v <> NoValue) ->
  inv sg st.
Proof.
  intros D H. unfold inv, inv_b. rewrite D. cbn [andb].
  apply andb_true_intro. split; apply forallb_forall; intros [k v] HI; cbn [fst snd];
    apply (In_sget _ _ _ D) in HI; destruct (H k v HI) as [A B].
  - exact A.
  - apply negb_true_iff. destruct (ref_eqb v NoValue) eqn:E; [|reflexivity].
    apply ref_eqb_eq in E. contradiction.
Qed.

Lemma key_ok_mono sg st st' k :
  (forall j, (n0 sg <= j)%nat -> smem st (kpos j) = true -> smem st' (kpos j) = true) ->
  key_ok sg st k = true -> key_ok sg st' k = true.
Proof.
  intros M. destruct k as [i|n]; [|exact (fun H => H)].
  cbn [key_ok]. intros H. apply andb_prop in H. destruct H as [H1 H2]. rewrite H1. cbn [andb].
  destruct (i <? Z.of_nat (n0 sg)); [exact H2|].
  apply andb_prop in H2. destruct H2 as [H2 H3]. rewrite H2. cbn [andb].
  rewrite forallb_forall in *. intros j Hj. specialize (H3 j Hj).
  apply In_nat_seq in Hj. apply M; [lia|exact H3].
Qed.

(* ================================================================== names, slots *)

Lemma names_distinct_filter f sg : names_distinct sg = true -> names_distinct (filter f sg) = true.
Proof.
  induction sg as [|p sg IH]; intros H; [reflexivity|].
  cbn [names_distinct] in H. apply andb_prop in H. destruct H as [H1 H2].
  cbn [filter]. destruct (f p).
  - cbn [names_distinct]. rewrite (IH H2), andb_true_r.
    apply negb_true_iff. apply negb_true_iff in H1.
    destruct (existsb (fun q => N.eqb (pname q) (pname p)) (filter f sg)) eqn:E; [|reflexivity].
    apply existsb_exists in E. destruct E as [q [Hq E]]. apply filter_In in Hq.
    destruct Hq as [Hq _].
    assert (existsb (fun q => N.eqb (pname q) (pname p)) sg = true)
      by (apply existsb_exists; exists q; auto).
    congruence.
  - apply IH, H2.
Qed.

Lemma valid_sig_names sg : valid_sig sg = true -> names_distinct sg = true.
Proof.
  unfold valid_sig. intros H. repeat (apply andb_prop in H; destruct H as [H ?]). assumption.
Qed.

Lemma valid_sig_prefix_names sg : valid_sig sg = true -> names_distinct (prefix_params sg) = true.
Proof. intros H. apply names_distinct_filter, valid_sig_names, H. Qed.

Lemma slot_from_range ps n : forall i j, slot_from ps n i = Some j -> (i <= j < i + length ps)%nat.
Proof.
  induction ps as [|p ps IH]; intros i j H; cbn [slot_from] in H; [discriminate|].
  cbn [length]. destruct (N.eqb (pname p) n).
  - destruct (pk p); inversion H; lia.
  - apply IH in H. lia.
Qed.

Lemma slot_from_nth ps n : forall i j,
  slot_from ps n i = Some j ->
  exists p, nth_error ps (j - i) = Some p /\ pname p = n /\ pk p = PosOrKw.
Proof.
  induction ps as [|p ps IH]; intros i j H; cbn [slot_from] in H; [discriminate|].
  destruct (N.eqb (pname p) n) eqn:E.
  - apply N.eqb_eq in E. destruct (pk p) eqn:K; inversion H. subst j.
    rewrite Nat.sub_diag. exists p. auto.
  - pose proof (slot_from_range _ _ _ _ H) as R.
    destruct (IH _ _ H) as [q [A B]]. exists q. split; [|exact B].
    replace (j - i)%nat with (S (j - S i))%nat by lia. exact A.
Qed.

(* reading a slot *)
Lemma abs_prefix_slot ps n st : forall i j,
  slot_from ps n i = Some j ->
  nth_error (abs_prefix ps i st) (j - i) = Some (sget st (KName n)).
Proof.
  induction ps as [|p ps IH]; intros i j H; cbn [slot_from] in H; [discriminate|].
  cbn [abs_prefix]. destruct (N.eqb (pname p) n) eqn:E.
  - apply N.eqb_eq in E. destruct (pk p) eqn:K; inversion H. subst j n.
    rewrite Nat.sub_diag. reflexivity.
  - pose proof (slot_from_range _ _ _ _ H) as R.
    replace (j - i)%nat with (S (j - S i))%nat by lia. cbn [nth_error]. apply IH, H.
Qed.

Lemma abs_prefix_length ps i st : length (abs_prefix ps i st) = length ps.
Proof. revert i. induction ps as [|p ps IH]; intros i; cbn [abs_prefix length]; [|rewrite IH]; reflexivity. Qed.

(* abs_prefix only depends on lookups *)
Lemma abs_prefix_ext ps st st' : forall i,
  (forall k, sget st' k = sget st k) -> abs_prefix ps i st' = abs_prefix ps i st.
Proof.
  induction ps as [|p ps IH]; intros i E; cbn [abs_prefix]; [reflexivity|].
  rewrite (IH _ E), !E. reflexivity.
Qed.

Definition prefix_key (p : param) (i : nat) : skey :=
  match pk p with PosOnly => kpos i | _ => KName (pname p) end.

Lemma abs_prefix_cons p ps i st :
  abs_prefix (p :: ps) i st = sget st (prefix_key p i) :: abs_prefix ps (S i) st.
Proof. cbn [abs_prefix]. unfold prefix_key. destruct (pk p); reflexivity. Qed.

Fixpoint prefix_keys (ps : list param) (i : nat) : list skey :=
  match ps with [] => [] | p :: ps' => prefix_key p i :: prefix_keys ps' (S i) end.

Lemma abs_prefix_frame ps st st' : forall i,
  (forall k, In k (prefix_keys ps i) -> sget st' k = sget st k) ->
  abs_prefix ps i st' = abs_prefix ps i st.
Proof.
  induction ps as [|p ps IH]; intros i E; [reflexivity|].
  rewrite !abs_prefix_cons. rewrite E by (left; reflexivity). f_equal.
  apply IH. intros k Hk. apply E. right. exact Hk.
Qed.

Lemma abs_prefix_nth ps st : forall i d p,
  nth_error ps d = Some p ->
  nth_error (abs_prefix ps i st) d = Some (sget st (prefix_key p (i + d))).
Proof.
  induction ps as [|q ps IH]; intros i d p H; [destruct d; discriminate|].
  rewrite abs_prefix_cons. destruct d as [|d]; cbn [nth_error] in *.
  - inversion H. subst. rewrite Nat.add_0_r. reflexivity.
  - rewrite (IH (S i) d p H). replace (S i + d)%nat with (i + S d)%nat by lia. reflexivity.
Qed.

Lemma prefix_keys_nth ps : forall i k,
  In k (prefix_keys ps i) <-> exists d p, nth_error ps d = Some p /\ k = prefix_key p (i + d).
Proof.
  induction ps as [|q ps IH]; intros i k; cbn [prefix_keys].
  - split; [intros []|]. intros [d [p [H _]]]. destruct d; discriminate.
  - split.
    + intros [H|H].
      * exists 0%nat, q. rewrite Nat.add_0_r. auto.
      * apply IH in H. destruct H as [d [p [A B]]]. exists (S d), p. split; [exact A|].
        replace (i + S d)%nat with (S i + d)%nat by lia. exact B.
    + intros [d [p [A B]]]. destruct d as [|d]; cbn [nth_error] in A.
      * inversion A. subst. left. rewrite Nat.add_0_r. reflexivity.
      * right. apply IH. exists d, p. split; [exact A|].
        replace (S i + d)%nat with (i + S d)%nat by lia. exact B.
Qed.

(* general point update of abs_prefix *)
Lemma list_set_nat_nth_error {A} (l : list A) : forall i v j,
  nth_error (list_set_nat l i v) j =
  if Nat.eqb j i then (if Nat.ltb i (length l) then Some v else None) else nth_error l j.
Proof.
  induction l as [|x l IH]; intros i v j.
  - cbn [list_set_nat length]. destruct i; cbn [Nat.ltb Nat.leb];
      destruct (Nat.eqb j _); destruct j; reflexivity.
  - destruct i as [|i]; cbn [list_set_nat].
    + destruct j as [|j]; reflexivity.
    + destruct j as [|j]; cbn [nth_error]; [reflexivity|].
      rewrite IH. cbn [length]. reflexivity.
Qed.

Lemma list_set_nat_length {A} (l : list A) : forall i v, length (list_set_nat l i v) = length l.
Proof.
  induction l as [|x l IH]; intros i v; [reflexivity|].
  destruct i; cbn [list_set_nat length]; [|rewrite IH]; reflexivity.
Qed.

Lemma nth_error_ext {A} (l l' : list A) : (forall j, nth_error l j = nth_error l' j) -> l = l'.
Proof.
  revert l'. induction l as [|x l IH]; intros l' H.
  - destruct l'; [reflexivity|]. specialize (H 0%nat). discriminate.
  - destruct l' as [|y l']; [specialize (H 0%nat); discriminate|].
    pose proof (H 0%nat) as H0. cbn in H0. inversion H0. f_equal.
    apply IH. intros j. apply (H (S j)).
Qed.

(* the store after a write to the key of prefix slot d: slot d changes, the others do not,
   provided the prefix keys are pairwise distinct *)
Definition pkeys_distinct (ps : list param) (i : nat) : Prop :=
  forall d d' p p', nth_error ps d = Some p -> nth_error ps d' = Some p' ->
                    prefix_key p (i + d) = prefix_key p' (i + d') -> d = d'.

Lemma abs_prefix_update ps i st st' d p o :
  pkeys_distinct ps i ->
  nth_error ps d = Some p ->
  sget st' (prefix_key p (i + d)) = o ->
  (forall k, k <> prefix_key p (i + d) -> sget st' k = sget st k) ->
  abs_prefix ps i st' = list_set_nat (abs_prefix ps i st) d o.
Proof.
  intros PD Hp Ho Hf. apply nth_error_ext. intros j.
  rewrite list_set_nat_nth_error, abs_prefix_length.
  destruct (Nat.eqb j d) eqn:E.
  - apply Nat.eqb_eq in E. subst j.
    assert (L : (d < length ps)%nat) by (apply nth_error_Some; congruence).
    apply Nat.ltb_lt in L. rewrite L. rewrite (abs_prefix_nth _ _ _ _ _ Hp). rewrite Ho. reflexivity.
  - apply Nat.eqb_neq in E.
    destruct (nth_error ps j) as [q|] eqn:Hq.
    + rewrite !(abs_prefix_nth _ _ _ _ _ Hq). rewrite Hf; [reflexivity|].
      intros K. apply E. eapply PD; eauto.
    + assert (length ps <= j)%nat by (apply nth_error_None; exact Hq).
      transitivity (@None (option ref)); [|symmetry]; apply nth_error_None;
        rewrite abs_prefix_length; assumption.
Qed.

Lemma existsb_name_false ps p :
  existsb (fun q => N.eqb (pname q) (pname p)) ps = false ->
  forall d q, nth_error ps d = Some q -> pname q <> pname p.
Proof.
  intros H d q Hq E. apply nth_error_In in Hq.
  assert (existsb (fun q => N.eqb (pname q) (pname p)) ps = true).
  { apply existsb_exists. exists q. split; [exact Hq|]. apply N.eqb_eq. exact E. }
  congruence.
Qed.

Lemma names_distinct_nth ps : names_distinct ps = true ->
  forall d d' p p', nth_error ps d = Some p -> nth_error ps d' = Some p' ->
                    pname p = pname p' -> d = d'.
Proof.
  induction ps as [|q ps IH]; intros H d d' p p' Hp Hp' E; [destruct d; discriminate|].
  cbn [names_distinct] in H. apply andb_prop in H. destruct H as [H1 H2].
  apply negb_true_iff in H1. pose proof (existsb_name_false _ _ H1) as X.
  destruct d as [|d]; destruct d' as [|d']; cbn [nth_error] in *.
  - reflexivity.
  - inversion Hp. subst. exfalso. eapply X; eauto.
  - inversion Hp'. subst. exfalso. eapply X; eauto.
  - f_equal. eapply IH; eauto.
Qed.

Lemma pkeys_distinct_names ps i : names_distinct ps = true -> pkeys_distinct ps i.
Proof.
  intros H d d' p p' Hp Hp' E. unfold prefix_key in E.
  destruct (pk p) eqn:K; destruct (pk p') eqn:K'; unfold kpos in E; inversion E;
    try lia; eapply names_distinct_nth; eauto.
Qed.

(* ================================================================== abs_named *)

Lemma abs_named_get sg st n : slot_of sg n = None -> ndget (abs_named sg st) n = sget st (KName n).
Proof.
  intros S. unfold ndget, sget.
  induction st as [|[k v] st IH]; [reflexivity|].
  cbn [abs_named dget]. destruct k as [i|m].
  - rewrite (skey_eqb_neq (KName n) (KPos i)) by discriminate. exact IH.
  - destruct (N.eq_dec n m) as [E|E].
    + subst m. rewrite S. cbn [dget]. rewrite N.eqb_refl, skey_eqb_refl. reflexivity.
    + rewrite (skey_eqb_neq (KName n) (KName m)) by congruence.
      destruct (slot_of sg m); [exact IH|].
      cbn [dget]. apply N.eqb_neq in E. rewrite E. exact IH.
Qed.

Lemma abs_named_sset_pos sg st i v : abs_named sg (sset st (KPos i) v) = abs_named sg st.
Proof.
  unfold sset. induction st as [|[k w] st IH]; [reflexivity|].
  cbn [dset]. destruct (skey_eqb (KPos i) k) eqn:E.
  - apply skey_eqb_eq in E. subst k. reflexivity.
  - cbn [abs_named]. rewrite IH. reflexivity.
Qed.

Lemma abs_named_sdel_pos sg st i : abs_named sg (sdel st (KPos i)) = abs_named sg st.
Proof.
  unfold sdel. induction st as [|[k w] st IH]; [reflexivity|].
  cbn [ddel]. destruct (skey_eqb (KPos i) k) eqn:E.
  - apply skey_eqb_eq in E. subst k. reflexivity.
  - cbn [abs_named]. rewrite IH. reflexivity.
Qed.

Lemma abs_named_sset_slot sg st n v j :
  slot_of sg n = Some j -> abs_named sg (sset st (KName n) v) = abs_named sg st.
Proof.
  intros S. unfold sset. induction st as [|[k w] st IH].
  - cbn [dset abs_named]. rewrite S. reflexivity.
  - cbn [dset]. destruct (skey_eqb (KName n) k) eqn:E.
    + apply skey_eqb_eq in E. subst k. cbn [abs_named]. rewrite S. reflexivity.
    + cbn [abs_named]. rewrite IH. reflexivity.
Qed.

Lemma abs_named_sdel_slot sg st n j :
  slot_of sg n = Some j -> abs_named sg (sdel st (KName n)) = abs_named sg st.
Proof.
  intros S. unfold sdel. induction st as [|[k w] st IH]; [reflexivity|].
  cbn [ddel]. destruct (skey_eqb (KName n) k) eqn:E.
  - apply skey_eqb_eq in E. subst k. cbn [abs_named]. rewrite S. reflexivity.
  - cbn [abs_named]. rewrite IH. reflexivity.
Qed.

Lemma abs_named_sset_named sg st n v :
  slot_of sg n = None -> abs_named sg (sset st (KName n) v) = ndset (abs_named sg st) n v.
Proof.
  intros S. unfold sset, ndset. induction st as [|[k w] st IH].
  - cbn [dset abs_named]. rewrite S. reflexivity.
  - cbn [dset]. destruct (skey_eqb (KName n) k) eqn:E.
    + apply skey_eqb_eq in E. subst k. cbn [abs_named]. rewrite S. cbn [dset].
      rewrite N.eqb_refl. reflexivity.
    + cbn [abs_named]. destruct k as [i|m]; [exact IH|].
      destruct (slot_of sg m); [exact IH|].
      cbn [dset]. assert (n <> m) by (intros X; subst; rewrite skey_eqb_refl in E; discriminate).
      apply N.eqb_neq in H. rewrite H. rewrite IH. reflexivity.
Qed.

Lemma abs_named_sdel_named sg st n :
  slot_of sg n = None -> abs_named sg (sdel st (KName n)) = nddel (abs_named sg st) n.
Proof.
  intros S. unfold sdel, nddel. induction st as [|[k w] st IH]; [reflexivity|].
  cbn [ddel]. destruct (skey_eqb (KName n) k) eqn:E.
  - apply skey_eqb_eq in E. subst k. cbn [abs_named]. rewrite S. cbn [ddel].
    rewrite N.eqb_refl. reflexivity.
  - cbn [abs_named]. destruct k as [i|m]; [exact IH|].
    destruct (slot_of sg m); [exact IH|].
    cbn [ddel]. assert (n <> m) by (intros X; subst; rewrite skey_eqb_refl in E; discriminate).
    apply N.eqb_neq in H. rewrite H. rewrite IH. reflexivity.
Qed.

(* ================================================================== abs, componentwise *)

Definition abs_va (sg : sig) (st : store) : list ref :=
  match vps sg with Some s => abs_varargs (length st) st s | None => [] end.

Lemma abs_unfold sg st :
  abs sg st = mkspec (abs_prefix (prefix_params sg) 0 st) (abs_va sg st) (abs_named sg st).
Proof. reflexivity. Qed.

Lemma abs_va_ext sg st st' :
  (forall j, sget st' (kpos j) = sget st (kpos j)) -> abs_va sg st' = abs_va sg st.
Proof.
  intros E. unfold abs_va. destruct (vps sg) as [s|]; [|reflexivity].
  apply abs_varargs_ext. intros j _. apply E.
Qed.

Lemma prefix_params_kind sg p : In p (prefix_params sg) -> is_prefix_kind (pk p) = true.
Proof. unfold prefix_params. intros H. apply filter_In in H. apply H. Qed.

Lemma slot_from_none_keys ps n : forall i,
  names_distinct ps = true ->
  (forall p, In p ps -> is_prefix_kind (pk p) = true) ->
  slot_from ps n i = None -> ~ In (KName n) (prefix_keys ps i).
Proof.
  induction ps as [|p ps IH]; intros i ND PK S HI; [destruct HI|].
  cbn [names_distinct] in ND. apply andb_prop in ND. destruct ND as [ND1 ND2].
  apply negb_true_iff in ND1. pose proof (existsb_name_false _ _ ND1) as X.
  cbn [slot_from] in S. cbn [prefix_keys] in HI.
  assert (PKp : is_prefix_kind (pk p) = true) by (apply PK; left; reflexivity).
  assert (PK' : forall q, In q ps -> is_prefix_kind (pk q) = true) by (intros q Hq; apply PK; right; exact Hq).
  destruct (N.eqb (pname p) n) eqn:E.
  - apply N.eqb_eq in E. destruct HI as [HI|HI].
    + unfold prefix_key in HI. destruct (pk p); try discriminate.
    + apply prefix_keys_nth in HI. destruct HI as [d [q [A B]]].
      unfold prefix_key in B. destruct (pk q); try discriminate B; inversion B;
        eapply X; eauto; congruence.
  - apply N.eqb_neq in E. destruct HI as [HI|HI].
    + unfold prefix_key in HI. destruct (pk p); inversion HI; congruence.
    + eapply IH; eauto.
Qed.

Lemma find_param_none_slot ps n : forall f i,
  find_param ps n = None -> slot_from (filter f ps) n i = None.
Proof.
  induction ps as [|p ps IH]; intros f i H; [reflexivity|].
  cbn [find_param] in H. cbn [filter].
  destruct (N.eqb (pname p) n) eqn:E; [discriminate|].
  destruct (f p); [cbn [slot_from]; rewrite E|]; apply IH, H.
Qed.

Lemma find_param_posorkw_slot ps n p : forall i,
  find_param ps n = Some p -> pk p = PosOrKw ->
  exists j, slot_from (filter (fun p => is_prefix_kind (pk p)) ps) n i = Some j.
Proof.
  induction ps as [|q ps IH]; intros i H K; [discriminate|].
  cbn [find_param] in H. cbn [filter].
  destruct (N.eqb (pname q) n) eqn:E.
  - inversion H. subst q. rewrite K. cbn [is_prefix_kind slot_from]. rewrite E, K. eauto.
  - destruct (is_prefix_kind (pk q)); [cbn [slot_from]; rewrite E|]; apply IH; assumption.
Qed.

(* the current value of an attribute, as the specification reads it *)
Lemma spec_cur sg st n :
  match slot_of sg n with
  | Some j => match nth_error (abs_prefix (prefix_params sg) 0 st) j with Some o => o | None => None end
  | None => ndget (abs_named sg st) n
  end = sget st (KName n).
Proof.
  destruct (slot_of sg n) as [j|] eqn:S.
  - unfold slot_of in S. pose proof (abs_prefix_slot _ _ st _ _ S) as H.
    rewrite Nat.sub_0_r in H. rewrite H. reflexivity.
  - apply abs_named_get, S.
Qed.

(* ================================================================== invariant transfer *)

Lemma inv_transfer sg st st' :
  inv sg st ->
  keys_distinct st' = true ->
  (forall k v, sget st' k = Some v ->
               sget st k = Some v \/ (key_ok sg st' k = true /\ v <> NoValue)) ->
  (forall j, (n0 sg <= j)%nat -> smem st (kpos j) = true -> smem st' (kpos j) = true) ->
  inv sg st'.
Proof.
  intros I D H M. apply inv_elim in I. destruct I as [_ I].
  apply inv_intro; [exact D|]. intros k v G. destruct (H k v G) as [G'|G']; [|exact G'].
  destruct (I k v G') as [A B]. split; [|exact B]. eapply key_ok_mono; eauto.
Qed.

Lemma inv_sset sg st k v :
  inv sg st -> key_ok sg st k = true -> v <> NoValue -> inv sg (sset st k v).
Proof.
  intros I K V. pose proof (inv_elim _ _ I) as [D _].
  assert (M : forall j, (n0 sg <= j)%nat -> smem st (kpos j) = true -> smem (sset st k v) (kpos j) = true).
  { intros j _ H. rewrite smem_sset, H. apply orb_true_r. }
  apply (inv_transfer sg st); [exact I | apply keys_distinct_sset, D | | exact M].
  intros k' v' G. rewrite sget_sset in G. destruct (skey_eqb k' k) eqn:E.
  - apply skey_eqb_eq in E. subst k'. inversion G. subst v'. right. split; [|exact V].
    eapply key_ok_mono; eauto.
  - left. exact G.
Qed.

(* deleting a key outside the *args region *)
Lemma inv_sdel_low sg st k :
  inv sg st -> (forall j, (n0 sg <= j)%nat -> k <> kpos j) -> inv sg (sdel st k).
Proof.
  intros I K. pose proof (inv_elim _ _ I) as [D _].
  apply (inv_transfer sg st); [exact I | apply keys_distinct_sdel, D | | ].
  - intros k' v' G. rewrite (sget_sdel _ _ _ D) in G. destruct (skey_eqb k' k); [discriminate|].
    left. exact G.
  - intros j Hj H. rewrite (smem_sdel _ _ _ D), H, andb_true_r.
    apply negb_true_iff. apply skey_eqb_neq. intros E. apply (K j Hj). congruence.
Qed.

(* ================================================================== attribute access *)

Lemma validate_key_ok sg st n : validate_param_name sg n = None -> key_ok sg st (KName n) = true.
Proof.
  unfold validate_param_name. cbn [key_ok].
  destruct (find_param sg n) as [p|].
  - destruct (pk p); try discriminate; try reflexivity.
    destruct (has_var_kw sg); [reflexivity|discriminate].
  - destruct (has_var_kw sg); [reflexivity|discriminate].
Qed.

Lemma refines_getattr sg st n :
  valid_sig sg = true -> inv sg st -> refines_step sg st (OGetAttr n).
Proof.
  intros V I. unfold refines_step, step, step_w. cbn [spec_step fst].
  split; [|split; [reflexivity|exact I]].
  unfold getattr. rewrite abs_unfold. cbn [sp_prefix sp_named]. rewrite spec_cur.
  destruct (sget st (KName n)); [reflexivity|].
  destruct (find_param sg n) as [p|] eqn:F; [|reflexivity].
  destruct (pk p) eqn:K; try reflexivity;
    destruct (pfactory p); try reflexivity; destruct (pdefault p); reflexivity.
Qed.

Lemma abs_sset_name sg st n v :
  valid_sig sg = true -> keys_distinct st = true ->
  abs sg (sset st (KName n) v) =
  match slot_of sg n with
  | Some j => set_slot (abs sg st) j (Some v)
  | None => mkspec (sp_prefix (abs sg st)) (sp_varargs (abs sg st)) (ndset (sp_named (abs sg st)) n v)
  end.
Proof.
  intros V D. rewrite !abs_unfold.
  assert (VA : abs_va sg (sset st (KName n) v) = abs_va sg st).
  { apply abs_va_ext. intros j. apply sget_sset_neq. discriminate. }
  destruct (slot_of sg n) as [j|] eqn:S; unfold set_slot; cbn [sp_prefix sp_varargs sp_named];
    rewrite VA.
  - rewrite (abs_named_sset_slot _ _ _ _ _ S). f_equal.
    unfold slot_of in S. destruct (slot_from_nth _ _ _ _ S) as [p [A [B C]]].
    rewrite Nat.sub_0_r in A.
    assert (PK : prefix_key p (0 + j) = KName n) by (unfold prefix_key; rewrite C, B; reflexivity).
    eapply abs_prefix_update.
    + apply pkeys_distinct_names, valid_sig_prefix_names, V.
    + exact A.
    + rewrite PK. apply sget_sset_eq.
    + rewrite PK. intros k Hk. apply sget_sset_neq, Hk.
  - rewrite (abs_named_sset_named _ _ _ _ S). f_equal.
    apply abs_prefix_frame. intros k Hk. apply sget_sset_neq. intros E. subst k.
    revert Hk. apply slot_from_none_keys.
    + apply valid_sig_prefix_names, V.
    + apply prefix_params_kind.
    + exact S.
Qed.

Lemma abs_sdel_name sg st n :
  valid_sig sg = true -> keys_distinct st = true ->
  abs sg (sdel st (KName n)) =
  match slot_of sg n with
  | Some j => set_slot (abs sg st) j None
  | None => mkspec (sp_prefix (abs sg st)) (sp_varargs (abs sg st)) (nddel (sp_named (abs sg st)) n)
  end.
Proof.
  intros V D. rewrite !abs_unfold.
  assert (VA : abs_va sg (sdel st (KName n)) = abs_va sg st).
  { apply abs_va_ext. intros j. apply sget_sdel_neq. discriminate. }
  destruct (slot_of sg n) as [j|] eqn:S; unfold set_slot; cbn [sp_prefix sp_varargs sp_named];
    rewrite VA.
  - rewrite (abs_named_sdel_slot _ _ _ _ S). f_equal.
    unfold slot_of in S. destruct (slot_from_nth _ _ _ _ S) as [p [A [B C]]].
    rewrite Nat.sub_0_r in A.
    assert (PK : prefix_key p (0 + j) = KName n) by (unfold prefix_key; rewrite C, B; reflexivity).
    eapply abs_prefix_update.
    + apply pkeys_distinct_names, valid_sig_prefix_names, V.
    + exact A.
    + rewrite PK. apply sget_sdel_eq, D.
    + rewrite PK. intros k Hk. apply sget_sdel_neq, Hk.
  - rewrite (abs_named_sdel_named _ _ _ S). f_equal.
    apply abs_prefix_frame. intros k Hk. apply sget_sdel_neq. intros E. subst k.
    revert Hk. apply slot_from_none_keys.
    + apply valid_sig_prefix_names, V.
    + apply prefix_params_kind.
    + exact S.
Qed.

Lemma refines_setattr sg st n v :
  valid_sig sg = true -> inv sg st -> op_ok (OSetAttr n v) = true ->
  refines_step sg st (OSetAttr n v).
Proof.
  intros V I OK. unfold refines_step, step, step_w, setattr. cbn [spec_step].
  pose proof (inv_elim _ _ I) as [D _].
  destruct (validate_param_name sg n) as [e|] eqn:VP.
  - cbn [fst out_of]. auto.
  - cbn [fst arg_set out_of].
    pose proof (abs_sset_name sg st n v V D) as A.
    assert (I' : inv sg (sset st (KName n) v)).
    { apply inv_sset; [exact I | apply validate_key_ok, VP |].
      cbn [op_ok] in OK. apply negb_true_iff in OK. intros E. apply ref_eqb_eq in E. congruence. }
    destruct (slot_of sg n) as [j|]; auto.
Qed.

Lemma refines_delattr sg st n :
  valid_sig sg = true -> inv sg st -> refines_step sg st (ODelAttr n).
Proof.
  intros V I. unfold refines_step, step, step_w, delattr, arg_del. cbn [spec_step].
  pose proof (inv_elim _ _ I) as [D _]. cbn [fst snd].
  pose proof (spec_cur sg st n) as C.
  pose proof (abs_sdel_name sg st n V D) as A.
  assert (I' : inv sg (sdel st (KName n))) by (apply inv_sdel_low; [exact I | discriminate]).
  rewrite smem_sget. rewrite abs_unfold in *. cbn [sp_prefix sp_named sp_varargs] in *.
  destruct (slot_of sg n) as [j|].
  - destruct (nth_error (abs_prefix (prefix_params sg) 0 st) j) as [[w|]|];
      rewrite <- C; cbn [fst out_of]; auto.
  - rewrite C. destruct (sget st (KName n)); cbn [fst out_of]; auto.
Qed.

(* ================================================================== shape of a valid signature *)

Lemma kinds_sorted_head sg : forall p,
  kinds_sorted (p :: sg) = true ->
  kinds_sorted sg = true
  /\ forall q, In q sg ->
       (kind_rank (pk p) <= kind_rank (pk q))%nat
       /\ ((kind_rank (pk p) = 2 \/ kind_rank (pk p) = 4)%nat -> (kind_rank (pk p) < kind_rank (pk q))%nat).
Proof.
  induction sg as [|r sg IH]; intros p H.
  - split; [reflexivity|]. intros q [].
  - cbn [kinds_sorted] in H. fold (kinds_sorted (r :: sg)) in H.
    apply andb_prop in H. destruct H as [H1 H2].
    split; [exact H2|].
    destruct (IH r H2) as [_ IHq].
    assert (R : (kind_rank (pk p) <= kind_rank (pk r))%nat
                /\ ((kind_rank (pk p) = 2 \/ kind_rank (pk p) = 4)%nat -> (kind_rank (pk p) < kind_rank (pk r))%nat)).
    { apply orb_prop in H1. destruct H1 as [H1|H1].
      - apply Nat.ltb_lt in H1. lia.
      - apply andb_prop in H1. destruct H1 as [H1 H4]. apply andb_prop in H1. destruct H1 as [H1 H3].
        apply Nat.eqb_eq in H1. apply negb_true_iff in H3, H4.
        apply Nat.eqb_neq in H3, H4. lia. }
    intros q [E|HI].
    + subst q. exact R.
    + destruct (IHq q HI) as [A B]. lia.
Qed.

Lemma prefix_rank k : is_prefix_kind k = true <-> (kind_rank k < 2)%nat.
Proof. destruct k; cbn; split; intros; try lia; try discriminate; reflexivity. Qed.

Lemma filter_all_false {A} (f : A -> bool) l : (forall x, In x l -> f x = false) -> filter f l = [].
Proof.
  induction l as [|x l IH]; intros H; [reflexivity|].
  cbn [filter]. rewrite (H x (or_introl eq_refl)). apply IH. intros y Hy. apply H. right. exact Hy.
Qed.

Definition nonprefix (T : list param) : Prop := forall p, In p T -> is_prefix_kind (pk p) = false.

Lemma not_prefix_rank k : is_prefix_kind k = false <-> (2 <= kind_rank k)%nat.
Proof. destruct k; cbn; split; intros; try lia; try discriminate; reflexivity. Qed.

Lemma sig_split sg :
  kinds_sorted sg = true -> exists T, sg = prefix_params sg ++ T /\ nonprefix T /\ kinds_sorted T = true.
Proof.
  induction sg as [|p sg IH]; intros H.
  - exists []. split; [reflexivity|]. split; [intros q []|reflexivity].
  - destruct (kinds_sorted_head _ _ H) as [H2 Hq].
    unfold prefix_params. cbn [filter]. destruct (is_prefix_kind (pk p)) eqn:K.
    + destruct (IH H2) as [T [A [B C]]]. exists T. split; [|split; assumption].
      cbn [app]. f_equal. exact A.
    + exists (p :: sg). apply not_prefix_rank in K.
      assert (NP : nonprefix (p :: sg)).
      { intros q [E|HI]; apply not_prefix_rank; [subst; exact K|].
        destruct (Hq q HI) as [A _]. lia. }
      rewrite filter_all_false.
      * split; [reflexivity|]. split; assumption.
      * intros q HI. apply NP. right. exact HI.
Qed.

Lemma vps_from_prefix P : forall T i,
  (forall p, In p P -> is_prefix_kind (pk p) = true) ->
  vps_from (P ++ T) i = vps_from T (i + length P).
Proof.
  induction P as [|p P IH]; intros T i H.
  - cbn [app length]. rewrite Nat.add_0_r. reflexivity.
  - cbn [app vps_from length].
    assert (K : is_prefix_kind (pk p) = true) by (apply H; left; reflexivity).
    destruct (pk p); try discriminate K;
      (rewrite IH by (intros q Hq; apply H; right; exact Hq); f_equal; lia).
Qed.

Lemma vps_from_none T : forall i, (forall p, In p T -> pk p <> VarPos) -> vps_from T i = None.
Proof.
  induction T as [|p T IH]; intros i H; [reflexivity|].
  cbn [vps_from]. pose proof (H p (or_introl eq_refl)) as K.
  destruct (pk p); try contradiction; apply IH; intros q Hq; apply H; right; exact Hq.
Qed.

Lemma vps_from_tail T i :
  nonprefix T -> kinds_sorted T = true ->
  vps_from T i = match T with
                 | p :: _ => match pk p with VarPos => Some i | _ => None end
                 | [] => None
                 end.
Proof.
  intros NP KS. destruct T as [|p T]; [reflexivity|].
  cbn [vps_from]. destruct (kinds_sorted_head _ _ KS) as [_ Hq].
  pose proof (NP p (or_introl eq_refl)) as K.
  destruct (pk p) eqn:E; try discriminate K; try reflexivity;
    apply vps_from_none; intros q HI X; destruct (Hq q HI) as [A _]; rewrite X in A; cbn in A; lia.
Qed.

(* the facts about the shape of a valid signature used below *)
Record sig_shape (sg : sig) (T : list param) : Prop := {
  sh_split : sg = prefix_params sg ++ T;
  sh_nonprefix : nonprefix T;
  sh_vps : vps sg = match T with
                    | p :: _ => match pk p with VarPos => Some (n0 sg) | _ => None end
                    | [] => None
                    end;
  sh_vp_nodefault : forall p T', T = p :: T' -> pk p = VarPos -> pdefault p = None
}.

Lemma valid_sig_shape sg : valid_sig sg = true -> exists T, sig_shape sg T.
Proof.
  intros V. unfold valid_sig in V.
  apply andb_prop in V. destruct V as [V V4]. apply andb_prop in V. destruct V as [V V3].
  apply andb_prop in V. destruct V as [V1 V2].
  destruct (sig_split sg V1) as [T [A [B C]]]. exists T. constructor.
  - exact A.
  - exact B.
  - unfold vps. rewrite A at 1. rewrite vps_from_prefix by apply prefix_params_kind.
    rewrite (vps_from_tail _ _ B C). reflexivity.
  - intros p T' E K. unfold variadic_no_default in V4. rewrite forallb_forall in V4.
    assert (HI : In p sg) by (rewrite A; apply in_or_app; right; subst T; left; reflexivity).
    specialize (V4 p HI). rewrite K in V4. destruct (pdefault p); [discriminate|reflexivity].
Qed.

Lemma shape_vps_n0 sg T s : sig_shape sg T -> vps sg = Some s -> s = n0 sg.
Proof.
  intros SH H. rewrite (sh_vps _ _ SH) in H. destruct T as [|p T]; [discriminate|].
  destruct (pk p); inversion H; reflexivity.
Qed.

Lemma vps_n0 sg s : valid_sig sg = true -> vps sg = Some s -> s = n0 sg.
Proof. intros V H. destruct (valid_sig_shape sg V) as [T SH]. eapply shape_vps_n0; eauto. Qed.

Lemma shape_nth_prefix sg T d :
  sig_shape sg T -> (d < n0 sg)%nat -> nth_error sg d = nth_error (prefix_params sg) d.
Proof.
  intros SH H. rewrite (sh_split _ _ SH) at 1. apply nth_error_app1. exact H.
Qed.

Lemma shape_nth_tail sg T d :
  sig_shape sg T -> (n0 sg <= d)%nat -> nth_error sg d = nth_error T (d - n0 sg).
Proof.
  intros SH H. rewrite (sh_split _ _ SH) at 1. apply nth_error_app2. exact H.
Qed.

Lemma has_varpos_vps sg : has_varpos sg = true <-> exists s, vps sg = Some s.
Proof.
  unfold has_varpos. destruct (vps sg) as [s|]; split; try discriminate; eauto.
  intros [s H]. discriminate.
Qed.

(* ================================================================== transform_to_args_kwargs *)

Fixpoint fill_slots (sg : sig) (slots : list (option ref)) (i : nat) : list ref :=
  match slots with
  | [] => []
  | o :: r => (match o with Some v => v | None => get_default_idx sg i end) :: fill_slots sg r (S i)
  end.

Lemma fill_slots_length sg slots : forall i, length (fill_slots sg slots i) = length slots.
Proof. induction slots as [|o r IH]; intros i; cbn [fill_slots length]; [|rewrite IH]; reflexivity. Qed.

Lemma transform_params_nonprefix sg ipk inv vin T : forall i args acc,
  nonprefix T -> transform_params sg ipk inv vin T i args acc = (acc, args).
Proof.
  induction T as [|p T IH]; intros i args acc NP; [reflexivity|].
  cbn [transform_params]. pose proof (NP p (or_introl eq_refl)) as K.
  destruct (pk p); try discriminate K; apply IH; intros q Hq; apply NP; right; exact Hq.
Qed.

Lemma pkeys_distinct_tail p ps i : pkeys_distinct (p :: ps) i -> pkeys_distinct ps (S i).
Proof.
  intros H d d' q q' A B E.
  assert (S d = S d') as X; [|lia].
  apply (H (S d) (S d') q q'); cbn [nth_error]; try assumption.
  replace (i + S d)%nat with (S i + d)%nat by lia.
  replace (i + S d')%nat with (S i + d')%nat by lia. exact E.
Qed.

Lemma pkeys_distinct_head p ps i : pkeys_distinct (p :: ps) i -> ~ In (prefix_key p i) (prefix_keys ps (S i)).
Proof.
  intros H HI. apply prefix_keys_nth in HI. destruct HI as [d [q [A B]]].
  assert (0 = S d)%nat as X; [|lia].
  apply (H 0%nat (S d) p q); cbn [nth_error]; try reflexivity; try assumption.
  rewrite Nat.add_0_r. replace (i + S d)%nat with (S i + d)%nat by lia. exact B.
Qed.

Lemma transform_params_prefix sg vin ps : forall i args acc,
  (forall p, In p ps -> is_prefix_kind (pk p) = true) ->
  pkeys_distinct ps i ->
  exists rest,
    transform_params sg true true vin ps i args acc
    = (acc ++ fill_slots sg (abs_prefix ps i args) i, rest)
    /\ (forall k, ~ In k (prefix_keys ps i) -> sget rest k = sget args k).
Proof.
  induction ps as [|p ps IH]; intros i args acc PK PD.
  - exists args. cbn [transform_params abs_prefix fill_slots]. rewrite app_nil_r. auto.
  - assert (K : is_prefix_kind (pk p) = true) by (apply PK; left; reflexivity).
    assert (PK' : forall q, In q ps -> is_prefix_kind (pk q) = true) by (intros q Hq; apply PK; right; exact Hq).
    pose proof (pkeys_distinct_tail _ _ _ PD) as PD'.
    pose proof (pkeys_distinct_head _ _ _ PD) as NH.
    rewrite abs_prefix_cons. cbn [fill_slots prefix_keys].
    assert (STEP : transform_params sg true true vin (p :: ps) i args acc =
                   match sget args (prefix_key p i) with
                   | Some v => transform_params sg true true vin ps (S i) (sdel args (prefix_key p i)) (acc ++ [v])
                   | None => transform_params sg true true vin ps (S i) args (acc ++ [get_default_idx sg i])
                   end).
    { cbn [transform_params orb]. unfold prefix_key. destruct (pk p); try discriminate K; reflexivity. }
    rewrite STEP. clear STEP.
    destruct (sget args (prefix_key p i)) as [v|] eqn:G.
    + destruct (IH (S i) (sdel args (prefix_key p i)) (acc ++ [v]) PK' PD') as [rest [A B]].
      exists rest. split.
      * rewrite A. rewrite <- app_assoc. cbn [app]. f_equal. f_equal. f_equal. f_equal.
        apply abs_prefix_frame. intros k Hk. apply sget_sdel_neq. intros E. subst k. contradiction.
      * intros k Hk. rewrite B by (intros X; apply Hk; right; exact X).
        apply sget_sdel_neq. intros E. apply Hk. left. symmetry. exact E.
    + destruct (IH (S i) args (acc ++ [get_default_idx sg i]) PK' PD') as [rest [A B]].
      exists rest. split.
      * rewrite A. rewrite <- app_assoc. reflexivity.
      * intros k Hk. apply B. intros X. apply Hk. right. exact X.
Qed.

Lemma transform_params_app sg ipk inv vin ps1 : forall ps2 i args acc,
  transform_params sg ipk inv vin (ps1 ++ ps2) i args acc =
  let '(acc', args') := transform_params sg ipk inv vin ps1 i args acc in
  transform_params sg ipk inv vin ps2 (i + length ps1) args' acc'.
Proof.
  induction ps1 as [|p ps1 IH]; intros ps2 i args acc.
  - cbn [app transform_params length]. rewrite Nat.add_0_r. reflexivity.
  - cbn [app transform_params length].
    replace (i + S (length ps1))%nat with (S i + length ps1)%nat by lia.
    destruct (pk p); try apply IH.
    + destruct (sget args (kpos i)); apply IH.
    + destruct (ipk || vin); [destruct (sget args (KName (pname p)))|]; apply IH.
Qed.

Lemma abs_varargs_fuel_ext f : forall st st' i,
  (forall j, (i <= j)%nat -> sget st' (kpos j) = sget st (kpos j)) ->
  abs_varargs f st' i = abs_varargs f st i.
Proof.
  induction f as [|f IH]; intros st st' i E; [reflexivity|].
  cbn [abs_varargs]. rewrite E by lia. destruct (sget st (kpos i)); [|reflexivity].
  f_equal. apply IH. intros j Hj. apply E. lia.
Qed.

Lemma take_varargs_fst f : forall args i acc,
  fst (take_varargs f args i acc) = acc ++ abs_varargs f args i.
Proof.
  induction f as [|f IH]; intros args i acc; cbn [take_varargs abs_varargs].
  - cbn [fst]. rewrite app_nil_r. reflexivity.
  - destruct (sget args (kpos i)) as [v|] eqn:G.
    + rewrite IH. rewrite <- app_assoc. cbn [app]. f_equal. f_equal.
      apply abs_varargs_fuel_ext. intros j Hj. apply sget_sdel_neq. apply kpos_neq. lia.
    + cbn [fst]. rewrite app_nil_r. reflexivity.
Qed.

Lemma prefix_keys_not_high ps i j :
  (i + length ps <= j)%nat -> ~ In (kpos j) (prefix_keys ps i).
Proof.
  intros H HI. apply prefix_keys_nth in HI. destruct HI as [d [p [A B]]].
  assert (d < length ps)%nat by (apply nth_error_Some; congruence).
  unfold prefix_key in B. destruct (pk p); try discriminate B; apply kpos_inj in B; lia.
Qed.

Lemma all_positional_eq sg st :
  valid_sig sg = true ->
  all_positional sg st = fill_slots sg (abs_prefix (prefix_params sg) 0 st) 0 ++ abs_va sg st.
Proof.
  intros V. destruct (valid_sig_shape sg V) as [T SH].
  unfold all_positional, transform.
  set (vin := match vps sg with Some s => smem st (kpos s) | None => false end).
  rewrite (sh_split _ _ SH) at 2. rewrite transform_params_app.
  destruct (transform_params_prefix sg vin (prefix_params sg) 0 st [] (prefix_params_kind sg)
              (pkeys_distinct_names _ _ (valid_sig_prefix_names sg V))) as [rest [A B]].
  rewrite A. rewrite transform_params_nonprefix by apply (sh_nonprefix _ _ SH).
  cbn [app]. unfold abs_va. destruct (vps sg) as [s|] eqn:VP.
  - rewrite take_varargs_fst. f_equal.
    pose proof (shape_vps_n0 _ _ _ SH VP) as Es. subst s.
    apply abs_varargs_ext. intros j Hj. apply B. apply prefix_keys_not_high.
    unfold n0, n_prefix in Hj. lia.
  - cbn [fst]. rewrite app_nil_r. reflexivity.
Qed.

Lemma all_positional_length sg st :
  valid_sig sg = true -> zlen (all_positional sg st) = spec_len sg (abs sg st).
Proof.
  intros V. rewrite (all_positional_eq _ _ V). unfold spec_len. unfold zlen.
  rewrite app_length, fill_slots_length, abs_prefix_length. rewrite abs_unfold. cbn [sp_varargs].
  unfold n0, n_prefix. lia.
Qed.

(* ------------------------------------------------------------------ fill_defaults *)

Lemma fill_defaults_app sg l1 : forall l2 i,
  fill_defaults sg (l1 ++ l2) i = fill_defaults sg l1 i ++ fill_defaults sg l2 (i + length l1).
Proof.
  induction l1 as [|v l1 IH]; intros l2 i.
  - cbn [app fill_defaults length]. rewrite Nat.add_0_r. reflexivity.
  - cbn [app fill_defaults length]. rewrite IH.
    replace (i + S (length l1))%nat with (S i + length l1)%nat by lia. reflexivity.
Qed.

Lemma fill_defaults_id sg l : forall i, (forall v, In v l -> v <> NoValue) -> fill_defaults sg l i = l.
Proof.
  induction l as [|v l IH]; intros i H; [reflexivity|].
  cbn [fill_defaults]. rewrite IH by (intros w Hw; apply H; right; exact Hw).
  destruct (ref_eqb v NoValue) eqn:E; [|reflexivity].
  apply ref_eqb_eq in E. exfalso. apply (H v); [left; reflexivity|exact E].
Qed.

Lemma fill_defaults_slots sg ps : forall slots i,
  (forall d p, nth_error ps d = Some p -> nth_error sg (i + d) = Some p) ->
  length slots = length ps ->
  (forall v, In (Some v) slots -> v <> NoValue) ->
  fill_defaults sg (fill_slots sg slots i) i = view_prefix ps slots.
Proof.
  induction ps as [|p ps IH]; intros slots i N L NV.
  - destruct slots; [reflexivity|discriminate].
  - destruct slots as [|o slots]; [discriminate|].
    cbn [fill_slots fill_defaults view_prefix].
    rewrite IH.
    + f_equal. pose proof (N 0%nat p eq_refl) as Np. rewrite Nat.add_0_r in Np. rewrite Np.
      destruct o as [v|].
      * destruct (ref_eqb v NoValue) eqn:E; [|reflexivity].
        apply ref_eqb_eq in E. exfalso. apply (NV v); [left; reflexivity|exact E].
      * unfold get_default_idx. rewrite Np.
        destruct (pdefault p) as [d|].
        -- destruct (is_prefix_kind (pk p)).
           ++ destruct (ref_eqb d NoValue) eqn:E; reflexivity.
           ++ reflexivity.
        -- destruct (is_prefix_kind (pk p)); reflexivity.
    + intros d q Hq. replace (S i + d)%nat with (i + S d)%nat by lia. apply N. exact Hq.
    + cbn [length] in L. lia.
    + intros v Hv. apply NV. right. exact Hv.
Qed.

Lemma abs_prefix_values sg ps st : forall i v,
  inv sg st -> In (Some v) (abs_prefix ps i st) -> v <> NoValue.
Proof.
  induction ps as [|p ps IH]; intros i v I H; [destruct H|].
  rewrite abs_prefix_cons in H. destruct H as [H|H].
  - apply inv_elim in I. destruct I as [_ I]. apply (I _ _ H).
  - eapply IH; eauto.
Qed.

Lemma abs_varargs_values sg st f : forall i v,
  inv sg st -> In v (abs_varargs f st i) -> v <> NoValue.
Proof.
  induction f as [|f IH]; intros i v I H; [destruct H|].
  cbn [abs_varargs] in H. destruct (sget st (kpos i)) as [w|] eqn:G; [|destruct H].
  destruct H as [H|H].
  - subst w. apply inv_elim in I. destruct I as [_ I]. apply (I _ _ G).
  - eapply IH; eauto.
Qed.

Lemma abs_va_values sg st v : inv sg st -> In v (abs_va sg st) -> v <> NoValue.
Proof.
  unfold abs_va. destruct (vps sg); [apply abs_varargs_values|intros _ []].
Qed.

Theorem positional_view_abs sg st :
  valid_sig sg = true -> inv sg st -> positional_view sg st = spec_view sg (abs sg st).
Proof.
  intros V I. destruct (valid_sig_shape sg V) as [T SH].
  unfold positional_view, spec_view. rewrite (all_positional_eq _ _ V).
  rewrite abs_unfold. cbn [sp_prefix sp_varargs].
  rewrite fill_defaults_app. f_equal.
  - apply fill_defaults_slots.
    + intros d p H. cbn [Nat.add]. rewrite (shape_nth_prefix _ _ _ SH); [exact H|].
      unfold n0, n_prefix. apply nth_error_Some. congruence.
    + apply abs_prefix_length.
    + intros v. apply (abs_prefix_values sg). exact I.
  - apply fill_defaults_id. intros v. apply abs_va_values. exact I.
Qed.

Lemma refines_getitem sg st i :
  valid_sig sg = true -> inv sg st -> refines_step sg st (OGetItem i).
Proof.
  intros V I. unfold refines_step, step, step_w. cbn [spec_step fst].
  split; [|split; [reflexivity|exact I]].
  unfold getitem. rewrite (positional_view_abs _ _ V I).
  destruct (replace_int sg i); [|reflexivity].
  destruct (list_get (spec_view sg (abs sg st)) z); reflexivity.
Qed.

Lemma refines_getslice sg st sl :
  valid_sig sg = true -> inv sg st -> refines_step sg st (OGetSlice sl).
Proof.
  intros V I. unfold refines_step, step, step_w. cbn [spec_step fst].
  split; [|split; [reflexivity|exact I]].
  unfold getslice. rewrite (positional_view_abs _ _ V I).
  destruct (list_get_slice _ _ _ _); reflexivity.
Qed.

(* ================================================================== positions and keys *)

Definition pos_key (sg : sig) (j : nat) : skey :=
  match nth_error (prefix_params sg) j with Some p => prefix_key p j | None => kpos j end.

Lemma n0_le_length sg T : sig_shape sg T -> (n0 sg <= length sg)%nat.
Proof. intros SH. rewrite (sh_split _ _ SH) at 2. rewrite app_length. unfold n0, n_prefix. lia. Qed.

Lemma prefix_not_posorkw p : is_prefix_kind (pk p) = true -> pk p <> PosOrKw -> pk p = PosOnly.
Proof. destruct (pk p); intros H N; try discriminate H; try reflexivity. contradiction. Qed.

Lemma py_nth_param_nonneg sg z :
  0 <= z < Z.of_nat (length sg) -> py_nth_param sg z = nth_error sg (Z.to_nat z).
Proof.
  intros H. unfold py_nth_param. cbv zeta.
  replace (z <? 0) with false by (symmetry; apply Z.ltb_ge; lia).
  replace (z <? 0) with false by (symmetry; apply Z.ltb_ge; lia).
  replace (Z.of_nat (length sg) <=? z) with false by (symmetry; apply Z.leb_gt; lia).
  reflexivity.
Qed.

Lemma index_to_key_nonneg sg z :
  valid_sig sg = true -> 0 <= z ->
  (if z <? Z.of_nat (length sg)
   then match py_nth_param sg z with
        | Some p => match pk p with PosOrKw => inl (KName (pname p)) | _ => inl (KPos z) end
        | None => inr EIndex
        end
   else @inl skey exn (KPos z)) = inl (pos_key sg (Z.to_nat z)).
Proof.
  intros V Hz. destruct (valid_sig_shape sg V) as [T SH]. pose proof (n0_le_length _ _ SH) as LE.
  unfold pos_key.
  destruct (z <? Z.of_nat (length sg)) eqn:L.
  - apply Z.ltb_lt in L. rewrite py_nth_param_nonneg by lia.
    destruct (Nat.lt_ge_cases (Z.to_nat z) (n0 sg)) as [C|C].
    + rewrite (shape_nth_prefix _ _ _ SH C).
      destruct (nth_error (prefix_params sg) (Z.to_nat z)) as [p|] eqn:N.
      * apply nth_error_In in N. apply prefix_params_kind in N.
        unfold prefix_key. destruct (pk p) eqn:K; try discriminate N; try reflexivity.
        rewrite (kpos_KPos z Hz). reflexivity.
      * apply nth_error_None in N. unfold n0, n_prefix in C. lia.
    + rewrite (shape_nth_tail _ _ _ SH C).
      assert (N : nth_error (prefix_params sg) (Z.to_nat z) = None)
        by (apply nth_error_None; unfold n0, n_prefix in C; lia).
      rewrite N.
      destruct (nth_error T (Z.to_nat z - n0 sg)) as [q|] eqn:NT.
      * apply nth_error_In in NT. apply (sh_nonprefix _ _ SH) in NT.
        rewrite (kpos_KPos z Hz).
        destruct (pk q); try discriminate NT; reflexivity.
      * apply nth_error_None in NT. pose proof (sh_split _ _ SH) as E.
        apply (f_equal (@length param)) in E. rewrite app_length in E.
        unfold n0, n_prefix in *. lia.
  - apply Z.ltb_ge in L.
    assert (N : nth_error (prefix_params sg) (Z.to_nat z) = None)
      by (apply nth_error_None; unfold n0, n_prefix in LE; lia).
    rewrite N. rewrite (kpos_KPos z Hz). reflexivity.
Qed.

Definition adj_index (z n : Z) : option Z :=
  if z <? 0 then (if z + n <? 0 then None else Some (z + n)) else Some z.

Lemma adj_index_nonneg z n i : adj_index z n = Some i -> 0 <= i.
Proof.
  unfold adj_index. destruct (z <? 0) eqn:A.
  - destruct (z + n <? 0) eqn:B; [discriminate|]. intros H. inversion H. apply Z.ltb_ge in B. lia.
  - intros H. inversion H. apply Z.ltb_ge in A. lia.
Qed.

Lemma index_to_key_eq sg st z :
  valid_sig sg = true ->
  index_to_key sg z st =
  match adj_index z (zlen (all_positional sg st)) with
  | None => inr EIndex
  | Some i => inl (pos_key sg (Z.to_nat i))
  end.
Proof.
  intros V. unfold index_to_key.
  pose proof (adj_index_nonneg z (zlen (all_positional sg st))) as NN.
  unfold adj_index in *. destruct (z <? 0).
  - destruct (z + zlen (all_positional sg st) <? 0); [reflexivity|].
    apply index_to_key_nonneg; [exact V|]. apply NN. reflexivity.
  - apply index_to_key_nonneg; [exact V|]. apply NN. reflexivity.
Qed.

Lemma norm_adj z n :
  0 <= n ->
  norm_index z n = match adj_index z n with
                   | Some i => if n <=? i then None else Some i
                   | None => None
                   end.
Proof.
  intros Hn. unfold norm_index, adj_index. destruct (z <? 0) eqn:A.
  - destruct (z + n <? 0) eqn:B; cbn [orb]; reflexivity.
  - replace (z <? 0) with false. cbn [orb]. reflexivity.
Qed.

Lemma find_param_in sg p : names_distinct sg = true -> In p sg -> find_param sg (pname p) = Some p.
Proof.
  induction sg as [|q sg IH]; intros ND HI; [destruct HI|].
  cbn [names_distinct] in ND. apply andb_prop in ND. destruct ND as [ND1 ND2].
  cbn [find_param]. destruct HI as [E|HI].
  - subst q. rewrite N.eqb_refl. reflexivity.
  - destruct (N.eqb (pname q) (pname p)) eqn:E; [|apply IH; assumption].
    exfalso. apply negb_true_iff in ND1.
    assert (existsb (fun r => N.eqb (pname r) (pname q)) sg = true).
    { apply existsb_exists. exists p. split; [exact HI|]. rewrite N.eqb_sym. exact E. }
    congruence.
Qed.

Lemma slot_from_of_nth ps : forall i d p,
  names_distinct ps = true -> nth_error ps d = Some p -> pk p = PosOrKw ->
  slot_from ps (pname p) i = Some (i + d)%nat.
Proof.
  induction ps as [|q ps IH]; intros i d p ND N K; [destruct d; discriminate|].
  cbn [names_distinct] in ND. apply andb_prop in ND. destruct ND as [ND1 ND2].
  cbn [slot_from]. destruct d as [|d]; cbn [nth_error] in N.
  - inversion N. subst q. rewrite N.eqb_refl, K, Nat.add_0_r. reflexivity.
  - apply negb_true_iff in ND1. pose proof (existsb_name_false _ _ ND1 _ _ N) as X.
    apply N.eqb_neq in X. rewrite N.eqb_sym, X.
    rewrite (IH (S i) d p ND2 N K). f_equal. lia.
Qed.

Lemma key_ok_prefix_key sg st d p :
  valid_sig sg = true -> nth_error (prefix_params sg) d = Some p ->
  key_ok sg st (prefix_key p d) = true.
Proof.
  intros V N. pose proof (nth_error_In _ _ N) as HI.
  pose proof (prefix_params_kind _ _ HI) as K.
  assert (L : (d < n0 sg)%nat) by (unfold n0, n_prefix; apply nth_error_Some; congruence).
  unfold prefix_key. destruct (pk p) eqn:E; try discriminate K.
  - unfold kpos. cbn [key_ok].
    replace (0 <=? Z.of_nat d) with true by (symmetry; apply Z.leb_le; lia).
    replace (Z.of_nat d <? Z.of_nat (n0 sg)) with true by (symmetry; apply Z.ltb_lt; lia).
    rewrite Nat2Z.id, N, E. reflexivity.
  - cbn [key_ok]. unfold prefix_params in HI. apply filter_In in HI. destruct HI as [HI _].
    rewrite (find_param_in _ _ (valid_sig_names _ V) HI), E. reflexivity.
Qed.

Lemma key_ok_high sg st j :
  (n0 sg <= j)%nat ->
  key_ok sg st (kpos j) =
  has_varpos sg && forallb (fun j' => smem st (kpos j')) (nat_seq (n0 sg) (j - n0 sg)).
Proof.
  intros H. unfold kpos. cbn [key_ok].
  replace (0 <=? Z.of_nat j) with true by (symmetry; apply Z.leb_le; lia).
  replace (Z.of_nat j <? Z.of_nat (n0 sg)) with false by (symmetry; apply Z.ltb_ge; lia).
  rewrite Nat2Z.id. reflexivity.
Qed.

Lemma inv_high_elim sg st j :
  inv sg st -> (n0 sg <= j)%nat -> smem st (kpos j) = true ->
  has_varpos sg = true /\ forall j', (n0 sg <= j' <= j)%nat -> smem st (kpos j') = true.
Proof.
  intros I H M. apply inv_elim in I. destruct I as [_ I].
  pose proof M as M'. apply smem_true in M'. destruct M' as [v G].
  destruct (I _ _ G) as [K _]. rewrite (key_ok_high _ _ _ H) in K.
  apply andb_prop in K. destruct K as [K1 K2]. split; [exact K1|].
  intros j' Hj. destruct (Nat.eq_dec j' j) as [E|E]; [subst; exact M|].
  rewrite forallb_forall in K2. apply K2. apply In_nat_seq. lia.
Qed.

Lemma abs_va_run sg st : valid_sig sg = true -> inv sg st -> va_run st (n0 sg) (abs_va sg st).
Proof.
  intros V I. unfold abs_va. destruct (vps sg) as [s|] eqn:VP.
  - rewrite (vps_n0 _ _ V VP). apply abs_varargs_is_run.
  - split; [intros j Hj; cbn [length] in Hj; lia|].
    cbn [length]. rewrite Nat.add_0_r.
    destruct (sget st (kpos (n0 sg))) as [v|] eqn:G; [|reflexivity].
    exfalso. assert (M : smem st (kpos (n0 sg)) = true) by (apply smem_true; eauto).
    destruct (inv_high_elim _ _ _ I (Nat.le_refl _) M) as [HV _].
    unfold has_varpos in HV. rewrite VP in HV. discriminate.
Qed.

Lemma va_mem sg st j :
  valid_sig sg = true -> inv sg st -> (n0 sg <= j)%nat ->
  (smem st (kpos j) = true <-> (j < n0 sg + length (abs_va sg st))%nat).
Proof.
  intros V I H. pose proof (abs_va_run _ _ V I) as R. split.
  - intros M. destruct (Nat.lt_ge_cases j (n0 sg + length (abs_va sg st))) as [C|C]; [exact C|].
    exfalso. destruct (inv_high_elim _ _ _ I H M) as [_ A].
    specialize (A (n0 sg + length (abs_va sg st))%nat ltac:(lia)).
    destruct R as [_ R]. apply smem_true in A. destruct A as [v A]. congruence.
  - intros C. replace j with (n0 sg + (j - n0 sg))%nat by lia.
    eapply va_run_present; [exact R|lia].
Qed.

Lemma abs_va_nonempty sg st : abs_va sg st <> [] -> has_varpos sg = true.
Proof. unfold abs_va, has_varpos. destruct (vps sg); [reflexivity|congruence]. Qed.

Lemma abs_va_ext_hi sg st st' :
  valid_sig sg = true ->
  (forall j, (n0 sg <= j)%nat -> sget st' (kpos j) = sget st (kpos j)) ->
  abs_va sg st' = abs_va sg st.
Proof.
  intros V E. unfold abs_va. destruct (vps sg) as [s|] eqn:VP; [|reflexivity].
  rewrite (vps_n0 _ _ V VP). apply abs_varargs_ext. exact E.
Qed.

Lemma prefix_key_not_high sg d p j :
  nth_error (prefix_params sg) d = Some p -> (n0 sg <= j)%nat -> prefix_key p d <> kpos j.
Proof.
  intros N H E. assert (L : (d < n0 sg)%nat) by (unfold n0, n_prefix; apply nth_error_Some; congruence).
  unfold prefix_key in E. destruct (pk p); try discriminate E; apply kpos_inj in E; lia.
Qed.

Lemma abs_named_prefix_key sg st d p (f : store -> skey -> store) :
  valid_sig sg = true -> nth_error (prefix_params sg) d = Some p ->
  (forall i, abs_named sg (f st (KPos i)) = abs_named sg st) ->
  (forall n j, slot_of sg n = Some j -> abs_named sg (f st (KName n)) = abs_named sg st) ->
  abs_named sg (f st (prefix_key p d)) = abs_named sg st.
Proof.
  intros V N FP FN. unfold prefix_key.
  pose proof (prefix_params_kind _ _ (nth_error_In _ _ N)) as K.
  destruct (pk p) eqn:E; try discriminate K.
  - apply FP.
  - eapply FN. unfold slot_of. apply slot_from_of_nth; [apply valid_sig_prefix_names, V|exact N|exact E].
Qed.

Lemma abs_sset_prefix sg st d p v :
  valid_sig sg = true -> nth_error (prefix_params sg) d = Some p ->
  abs sg (sset st (prefix_key p d) v) = set_slot (abs sg st) d (Some v).
Proof.
  intros V N. rewrite !abs_unfold. unfold set_slot. cbn [sp_prefix sp_varargs sp_named]. f_equal.
  - eapply abs_prefix_update.
    + apply pkeys_distinct_names, valid_sig_prefix_names, V.
    + exact N.
    + cbn [Nat.add]. apply sget_sset_eq.
    + cbn [Nat.add]. intros k Hk. apply sget_sset_neq, Hk.
  - apply abs_va_ext_hi; [exact V|]. intros j Hj. apply sget_sset_neq.
    intros E. symmetry in E. revert E. eapply prefix_key_not_high; eauto.
  - apply (abs_named_prefix_key sg st d p (fun s k => sset s k v) V N).
    + intros i. apply abs_named_sset_pos.
    + intros n j S. eapply abs_named_sset_slot; eauto.
Qed.

Lemma abs_sdel_prefix sg st d p :
  valid_sig sg = true -> keys_distinct st = true -> nth_error (prefix_params sg) d = Some p ->
  abs sg (sdel st (prefix_key p d)) = set_slot (abs sg st) d None.
Proof.
  intros V D N. rewrite !abs_unfold. unfold set_slot. cbn [sp_prefix sp_varargs sp_named]. f_equal.
  - eapply abs_prefix_update.
    + apply pkeys_distinct_names, valid_sig_prefix_names, V.
    + exact N.
    + cbn [Nat.add]. apply sget_sdel_eq, D.
    + cbn [Nat.add]. intros k Hk. apply sget_sdel_neq, Hk.
  - apply abs_va_ext_hi; [exact V|]. intros j Hj. apply sget_sdel_neq.
    intros E. symmetry in E. revert E. eapply prefix_key_not_high; eauto.
  - apply (abs_named_prefix_key sg st d p sdel V N).
    + intros i. apply abs_named_sdel_pos.
    + intros n j S. eapply abs_named_sdel_slot; eauto.
Qed.

Lemma abs_sset_va sg st d v :
  valid_sig sg = true -> inv sg st -> (d < length (abs_va sg st))%nat ->
  abs sg (sset st (kpos (n0 sg + d)) v)
  = mkspec (sp_prefix (abs sg st)) (list_set_nat (sp_varargs (abs sg st)) d v) (sp_named (abs sg st)).
Proof.
  intros V I L. rewrite !abs_unfold. cbn [sp_prefix sp_varargs sp_named]. f_equal.
  - apply abs_prefix_frame. intros k Hk. apply sget_sset_neq. intros E. subst k.
    revert Hk. apply prefix_keys_not_high. unfold n0, n_prefix. lia.
  - pose proof (abs_va_run _ _ V I) as [R1 R2].
    unfold abs_va at 1. destruct (vps sg) as [s|] eqn:VP.
    + rewrite (vps_n0 _ _ V VP). apply abs_varargs_eq_run. split.
      * intros j Hj. rewrite list_set_nat_length in Hj. rewrite sget_sset, list_set_nat_nth_error.
        destruct (Nat.eqb j d) eqn:E.
        -- apply Nat.eqb_eq in E. subst j. rewrite skey_eqb_refl.
           apply Nat.ltb_lt in L. rewrite L. reflexivity.
        -- apply Nat.eqb_neq in E. rewrite skey_eqb_neq by (apply kpos_neq; lia). apply R1, Hj.
      * rewrite list_set_nat_length. rewrite sget_sset_neq by (apply kpos_neq; lia). exact R2.
    + unfold abs_va in L. rewrite VP in L. cbn [length] in L. lia.
  - unfold kpos. apply abs_named_sset_pos.
Qed.

(* ================================================================== __setitem__ with an int *)

Lemma set_item_by_index_spec sg st log z v :
  valid_sig sg = true -> inv sg st -> v <> NoValue ->
  match norm_index z (spec_len sg (abs sg st)) with
  | Some j =>
      exists st' log',
        set_item_by_index sg (st, log) z v = ((st', log'), None)
        /\ abs sg st' = set_pos sg (abs sg st) (Z.to_nat j) v /\ inv sg st'
  | None => set_item_by_index sg (st, log) z v = ((st, log), Some EIndex)
  end.
Proof.
  intros V I NV. unfold set_item_by_index. cbn [fst].
  rewrite (index_to_key_eq _ _ _ V), (all_positional_length _ _ V).
  assert (Hn : 0 <= spec_len sg (abs sg st)) by (unfold spec_len, zlen; lia).
  rewrite (norm_adj _ _ Hn).
  destruct (adj_index z (spec_len sg (abs sg st))) as [i|] eqn:A; [|reflexivity].
  pose proof (adj_index_nonneg _ _ _ A) as Hi.
  assert (PN : positional_num sg = Z.of_nat (n0 sg)).
  { unfold positional_num. destruct (vps sg) as [s|] eqn:VP; [|reflexivity].
    rewrite (vps_n0 _ _ V VP). reflexivity. }
  unfold spec_len in *. rewrite abs_unfold in *. cbn [sp_varargs] in *. unfold zlen in *.
  set (j := Z.to_nat i). assert (Ej : i = Z.of_nat j) by (unfold j; lia).
  destruct (Z.of_nat (n0 sg) + Z.of_nat (length (abs_va sg st)) <=? i) eqn:C.
  - (* out of range: the key is an absent *args slot *)
    apply Z.leb_le in C.
    assert (N : nth_error (prefix_params sg) j = None)
      by (apply nth_error_None; unfold n0, n_prefix in C; lia).
    unfold pos_key. rewrite N. unfold kpos at 1. rewrite PN.
    replace (Z.of_nat (n0 sg) <=? Z.of_nat j) with true by (symmetry; apply Z.leb_le; lia).
    assert (M : smem st (kpos j) = false).
    { destruct (smem st (kpos j)) eqn:M; [|reflexivity].
      apply (va_mem _ _ _ V I) in M; lia. }
    fold (kpos j). rewrite M. reflexivity.
  - apply Z.leb_gt in C. unfold set_pos. fold j.
    destruct (Nat.ltb j (n0 sg)) eqn:LT.
    + apply Nat.ltb_lt in LT.
      destruct (nth_error (prefix_params sg) j) as [p|] eqn:N;
        [|apply nth_error_None in N; unfold n0, n_prefix in LT; lia].
      unfold pos_key. rewrite N.
      assert (OOB : match prefix_key p j with
                    | KPos i0 => (positional_num sg <=? i0) && negb (smem st (prefix_key p j))
                    | KName _ => false
                    end = false).
      { unfold prefix_key. destruct (pk p); try reflexivity.
        unfold kpos. rewrite PN.
        replace (Z.of_nat (n0 sg) <=? Z.of_nat j) with false by (symmetry; apply Z.leb_gt; lia).
        reflexivity. }
      rewrite OOB. unfold arg_set. cbn [fst snd].
      eexists. eexists. split; [reflexivity|]. split.
      * rewrite <- abs_unfold. apply abs_sset_prefix; assumption.
      * apply inv_sset; [exact I | apply key_ok_prefix_key; assumption | exact NV].
    + apply Nat.ltb_ge in LT.
      assert (N : nth_error (prefix_params sg) j = None)
        by (apply nth_error_None; unfold n0, n_prefix in LT; lia).
      unfold pos_key. rewrite N. unfold kpos at 1. rewrite PN. fold (kpos j).
      assert (M : smem st (kpos j) = true) by (apply (va_mem _ _ _ V I); lia).
      rewrite M. cbn [negb]. rewrite andb_false_r.
      unfold arg_set. cbn [fst snd].
      eexists. eexists. split; [reflexivity|]. split.
      * replace j with (n0 sg + (j - n0 sg))%nat at 1 by lia.
        rewrite <- abs_unfold. rewrite abs_sset_va; [|assumption|assumption|lia].
        rewrite abs_unfold. reflexivity.
      * apply inv_sset; [exact I | | exact NV].
        apply smem_true in M. destruct M as [w G].
        apply inv_elim in I. destruct I as [_ I]. apply (I _ _ G).
Qed.

Lemma refines_setitem sg st i v :
  valid_sig sg = true -> inv sg st -> op_ok (OSetItem i v) = true ->
  refines_step sg st (OSetItem i v).
Proof.
  intros V I OK. unfold refines_step, step, step_w, setitem. cbn [spec_step].
  destruct (replace_int sg i) as [z|e].
  - assert (NV : v <> NoValue).
    { cbn [op_ok] in OK. apply negb_true_iff in OK. intros E. apply ref_eqb_eq in E. congruence. }
    pose proof (set_item_by_index_spec sg st [] z v V I NV) as H.
    destruct (norm_index z (spec_len sg (abs sg st))) as [j|].
    + destruct H as [st' [log' [H1 [H2 H3]]]]. rewrite H1. cbn [fst out_of]. auto.
    + rewrite H. cbn [fst out_of]. auto.
  - cbn [fst out_of]. auto.
Qed.

(* ================================================================== replacing the *args region *)

Lemma key_ok_low_indep sg st st' k :
  (forall idx, (n0 sg <= idx)%nat -> k <> kpos idx) -> key_ok sg st k = key_ok sg st' k.
Proof.
  intros H. destruct k as [i|n]; [|reflexivity].
  cbn [key_ok]. destruct (0 <=? i) eqn:A; [|reflexivity]. cbn [andb].
  destruct (i <? Z.of_nat (n0 sg)) eqn:B; [reflexivity|].
  apply Z.leb_le in A. apply Z.ltb_ge in B. exfalso.
  apply (H (Z.to_nat i)); [lia|]. apply kpos_KPos. exact A.
Qed.

Lemma skey_high_dec sg k :
  {idx | (n0 sg <= idx)%nat /\ k = kpos idx} + {forall idx, (n0 sg <= idx)%nat -> k <> kpos idx}.
Proof.
  destruct k as [i|n].
  - destruct (Z_le_dec (Z.of_nat (n0 sg)) i) as [L|L].
    + left. exists (Z.to_nat i). split; [lia|]. apply kpos_KPos. lia.
    + right. intros idx Hi E. unfold kpos in E. inversion E. lia.
  - right. intros idx Hi E. discriminate E.
Qed.

Lemma va_replaced sg st st' l :
  valid_sig sg = true -> inv sg st ->
  keys_distinct st' = true ->
  (forall k, (forall idx, (n0 sg <= idx)%nat -> k <> kpos idx) -> sget st' k = sget st k) ->
  abs_named sg st' = abs_named sg st ->
  (forall idx, (n0 sg <= idx)%nat -> sget st' (kpos idx) = nth_error l (idx - n0 sg)) ->
  (forall v, In v l -> v <> NoValue) ->
  (l <> [] -> has_varpos sg = true) ->
  inv sg st' /\ abs sg st' = mkspec (sp_prefix (abs sg st)) l (sp_named (abs sg st)).
Proof.
  intros V I D FR NM HI NV HV.
  assert (RUN : va_run st' (n0 sg) l).
  { split.
    - intros j Hj. rewrite HI by lia. f_equal. lia.
    - rewrite HI by lia. apply nth_error_None. lia. }
  split.
  - pose proof (inv_elim _ _ I) as [_ IE].
    apply inv_intro; [exact D|]. intros k v G.
    destruct (skey_high_dec sg k) as [[idx [Hi E]]|LOW].
    + subst k. rewrite (HI _ Hi) in G. split.
      * rewrite (key_ok_high _ _ _ Hi). apply andb_true_intro. split.
        -- apply HV. intros E. subst l. destruct (idx - n0 sg)%nat; discriminate G.
        -- apply forallb_forall. intros j Hj. apply In_nat_seq in Hj.
           apply smem_true. rewrite HI by lia.
           destruct (nth_error l (j - n0 sg)) as [w|] eqn:N; [eauto|].
           apply nth_error_None in N.
           assert (idx - n0 sg < length l)%nat by (apply nth_error_Some; congruence). lia.
      * apply NV. eapply nth_error_In. exact G.
    + rewrite (FR _ LOW) in G. destruct (IE _ _ G) as [A B]. split; [|exact B].
      rewrite <- (key_ok_low_indep sg st st' k LOW). exact A.
  - rewrite !abs_unfold. cbn [sp_prefix sp_named]. f_equal.
    + apply abs_prefix_frame. intros k Hk. apply FR. intros idx Hi E. subst k.
      revert Hk. apply prefix_keys_not_high. unfold n0, n_prefix in Hi. lia.
    + unfold abs_va. destruct (vps sg) as [s|] eqn:VP.
      * rewrite (vps_n0 _ _ V VP). apply abs_varargs_eq_run. exact RUN.
      * destruct l as [|w l]; [reflexivity|].
        assert (has_varpos sg = true) by (apply HV; discriminate).
        unfold has_varpos in H. rewrite VP in H. discriminate.
    + exact NM.
Qed.

(* ================================================================== __delitem__ *)

Lemma dpp_app sg v l1 : forall l2 s new,
  del_prefix_or_placeholder sg s v new (l1 ++ l2) =
  match del_prefix_or_placeholder sg s v new l1 with
  | (s1, new1, None) => del_prefix_or_placeholder sg s1 v new1 l2
  | r => r
  end.
Proof.
  induction l1 as [|x l1 IH]; intros l2 s new; [reflexivity|].
  cbn [app del_prefix_or_placeholder]. destruct (x <? v).
  - destruct (index_to_key sg x (fst s)) as [k|e]; [|reflexivity].
    destruct (smem (fst s) k); [|apply IH].
    destruct (arg_del s k) as [s'|e]; [apply IH|reflexivity].
  - destruct (list_del_at new x) as [new'|]; [apply IH|reflexivity].
Qed.

Lemma list_del_nat_app_eq {A} (l1 : list A) y l2 k :
  k = length l1 -> list_del_nat (l1 ++ y :: l2) k = l1 ++ l2.
Proof. intros E. subst k. apply list_del_nat_app. Qed.

Lemma dpp_hi sg hi : forall m tl s,
  sdesc hi ->
  (forall x, In x hi -> Z.of_nat (n0 sg) <= x < Z.of_nat m) ->
  (n0 sg <= m)%nat ->
  del_prefix_or_placeholder sg s (Z.of_nat (n0 sg)) (seqZ 0 m ++ tl) hi =
  (s, seqZ 0 (n0 sg) ++ filter (fun x => negb (zmem x hi)) (seqZ (n0 sg) (m - n0 sg)) ++ tl, None).
Proof.
  induction hi as [|x hi IH]; intros m tl s SD B LE.
  - cbn [del_prefix_or_placeholder]. rewrite filter_true by reflexivity.
    rewrite app_assoc. rewrite <- seqZ_app. replace (n0 sg + (m - n0 sg))%nat with m by lia.
    reflexivity.
  - inversion SD as [|x' hi' Hx SD' E]. subst x' hi'.
    pose proof (B x (or_introl eq_refl)) as Bx.
    set (xn := Z.to_nat x). assert (Ex : x = Z.of_nat xn) by (unfold xn; lia).
    cbn [del_prefix_or_placeholder].
    replace (x <? Z.of_nat (n0 sg)) with false by (symmetry; apply Z.ltb_ge; lia).
    unfold list_del_at.
    replace (x <? 0) with false by (symmetry; apply Z.ltb_ge; lia).
    replace (zlen (seqZ 0 m ++ tl) <=? x) with false
      by (symmetry; apply Z.leb_gt; unfold zlen; rewrite app_length, seqZ_length; lia).
    cbn [orb]. fold xn.
    rewrite (seqZ_split 0 m xn) by lia. cbn [Nat.add].
    rewrite <- app_assoc. cbn [app].
    rewrite (list_del_nat_app_eq _ _ _ xn) by (rewrite seqZ_length; reflexivity).
    rewrite IH; [| exact SD' | | lia].
    + f_equal. f_equal. f_equal.
      rewrite (seqZ_split (n0 sg) (m - n0 sg) (xn - n0 sg)) by lia.
      replace (n0 sg + (xn - n0 sg))%nat with xn by lia.
      rewrite filter_app. cbn [filter]. rewrite <- Ex.
      replace (zmem x (x :: hi)) with true by (symmetry; apply zmem_In; left; reflexivity).
      cbn [negb]. rewrite <- app_assoc. f_equal.
      * apply filter_ext_in. intros y Hy. apply seqZ_In in Hy. destruct Hy as [k [Ek Hk]].
        f_equal. cbn [zmem existsb]. replace (y =? x) with false by (symmetry; apply Z.eqb_neq; lia).
        reflexivity.
      * replace (m - n0 sg - S (xn - n0 sg))%nat with (m - S xn)%nat by lia.
        f_equal. symmetry. apply filter_true. intros y Hy. apply seqZ_In in Hy. destruct Hy as [k [Ek Hk]].
        apply negb_true_iff. apply zmem_false. intros [E|HI]; [lia|].
        specialize (Hx y HI). lia.
    + intros y Hy. specialize (Hx y Hy). specialize (B y (or_intror Hy)). lia.
Qed.

Lemma index_to_key_nat sg st j :
  valid_sig sg = true -> index_to_key sg (Z.of_nat j) st = inl (pos_key sg j).
Proof.
  intros V. rewrite (index_to_key_eq _ _ _ V). unfold adj_index.
  replace (Z.of_nat j <? 0) with false by (symmetry; apply Z.ltb_ge; lia).
  rewrite Nat2Z.id. reflexivity.
Qed.

Lemma sdel_absent st k : smem st k = false -> sdel st k = st.
Proof.
  unfold smem, dmem, sdel. induction st as [|[k0 v0] st IH]; intros H; [reflexivity|].
  cbn [dget ddel] in *. destruct (skey_eqb k k0); [discriminate|]. rewrite IH by exact H. reflexivity.
Qed.

Definition unset_list (lo : list Z) (pr : list (option ref)) : list (option ref) :=
  fold_left (fun pr x => list_set_nat pr (Z.to_nat x) None) lo pr.

Lemma dpp_lo sg lo : forall st log new,
  valid_sig sg = true -> inv sg st ->
  (forall x, In x lo -> 0 <= x < Z.of_nat (n0 sg)) ->
  exists st' log',
    del_prefix_or_placeholder sg (st, log) (Z.of_nat (n0 sg)) new lo = ((st', log'), new, None)
    /\ inv sg st'
    /\ abs sg st' = mkspec (unset_list lo (sp_prefix (abs sg st)))
                           (sp_varargs (abs sg st)) (sp_named (abs sg st)).
Proof.
  induction lo as [|x lo IH]; intros st log new V I B.
  - exists st, log. cbn [del_prefix_or_placeholder unset_list fold_left]. split; [reflexivity|].
    split; [exact I|]. destruct (abs sg st); reflexivity.
  - pose proof (B x (or_introl eq_refl)) as Bx.
    set (xn := Z.to_nat x). assert (Ex : x = Z.of_nat xn) by (unfold xn; lia).
    clearbody xn. subst x.
    cbn [del_prefix_or_placeholder].
    replace (Z.of_nat xn <? Z.of_nat (n0 sg)) with true by (symmetry; apply Z.ltb_lt; lia).
    cbn [fst]. rewrite (index_to_key_nat _ _ _ V).
    destruct (nth_error (prefix_params sg) xn) as [p|] eqn:N;
      [|apply nth_error_None in N; unfold n0, n_prefix in Bx; lia].
    unfold pos_key. rewrite N.
    pose proof (inv_elim _ _ I) as [D _].
    assert (B' : forall y, In y lo -> 0 <= y < Z.of_nat (n0 sg)) by (intros y Hy; apply B; right; exact Hy).
    destruct (smem st (prefix_key p xn)) eqn:M.
    + unfold arg_del. cbn [fst snd]. rewrite M.
      assert (I' : inv sg (sdel st (prefix_key p xn))).
      { apply inv_sdel_low; [exact I|]. intros j Hj. eapply prefix_key_not_high; eauto. }
      destruct (IH (sdel st (prefix_key p xn)) (log ++ [WDel (prefix_key p xn)]) new V I' B')
        as [st' [log' [A1 [A2 A3]]]].
      exists st', log'. split; [exact A1|]. split; [exact A2|].
      rewrite A3. rewrite (abs_sdel_prefix _ _ _ _ V D N). unfold set_slot.
      cbn [sp_prefix sp_varargs sp_named unset_list fold_left]. rewrite Nat2Z.id. reflexivity.
    + destruct (IH st log new V I B') as [st' [log' [A1 [A2 A3]]]].
      exists st', log'. split; [exact A1|]. split; [exact A2|].
      rewrite A3. cbn [unset_list fold_left]. rewrite Nat2Z.id. f_equal. unfold unset_list. f_equal.
      symmetry. apply list_set_nat_same. rewrite abs_unfold. cbn [sp_prefix].
      rewrite (abs_prefix_nth _ _ _ _ _ N). cbn [Nat.add]. f_equal.
      apply smem_false. exact M.
Qed.

Lemma compact_spec sg st1 new n : forall c a cur log,
  (a + c = n)%nat ->
  keys_distinct cur = true ->
  (forall idx, (a <= idx)%nat -> sget cur (kpos idx) = sget st1 (kpos idx)) ->
  (forall idx, (a <= idx < n)%nat -> smem st1 (kpos idx) = true) ->
  (forall idx j, (a <= idx)%nat -> nth_error new idx = Some j ->
                 exists jn, j = Z.of_nat jn /\ (idx <= jn < n)%nat) ->
  exists cur' log',
    compact (cur, log) new (nat_seq a c) = ((cur', log'), None)
    /\ keys_distinct cur' = true
    /\ abs_named sg cur' = abs_named sg cur
    /\ (forall k, (forall idx, (a <= idx < n)%nat -> k <> kpos idx) -> sget cur' k = sget cur k)
    /\ (forall idx, (a <= idx < n)%nat ->
                    sget cur' (kpos idx) =
                    match nth_error new idx with Some j => sget st1 (KPos j) | None => None end).
Proof.
  induction c as [|c IH]; intros a cur log EQ D UN PR NW.
  - exists cur, log. cbn [nat_seq compact]. repeat split; try reflexivity; try exact D.
    intros idx Hi. lia.
  - cbn [nat_seq compact].
    destruct (nth_error new a) as [j|] eqn:N.
    + destruct (NW a j (Nat.le_refl _) N) as [jn [Ej Hj]].
      destruct (j =? Z.of_nat a) eqn:E.
      * apply Z.eqb_eq in E.
        destruct (IH (S a) cur log ltac:(lia) D
                    ltac:(intros idx Hi; apply UN; lia) ltac:(intros idx Hi; apply PR; lia)
                    ltac:(intros idx j' Hi Hn; destruct (NW idx j' ltac:(lia) Hn) as [jn' [A B]];
                          exists jn'; split; [exact A|lia]))
          as [cur' [log' [A1 [A2 [A3 [A4 A5]]]]]].
        exists cur', log'. split; [exact A1|]. split; [exact A2|]. split; [exact A3|]. split.
        -- intros k Hk. apply A4. intros idx Hi. apply Hk. lia.
        -- intros idx Hi. destruct (Nat.eq_dec idx a) as [Ea|Ea].
           ++ subst idx. rewrite N. rewrite A4 by (intros idx Hi'; apply kpos_neq; lia).
              rewrite UN by lia. rewrite E. reflexivity.
           ++ apply A5. lia.
      * apply Z.eqb_neq in E. cbn [fst].
        assert (G : sget cur (KPos j) = sget st1 (KPos j)).
        { rewrite Ej. apply (UN jn). lia. }
        rewrite G.
        assert (M : smem st1 (kpos jn) = true) by (apply PR; lia).
        apply smem_true in M. destruct M as [w M]. rewrite Ej. fold (kpos jn). rewrite M.
        unfold arg_set. cbn [fst snd].
        destruct (IH (S a) (sset cur (kpos a) w) (log ++ [WSet (kpos a) w]) ltac:(lia)
                    (keys_distinct_sset _ _ _ D)
                    ltac:(intros idx Hi; rewrite sget_sset_neq by (apply kpos_neq; lia); apply UN; lia)
                    ltac:(intros idx Hi; apply PR; lia)
                    ltac:(intros idx j' Hi Hn; destruct (NW idx j' ltac:(lia) Hn) as [jn' [A B]];
                          exists jn'; split; [exact A|lia]))
          as [cur' [log' [A1 [A2 [A3 [A4 A5]]]]]].
        exists cur', log'. split; [exact A1|]. split; [exact A2|]. split.
        { rewrite A3. unfold kpos. apply abs_named_sset_pos. }
        split.
        -- intros k Hk. rewrite A4 by (intros idx Hi; apply Hk; lia).
           apply sget_sset_neq. apply Hk. lia.
        -- intros idx Hi. destruct (Nat.eq_dec idx a) as [Ea|Ea].
           ++ subst idx. rewrite N. rewrite A4 by (intros idx Hi'; apply kpos_neq; lia).
              rewrite sget_sset_eq. rewrite Ej. symmetry. exact M.
           ++ apply A5. lia.
    + unfold arg_del. cbn [fst snd].
      assert (M : smem cur (kpos a) = true).
      { rewrite smem_sget, UN by lia. rewrite <- smem_sget. apply PR. lia. }
      rewrite M.
      destruct (IH (S a) (sdel cur (kpos a)) (log ++ [WDel (kpos a)]) ltac:(lia)
                  (keys_distinct_sdel _ _ D)
                  ltac:(intros idx Hi; rewrite sget_sdel_neq by (apply kpos_neq; lia); apply UN; lia)
                  ltac:(intros idx Hi; apply PR; lia)
                  ltac:(intros idx j' Hi Hn; destruct (NW idx j' ltac:(lia) Hn) as [jn' [A B]];
                        exists jn'; split; [exact A|lia]))
        as [cur' [log' [A1 [A2 [A3 [A4 A5]]]]]].
      exists cur', log'. split; [exact A1|]. split; [exact A2|]. split.
      { rewrite A3. unfold kpos. apply abs_named_sdel_pos. }
      split.
      * intros k Hk. rewrite A4 by (intros idx Hi; apply Hk; lia).
        apply sget_sdel_neq. apply Hk. lia.
      * intros idx Hi. destruct (Nat.eq_dec idx a) as [Ea|Ea].
        -- subst idx. rewrite N. rewrite A4 by (intros idx Hi'; apply kpos_neq; lia).
           apply sget_sdel_eq. exact D.
        -- apply A5. lia.
Qed.

Lemma filter_seqZ_nth f : forall len a d j,
  nth_error (filter f (seqZ a len)) d = Some j ->
  exists jn, j = Z.of_nat jn /\ (a + d <= jn < a + len)%nat.
Proof.
  induction len as [|len IH]; intros a d j H.
  - cbn in H. destruct d; discriminate.
  - rewrite seqZ_cons in H. cbn [filter] in H. destruct (f (Z.of_nat a)).
    + destruct d as [|d]; cbn [nth_error] in H.
      * inversion H. exists a. split; [reflexivity|lia].
      * apply IH in H. destruct H as [jn [A B]]. exists jn. split; [exact A|lia].
    + apply IH in H. destruct H as [jn [A B]]. exists jn. split; [exact A|lia].
Qed.

Lemma filter_length_le' {A} (f : A -> bool) l : (length (filter f l) <= length l)%nat.
Proof. induction l as [|x l IH]; cbn [filter length]; [lia|]. destruct (f x); cbn [length]; lia. Qed.

Definition valf (st : store) (j : Z) : ref :=
  match sget st (KPos j) with Some w => w | None => NoValue end.

Lemma vals_filter st drop va : forall i,
  (forall d, (d < length va)%nat -> sget st (kpos (i + d)) = nth_error va d) ->
  map (valf st) (filter (fun x => negb (zmem x drop)) (seqZ i (length va)))
  = filter_idx va (Z.of_nat i) drop.
Proof.
  induction va as [|v va IH]; intros i H; [reflexivity|].
  cbn [length]. rewrite seqZ_cons. cbn [filter filter_idx].
  assert (IH' : map (valf st) (filter (fun x => negb (zmem x drop)) (seqZ (S i) (length va)))
                = filter_idx va (Z.of_nat i + 1) drop).
  { replace (Z.of_nat i + 1) with (Z.of_nat (S i)) by lia. apply IH.
    intros d Hd. replace (S i + d)%nat with (i + S d)%nat by lia.
    rewrite H by (cbn [length]; lia). reflexivity. }
  destruct (zmem (Z.of_nat i) drop); cbn [negb]; [exact IH'|].
  cbn [map]. rewrite IH'. f_equal.
  unfold valf. fold (kpos i). pose proof (H 0%nat ltac:(cbn [length]; lia)) as H0.
  rewrite Nat.add_0_r in H0. rewrite H0. reflexivity.
Qed.

Lemma unset_slots_nth pr drop : forall i d,
  nth_error (unset_slots pr i drop) d =
  match nth_error pr d with
  | Some o => Some (if zmem (i + Z.of_nat d) drop then None else o)
  | None => None
  end.
Proof.
  induction pr as [|o pr IH]; intros i d.
  - destruct d; reflexivity.
  - cbn [unset_slots]. destruct d as [|d]; cbn [nth_error].
    + rewrite Z.add_0_r. reflexivity.
    + rewrite IH. replace (i + 1 + Z.of_nat d) with (i + Z.of_nat (S d)) by lia. reflexivity.
Qed.

Lemma unset_list_nth lo : forall pr d,
  (forall x, In x lo -> 0 <= x) ->
  nth_error (unset_list lo pr) d =
  match nth_error pr d with
  | Some o => Some (if zmem (Z.of_nat d) lo then None else o)
  | None => None
  end.
Proof.
  induction lo as [|x lo IH]; intros pr d H.
  - cbn [unset_list fold_left zmem existsb]. destruct (nth_error pr d); reflexivity.
  - cbn [unset_list fold_left]. fold (unset_list lo (list_set_nat pr (Z.to_nat x) None)).
    rewrite IH by (intros y Hy; apply H; right; exact Hy).
    rewrite list_set_nat_nth_error. cbn [zmem existsb].
    pose proof (H x (or_introl eq_refl)) as Hx.
    destruct (Nat.eqb d (Z.to_nat x)) eqn:E.
    + apply Nat.eqb_eq in E. replace (Z.of_nat d =? x) with true by (symmetry; apply Z.eqb_eq; lia).
      cbn [orb]. destruct (Nat.ltb (Z.to_nat x) (length pr)) eqn:L.
      * apply Nat.ltb_lt in L. destruct (nth_error pr d) eqn:N.
        -- destruct (zmem (Z.of_nat d) lo); reflexivity.
        -- apply nth_error_None in N. lia.
      * apply Nat.ltb_ge in L. replace (nth_error pr d) with (@None (option ref)); [reflexivity|].
        symmetry. apply nth_error_None. lia.
    + apply Nat.eqb_neq in E. replace (Z.of_nat d =? x) with false by (symmetry; apply Z.eqb_neq; lia).
      cbn [orb]. reflexivity.
Qed.

Lemma all_positional_len_nat sg st :
  valid_sig sg = true -> length (all_positional sg st) = (n0 sg + length (abs_va sg st))%nat.
Proof.
  intros V. rewrite (all_positional_eq _ _ V).
  rewrite app_length, fill_slots_length, abs_prefix_length. reflexivity.
Qed.

Lemma del_indices_spec sg st log idxs :
  valid_sig sg = true -> inv sg st -> NoDup idxs ->
  (forall x, In x idxs -> 0 <= x < spec_len sg (abs sg st)) ->
  exists st' log',
    del_indices sg (st, log) idxs = ((st', log'), None)
    /\ inv sg st'
    /\ abs sg st' = mkspec (unset_slots (sp_prefix (abs sg st)) 0 idxs)
                           (filter_idx (sp_varargs (abs sg st)) (Z.of_nat (n0 sg)) idxs)
                           (sp_named (abs sg st)).
Proof.
  intros V I ND B. unfold del_indices. cbn [fst].
  set (L := length (abs_va sg st)).
  assert (En : length (all_positional sg st) = (n0 sg + L)%nat) by apply (all_positional_len_nat _ _ V).
  rewrite En.
  assert (Ev : match vps sg with Some v => v | None => (n0 sg + L)%nat end = n0 sg).
  { destruct (vps sg) as [s|] eqn:VP; [apply (vps_n0 _ _ V VP)|].
    unfold L, abs_va. rewrite VP. cbn [length]. lia. }
  rewrite Ev. clear Ev.
  replace (n0 sg + L - n0 sg)%nat with L by lia.
  assert (B' : forall x, In x idxs -> 0 <= x < Z.of_nat (n0 sg + L)).
  { intros x Hx. specialize (B x Hx). unfold spec_len in B. rewrite abs_unfold in B.
    cbn [sp_varargs] in B. unfold zlen in B. fold L in B. lia. }
  clear B.
  set (ds := sort_desc idxs).
  assert (SD : sdesc ds) by (apply sort_desc_sdesc; exact ND).
  assert (DI : forall x, In x ds <-> In x idxs) by (intros x; apply sort_desc_In).
  set (hi := filter (fun x => Z.of_nat (n0 sg) <=? x) ds).
  set (lo := filter (fun x => x <? Z.of_nat (n0 sg)) ds).
  assert (Eds : ds = hi ++ lo) by (apply sdesc_split; exact SD).
  assert (HIin : forall x, In x hi <-> In x idxs /\ Z.of_nat (n0 sg) <= x).
  { intros x. unfold hi. rewrite filter_In, DI, Z.leb_le. reflexivity. }
  assert (LOin : forall x, In x lo <-> In x idxs /\ x < Z.of_nat (n0 sg)).
  { intros x. unfold lo. rewrite filter_In, DI, Z.ltb_lt. reflexivity. }
  rewrite Eds, dpp_app.
  rewrite nat_seq_eq. fold (seqZ 0 (n0 sg + L)).
  rewrite <- (app_nil_r (seqZ 0 (n0 sg + L))).
  rewrite dpp_hi; [| apply sdesc_filter; exact SD | | lia].
  2:{ intros x Hx. apply HIin in Hx. destruct Hx as [Hx1 Hx2]. specialize (B' x Hx1). lia. }
  rewrite app_nil_r. replace (n0 sg + L - n0 sg)%nat with L by lia.
  set (F := filter (fun x => negb (zmem x hi)) (seqZ (n0 sg) L)).
  destruct (dpp_lo sg lo st log (seqZ 0 (n0 sg) ++ F) V I) as [st1 [log1 [A1 [I1 AB1]]]].
  { intros x Hx. apply LOin in Hx. destruct Hx as [Hx1 Hx2]. specialize (B' x Hx1). lia. }
  rewrite A1.
  pose proof (inv_elim _ _ I1) as [D1 IE1].
  assert (VA1 : abs_va sg st1 = abs_va sg st).
  { apply (f_equal sp_varargs) in AB1. rewrite !abs_unfold in AB1. exact AB1. }
  assert (PR : forall idx, (n0 sg <= idx < n0 sg + L)%nat -> smem st1 (kpos idx) = true).
  { intros idx Hi. apply (va_mem _ _ _ V I1); [lia|]. rewrite VA1. fold L. lia. }
  assert (NWF : forall d j, nth_error F d = Some j ->
                            exists jn, j = Z.of_nat jn /\ (n0 sg + d <= jn < n0 sg + L)%nat).
  { intros d j H. unfold F in H. apply filter_seqZ_nth in H. exact H. }
  assert (NEW : forall idx, (n0 sg <= idx)%nat ->
                            nth_error (seqZ 0 (n0 sg) ++ F) idx = nth_error F (idx - n0 sg)).
  { intros idx Hi. rewrite nth_error_app2 by (rewrite seqZ_length; lia).
    rewrite seqZ_length. reflexivity. }
  destruct (compact_spec sg st1 (seqZ 0 (n0 sg) ++ F) (n0 sg + L) L (n0 sg) st1 log1
              eq_refl D1 (fun idx _ => eq_refl) PR) as [st2 [log2 [C1 [D2 [C3 [C4 C5]]]]]].
  { intros idx j Hi H. rewrite (NEW _ Hi) in H. apply NWF in H. destruct H as [jn [A Bn]].
    exists jn. split; [exact A|lia]. }
  exists st2, log2. split; [exact C1|].
  assert (LF : (length F <= L)%nat).
  { unfold F. etransitivity; [apply filter_length_le'|]. rewrite seqZ_length. lia. }
  destruct (va_replaced sg st1 st2 (map (valf st1) F) V I1 D2) as [I2 AB2].
  - intros k Hk. apply C4. intros idx Hi. apply Hk. lia.
  - exact C3.
  - intros idx Hi. rewrite nth_error_map.
    destruct (Nat.lt_ge_cases idx (n0 sg + L)) as [C|C].
    + rewrite C5 by lia. rewrite (NEW _ Hi).
      destruct (nth_error F (idx - n0 sg)) as [j|] eqn:N; [|reflexivity].
      cbn [option_map]. destruct (NWF _ _ N) as [jn [Ej Hj]].
      assert (M : smem st1 (kpos jn) = true) by (apply PR; lia).
      apply smem_true in M. destruct M as [w M]. unfold valf. rewrite Ej. fold (kpos jn).
      rewrite M. reflexivity.
    + rewrite C4 by (intros idx' Hi'; apply kpos_neq; lia).
      replace (nth_error F (idx - n0 sg)) with (@None Z) by (symmetry; apply nth_error_None; lia).
      cbn [option_map]. apply smem_false.
      destruct (smem st1 (kpos idx)) eqn:M; [|reflexivity].
      apply (va_mem _ _ _ V I1) in M; [|lia]. rewrite VA1 in M. fold L in M. lia.
  - intros v Hv. apply in_map_iff in Hv. destruct Hv as [j [Ev Hj]].
    apply In_nth_error in Hj. destruct Hj as [d Hd]. destruct (NWF _ _ Hd) as [jn [Ej Hjn]].
    assert (M : smem st1 (kpos jn) = true) by (apply PR; lia).
    apply smem_true in M. destruct M as [w M]. subst v. unfold valf. rewrite Ej. fold (kpos jn).
    rewrite M. apply (IE1 _ _ M).
  - intros NE. apply (abs_va_nonempty sg st). intros E. apply NE.
    assert (L = 0)%nat by (unfold L; rewrite E; reflexivity).
    destruct F; [reflexivity|cbn [length] in LF; lia].
  - split; [exact I2|]. rewrite AB2, AB1. cbn [sp_prefix sp_named sp_varargs]. f_equal.
    + apply nth_error_ext. intros d. rewrite unset_slots_nth.
      rewrite unset_list_nth by (intros x Hx; apply LOin in Hx; destruct Hx as [Hx _]; apply B' in Hx; lia).
      destruct (nth_error (sp_prefix (abs sg st)) d) as [o|] eqn:N; [|reflexivity].
      assert (d < n0 sg)%nat.
      { assert (d < length (sp_prefix (abs sg st)))%nat by (apply nth_error_Some; congruence).
        rewrite abs_unfold in H. cbn [sp_prefix] in H. rewrite abs_prefix_length in H. exact H. }
      f_equal. rewrite Z.add_0_l.
      replace (zmem (Z.of_nat d) lo) with (zmem (Z.of_nat d) idxs); [reflexivity|].
      destruct (zmem (Z.of_nat d) idxs) eqn:Z1; symmetry.
      * apply zmem_In. apply LOin. split; [apply zmem_In; exact Z1|lia].
      * apply zmem_false. intros Hx. apply LOin in Hx. destruct Hx as [Hx _].
        apply zmem_In in Hx. congruence.
    + unfold F. rewrite abs_unfold. cbn [sp_varargs]. fold L.
      unfold L. rewrite vals_filter.
      * apply filter_idx_ext. intros x Hx.
        destruct (zmem x idxs) eqn:Z1.
        -- apply zmem_In. apply HIin. split; [apply zmem_In; exact Z1|lia].
        -- apply zmem_false. intros Hh. apply HIin in Hh. destruct Hh as [Hh _].
           apply zmem_In in Hh. congruence.
      * pose proof (abs_va_run _ _ V I1) as [R1 _]. rewrite VA1 in R1. exact R1.
Qed.

Lemma unset_slots_single pr j :
  0 <= j -> unset_slots pr 0 [j] = if j <? Z.of_nat (length pr) then list_set_nat pr (Z.to_nat j) None else pr.
Proof.
  intros Hj. apply nth_error_ext. intros d. rewrite unset_slots_nth. cbn [zmem existsb].
  rewrite Z.add_0_l, orb_false_r.
  destruct (j <? Z.of_nat (length pr)) eqn:L.
  - apply Z.ltb_lt in L. rewrite list_set_nat_nth_error.
    destruct (Nat.eqb d (Z.to_nat j)) eqn:E.
    + apply Nat.eqb_eq in E. replace (Z.of_nat d =? j) with true by (symmetry; apply Z.eqb_eq; lia).
      replace (Nat.ltb (Z.to_nat j) (length pr)) with true by (symmetry; apply Nat.ltb_lt; lia).
      destruct (nth_error pr d) eqn:N; [reflexivity|]. apply nth_error_None in N. lia.
    + apply Nat.eqb_neq in E. replace (Z.of_nat d =? j) with false by (symmetry; apply Z.eqb_neq; lia).
      destruct (nth_error pr d); reflexivity.
  - apply Z.ltb_ge in L. destruct (nth_error pr d) eqn:N; [|reflexivity].
    assert (d < length pr)%nat by (apply nth_error_Some; congruence).
    replace (Z.of_nat d =? j) with false by (symmetry; apply Z.eqb_neq; lia). reflexivity.
Qed.

Lemma spec_len_nonneg sg sp : 0 <= spec_len sg sp.
Proof. unfold spec_len, zlen. lia. Qed.

Lemma abs_prefix_len sg st : length (sp_prefix (abs sg st)) = n0 sg.
Proof. rewrite abs_unfold. cbn [sp_prefix]. apply abs_prefix_length. Qed.

Lemma refines_delitem sg st i :
  valid_sig sg = true -> inv sg st -> refines_step sg st (ODelItem i).
Proof.
  intros V I. unfold refines_step, step, step_w, delitem. cbn [spec_step].
  destruct (replace_int sg i) as [z|e]; [|cbn [fst out_of]; auto].
  cbn [fst]. rewrite (all_positional_length _ _ V). unfold norm_index.
  set (n := spec_len sg (abs sg st)).
  set (key := if z <? 0 then z + n else z).
  destruct ((key <? 0) || (n <=? key)) eqn:OOB; [cbn [fst out_of]; auto|].
  apply orb_false_elim in OOB. destruct OOB as [O1 O2].
  apply Z.ltb_ge in O1. apply Z.leb_gt in O2.
  destruct (del_indices_spec sg st [] [key] V I) as [st' [log' [A1 [A2 A3]]]].
  { constructor; [intros []|constructor]. }
  { intros x [E|[]]. subst x. fold n. lia. }
  rewrite A1. rewrite (unset_slots_single _ _ O1), abs_prefix_len in A3.
  destruct (key <? Z.of_nat (n0 sg)) eqn:C; cbn [fst out_of];
    (split; [reflexivity|]; split; [|exact A2]); rewrite A3.
  - apply Z.ltb_lt in C. rewrite filter_idx_single_lo by lia.
    unfold set_slot. reflexivity.
  - apply Z.ltb_ge in C. rewrite filter_idx_single by lia.
    replace (Z.to_nat (key - Z.of_nat (n0 sg))) with (Z.to_nat key - n0 sg)%nat by lia.
    reflexivity.
Qed.

Lemma refines_delslice sg st sl :
  valid_sig sg = true -> inv sg st -> refines_step sg st (ODelSlice sl).
Proof.
  intros V I. unfold refines_step, step, step_w, delslice. cbn [spec_step].
  cbn [fst]. rewrite (all_positional_length _ _ V).
  destruct (slice_indices (replace_part sg (sl_start sl)) (replace_part sg (sl_stop sl))
              (sl_step sl) (spec_len sg (abs sg st))) as [[[s e] stp]|] eqn:SI;
    [|cbn [fst out_of]; auto].
  destruct (slice_indices_some _ _ _ _ _ _ _ SI (spec_len_nonneg _ _)) as [NZ _].
  destruct (del_indices_spec sg st [] (py_range s e stp) V I) as [st' [log' [A1 [A2 A3]]]].
  { apply py_range_NoDup. exact NZ. }
  { intros x Hx. eapply slice_range_in_bounds; eauto. apply spec_len_nonneg. }
  rewrite A1. cbn [fst out_of]. auto.
Qed.

(* ================================================================== slice assignment *)

Lemma spec_len_set_pos sg sp j v : spec_len sg (set_pos sg sp j v) = spec_len sg sp.
Proof.
  unfold set_pos, spec_len. destruct (Nat.ltb j (n0 sg)); cbn [set_slot sp_varargs]; [reflexivity|].
  unfold zlen. rewrite list_set_nat_length. reflexivity.
Qed.

Lemma norm_index_in_range x n : 0 <= x < n -> norm_index x n = Some x.
Proof.
  intros H. unfold norm_index.
  replace (x <? 0) with false by (symmetry; apply Z.ltb_ge; lia).
  replace (x <? 0) with false by (symmetry; apply Z.ltb_ge; lia).
  replace (n <=? x) with false by (symmetry; apply Z.leb_gt; lia). reflexivity.
Qed.

Lemma set_each_spec sg rng : forall vs st log,
  valid_sig sg = true -> inv sg st ->
  (forall v, In v vs -> v <> NoValue) ->
  (forall x, In x rng -> 0 <= x < spec_len sg (abs sg st)) ->
  exists st' log',
    set_each sg (st, log) rng vs = ((st', log'), None)
    /\ abs sg st' = set_pos_each sg (abs sg st) rng vs /\ inv sg st'.
Proof.
  induction rng as [|x rng IH]; intros vs st log V I NV B.
  - exists st, log. cbn [set_each set_pos_each]. auto.
  - destruct vs as [|v vs].
    + exists st, log. cbn [set_each set_pos_each]. auto.
    + cbn [set_each set_pos_each].
      pose proof (set_item_by_index_spec sg st log x v V I (NV v (or_introl eq_refl))) as H.
      rewrite (norm_index_in_range _ _ (B x (or_introl eq_refl))) in H.
      destruct H as [st1 [log1 [H1 [H2 H3]]]]. rewrite H1.
      destruct (IH vs st1 log1 V H3) as [st' [log' [A1 [A2 A3]]]].
      * intros w Hw. apply NV. right. exact Hw.
      * intros y Hy. rewrite H2, spec_len_set_pos. apply B. right. exact Hy.
      * exists st', log'. split; [exact A1|]. split; [|exact A3]. rewrite A2, H2. reflexivity.
Qed.

Definition res (snap : store) (x : ph) : option ref :=
  match x with inl j => sget snap (KPos j) | inr v => Some v end.

Lemma renumber_spec sg snap (new : list ph) n : forall c a cur log,
  (a + c = n)%nat ->
  keys_distinct cur = true ->
  (forall idx, (a <= idx)%nat -> sget cur (kpos idx) = sget snap (kpos idx)) ->
  (forall idx, (a <= idx < n)%nat -> smem snap (kpos idx) = true) ->
  (forall idx j, (a <= idx)%nat -> nth_error new idx = Some (inl j) -> smem snap (KPos j) = true) ->
  exists cur' log',
    renumber_set (cur, log) snap new (nat_seq a c) = ((cur', log'), None)
    /\ keys_distinct cur' = true
    /\ abs_named sg cur' = abs_named sg cur
    /\ (forall k, (forall idx, (a <= idx < n)%nat -> k <> kpos idx) -> sget cur' k = sget cur k)
    /\ (forall idx, (a <= idx < n)%nat ->
                    sget cur' (kpos idx) =
                    match nth_error new idx with Some x => res snap x | None => None end).
Proof.
  induction c as [|c IH]; intros a cur log EQ D UN PR NW.
  - exists cur, log. cbn [nat_seq renumber_set]. repeat split; try reflexivity; try exact D.
    intros idx Hi. lia.
  - cbn [nat_seq renumber_set].
    assert (NW' : forall idx j, (S a <= idx)%nat -> nth_error new idx = Some (inl j) ->
                                smem snap (KPos j) = true)
      by (intros idx j Hi; apply NW; lia).
    assert (PR' : forall idx, (S a <= idx < n)%nat -> smem snap (kpos idx) = true)
      by (intros idx Hi; apply PR; lia).
    destruct (nth_error new a) as [[j|v]|] eqn:N.
    + destruct (j =? Z.of_nat a) eqn:E.
      * apply Z.eqb_eq in E.
        destruct (IH (S a) cur log ltac:(lia) D ltac:(intros idx Hi; apply UN; lia) PR' NW')
          as [cur' [log' [A1 [A2 [A3 [A4 A5]]]]]].
        exists cur', log'. split; [exact A1|]. split; [exact A2|]. split; [exact A3|]. split.
        -- intros k Hk. apply A4. intros idx Hi. apply Hk. lia.
        -- intros idx Hi. destruct (Nat.eq_dec idx a) as [Ea|Ea].
           ++ subst idx. rewrite N. rewrite A4 by (intros idx Hi'; apply kpos_neq; lia).
              rewrite UN by lia. cbn [res]. rewrite E. reflexivity.
           ++ apply A5. lia.
      * pose proof (NW a j (Nat.le_refl _) N) as M. apply smem_true in M. destruct M as [w M].
        rewrite M. unfold arg_set. cbn [fst snd].
        destruct (IH (S a) (sset cur (kpos a) w) (log ++ [WSet (kpos a) w]) ltac:(lia)
                    (keys_distinct_sset _ _ _ D)
                    ltac:(intros idx Hi; rewrite sget_sset_neq by (apply kpos_neq; lia); apply UN; lia)
                    PR' NW')
          as [cur' [log' [A1 [A2 [A3 [A4 A5]]]]]].
        exists cur', log'. split; [exact A1|]. split; [exact A2|]. split.
        { rewrite A3. unfold kpos. apply abs_named_sset_pos. }
        split.
        -- intros k Hk. rewrite A4 by (intros idx Hi; apply Hk; lia).
           apply sget_sset_neq. apply Hk. lia.
        -- intros idx Hi. destruct (Nat.eq_dec idx a) as [Ea|Ea].
           ++ subst idx. rewrite N. rewrite A4 by (intros idx Hi'; apply kpos_neq; lia).
              rewrite sget_sset_eq. cbn [res]. symmetry. exact M.
           ++ apply A5. lia.
    + unfold arg_set. cbn [fst snd].
      destruct (IH (S a) (sset cur (kpos a) v) (log ++ [WSet (kpos a) v]) ltac:(lia)
                  (keys_distinct_sset _ _ _ D)
                  ltac:(intros idx Hi; rewrite sget_sset_neq by (apply kpos_neq; lia); apply UN; lia)
                  PR' NW')
        as [cur' [log' [A1 [A2 [A3 [A4 A5]]]]]].
      exists cur', log'. split; [exact A1|]. split; [exact A2|]. split.
      { rewrite A3. unfold kpos. apply abs_named_sset_pos. }
      split.
      * intros k Hk. rewrite A4 by (intros idx Hi; apply Hk; lia).
        apply sget_sset_neq. apply Hk. lia.
      * intros idx Hi. destruct (Nat.eq_dec idx a) as [Ea|Ea].
        -- subst idx. rewrite N. rewrite A4 by (intros idx Hi'; apply kpos_neq; lia).
           rewrite sget_sset_eq. reflexivity.
        -- apply A5. lia.
    + unfold arg_del. cbn [fst snd].
      assert (M : smem cur (kpos a) = true).
      { rewrite smem_sget, UN by lia. rewrite <- smem_sget. apply PR. lia. }
      rewrite M.
      destruct (IH (S a) (sdel cur (kpos a)) (log ++ [WDel (kpos a)]) ltac:(lia)
                  (keys_distinct_sdel _ _ D)
                  ltac:(intros idx Hi; rewrite sget_sdel_neq by (apply kpos_neq; lia); apply UN; lia)
                  PR' NW')
        as [cur' [log' [A1 [A2 [A3 [A4 A5]]]]]].
      exists cur', log'. split; [exact A1|]. split; [exact A2|]. split.
      { rewrite A3. unfold kpos. apply abs_named_sdel_pos. }
      split.
      * intros k Hk. rewrite A4 by (intros idx Hi; apply Hk; lia).
        apply sget_sdel_neq. apply Hk. lia.
      * intros idx Hi. destruct (Nat.eq_dec idx a) as [Ea|Ea].
        -- subst idx. rewrite N. rewrite A4 by (intros idx Hi'; apply kpos_neq; lia).
           apply sget_sdel_eq. exact D.
        -- apply A5. lia.
Qed.

Lemma append_spec sg snap (new : list ph) : forall c a cur log,
  keys_distinct cur = true ->
  (0 < c -> a + c <= length new)%nat ->
  (forall idx j, (a <= idx)%nat -> nth_error new idx = Some (inl j) -> smem snap (KPos j) = true) ->
  exists cur' log',
    append_new (cur, log) snap new (nat_seq a c) = ((cur', log'), None)
    /\ keys_distinct cur' = true
    /\ abs_named sg cur' = abs_named sg cur
    /\ (forall k, (forall idx, (a <= idx < a + c)%nat -> k <> kpos idx) -> sget cur' k = sget cur k)
    /\ (forall idx, (a <= idx < a + c)%nat ->
                    sget cur' (kpos idx) =
                    match nth_error new idx with Some x => res snap x | None => None end).
Proof.
  induction c as [|c IH]; intros a cur log D LE NW.
  - exists cur, log. cbn [nat_seq append_new]. repeat split; try reflexivity; try exact D.
    intros idx Hi. lia.
  - cbn [nat_seq append_new].
    assert (NW' : forall idx j, (S a <= idx)%nat -> nth_error new idx = Some (inl j) ->
                                smem snap (KPos j) = true)
      by (intros idx j Hi; apply NW; lia).
    destruct (nth_error new a) as [x|] eqn:N; [|apply nth_error_None in N; lia].
    assert (exists w, res snap x = Some w) as [w RW].
    { destruct x as [j|v]; [|exists v; reflexivity].
      pose proof (NW a j (Nat.le_refl _) N) as M. apply smem_true in M. exact M. }
    assert (EQ : exists s1,
                 match x with
                 | inl j => match sget snap (KPos j) with
                            | Some v => append_new (arg_set (cur, log) (kpos a) v) snap new (nat_seq (S a) c)
                            | None => s1
                            end
                 | inr v => append_new (arg_set (cur, log) (kpos a) v) snap new (nat_seq (S a) c)
                 end = append_new (arg_set (cur, log) (kpos a) w) snap new (nat_seq (S a) c)).
    { exists ((cur, log), Some EKey).
      destruct x as [j|v]; cbn [res] in RW; [rewrite RW; reflexivity|].
      inversion RW. reflexivity. }
    destruct EQ as [s1 EQ]. cbv iota.
    match goal with
    | |- exists _ _, ?lhs = _ /\ _ =>
        replace lhs with (append_new (arg_set (cur, log) (kpos a) w) snap new (nat_seq (S a) c))
    end.
    2:{ destruct x as [j|v]; cbn [res] in RW; [rewrite RW; reflexivity|].
        inversion RW. reflexivity. }
    clear s1 EQ.
    unfold arg_set. cbn [fst snd].
    destruct (IH (S a) (sset cur (kpos a) w) (log ++ [WSet (kpos a) w])
                (keys_distinct_sset _ _ _ D) ltac:(lia) NW')
      as [cur' [log' [A1 [A2 [A3 [A4 A5]]]]]].
    exists cur', log'. split; [exact A1|]. split; [exact A2|]. split.
    { rewrite A3. unfold kpos. apply abs_named_sset_pos. }
    split.
    + intros k Hk. rewrite A4 by (intros idx Hi; apply Hk; lia).
      apply sget_sset_neq. apply Hk. lia.
    + intros idx Hi. destruct (Nat.eq_dec idx a) as [Ea|Ea].
      * subst idx. rewrite N. rewrite A4 by (intros idx Hi'; apply kpos_neq; lia).
        rewrite sget_sset_eq. symmetry. exact RW.
      * apply A5. lia.
Qed.

(* ------------------------------------------------------------------ placeholders *)

Definition resolveV (view : list ref) (x : ph) : ref :=
  match x with inl j => nth (Z.to_nat j) view NoValue | inr v => v end.

Lemma placeholders_length n : length (placeholders n) = n.
Proof. unfold placeholders. rewrite map_length, nat_seq_eq, seq_length. reflexivity. Qed.

Lemma placeholders_nth n k :
  nth_error (placeholders n) k = if Nat.ltb k n then Some (inl (Z.of_nat k)) else None.
Proof.
  unfold placeholders. rewrite nat_seq_eq, nth_error_map.
  destruct (Nat.ltb k n) eqn:L.
  - apply Nat.ltb_lt in L. rewrite (nth_error_nth' _ 0%nat) by (rewrite seq_length; exact L).
    rewrite seq_nth by exact L. reflexivity.
  - apply Nat.ltb_ge in L.
    replace (nth_error (seq 0 n) k) with (@None nat); [reflexivity|].
    symmetry. apply nth_error_None. rewrite seq_length. exact L.
Qed.

Lemma map_resolve_placeholders view : map (resolveV view) (placeholders (length view)) = view.
Proof.
  apply nth_error_ext. intros k. rewrite nth_error_map, placeholders_nth.
  destruct (Nat.ltb k (length view)) eqn:L.
  - apply Nat.ltb_lt in L. cbn [option_map resolveV]. rewrite Nat2Z.id.
    symmetry. apply nth_error_nth'. exact L.
  - apply Nat.ltb_ge in L. cbn [option_map]. symmetry. apply nth_error_None. exact L.
Qed.

Lemma map_resolve_inr view vs : map (resolveV view) (map inr vs) = vs.
Proof. rewrite map_map. cbn [resolveV]. apply map_id. Qed.

Definition ph_ok (n n0' : nat) (new : list ph) : Prop :=
  forall idx j, nth_error new idx = Some (inl j) ->
                exists jn, j = Z.of_nat jn /\ (jn < n)%nat /\ (n0' <= jn \/ idx = jn)%nat.

Definition ph_id (n : nat) (l : list ph) : Prop :=
  forall idx j, nth_error l idx = Some (inl j) -> j = Z.of_nat idx /\ (idx < n)%nat.

Lemma ph_id_placeholders n : ph_id n (placeholders n).
Proof.
  intros idx j H. rewrite placeholders_nth in H. destruct (Nat.ltb idx n) eqn:L; [|discriminate].
  apply Nat.ltb_lt in L. inversion H. auto.
Qed.

Lemma ph_id_assign n idxs : forall (l : list ph) vs,
  ph_id n l -> ph_id n (assign_each l idxs (map inr vs)).
Proof.
  induction idxs as [|i idxs IH]; intros l vs H; [exact H|].
  destruct vs as [|v vs]; cbn [map assign_each]; [exact H|].
  apply IH. intros idx j G. rewrite list_set_nat_nth_error in G.
  destruct (Nat.eqb idx (Z.to_nat i)).
  - destruct (Nat.ltb (Z.to_nat i) (length l)); discriminate.
  - apply H. exact G.
Qed.

Lemma ph_ok_set_slice n n0' a b step vs new s e stp :
  slice_indices a b step (Z.of_nat n) = Some (s, e, stp) ->
  (stp = 1 -> Z.of_nat n0' <= s) ->
  list_set_slice (placeholders n) a b step (map inr vs) = Some new ->
  ph_ok n n0' new.
Proof.
  intros SI S1 LS. unfold list_set_slice in LS. unfold zlen in LS.
  rewrite placeholders_length, SI in LS.
  destruct (stp =? 1) eqn:E1.
  - apply Z.eqb_eq in E1. specialize (S1 E1). inversion LS. subst new. clear LS.
    intros idx j H.
    set (k := Z.to_nat s) in *. set (m := Z.to_nat (Z.max s e)) in *.
    destruct (Nat.lt_ge_cases idx (length (firstn k (placeholders n)))) as [C|C].
    + rewrite nth_error_app1 in H by exact C. rewrite nth_error_firstn' in H.
      destruct (Nat.ltb idx k); [|discriminate].
      apply ph_id_placeholders in H. destruct H as [A B]. exists idx. auto.
    + rewrite nth_error_app2 in H by exact C.
      destruct (Nat.lt_ge_cases (idx - length (firstn k (placeholders n))) (length (map (@inr Z ref) vs)))
        as [C2|C2].
      * rewrite nth_error_app1 in H by exact C2. rewrite nth_error_map in H.
        destruct (nth_error vs _); discriminate.
      * rewrite nth_error_app2 in H by exact C2. rewrite nth_error_skipn' in H.
        apply ph_id_placeholders in H. destruct H as [A B].
        eexists. split; [exact A|]. split; [exact B|]. left. unfold m. lia.
  - destruct (Nat.eqb _ _); [|discriminate]. inversion LS. subst new.
    pose proof (ph_id_assign n (py_range s e stp) (placeholders n) vs (ph_id_placeholders n)) as Q.
    intros idx j H. apply Q in H. destruct H as [A B]. exists idx. auto.
Qed.

Lemma list_min_step1 s e : list_min s (py_range s e 1) <= s.
Proof.
  rewrite py_range_step1. destruct (Z.to_nat (e - s)) as [|k]; cbn [range_from].
  - rewrite list_min_nil. lia.
  - apply list_min_head_le.
Qed.

Lemma view_prefix_length ps : forall slots,
  length slots = length ps -> length (view_prefix ps slots) = length ps.
Proof.
  induction ps as [|p ps IH]; intros slots H; [reflexivity|].
  destruct slots as [|o slots]; [discriminate|]. cbn [view_prefix length].
  rewrite IH; [reflexivity|]. cbn [length] in H. lia.
Qed.

Lemma spec_view_prefix_length sg st :
  length (view_prefix (prefix_params sg) (sp_prefix (abs sg st))) = n0 sg.
Proof. rewrite view_prefix_length; [reflexivity|]. apply abs_prefix_len. Qed.

Lemma spec_view_length sg st : length (spec_view sg (abs sg st)) = (n0 sg + length (abs_va sg st))%nat.
Proof.
  unfold spec_view. rewrite app_length, spec_view_prefix_length. rewrite abs_unfold. reflexivity.
Qed.

Lemma setslice_inner sg st log (new : list ph) :
  valid_sig sg = true -> inv sg st -> has_varpos sg = true ->
  ph_ok (n0 sg + length (abs_va sg st)) (n0 sg) new ->
  (forall v, In (inr v) new -> v <> NoValue) ->
  exists st' log',
    match renumber_set (st, log) st new (nat_seq (n0 sg) (n0 sg + length (abs_va sg st) - n0 sg)) with
    | (s1, None) =>
        append_new s1 st new
          (nat_seq (n0 sg + length (abs_va sg st)) (length new - (n0 sg + length (abs_va sg st))))
    | r => r
    end = ((st', log'), None)
    /\ inv sg st'
    /\ abs sg st' = mkspec (sp_prefix (abs sg st))
                           (skipn (n0 sg) (map (resolveV (spec_view sg (abs sg st))) new))
                           (sp_named (abs sg st)).
Proof.
  intros V I HV OK NVr.
  set (L := length (abs_va sg st)). fold L in OK.
  pose proof (inv_elim _ _ I) as [D IE].
  pose proof (abs_va_run _ _ V I) as [RUN1 RUN2]. fold L in RUN1, RUN2.
  assert (PR : forall idx, (n0 sg <= idx < n0 sg + L)%nat -> smem st (kpos idx) = true).
  { intros idx Hi. apply (va_mem _ _ _ V I); [lia|]. fold L. lia. }
  assert (NW : forall idx j, (n0 sg <= idx)%nat -> nth_error new idx = Some (inl j) ->
                             exists jn, j = Z.of_nat jn /\ (n0 sg <= jn < n0 sg + L)%nat).
  { intros idx j Hi H. destruct (OK idx j H) as [jn [A [B C]]]. exists jn. split; [exact A|]. lia. }
  assert (NWm : forall idx j, (n0 sg <= idx)%nat -> nth_error new idx = Some (inl j) ->
                              smem st (KPos j) = true).
  { intros idx j Hi H. destruct (NW idx j Hi H) as [jn [A B]]. subst j. apply (PR jn). exact B. }
  destruct (renumber_spec sg st new (n0 sg + L) (n0 sg + L - n0 sg) (n0 sg) st log
              ltac:(lia) D (fun idx _ => eq_refl) PR NWm) as [st1 [log1 [R1 [D1 [R3 [R4 R5]]]]]].
  rewrite R1.
  destruct (append_spec sg st new (length new - (n0 sg + L)) (n0 sg + L) st1 log1 D1 ltac:(lia)
              ltac:(intros idx j Hi; apply NWm; lia)) as [st2 [log2 [P1 [D2 [P3 [P4 P5]]]]]].
  exists st2, log2. split; [exact P1|].
  set (view := spec_view sg (abs sg st)).
  assert (RES : forall idx, (n0 sg <= idx)%nat ->
                            sget st2 (kpos idx) =
                            match nth_error new idx with Some x => res st x | None => None end).
  { intros idx Hi.
    destruct (Nat.lt_ge_cases idx (n0 sg + L)) as [C|C].
    - rewrite P4 by (intros idx' Hi'; apply kpos_neq; lia). apply R5. lia.
    - destruct (Nat.lt_ge_cases idx (n0 sg + L + (length new - (n0 sg + L)))) as [C2|C2].
      + apply P5. lia.
      + rewrite P4 by (intros idx' Hi'; apply kpos_neq; lia).
        rewrite R4 by (intros idx' Hi'; apply kpos_neq; lia).
        replace (nth_error new idx) with (@None ph) by (symmetry; apply nth_error_None; lia).
        apply smem_false. destruct (smem st (kpos idx)) eqn:M; [|reflexivity].
        apply (va_mem _ _ _ V I) in M; [|lia]. fold L in M. lia. }
  assert (RV : forall idx x, (n0 sg <= idx)%nat -> nth_error new idx = Some x ->
                             res st x = Some (resolveV view x)).
  { intros idx x Hi H. destruct x as [j|v]; [|reflexivity].
    destruct (NW idx j Hi H) as [jn [Ej Hj]]. subst j. cbn [res resolveV]. rewrite Nat2Z.id.
    fold (kpos jn). replace jn with (n0 sg + (jn - n0 sg))%nat at 1 by lia.
    rewrite RUN1 by lia. unfold view, spec_view.
    rewrite app_nth2 by (rewrite spec_view_prefix_length; lia).
    rewrite spec_view_prefix_length. rewrite abs_unfold. cbn [sp_varargs].
    apply nth_error_nth'. fold L. lia. }
  destruct (va_replaced sg st st2 (skipn (n0 sg) (map (resolveV view) new)) V I D2) as [I2 AB2].
  - intros k Hk. rewrite P4 by (intros idx Hi; apply Hk; lia).
    apply R4. intros idx Hi. apply Hk. lia.
  - rewrite P3. exact R3.
  - intros idx Hi. rewrite nth_error_skipn', nth_error_map.
    replace (n0 sg + (idx - n0 sg))%nat with idx by lia.
    rewrite (RES _ Hi). destruct (nth_error new idx) as [x|] eqn:N; [|reflexivity].
    cbn [option_map]. apply (RV idx); assumption.
  - intros v Hv. apply In_nth_error in Hv. destruct Hv as [d Hd].
    rewrite nth_error_skipn', nth_error_map in Hd.
    destruct (nth_error new (n0 sg + d)) as [x|] eqn:N; [|discriminate].
    cbn [option_map] in Hd. inversion Hd. subst v.
    destruct x as [j|v].
    + pose proof (RV (n0 sg + d)%nat _ ltac:(lia) N) as E. cbn [res] in E. apply IE in E. apply E.
    + cbn [resolveV]. apply NVr. eapply nth_error_In. exact N.
  - intros _. exact HV.
  - split; [exact I2|exact AB2].
Qed.

Lemma refines_setslice sg st sl vs :
  valid_sig sg = true -> inv sg st -> op_ok (OSetSlice sl vs) = true ->
  refines_step sg st (OSetSlice sl vs).
Proof.
  intros V I OK. unfold refines_step, step, step_w, set_item_by_slice. cbn [spec_step fst].
  assert (NV : forall v, In v vs -> v <> NoValue).
  { cbn [op_ok] in OK. rewrite forallb_forall in OK. intros v Hv E.
    specialize (OK v Hv). apply negb_true_iff in OK. apply ref_eqb_eq in E. congruence. }
  change (Z.of_nat (length (all_positional sg st))) with (zlen (all_positional sg st)).
  rewrite (all_positional_length _ _ V).
  destruct (slice_indices (replace_part sg (sl_start sl)) (replace_part sg (sl_stop sl))
              (sl_step sl) (spec_len sg (abs sg st))) as [[[s e] stp]|] eqn:SI;
    [|cbn [fst out_of]; auto].
  assert (SP : match vps sg with
               | Some v => list_min s (py_range s e stp) <? Z.of_nat v
               | None => true
               end = negb (has_varpos sg) || (list_min s (py_range s e stp) <? Z.of_nat (n0 sg))).
  { unfold has_varpos. destruct (vps sg) as [v|] eqn:VP; [|reflexivity].
    rewrite (vps_n0 _ _ V VP). reflexivity. }
  rewrite SP. clear SP.
  destruct (negb (has_varpos sg) || (list_min s (py_range s e stp) <? Z.of_nat (n0 sg))) eqn:SPANS.
  - (* the slice reaches the prefix *)
    destruct (Nat.eqb (length (py_range s e stp)) (length vs)); [|cbn [fst out_of]; auto].
    destruct (set_each_spec sg (py_range s e stp) vs st [] V I NV) as [st' [log' [A1 [A2 A3]]]].
    { intros x Hx. eapply slice_range_in_bounds; eauto. apply spec_len_nonneg. }
    rewrite A1. cbn [fst out_of]. auto.
  - apply orb_false_elim in SPANS. destruct SPANS as [HV FI].
    apply negb_false_iff in HV. apply Z.ltb_ge in FI.
    pose proof HV as HV'. unfold has_varpos in HV'.
    destruct (vps sg) as [v|] eqn:VP; [|discriminate].
    pose proof (vps_n0 _ _ V VP) as Ev. subst v.
    rewrite (all_positional_len_nat _ _ V).
    set (view := spec_view sg (abs sg st)).
    set (n := (n0 sg + length (abs_va sg st))%nat).
    assert (Ln : length view = n) by apply spec_view_length.
    assert (LS : list_set_slice view (replace_part sg (sl_start sl)) (replace_part sg (sl_stop sl))
                   (sl_step sl) vs
                 = option_map (map (resolveV view))
                     (list_set_slice (placeholders n) (replace_part sg (sl_start sl))
                        (replace_part sg (sl_stop sl)) (sl_step sl) (map inr vs))).
    { rewrite <- list_set_slice_map. rewrite map_resolve_inr. rewrite <- Ln.
      rewrite map_resolve_placeholders. reflexivity. }
    rewrite LS. clear LS.
    destruct (list_set_slice (placeholders n) (replace_part sg (sl_start sl))
                (replace_part sg (sl_stop sl)) (sl_step sl) (map inr vs)) as [new|] eqn:LSP;
      [|cbn [option_map fst out_of]; auto].
    cbn [option_map].
    assert (SLn : spec_len sg (abs sg st) = Z.of_nat n).
    { unfold spec_len, n, zlen. rewrite abs_unfold. cbn [sp_varargs]. lia. }
    assert (OKn : ph_ok n (n0 sg) new).
    { eapply ph_ok_set_slice; [rewrite <- SLn; exact SI| |exact LSP].
      intros E1. subst stp. pose proof (list_min_step1 s e). lia. }
    destruct (setslice_inner sg st [] new V I HV OKn) as [st' [log' [A1 [A2 A3]]]].
    { intros v Hv. destruct (list_set_slice_In _ _ _ _ _ _ _ LSP Hv) as [H|H].
      - unfold placeholders in H. apply in_map_iff in H. destruct H as [k [E _]]. discriminate.
      - apply in_map_iff in H. destruct H as [w [E Hw]]. inversion E. subst w. apply NV, Hw. }
    fold n in A1. rewrite A1. cbn [fst out_of]. auto.
Qed.

(* ================================================================== every operation, every history *)

Theorem refines_all sg st o :
  valid_sig sg = true -> inv sg st -> op_ok o = true -> refines_step sg st o.
Proof.
  intros V I OK. destruct o.
  - apply refines_getattr; assumption.
  - apply refines_setattr; assumption.
  - apply refines_delattr; assumption.
  - apply refines_getitem; assumption.
  - apply refines_setitem; assumption.
  - apply refines_delitem; assumption.
  - apply refines_getslice; assumption.
  - apply refines_setslice; assumption.
  - apply refines_delslice; assumption.
Qed.

Theorem refines_history sg ops : forall st,
  valid_sig sg = true -> inv sg st -> forallb op_ok ops = true ->
  let run := fold_left (fun s o => fst (step sg s o)) ops st in
  inv sg run
  /\ abs sg run = fold_left (fun sp o => fst (spec_step sg sp o)) ops (abs sg st).
Proof.
  induction ops as [|o ops IH]; intros st V I OK.
  - cbn [fold_left]. split; [exact I|reflexivity].
  - cbn [forallb] in OK. apply andb_prop in OK. destruct OK as [OK1 OK2].
    pose proof (refines_all sg st o V I OK1) as R. unfold refines_step in R.
    cbn [fold_left].
    destruct (step sg st o) as [st' r]. destruct (spec_step sg (abs sg st) o) as [sp' r'].
    destruct R as [_ [A B]]. cbn [fst]. rewrite <- A. apply IH; assumption.
Qed.

(* every result reported along a history is the one the specification reports *)
Fixpoint outs_model (sg : sig) (st : store) (ops : list op) : list out :=
  match ops with
  | [] => []
  | o :: rest => let '(st', r) := step sg st o in r :: outs_model sg st' rest
  end.

Fixpoint outs_spec (sg : sig) (sp : spec) (ops : list op) : list out :=
  match ops with
  | [] => []
  | o :: rest => let '(sp', r) := spec_step sg sp o in r :: outs_spec sg sp' rest
  end.

Theorem refines_history_outputs sg ops : forall st,
  valid_sig sg = true -> inv sg st -> forallb op_ok ops = true ->
  outs_model sg st ops = outs_spec sg (abs sg st) ops.
Proof.
  induction ops as [|o ops IH]; intros st V I OK; [reflexivity|].
  cbn [forallb] in OK. apply andb_prop in OK. destruct OK as [OK1 OK2].
  pose proof (refines_all sg st o V I OK1) as R. unfold refines_step in R.
  cbn [outs_model outs_spec].
  destruct (step sg st o) as [st' r]. destruct (spec_step sg (abs sg st) o) as [sp' r'].
  destruct R as [E [A B]]. subst r' sp'. f_equal. apply IH; assumption.
Qed.

(* ================================================================== non-vacuity *)

(* def f(a, b=10, /, c, d=20, *args, e, g=30, **kw) *)
Definition ex_sig : sig :=
  [ mkparam 1%N PosOnly None false;
    mkparam 2%N PosOnly (Some (RA (AInt 10))) false;
    mkparam 3%N PosOrKw (Some (RA (AInt 15))) false;
    mkparam 4%N PosOrKw (Some (RA (AInt 20))) false;
    mkparam 5%N VarPos None false;
    mkparam 6%N KwOnly None false;
    mkparam 7%N KwOnly (Some (RA (AInt 30))) false;
    mkparam 8%N VarKw None false ].

(* Config(f, 1, c=3, e=6, extra=9) then cfg[4:] = [41, 42] : {0: 1, 'c': 3, 'e': 6, 'extra': 9, 4: 41, 5: 42} *)
Definition ex_store : store :=
  [ (KPos 0, RA (AInt 1)); (KName 3%N, RA (AInt 3)); (KName 6%N, RA (AInt 6));
    (KName 99%N, RA (AInt 9)); (KPos 4, RA (AInt 41)); (KPos 5, RA (AInt 42)) ].

Example ex_nonvacuous : valid_sig ex_sig = true /\ inv ex_sig ex_store.
Proof. split; vm_compute; reflexivity. Qed.

Example ex_abs :
  abs ex_sig ex_store =
  mkspec [Some (RA (AInt 1)); None; Some (RA (AInt 3)); None]
         [RA (AInt 41); RA (AInt 42)]
         [(6%N, RA (AInt 6)); (99%N, RA (AInt 9))].
Proof. vm_compute. reflexivity. Qed.

(* a history exercising every operation class on the example; all steps satisfy op_ok *)
Definition ex_ops : list op :=
  [ OSetAttr 4%N (RA (AInt 7)); OGetAttr 3%N; ODelAttr 3%N; OSetItem (IInt (-1)) (RA (AInt 8));
    OGetItem IVarargs; ODelItem (IInt 4);
    OSetSlice (mkslice (Some IVarargs) None None) [RA (AInt 50); RA (AInt 51); RA (AInt 52)];
    OGetSlice (mkslice None None (Some (-1))); ODelSlice (mkslice (Some (IInt 1)) None (Some 2));
    OSetSlice (mkslice (Some (IInt 0)) (Some (IInt 2)) None) [RA (AInt 60); RA (AInt 61)] ].

Example ex_history :
  forallb op_ok ex_ops = true
  /\ abs ex_sig (fold_left (fun s o => fst (step ex_sig s o)) ex_ops ex_store)
     = mkspec [Some (RA (AInt 60)); Some (RA (AInt 61)); None; None]
              [RA (AInt 50); RA (AInt 52)]
              [(6%N, RA (AInt 6)); (99%N, RA (AInt 9))].
Proof. split; vm_compute; reflexivity. Qed.
