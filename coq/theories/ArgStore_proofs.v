(* Proofs about ArgStore (the algorithm) against ArgSpec (the bound-argument list specification).
   Kept out of the model files so that the model still runs when a proof breaks. *)
From Fiddle Require Import PyBase PySlice Sig ArgStore ArgSpec.

(* The statements to be established (C03).  *)
Definition refines_step (sg : sig) (st : store) (o : op) : Prop :=
  let '(st', r) := step sg st o in
  let '(sp', r') := spec_step sg (abs sg st) o in
  r = r' /\ abs sg st' = sp' /\ inv sg st'.

(* rejected edits change nothing -- on the specification this is immediate *)
Lemma spec_errors_frame sg sp o sp' e : spec_step sg sp o = (sp', OErr e) -> sp' = sp.
Proof.
  destruct o; cbn [spec_step]; intros H;
    repeat match type of H with
           | context [match ?x with _ => _ end] => destruct x eqn:?
           | context [if ?x then _ else _] => destruct x eqn:?
           end; inversion H; subst; reflexivity.
Qed.
