(* Non-interference for all interleavings of the modelled atomic actions. *)
From Fiddle Require Import Threads.
From Coq Require Import List Arith Bool Lia Sorted.
Import ListNotations.

Section Proofs.
  Variable f : nat -> nat.

  Definition agree (t : tid) (g g' : gstate) : Prop :=
    g_in_build g t = g_in_build g' t /\ g_tracking g t = g_tracking g' t.

  Lemma upd_same {A} (h : nat -> A) k v : upd h k v k = v.
  Proof. unfold upd. rewrite Nat.eqb_refl. reflexivity. Qed.

  Lemma upd_other {A} (h : nat -> A) k v x : x <> k -> upd h k v x = h x.
  Proof. intros Hne. unfold upd. destruct (Nat.eqb_spec x k); [contradiction | reflexivity]. Qed.

  (* a step of another thread does not touch t's flags *)
  Lemma step_other t t' a g : t' <> t -> agree t g (fst (step f g t' a)).
  Proof.
    intros Hne. unfold agree. destruct a; cbn [step];
      repeat match goal with |- context [if ?b then _ else _] => destruct b end;
      cbn [fst g_in_build g_tracking]; rewrite ?upd_other by congruence; split; reflexivity.
  Qed.

  (* a step of t itself depends only on t's flags (up to the erased parts) *)
  Lemma step_self t a g g' :
    agree t g g' ->
    agree t (fst (step f g t a)) (fst (step f g' t a)) /\
    erase (snd (step f g t a)) = erase (snd (step f g' t a)).
  Proof.
    intros [Hb Ht]. unfold agree. destruct a; cbn [step].
    - rewrite Hb. destruct (g_in_build g' t) eqn:Hb'; cbn [fst snd g_in_build g_tracking erase];
        rewrite ?upd_same; repeat split; auto; congruence.
    - cbn [fst snd g_in_build g_tracking erase]. rewrite !upd_same. repeat split; auto.
    - cbn [fst snd g_in_build g_tracking erase]. rewrite !upd_same. repeat split; auto.
    - rewrite Ht. destruct (g_tracking g' t) eqn:Ht'; cbn [fst snd g_in_build g_tracking erase];
        repeat split; auto; congruence.
    - cbn [fst snd erase]. repeat split; auto.
    - cbn [fst snd g_in_build g_tracking erase]. repeat split; auto.
  Qed.

  Lemma agree_trans t a b c : agree t a b -> agree t b c -> agree t a c.
  Proof. unfold agree. intros [A1 A2] [B1 B2]. split; congruence. Qed.
  Lemma agree_sym t a b : agree t a b -> agree t b a.
  Proof. unfold agree. intros [A1 A2]. split; congruence. Qed.

  Definition only (t : tid) (sched : list (tid * action)) : list (tid * action) :=
    filter (fun x => Nat.eqb (fst x) t) sched.

  (* NON-INTERFERENCE: in every schedule, thread t observes (up to the renaming of sequence ids
     and cache hit/miss) exactly what it observes when its actions run alone *)
  Theorem noninterference t : forall sched g g',
    agree t g g' ->
    map erase (proj t (snd (run f g sched))) = map erase (proj t (snd (run f g' (only t sched)))).
  Proof.
    induction sched as [|[t' a] rest IH]; intros g g' Hag.
    - reflexivity.
    - cbn [run only filter fst].
      destruct (step f g t' a) as [g1 o] eqn:Hs.
      destruct (run f g1 rest) as [g2 os] eqn:Hr.
      destruct (Nat.eqb_spec t' t) as [->|Hne].
      + cbn [run]. destruct (step f g' t a) as [g1' o'] eqn:Hs'.
        destruct (run f g1' (filter (fun x => Nat.eqb (fst x) t) rest)) as [g2' os'] eqn:Hr'.
        cbn [snd]. unfold proj. cbn [filter fst]. rewrite Nat.eqb_refl. cbn [map snd].
        pose proof (step_self t a g g' Hag) as [Hag1 Heq]. rewrite Hs, Hs' in Hag1, Heq.
        cbn [fst snd] in Hag1, Heq. rewrite Heq. f_equal.
        specialize (IH g1 g1' Hag1). rewrite Hr in IH. unfold only in IH. rewrite Hr' in IH.
        exact IH.
      + cbn [snd]. unfold proj at 1. cbn [filter fst].
        destruct (Nat.eqb_spec t' t) as [E|_]; [contradiction|].
        fold (proj t os).
        pose proof (step_other t t' a g Hne) as Hag1. rewrite Hs in Hag1. cbn [fst] in Hag1.
        specialize (IH g1 g' (agree_trans t _ _ _ (agree_sym t _ _ Hag1) Hag)).
        rewrite Hr in IH. exact IH.
  Qed.

  (* SEQUENCE IDS: every id issued by a run is >= the initial counter and < the final one, and ids
     are strictly increasing along the schedule: unique across all threads, increasing within each *)
  Definition all_seqs (os : list (tid * obs)) : list nat := seqs_of (map snd os).

  Lemma step_counter g t a : g_counter g <= g_counter (fst (step f g t a)).
  Proof.
    destruct a; cbn [step]; repeat match goal with |- context [if ?b then _ else _] => destruct b end;
      cbn [fst g_counter]; lia.
  Qed.

  Lemma run_counter : forall sched g, g_counter g <= g_counter (fst (run f g sched)).
  Proof.
    induction sched as [|[t a] rest IH]; intros g; cbn [run]; [cbn; lia|].
    destruct (step f g t a) as [g1 o] eqn:Hs. specialize (IH g1).
    destruct (run f g1 rest) as [g2 os]. cbn [fst] in *.
    pose proof (step_counter g t a) as H. rewrite Hs in H. cbn [fst] in H. lia.
  Qed.

  Lemma run_seqs_bounds : forall sched g n,
    In n (all_seqs (snd (run f g sched))) -> g_counter g <= n < g_counter (fst (run f g sched)).
  Proof.
    induction sched as [|[t a] rest IH]; intros g n Hin; cbn [run] in *; [destruct Hin|].
    destruct (step f g t a) as [g1 o] eqn:Hs.
    pose proof (run_counter rest g1) as Hmono. specialize (IH g1 n).
    destruct (run f g1 rest) as [g2 os]. cbn [fst snd] in *.
    unfold all_seqs in Hin. cbn [map snd seqs_of flat_map] in Hin. apply in_app_or in Hin.
    pose proof (step_counter g t a) as Hc. rewrite Hs in Hc. cbn [fst] in Hc.
    destruct Hin as [Hin|Hin].
    - destruct a; cbn [step] in Hs;
        repeat match type of Hs with context [if ?b then _ else _] => destruct b end;
        inversion Hs; subst; cbn in Hin; try contradiction.
      destruct Hin as [<-|[]]. cbn [g_counter] in *. lia.
    - specialize (IH Hin). lia.
  Qed.

  Theorem seqs_strictly_increasing : forall sched g,
    StronglySorted lt (all_seqs (snd (run f g sched))).
  Proof.
    induction sched as [|[t a] rest IH]; intros g; cbn [run]; [constructor|].
    destruct (step f g t a) as [g1 o] eqn:Hs.
    pose proof (run_seqs_bounds rest g1) as Hb. specialize (IH g1).
    destruct (run f g1 rest) as [g2 os]. cbn [fst snd] in *.
    unfold all_seqs in *. cbn [map snd seqs_of flat_map].
    destruct a; cbn [step] in Hs;
      repeat match type of Hs with context [if ?b then _ else _] => destruct b eqn:? end;
      inversion Hs; subst; cbn [app]; try exact IH.
    constructor; [exact IH|]. apply Forall_forall. intros n Hn. specialize (Hb n Hn).
    cbn [g_counter] in Hb. lia.
  Qed.

  Corollary seqs_unique sched g : NoDup (all_seqs (snd (run f g sched))).
  Proof.
    pose proof (seqs_strictly_increasing sched g) as H. induction H as [|x l Hs IH Hf]; constructor; auto.
    intros Hin. rewrite Forall_forall in Hf. specialize (Hf x Hin). lia.
  Qed.

  (* within one thread the ids are a subsequence of the global list, hence increasing too *)
  Lemma seqs_proj_sorted t : forall (os : list (tid * obs)),
    StronglySorted lt (all_seqs os) -> StronglySorted lt (seqs_of (proj t os)).
  Proof.
    induction os as [|[t' o] os IH]; intros Hs; [constructor|].
    unfold all_seqs in Hs. cbn [map snd seqs_of flat_map] in Hs.
    assert (Hrest : StronglySorted lt (all_seqs os)).
    { destruct o as [| |[n|]| |]; cbn [app] in Hs; try exact Hs. inversion Hs; assumption. }
    unfold proj. cbn [filter fst]. destruct (Nat.eqb t' t); [|exact (IH Hrest)].
    cbn [map snd seqs_of flat_map]. fold (proj t os).
    destruct o as [| |[n|]| |]; cbn [app]; try exact (IH Hrest).
    constructor; [exact (IH Hrest)|].
    inversion Hs as [|? ? _ Hall]; subst. apply Forall_forall. intros m Hm.
    rewrite Forall_forall in Hall. apply Hall.
    (* every id of thread t is an id of the whole run *)
    clear -Hm. induction os as [|[t2 o2] os IH2]; [destruct Hm|].
    unfold proj in Hm. cbn [filter fst] in Hm. unfold all_seqs. cbn [map snd seqs_of flat_map].
    apply in_or_app. destruct (Nat.eqb t2 t).
    + cbn [map snd seqs_of flat_map] in Hm. apply in_app_or in Hm. destruct Hm as [Hm|Hm]; [left; exact Hm|].
      right. apply IH2. exact Hm.
    + right. apply IH2. exact Hm.
  Qed.

  Theorem seqs_increasing_per_thread t sched g :
    StronglySorted lt (seqs_of (proj t (snd (run f g sched)))).
  Proof. apply seqs_proj_sorted. apply seqs_strictly_increasing. Qed.

  (* CACHES: a shared cache never returns anything but f k, whichever thread stored it *)
  Lemma step_cache_ok g t a : cache_ok f g -> cache_ok f (fst (step f g t a)).
  Proof.
    intros Hok. destruct a; cbn [step];
      repeat match goal with |- context [if ?b then _ else _] => destruct b end;
      cbn [fst]; try exact Hok.
    intros k' v. cbn [g_cache]. unfold upd. destruct (Nat.eqb_spec k' k) as [->|Hne].
    - intros H. inversion H. reflexivity.
    - apply Hok.
  Qed.

  Theorem cache_sound : forall sched g,
    cache_ok f g ->
    cache_ok f (fst (run f g sched)) /\
    (forall t v, In (t, OCache (Some v)) (snd (run f g sched)) ->
       exists k, v = f k).
  Proof.
    induction sched as [|[t a] rest IH]; intros g Hok; cbn [run].
    - split; [exact Hok | intros ? ? []].
    - destruct (step f g t a) as [g1 o] eqn:Hs.
      pose proof (step_cache_ok g t a Hok) as Hok1. rewrite Hs in Hok1. cbn [fst] in Hok1.
      specialize (IH g1 Hok1). destruct (run f g1 rest) as [g2 os]. cbn [fst snd] in *.
      destruct IH as [IH1 IH2]. split; [exact IH1|].
      intros t0 v [Heq|Hin]; [|eapply IH2; eauto].
      inversion Heq; subst. destruct a; cbn [step] in Hs;
        repeat match type of Hs with context [if ?b then _ else _] => destruct b end;
        inversion Hs; subst.
      exists k. eapply Hok. eassumption.
  Qed.

  (* the nested-build guard is per thread: another thread's build never makes t's build fail *)
  Theorem guard_per_thread t sched g :
    g_in_build g t = false ->
    (forall a, In (t, a) sched -> a <> AEnterBuild) ->
    g_in_build (fst (run f g sched)) t = false \/ exists a, In (t, a) sched.
  Proof.
    revert g. induction sched as [|[t' a] rest IH]; intros g Hb Hno; cbn [run]; [left; exact Hb|].
    destruct (Nat.eqb_spec t' t) as [->|Hne]; [right; exists a; left; reflexivity|].
    destruct (step f g t' a) as [g1 o] eqn:Hs.
    pose proof (step_other t t' a g Hne) as [Hb1 _]. rewrite Hs in Hb1. cbn [fst] in Hb1.
    specialize (IH g1). destruct (run f g1 rest) as [g2 os]. cbn [fst] in *.
    destruct IH as [IH|[a' Ha']].
    - congruence.
    - intros a' Ha'. apply Hno. right. exact Ha'.
    - left. exact IH.
    - right. exists a'. right. exact Ha'.
  Qed.
End Proofs.
