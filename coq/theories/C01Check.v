(* C01Check: correspondence checker for build-time argument binding.
   A case: the signature, the __arguments__ dict of the Config at build time (values already built),
   and what the recording callable observed (or None when fdl.build raised TypeError). *)
From Fiddle Require Import PyBase PySlice Sig ArgStore ArgSpec PyCall.

(* the storage invariant C01 assumes: ArgSpec's, except that a stored *name* may coincide with a
   positional-only / variadic parameter when the callable has **kwargs (f(a, /, **kw) called as
   f(1, a=2) is legal Python and Config(f, 1, a=2) stores it) *)
Definition key_ok01 (sg : sig) (st : store) (k : skey) : bool :=
  match k with
  | KPos _ => key_ok sg st k
  | KName n => key_ok sg st k || has_var_kw sg
  end.
Definition inv01_b (sg : sig) (st : store) : bool :=
  keys_distinct st && forallb (fun kv => key_ok01 sg st (fst kv)) st.

Definition oview_eq_dec : forall a b : option view, {a = b} + {a <> b}.
Proof. decide equality; auto using view_eq_dec. Defined.

Record case := mkcase { c_sig : sig; c_store : store; c_observed : option view }.

Definition check_case (c : case) : bool :=
  valid_sig (c_sig c)
  && (if oview_eq_dec (build1 (c_sig c) (c_store c)) (c_observed c) then true else false)
  (* the theorem C01_build_binds_exactly, tested on this case *)
  && (negb (inv01_b (c_sig c) (c_store c))
      || (if oview_eq_dec (build1 (c_sig c) (c_store c)) (reference_view (c_sig c) (c_store c))
          then true else false)).

Definition explain_case (c : case) :=
  (build1 (c_sig c) (c_store c), reference_view (c_sig c) (c_store c), inv01_b (c_sig c) (c_store c),
   transform_build (c_sig c) (c_store c)).
