(* The Partial / ArgFactory build (Partial.pbuild_node) on ARBITRARY heaps: never out of fuel, and a
   reported cycle is a real one (instances of Cycle_proofs for the traversal function of C04). *)
From Fiddle Require Import PyBase PySlice Sig ArgStore PyCall Heap Traverse Build Build_stmt
  Traverse_proofs Build_proofs C08Check Cycle_proofs Partial.
From Coq Require Import List Arith Lia NArith Relations.
Import ListNotations.

Lemma pbuild_fail_kinds e i n rs o o' fl :
  pbuild_node e i n rs o = (o', inr fl) -> fl = FType i \/ fl = FRaise i 0%N.
Proof.
  unfold pbuild_node. intros H.
  destruct n; try (inversion H; fail);
    try (destruct (alloc o _) as [oa ra]; inversion H; fail).
  destruct (transform_build _ _) as [[pos kws]|]; [|inversion H; subst; left; reflexivity].
  destruct k.
  - destruct (py_call _ pos kws); [|inversion H; subst; left; reflexivity].
    destruct (alloc o _) as [oa ra]. inversion H.
  - destruct (promote_all e o pos) as [o1 pos1]. destruct (promote_kw e o1 _) as [o2 kw1].
    destruct (alloc o2 _) as [o3 r]. inversion H.
  - destruct pos as [|p0 pos']; [destruct (flat_map _ kws) as [|kv0 kw']|].
    + destruct (alloc o _) as [oa ra]. inversion H.
    + destruct (promote_all e o []) as [o1 pos1]. destruct (promote_kw e o1 _) as [o2 kw1].
      destruct (alloc o2 _) as [o3 p]. destruct (alloc o3 _) as [o4 r]. inversion H.
    + destruct (promote_all e o (p0 :: pos')) as [o1 pos1]. destruct (promote_kw e o1 _) as [o2 kw1].
      destruct (alloc o2 _) as [o3 p]. destruct (alloc o3 _) as [o4 r]. inversion H.
  - inversion H; subst. right. reflexivity.
Qed.

Theorem pbuild_never_out_of_fuel e h r s res :
  pbuild e h r = (s, res) -> res <> inr FOutOfFuel.
Proof.
  unfold pbuild. apply mrun_never_out_of_fuel. intros i n rs o o' H.
  apply pbuild_fail_kinds in H. destruct H; discriminate.
Qed.

Theorem pbuild_cycle_real e h r s c :
  pbuild e h r = (s, inr (FCycle c)) -> clos_trans nat (cstep e h) c c.
Proof.
  unfold pbuild. apply mrun_cycle_real. intros i n rs o o' c' H.
  apply pbuild_fail_kinds in H. destruct H; discriminate.
Qed.
