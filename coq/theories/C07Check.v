(* C07Check: correspondence checker for copies.  Encodings are canonical (Buildable arguments in
   signature order, empty tag sets dropped): the property is about callables, arguments, tags and
   sharing, not about dict insertion order. *)
From Fiddle Require Import PyBase PySlice Sig ArgStore PyCall Heap Traverse Copy Build_proofs Copy_proofs.

Inductive ckind := CDeep | CPickle | CShallow | CCast (k : bkind).

Record case := mkcase { c_env : sigenv; c_heap : heap; c_root : ref; c_kind : ckind;
                        c_obs_heap : heap; c_obs_root : ref }.

(* old objects correspond to themselves; new to new *)
Definition bij_ok (n : nat) (m : bij) : bool :=
  forallb (fun ij => let '(i, j) := ij in
                     if Nat.ltb i n then Nat.eqb i j else negb (Nat.ltb j n)) m.

Definition check_iso (n : nat) (h1 : heap) (r1 : ref) (h2 : heap) (r2 : ref) : bool :=
  match iso h1 h2 (S (length h1 + length h2)) [] r1 r2 with
  | Some m => bij_ok n m
  | None => false
  end.

Definition check_case (c : case) : bool :=
  let e := c_env c in let h := c_heap c in
  wf_b e h && keys_ok_b h && heap_canonical_b e h &&   (* the hypotheses of the C07 theorems *)
  match c_kind c with
  | CDeep | CPickle =>
      match deepcopy e (match c_kind c with CPickle => true | _ => false end) h (c_root c) with
      | (s, inl r) => check_iso (length h) (out s) r (c_obs_heap c) (c_obs_root c)
      | _ => false
      end
  | CShallow =>
      match shallow e None h (c_root c) with
      | Some (h', r) => check_iso (length h) h' r (c_obs_heap c) (c_obs_root c)
      | None => false
      end
  | CCast k =>
      match shallow e (Some k) h (c_root c) with
      | Some (h', r) => check_iso (length h) h' r (c_obs_heap c) (c_obs_root c)
      | None => false
      end
  end.

Definition explain_case (c : case) :=
  let e := c_env c in let h := c_heap c in
  (deepcopy e false h (c_root c), shallow e None h (c_root c)).
