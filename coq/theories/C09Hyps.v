(* C09Hyps: the hypotheses of the C09_doc_* theorems (well-formed heap, root inside the heap, every
   reachable object writable), evaluated on the real cases of the stream c09_document. *)
From Fiddle Require Import PyBase PySlice Sig ArgStore PyCall Heap Traverse Copy Doc C09Check Doc_proofs.

Definition hyps_doc (c : doc_case) : bool :=
  wf_b (d_env c) (d_heap c)
  && match d_root c with RA _ => true | RP i => Nat.ltb i (length (d_heap c)) end
  && all_writable (d_env c) (d_heap c) (d_root c).
