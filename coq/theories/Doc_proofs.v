(* Doc_proofs: the JSON document as an object table (Doc.v).
   ser e h r runs the memoized copy (pickle = true) and re-bases the new objects at 0.  Proved here:
   the table is total on well-formed inputs, well-formed, compact (one entry per reachable object,
   entry k is the k-th object finished by the walk), isomorphic to the input, a fixpoint of
   load-then-dump, and doc_refcount counts the occurrences of an entry in the table. *)
From Fiddle Require Import PyBase PySlice Sig ArgStore PyCall Heap Traverse Build Build_stmt
  Traverse_proofs Build_proofs Store_proofs Tags_proofs C08Check Copy Iso_proofs Copy_proofs Doc.
From Coq Require Import List Arith Lia Bool ZArith.
Import ListNotations.
Local Open Scope nat_scope.

(* ------------------------------------------------------------------------------------------ *)
(* 1. __flatten__ after __unflatten__: the argument order produced by flat_args is a fixpoint of
      flat_args, whatever the values.  No hypothesis on the signature or on the stored keys. *)

Lemma sget_none_keys (st : store) k : sget st k = None <-> ~ In k (map fst st).
Proof.
  unfold sget. induction st as [|[k0 v0] st IH]; cbn [dget map fst In]; [tauto |].
  destruct (skey_eqb k k0) eqn:E.
  - apply skey_eqb_eq in E. subst. split; [discriminate | intros H; exfalso; apply H; left; reflexivity].
  - rewrite IH. split; [intros H [H1|H1]; [subst; rewrite skey_eqb_refl in E; discriminate | auto] | auto].
Qed.

Lemma sset_keys_present (r : store) k v : In k (map fst r) -> map fst (sset r k v) = map fst r.
Proof.
  unfold sset. induction r as [|[k0 v0] r IH]; cbn [dset map fst In]; intros H; [destruct H |].
  destruct (skey_eqb k k0) eqn:E; [reflexivity |]. cbn [map fst]. f_equal. apply IH.
  destruct H as [H|H]; [subst; rewrite skey_eqb_refl in E; discriminate | exact H].
Qed.

Lemma sset_keys_fresh (r : store) k v : ~ In k (map fst r) -> map fst (sset r k v) = map fst r ++ [k].
Proof.
  unfold sset. induction r as [|[k0 v0] r IH]; cbn [dset map fst In app]; intros H; [reflexivity |].
  destruct (skey_eqb k k0) eqn:E.
  - apply skey_eqb_eq in E. subst. exfalso. apply H. left; reflexivity.
  - cbn [map fst]. f_equal. apply IH. intros Hin. apply H. right; exact Hin.
Qed.

Lemma sset_keys_congr (ra rb : store) k v w :
  map fst ra = map fst rb -> map fst (sset ra k v) = map fst (sset rb k w).
Proof.
  intros H. destruct (in_dec skey_eq_dec k (map fst ra)) as [Hin|Hnin].
  - rewrite !sset_keys_present; [exact H | rewrite <- H; exact Hin | exact Hin].
  - rewrite !sset_keys_fresh; [rewrite H; reflexivity | rewrite <- H; exact Hnin | exact Hnin].
Qed.

Definition same_mem (a b : store) : Prop := forall k, sget a k = None <-> sget b k = None.

(* a bound on the number of consecutive *args slots from idx on *)
Definition vcount (a : store) (idx : nat) : nat :=
  length (filter (fun kv : skey * ref => match fst kv with
                                         | KPos z => Z.leb (Z.of_nat idx) z
                                         | KName _ => false end) a).

Lemma vcount_mono a idx : vcount a (S idx) <= vcount a idx.
Proof.
  unfold vcount. induction a as [|[[z|n] v] a IH]; cbn [filter fst length]; [lia | | exact IH].
  destruct (Z.leb (Z.of_nat (S idx)) z) eqn:E1.
  - assert (E2 : Z.leb (Z.of_nat idx) z = true) by (apply Z.leb_le; apply Z.leb_le in E1; lia).
    rewrite E2. cbn [length]. lia.
  - destruct (Z.leb (Z.of_nat idx) z); cbn [length]; lia.
Qed.

Lemma vcount_step a idx v : sget a (kpos idx) = Some v -> vcount a (S idx) < vcount a idx.
Proof.
  unfold sget, kpos. induction a as [|[k0 v0] a IH]; cbn [dget]; [discriminate |].
  destruct (skey_eqb (KPos (Z.of_nat idx)) k0) eqn:E.
  - apply skey_eqb_eq in E. subst k0. intros _. pose proof (vcount_mono a idx) as Hm.
    unfold vcount in *. cbn [filter fst].
    assert (E1 : Z.leb (Z.of_nat (S idx)) (Z.of_nat idx) = false) by (apply Z.leb_gt; lia).
    assert (E2 : Z.leb (Z.of_nat idx) (Z.of_nat idx) = true) by (apply Z.leb_le; lia).
    rewrite E1, E2. cbn [length]. lia.
  - intros H. specialize (IH H). pose proof (vcount_mono [(k0, v0)] idx) as Hm.
    unfold vcount in *. cbn [filter fst] in *.
    destruct k0 as [z|n]; [| exact IH].
    destruct (Z.leb (Z.of_nat (S idx)) z), (Z.leb (Z.of_nat idx) z); cbn [length] in *; lia.
Qed.

Lemma vcount_le_length a idx : vcount a idx <= length a.
Proof.
  unfold vcount. induction a as [|x a IH]; cbn [filter length]; [lia |].
  destruct (match fst x with KPos z => _ | KName _ => false end); cbn [length]; lia.
Qed.

Lemma oa_varargs_keys a b : same_mem a b ->
  forall fa fb idx ra rb, map fst ra = map fst rb -> vcount a idx <= fa -> vcount b idx <= fb ->
  map fst (oa_varargs fa a idx ra) = map fst (oa_varargs fb b idx rb).
Proof.
  intros Hm. induction fa as [|fa IH]; intros fb idx ra rb Hk Ha Hb.
  - cbn [oa_varargs].
    assert (Hna : sget a (kpos idx) = None).
    { destruct (sget a (kpos idx)) eqn:E; [| reflexivity]. apply vcount_step in E. lia. }
    apply Hm in Hna. destruct fb; cbn [oa_varargs]; [exact Hk | rewrite Hna; exact Hk].
  - cbn [oa_varargs]. destruct (sget a (kpos idx)) as [v|] eqn:Ea.
    + destruct (sget b (kpos idx)) as [w|] eqn:Eb; [| apply Hm in Eb; congruence].
      pose proof (vcount_step _ _ _ Ea). pose proof (vcount_step _ _ _ Eb).
      destruct fb as [|fb]; [lia |]. cbn [oa_varargs]. rewrite Eb.
      apply IH; [apply sset_keys_congr; exact Hk | lia | lia].
    + apply Hm in Ea. destruct fb; cbn [oa_varargs]; [exact Hk | rewrite Ea; exact Hk].
Qed.

Lemma oa_params_keys veq a b : same_mem a b ->
  forall ps idx ra rb, map fst ra = map fst rb ->
  map fst (oa_params veq default_flags a ps idx ra) = map fst (oa_params veq default_flags b ps idx rb).
Proof.
  intros Hm. induction ps as [|p ps IH]; intros idx ra rb Hk; cbn [oa_params]; [exact Hk |].
  apply IH. unfold default_flags. cbn [f_defaults f_unset f_equal_to_default orb].
  destruct (pk p).
  - destruct (sget a (kpos idx)) as [v|] eqn:Ea; destruct (sget b (kpos idx)) as [w|] eqn:Eb;
      try (apply Hm in Ea; congruence); try (apply Hm in Eb; congruence).
    + apply sset_keys_congr; exact Hk.
    + destruct (pdefault p); exact Hk.
  - destruct (sget a (KName (pname p))) as [v|] eqn:Ea; destruct (sget b (KName (pname p))) as [w|] eqn:Eb;
      try (apply Hm in Ea; congruence); try (apply Hm in Eb; congruence).
    + apply sset_keys_congr; exact Hk.
    + destruct (pdefault p); exact Hk.
  - apply oa_varargs_keys; auto using vcount_le_length.
  - destruct (sget a (KName (pname p))) as [v|] eqn:Ea; destruct (sget b (KName (pname p))) as [w|] eqn:Eb;
      try (apply Hm in Ea; congruence); try (apply Hm in Eb; congruence).
    + apply sset_keys_congr; exact Hk.
    + destruct (pdefault p); exact Hk.
  - exact Hk.
Qed.

(* every key of the result is a stored key *)
Section KeySub.
  Variable sg : sig.
  Variable args : store.
  Definition ksub (result : store) : Prop := forall k, In k (map fst result) -> In k (map fst args).

  Lemma ksub_sset result k v : ksub result -> sget args k = Some v -> ksub (sset result k v).
  Proof.
    intros Hr Hg k' Hin. apply sset_keys in Hin. destruct Hin as [->|Hin]; [| auto].
    eapply sget_In_keys; eauto.
  Qed.

  Lemma oa_varargs_ksub fuel : forall idx result, ksub result -> ksub (oa_varargs fuel args idx result).
  Proof.
    induction fuel as [|f IH]; intros idx result Hr; cbn [oa_varargs]; [exact Hr |].
    destruct (sget args (kpos idx)) eqn:E; [| exact Hr]. apply IH. eapply ksub_sset; eauto.
  Qed.

  Lemma oa_params_ksub veq ps : forall idx result,
    ksub result -> ksub (oa_params veq default_flags args ps idx result).
  Proof.
    induction ps as [|p ps IH]; intros idx result Hr; cbn [oa_params]; [exact Hr |].
    apply IH. unfold default_flags. cbn [f_defaults f_unset f_equal_to_default orb].
    destruct (pk p).
    - destruct (sget args (kpos idx)) eqn:E; [eapply ksub_sset; eauto | destruct (pdefault p); exact Hr].
    - destruct (sget args (KName (pname p))) eqn:E; [eapply ksub_sset; eauto | destruct (pdefault p); exact Hr].
    - apply oa_varargs_ksub; exact Hr.
    - destruct (sget args (KName (pname p))) eqn:E; [eapply ksub_sset; eauto | destruct (pdefault p); exact Hr].
    - exact Hr.
  Qed.

  Lemma oa_var_keyword_ksub items : forall result,
    (forall k, In k (map fst items) -> In k (map fst args)) ->
    ksub result -> ksub (oa_var_keyword sg items result).
  Proof.
    induction items as [|[k v] items IH]; intros result Hsub Hr; cbn [oa_var_keyword]; [exact Hr |].
    apply IH; [intros k' Hk'; apply Hsub; right; exact Hk' |].
    match goal with |- ksub (if ?c then _ else _) => destruct c end; [| exact Hr].
    intros k' Hin. apply sset_keys in Hin. destruct Hin as [->|Hin]; [| auto].
    apply Hsub. left; reflexivity.
  Qed.
End KeySub.

Lemma flat_args_keys_sub e fn args k : In k (map fst (flat_args e fn args)) -> In k (map fst args).
Proof.
  unfold flat_args, ordered_arguments.
  change (negb (f_equal_to_default default_flags) && f_defaults default_flags) with false.
  change (f_var_keyword default_flags) with true. change (f_positional default_flags) with true.
  cbv iota. revert k. apply oa_var_keyword_ksub; [auto |]. apply oa_params_ksub. intros k [].
Qed.

(* the **kwargs pass *)
Section VarKeyword.
  Variable sg : sig.

  Lemma vk_extends items : forall r, exists X,
    map fst (oa_var_keyword sg items r) = map fst r ++ X /\ forall x, In x X -> vk_take sg x = true.
  Proof.
    induction items as [|[k v] items IH]; intros r; cbn [oa_var_keyword].
    - exists []. split; [rewrite app_nil_r; reflexivity | intros x []].
    - fold (vk_take sg k). destruct (vk_take sg k) eqn:Ht.
      + destruct (IH (sset r k v)) as (X & HX & Hall). rewrite HX.
        destruct (in_dec skey_eq_dec k (map fst r)) as [Hin|Hnin].
        * rewrite sset_keys_present by exact Hin. exists X. auto.
        * rewrite sset_keys_fresh by exact Hnin. exists (k :: X). rewrite <- app_assoc. split; [reflexivity |].
          intros x [<-|Hx]; auto.
      + apply IH.
  Qed.

  Lemma vk_app i1 : forall i2 r, oa_var_keyword sg (i1 ++ i2) r = oa_var_keyword sg i2 (oa_var_keyword sg i1 r).
  Proof. induction i1 as [|[k v] i1 IH]; intros i2 r; cbn [app oa_var_keyword]; [reflexivity | apply IH]. Qed.

  Lemma vk_present items : forall r, (forall k, In k (map fst items) -> In k (map fst r)) ->
    map fst (oa_var_keyword sg items r) = map fst r.
  Proof.
    induction items as [|[k v] items IH]; intros r Hall; cbn [oa_var_keyword]; [reflexivity |].
    assert (Hk : In k (map fst r)) by (apply Hall; left; reflexivity).
    match goal with |- map fst (oa_var_keyword sg items (if ?c then _ else _)) = _ => destruct c end.
    - rewrite IH; [apply sset_keys_present; exact Hk |].
      intros k' Hk'. rewrite sset_keys_present by exact Hk. apply Hall. right; exact Hk'.
    - apply IH. intros k' Hk'. apply Hall. right; exact Hk'.
  Qed.

  Lemma vk_fresh items : forall r, NoDup (map fst r ++ map fst items) ->
    (forall k, In k (map fst items) -> vk_take sg k = true) ->
    map fst (oa_var_keyword sg items r) = map fst r ++ map fst items.
  Proof.
    induction items as [|[k v] items IH]; intros r Hnd Hall; cbn [oa_var_keyword map fst].
    - rewrite app_nil_r. reflexivity.
    - fold (vk_take sg k). rewrite (Hall k (or_introl eq_refl)).
      assert (Hnin : ~ In k (map fst r)).
      { cbn [map fst] in Hnd. apply NoDup_remove_2 in Hnd. intros Hin. apply Hnd.
        apply in_or_app. left; exact Hin. }
      rewrite IH.
      + rewrite sset_keys_fresh by exact Hnin. rewrite <- app_assoc. reflexivity.
      + rewrite sset_keys_fresh by exact Hnin. rewrite <- app_assoc. exact Hnd.
      + intros k' Hk'. apply Hall. right; exact Hk'.
  Qed.
End VarKeyword.

Lemma combine_app_eq {A B} (a1 : list A) : forall a2 (b1 b2 : list B), length a1 = length b1 ->
  combine (a1 ++ a2) (b1 ++ b2) = combine a1 b1 ++ combine a2 b2.
Proof.
  induction a1 as [|x a1 IH]; intros a2 [|y b1] b2 H; cbn [length app combine] in *; try discriminate;
    [reflexivity |]. f_equal. apply IH. lia.
Qed.

Lemma map_fst_combine' {A B} (a : list A) : forall (b : list B),
  length a = length b -> map fst (combine a b) = a.
Proof.
  induction a as [|x a IH]; intros [|y b] H; cbn [length combine map fst] in *; try discriminate;
    [reflexivity |]. f_equal. apply IH. lia.
Qed.

Lemma map_snd_combine' {A B} (a : list A) : forall (b : list B),
  length a = length b -> map snd (combine a b) = b.
Proof.
  induction a as [|x a IH]; intros [|y b] H; cbn [length combine map snd] in *; try discriminate;
    [reflexivity |]. f_equal. apply IH. lia.
Qed.

Lemma store_eq_by_keys (a : store) : forall b : store,
  map fst a = map fst b -> NoDup (map fst a) -> (forall k v, In (k, v) a -> In (k, v) b) -> a = b.
Proof.
  induction a as [|[k v] a IH]; intros [|[k' w] b] Hk Hnd Hin; cbn [map fst] in *; try discriminate;
    [reflexivity |].
  injection Hk as <- Hk. inversion Hnd as [|? ? Hnotin Hnd']; subst.
  assert (v = w).
  { destruct (Hin k v (or_introl eq_refl)) as [E|E]; [congruence |].
    exfalso. apply Hnotin. rewrite Hk. apply in_map_iff. exists (k, v). auto. }
  subst w. f_equal. apply IH; [exact Hk | exact Hnd' |].
  intros k1 v1 H1. destruct (Hin k1 v1 (or_intror H1)) as [E|E]; [| exact E].
  inversion E; subst. exfalso. apply Hnotin. apply in_map_iff. exists (k1, v1). auto.
Qed.

Theorem flat_args_fix e fn args rs :
  length rs = length (flat_args e fn args) ->
  flat_args e fn (combine (map fst (flat_args e fn args)) rs) = combine (map fst (flat_args e fn args)) rs.
Proof.
  intros Hlen. set (K := map fst (flat_args e fn args)). set (A' := combine K rs).
  assert (HlenK : length K = length rs) by (unfold K; rewrite map_length; lia).
  assert (HkA : map fst A' = K) by (apply map_fst_combine'; exact HlenK).
  assert (HndK : NoDup K) by apply flat_args_ok.
  assert (Hmem : same_mem args A').
  { intros k. rewrite !sget_none_keys, HkA. split; intros H Hin; apply H.
    - apply flat_args_keys_sub in Hin. exact Hin.
    - apply in_map_iff in Hin. destruct Hin as ([k' v] & <- & Hin).
      destruct (sget args k') as [v'|] eqn:E.
      + eapply flat_args_has_key; eauto.
      + apply sget_none_keys in E. exfalso. apply E. apply in_map_iff. exists (k', v). auto. }
  assert (Hkeys : map fst (flat_args e fn A') = K).
  { set (sg := sig_of e fn).
    set (r1 := oa_params ref_never_eq default_flags args sg 0 []).
    set (r1' := oa_params ref_never_eq default_flags A' sg 0 []).
    assert (HR : map fst r1' = map fst r1).
    { symmetry. apply oa_params_keys; [exact Hmem | reflexivity]. }
    assert (HK1 : K = map fst (oa_var_keyword sg args r1)) by reflexivity.
    destruct (vk_extends sg args r1) as (X & HX & Htake). rewrite HX in HK1.
    change (map fst (oa_var_keyword sg A' r1') = K).
    set (R := map fst r1) in *.
    assert (HA' : A' = combine R (firstn (length R) rs) ++ combine X (skipn (length R) rs)).
    { unfold A'. rewrite HK1. rewrite <- (firstn_skipn (length R) rs) at 1.
      apply combine_app_eq. rewrite firstn_length. rewrite HK1, app_length in HlenK. lia. }
    assert (Hl1 : length R = length (firstn (length R) rs)).
    { rewrite firstn_length. rewrite HK1, app_length in HlenK. lia. }
    assert (Hl2 : length X = length (skipn (length R) rs)).
    { rewrite skipn_length. rewrite HK1, app_length in HlenK. lia. }
    rewrite HA', vk_app, vk_fresh.
    - rewrite vk_present; rewrite ?map_fst_combine' by assumption; [rewrite HR; symmetry; exact HK1 |].
      rewrite HR. auto.
    - rewrite vk_present; rewrite ?map_fst_combine' by assumption; [rewrite HR, <- HK1; exact HndK |].
      rewrite HR. auto.
    - rewrite map_fst_combine' by assumption. exact Htake. }
  apply store_eq_by_keys.
  - rewrite Hkeys, HkA. reflexivity.
  - rewrite Hkeys. exact HndK.
  - intros k v Hin. apply sget_In. apply (flat_args_kv e fn A' k v); [rewrite HkA; exact HndK | exact Hin].
Qed.

(* ------------------------------------------------------------------------------------------ *)
(* 2. nodes: __unflatten__ then __flatten__ *)

Lemma filter_idem {A} (f : A -> bool) l : filter f (filter f l) = filter f l.
Proof.
  induction l as [|x l IH]; cbn [filter]; [reflexivity |].
  destruct (f x) eqn:E; cbn [filter]; [rewrite E, IH |]; auto.
Qed.

Lemma children_with_children e n rs :
  length rs = length (children e n) -> children e (with_children e n rs) = rs.
Proof.
  destruct n; cbn [children with_children]; intros Hlen; rewrite ?map_length in Hlen;
    try (apply map_snd_combine'; rewrite map_length; lia);
    try reflexivity; try (destruct rs; [reflexivity | discriminate]).
  rewrite flat_args_fix by exact Hlen. apply map_snd_combine'. rewrite map_length. lia.
Qed.

Lemma with_children_twice e n rs rs' :
  length rs = length (children e n) ->
  with_children e (with_children e n rs) rs' = with_children e n rs'.
Proof.
  destruct n; cbn [children with_children]; intros Hlen; rewrite ?map_length in Hlen;
    try reflexivity; try (rewrite map_fst_combine' by (rewrite map_length; lia); reflexivity).
  rewrite flat_args_fix by exact Hlen.
  rewrite map_fst_combine' by (rewrite map_length; lia). rewrite filter_idem. reflexivity.
Qed.

Lemma with_children_self e n rs :
  length rs = length (children e n) ->
  with_children e (with_children e n rs) (children e (with_children e n rs)) = with_children e n rs.
Proof.
  intros H. rewrite children_with_children by exact H. apply with_children_twice. exact H.
Qed.

Lemma unshift_with_children e N n rs :
  length rs = length (children e n) ->
  unshift_node e N (with_children e n rs) = with_children e n (map (unshift_ref N) rs).
Proof.
  intros H. unfold unshift_node. rewrite children_with_children by exact H.
  apply with_children_twice. exact H.
Qed.

Lemma writable_with_children e n rs : writable (with_children e n rs) = writable n.
Proof. destruct n; reflexivity. Qed.

Lemma node_refs_with_children e n cs :
  writable n = true -> length cs = length (children e n) -> node_refs e (with_children e n cs) = cs.
Proof.
  destruct n; cbn [writable traversable children with_children node_refs]; intros Hw Hlen;
    rewrite ?map_length in Hlen; try discriminate; try reflexivity;
    try (apply map_snd_combine'; rewrite map_length; lia).
  destruct cs; [reflexivity | discriminate].
Qed.

(* ------------------------------------------------------------------------------------------ *)
(* 3. keep-or-allocate traversals allocate consecutively: the new objects, in the order of the
      memo's timeline, sit at length h, length h + 1, ... *)

Section Tight.
  Variable e : sigenv.
  Variable h : heap.
  Variable on_node : nat -> node -> list ref -> heap -> heap * (ref + fail).
  Hypothesis Hkoa : forall i n rs o,
    on_node i n rs o = (o, inl (RP i)) \/
    exists nd, on_node i n rs o = (o ++ [nd], inl (RP (length o))).

  Definition fresh_entry (p : nat * ref) : bool :=
    match snd p with RP k => Nat.leb (length h) k | RA _ => false end.

  Definition tight (s : mstate) : Prop :=
    length h <= length (out s) /\
    map snd (filter fresh_entry (rev (memo s))) =
      map RP (seq (length h) (length (out s) - length h)).

  Lemma mgo_tight visit l :
    (forall s x s' res, tight s -> visit s x = (s', res) -> tight s') ->
    forall s s' res, tight s -> mgo visit s l = (s', res) -> tight s'.
  Proof.
    intros Hv. induction l as [|x l IH]; intros s s' res Hc Hgo.
    - cbn [mgo] in Hgo. inversion Hgo; subst; exact Hc.
    - rewrite mgo_cons in Hgo. destruct (visit s x) as [s1 [x'|fl]] eqn:Hx.
      + apply Hv in Hx; [| exact Hc]. destruct (mgo visit s1 l) as [s2 [rs|fl]] eqn:Hg;
          inversion Hgo; subst; eapply IH; eauto.
      + inversion Hgo; subst. eapply Hv; eauto.
  Qed.

  Lemma mvisit_tight : forall fuel stack s r s' res,
    tight s -> mvisit e h on_node fuel stack s r = (s', res) -> tight s'.
  Proof.
    induction fuel as [|f IH]; intros stack s r s' res Hc Hv.
    - destruct r as [a|i]; cbn [mvisit] in Hv.
      + inversion Hv; subst; exact Hc.
      + destruct (memo_get (memo s) i); [inversion Hv; subst; exact Hc |].
        destruct (existsb (Nat.eqb i) stack); inversion Hv; subst; exact Hc.
    - destruct r as [a|i].
      + cbn [mvisit] in Hv. inversion Hv; subst; exact Hc.
      + destruct (memo_get (memo s) i) as [x|] eqn:Hm.
        { cbn [mvisit] in Hv. rewrite Hm in Hv. inversion Hv; subst; exact Hc. }
        destruct (existsb (Nat.eqb i) stack) eqn:He.
        { cbn [mvisit] in Hv. rewrite Hm, He in Hv. inversion Hv; subst; exact Hc. }
        destruct (nth_error h i) as [n|] eqn:Hn.
        2:{ cbn [mvisit] in Hv. rewrite Hm, He, Hn in Hv. inversion Hv; subst; exact Hc. }
        rewrite (mvisit_step e h on_node f stack s i n Hm He Hn) in Hv.
        destruct (mgo (mvisit e h on_node f (i :: stack)) s (children e n)) as [s1 [rs|fl]] eqn:Hg.
        * apply mgo_tight in Hg; [| intros; eapply IH; eauto | exact Hc].
          destruct Hg as [Hlen Hmap].
          assert (Hi : i < length h) by (apply nth_error_Some; rewrite Hn; discriminate).
          destruct (Hkoa i n rs (out s1)) as [Hk|[nd Hk]]; rewrite Hk in Hv;
            inversion Hv; subst s' res; split; cbn [out memo rev]; auto.
          -- rewrite filter_app. cbn [filter]. unfold fresh_entry at 2. cbn [snd].
             replace (Nat.leb (length h) i) with false by (symmetry; apply Nat.leb_gt; exact Hi).
             rewrite app_nil_r. exact Hmap.
          -- rewrite app_length. cbn [length]. lia.
          -- rewrite filter_app. cbn [filter]. unfold fresh_entry at 2. cbn [snd].
             replace (Nat.leb (length h) (length (out s1))) with true by (symmetry; apply Nat.leb_le; exact Hlen).
             rewrite map_app, Hmap. cbn [map snd]. rewrite app_length. cbn [length].
             replace (length (out s1) + 1 - length h) with (S (length (out s1) - length h)) by lia.
             rewrite seq_S, map_app. cbn [map]. do 3 f_equal. lia.
        * inversion Hv; subst. eapply mgo_tight; [| exact Hc | exact Hg].
          intros; eapply IH; eauto.
  Qed.

  Lemma mrun_tight r s res : mrun e h on_node r = (s, res) -> tight s.
  Proof.
    unfold mrun. apply mvisit_tight. split; cbn [out memo rev filter map]; [lia |].
    rewrite Nat.sub_diag. reflexivity.
  Qed.
End Tight.

(* ------------------------------------------------------------------------------------------ *)
(* 4. the table in closed form *)

Lemma nth_error_ext' {A} (a : list A) : forall b, (forall t, nth_error a t = nth_error b t) -> a = b.
Proof.
  induction a as [|x a IH]; intros [|y b] H.
  - reflexivity.
  - specialize (H 0). discriminate.
  - specialize (H 0). discriminate.
  - pose proof (H 0) as H0. cbn [nth_error] in H0. inversion H0; subst. f_equal.
    apply IH. intros t. exact (H (S t)).
Qed.

Lemma nth_error_skipn' {A} (l : list A) : forall n t, nth_error (skipn n l) t = nth_error l (n + t).
Proof.
  induction l as [|x l IH]; intros [|n] t; cbn [skipn Nat.add nth_error]; try reflexivity.
  - destruct t; reflexivity.
  - apply IH.
Qed.

Lemma nth_error_seq' len : forall start t, t < len -> nth_error (seq start len) t = Some (start + t).
Proof.
  induction len as [|len IH]; intros start t Ht; [lia |].
  destruct t as [|t]; cbn [seq nth_error]; [f_equal; lia |].
  rewrite IH by lia. f_equal. lia.
Qed.

Lemma filter_length_pointwise {A B} (f : A -> bool) (g : B -> bool) (p : A -> B) l :
  (forall x, In x l -> f x = g (p x)) -> length (filter f l) = length (filter g (map p l)).
Proof.
  induction l as [|x l IH]; intros H; cbn [filter map]; [reflexivity |].
  rewrite (H x (or_introl eq_refl)). destruct (g (p x)); cbn [length]; rewrite IH; auto.
  - intros y Hy. apply H. right; exact Hy.
  - intros y Hy. apply H. right; exact Hy.
Qed.

Definition node_writable (h : heap) (i : nat) : bool :=
  match nth_error h i with Some n => writable n | None => false end.

(* every object the walk reaches can be written *)
Definition all_writable (e : sigenv) (h : heap) (r : ref) : bool :=
  forallb (node_writable h) (doc_order e h r).

(* the position of the entry of object i, and the re-based image of a reference *)
Definition phi (N : nat) (m : list (nat * ref)) (i : nat) : nat :=
  match memo_get m i with Some (RP k) => k - N | _ => 0 end.
Definition phir (N : nat) (m : list (nat * ref)) (c : ref) : ref :=
  match c with RP j => RP (phi N m j) | RA a => RA a end.
Definition entry_of (e : sigenv) (h : heap) (m : list (nat * ref)) (i : nat) : node :=
  match nth_error h i with
  | Some n => with_children e n (map (phir (length h) m) (children e n))
  | None => NOpaque 0%N
  end.

Lemma not_writable n : writable n = false -> traversable n = false /\ is_set n = false.
Proof. destruct n; cbn [writable traversable is_set]; intros H; try discriminate; auto. Qed.

Section Table.
  Variable e : sigenv.
  Variables (h : heap) (r : ref) (s : mstate) (r' : ref).
  Hypothesis Hwf : wf_b e h = true.
  Hypothesis Hroot : root_ok h r.
  Hypothesis Hrun : mrun e h (copy_node e true) r = (s, inl r').

  Let base := length h.
  Let Hk := copy_koa e true.

  Lemma tb_ptr i x : memo_get (memo s) i = Some x -> exists k, x = RP k.
  Proof.
    intros Hg. destruct (deepcopy_fresh_distinct e true h r s _ Hwf Hroot Hrun i i x x Hg Hg)
      as [[[Hx _]|(k & Hx & _)] _]; eauto.
  Qed.

  Lemma tb_image c rc : map_ref (memo s) c = Some rc -> unshift_ref base rc = phir base (memo s) c.
  Proof.
    destruct c as [a|j]; cbn [map_ref phir]; intros H; [inversion H; reflexivity |].
    destruct (tb_ptr _ _ H) as [k ->]. unfold phi. rewrite H. reflexivity.
  Qed.

  Lemma tb_images cs : forall rs, map (map_ref (memo s)) cs = map Some rs ->
    map (unshift_ref base) rs = map (phir base (memo s)) cs.
  Proof.
    induction cs as [|c cs IH]; intros [|x rs] H; cbn [map] in *; try discriminate; [reflexivity |].
    inversion H. f_equal; [apply tb_image; assumption | apply IH; assumption].
  Qed.

  Lemma tb_in_log i x : memo_get (memo s) i = Some x -> In i (log s).
  Proof.
    intros Hg. apply (deepcopy_memo_function e true h r s _ Hwf Hroot Hrun).
    eapply memo_get_some_in; eauto.
  Qed.

  Lemma tb_memo_of_log i : In i (log s) -> exists x, memo_get (memo s) i = Some x.
  Proof.
    intros Hin. apply memo_get_in_some.
    apply (deepcopy_memo_function e true h r s _ Hwf Hroot Hrun). exact Hin.
  Qed.

  Lemma tb_node i x : memo_get (memo s) i = Some x -> exists n, nth_error h i = Some n.
  Proof.
    intros Hg. destruct (koa_lookup e h _ Hwf Hk r s _ Hroot Hrun i x Hg) as (n & _ & _ & _ & Hn & _).
    eauto.
  Qed.

  (* an object gets an entry iff it is writable *)
  Lemma tb_fresh_iff i n ri : nth_error h i = Some n -> memo_get (memo s) i = Some ri ->
    fresh_entry h (i, ri) = writable n.
  Proof.
    intros Hn Hg. pose proof (tb_in_log _ _ Hg) as Hin.
    destruct (deepcopy_mirrors e true h r s _ Hwf Hroot Hrun i n ri Hin Hn Hg)
      as (rs & _ & [[Hri Hkept]|(k & Hri & Hl & _ & Hnk)]); subst ri; unfold fresh_entry; cbn [snd].
    - assert (Hi : i < length h) by (apply nth_error_Some; rewrite Hn; discriminate).
      replace (Nat.leb (length h) i) with false by (symmetry; apply Nat.leb_gt; exact Hi).
      destruct Hkept as [[Hp _]|[Ht Hs]]; [discriminate |].
      destruct n; cbn [writable traversable is_set] in *; congruence.
    - replace (Nat.leb (length h) k) with true by (symmetry; apply Nat.leb_le; exact Hl).
      destruct (writable n) eqn:Hw; [reflexivity |]. exfalso. apply Hnk. right.
      apply not_writable. exact Hw.
  Qed.

  Lemma tb_timeline : map fst (rev (memo s)) = log s.
  Proof.
    destruct (koa_inv e h _ Hwf Hk r s _ Hroot Hrun) as (Hm & _).
    rewrite map_rev, Hm. apply rev_involutive.
  Qed.

  Lemma tb_fresh_pointwise p : In p (rev (memo s)) -> fresh_entry h p = node_writable h (fst p).
  Proof.
    intros Hin. apply in_rev in Hin. destruct p as [i ri]. cbn [fst].
    assert (Hg : memo_get (memo s) i = Some ri).
    { apply memo_get_of_in; [apply (deepcopy_memo_function e true h r s _ Hwf Hroot Hrun) | exact Hin]. }
    destruct (tb_node _ _ Hg) as [n Hn]. unfold node_writable. rewrite Hn.
    apply tb_fresh_iff; assumption.
  Qed.

  (* one entry per writable object the walk reaches *)
  Lemma tb_length : length (skipn base (out s)) = length (filter (node_writable h) (log s)).
  Proof.
    destruct (mrun_tight e h _ Hk r s _ Hrun) as [Hlen Hmap].
    apply (f_equal (@length _)) in Hmap. rewrite !map_length, seq_length in Hmap.
    rewrite skipn_length. fold base in Hmap. rewrite <- Hmap, <- tb_timeline.
    apply filter_length_pointwise. apply tb_fresh_pointwise.
  Qed.

  Section AllWritable.
    Hypothesis Hw : forallb (node_writable h) (log s) = true.

    Lemma tb_all_fresh : filter (fresh_entry h) (rev (memo s)) = rev (memo s).
    Proof.
      apply filter_all. apply forallb_forall. intros p Hp. rewrite tb_fresh_pointwise by exact Hp.
      rewrite forallb_forall in Hw. apply Hw. rewrite <- tb_timeline. apply in_map. exact Hp.
    Qed.

    Lemma tb_length_all : length (skipn base (out s)) = length (log s).
    Proof. rewrite tb_length, (filter_all _ _ Hw). reflexivity. Qed.

    Lemma tb_out_length : length (out s) = base + length (log s).
    Proof.
      pose proof tb_length_all as H. rewrite skipn_length in H.
      destruct (mrun_tight e h _ Hk r s _ Hrun) as [Hlen _]. fold base in Hlen. lia.
    Qed.

    (* the t-th object finished by the walk is entry t *)
    Lemma tb_position t i : nth_error (log s) t = Some i -> memo_get (memo s) i = Some (RP (base + t)).
    Proof.
      intros Ht. destruct (mrun_tight e h _ Hk r s _ Hrun) as [Hlen Hmap].
      rewrite tb_all_fresh in Hmap. fold base in Hmap.
      assert (Htl : t < length (log s)) by (apply nth_error_Some; rewrite Ht; discriminate).
      rewrite <- tb_timeline, nth_error_map in Ht.
      destruct (nth_error (rev (memo s)) t) as [[i0 x]|] eqn:Hp; [| discriminate].
      cbn [option_map fst] in Ht. inversion Ht; subst i0.
      pose proof (map_nth_error snd _ _ Hp) as Hs. rewrite Hmap, nth_error_map in Hs.
      rewrite nth_error_seq' in Hs by (rewrite tb_out_length; lia).
      cbn [option_map snd] in Hs. inversion Hs; subst x.
      apply memo_get_of_in; [apply (deepcopy_memo_function e true h r s _ Hwf Hroot Hrun) |].
      apply in_rev. eapply nth_error_In; eauto.
    Qed.

    Lemma tb_phi t i : nth_error (log s) t = Some i -> phi base (memo s) i = t.
    Proof. intros Ht. unfold phi. rewrite (tb_position _ _ Ht). lia. Qed.

    Lemma tb_phi_inj i j : In i (log s) -> In j (log s) -> phi base (memo s) i = phi base (memo s) j -> i = j.
    Proof.
      intros Hi Hj Heq. apply In_nth_error in Hi, Hj. destruct Hi as [a Ha], Hj as [b Hb].
      rewrite (tb_phi _ _ Ha), (tb_phi _ _ Hb) in Heq. subst b. congruence.
    Qed.

    Lemma tb_phi_lt i : In i (log s) -> phi base (memo s) i < length (log s).
    Proof.
      intros Hi. apply In_nth_error in Hi. destruct Hi as [a Ha]. rewrite (tb_phi _ _ Ha).
      apply nth_error_Some. rewrite Ha. discriminate.
    Qed.

    Theorem tb_table :
      map (unshift_node e base) (skipn base (out s)) = map (entry_of e h (memo s)) (log s).
    Proof.
      apply nth_error_ext'. intros t. rewrite !nth_error_map, nth_error_skipn'.
      destruct (nth_error (log s) t) as [i|] eqn:Ht.
      - pose proof (tb_position _ _ Ht) as Hg. destruct (tb_node _ _ Hg) as [n Hn].
        destruct (deepcopy_mirrors e true h r s _ Hwf Hroot Hrun i n _ (tb_in_log _ _ Hg) Hn Hg)
          as (rs & Hm & [[Hri _]|(k & Hri & _ & Hnth & _)]).
        + exfalso. injection Hri as Hi'. unfold base in Hi'.
          assert (i < length h) by (apply nth_error_Some; rewrite Hn; discriminate). lia.
        + inversion Hri; subst k. fold base in Hnth. rewrite Hnth. cbn [option_map]. f_equal.
          unfold entry_of. rewrite Hn. rewrite unshift_with_children by (eapply map_some_length; eauto).
          f_equal. apply tb_images. exact Hm.
      - cbn [option_map]. apply nth_error_None in Ht.
        assert (Hnone : nth_error (out s) (base + t) = None).
        { apply nth_error_None. rewrite tb_out_length. lia. }
        rewrite Hnone. reflexivity.
    Qed.

    Lemma tb_root : unshift_ref base r' = phir base (memo s) r.
    Proof. apply tb_image. eapply deepcopy_root_image; eauto. Qed.
  End AllWritable.
End Table.

(* ------------------------------------------------------------------------------------------ *)
(* 5. ser: totality, closed form, well-formedness *)

Lemma ser_inv e h r d rd : ser e h r = Some (d, rd) ->
  exists s r', mrun e h (copy_node e true) r = (s, inl r') /\
    d = map (unshift_node e (length h)) (skipn (length h) (out s)) /\
    rd = unshift_ref (length h) r' /\ doc_order e h r = log s.
Proof.
  unfold ser, doc_order. destruct (mrun e h (copy_node e true) r) as [s [r'|fl]]; [| discriminate].
  intros H. inversion H; subst. exists s, r'. auto.
Qed.

(* P2 *)
Theorem ser_total e h r : wf_b e h = true -> root_ok h r -> exists d rd, ser e h r = Some (d, rd).
Proof.
  intros Hwf Hroot. unfold ser.
  destruct (mrun e h (copy_node e true) r) as [s res] eqn:Hrun.
  destruct (deepcopy_total e true h r s res Hwf Hroot Hrun) as [r' ->]. eauto.
Qed.

Lemma wf_from_intro e d : forall base,
  (forall t n, nth_error d t = Some n -> forallb (ref_below (base + t)) (node_refs e n) = true) ->
  wf_from e d base = true.
Proof.
  induction d as [|n d IH]; intros base H; cbn [wf_from]; [reflexivity |].
  apply andb_true_iff. split.
  - specialize (H 0 n eq_refl). rewrite Nat.add_0_r in H. exact H.
  - apply IH. intros t n' Hn'. specialize (H (S t) n' Hn').
    replace (S base + t) with (base + S t) by lia. exact H.
Qed.

Lemma before_index (l : list nat) j i t : NoDup l -> before j i l -> nth_error l t = Some i ->
  exists a, a < t /\ nth_error l a = Some j.
Proof.
  intros Hnd (l1 & l2 & l3 & Hl) Ht. exists (length l1). split.
  - assert (Hi : nth_error l (length l1 + S (length l2)) = Some i).
    { rewrite Hl. rewrite nth_error_app2 by lia.
      replace (length l1 + S (length l2) - length l1) with (S (length l2)) by lia.
      cbn [nth_error]. rewrite nth_error_app2 by lia. rewrite Nat.sub_diag. reflexivity. }
    assert (t = length l1 + S (length l2)).
    { rewrite NoDup_nth_error in Hnd. apply Hnd; [apply nth_error_Some; rewrite Ht; discriminate | congruence]. }
    lia.
  - rewrite Hl. rewrite nth_error_app2 by lia. rewrite Nat.sub_diag. reflexivity.
Qed.

Section TableFacts.
  Variable e : sigenv.
  Variables (h : heap) (r : ref) (s : mstate) (r' : ref).
  Hypothesis Hwf : wf_b e h = true.
  Hypothesis Hroot : root_ok h r.
  Hypothesis Hrun : mrun e h (copy_node e true) r = (s, inl r').
  Hypothesis Hw : forallb (node_writable h) (log s) = true.

  Let base := length h.
  Let Hk := copy_koa e true.
  Let d := map (entry_of e h (memo s)) (log s).
  Let rd := phir base (memo s) r.

  Lemma tf_log_node i : In i (log s) -> exists n, nth_error h i = Some n /\ writable n = true.
  Proof.
    intros Hin. rewrite forallb_forall in Hw. specialize (Hw i Hin). unfold node_writable in Hw.
    destruct (nth_error h i) as [n|]; [eauto | discriminate].
  Qed.

  Lemma tf_entry t i : nth_error (log s) t = Some i ->
    exists n, nth_error h i = Some n /\ writable n = true /\
      nth_error d t = Some (with_children e n (map (phir base (memo s)) (children e n))).
  Proof.
    intros Ht. destruct (tf_log_node i (nth_error_In _ _ Ht)) as (n & Hn & Hwn).
    exists n. split; [exact Hn |]. split; [exact Hwn |].
    unfold d. rewrite nth_error_map, Ht. cbn [option_map]. unfold entry_of. rewrite Hn. reflexivity.
  Qed.

  Lemma tf_entry_inv t nd : nth_error d t = Some nd ->
    exists i n, nth_error (log s) t = Some i /\ nth_error h i = Some n /\ writable n = true /\
      nd = with_children e n (map (phir base (memo s)) (children e n)).
  Proof.
    intros Hd. destruct (nth_error (log s) t) as [i|] eqn:Ht.
    - destruct (tf_entry t i Ht) as (n & Hn & Hwn & Hd'). rewrite Hd in Hd'. inversion Hd'.
      exists i, n. auto.
    - unfold d in Hd. rewrite nth_error_map, Ht in Hd. discriminate.
  Qed.

  Lemma tf_length : length d = length (log s).
  Proof. unfold d. apply map_length. Qed.

  Lemma tf_child_lt t i n j : nth_error (log s) t = Some i -> nth_error h i = Some n ->
    In (RP j) (children e n) -> exists a, a < t /\ nth_error (log s) a = Some j.
  Proof.
    intros Ht Hn Hj.
    pose proof (koa_children_first e h _ Hwf Hk r s _ Hroot Hrun i j (nth_error_In _ _ Ht)) as Hb.
    eapply before_index; [exact (deepcopy_once e true h r s _ Hwf Hroot Hrun) | | exact Ht].
    apply Hb. exists n. auto.
  Qed.

  Lemma tf_wf : wf_b e d = true.
  Proof.
    unfold wf_b. apply wf_from_intro. intros t nd Hd. cbn [Nat.add].
    destruct (tf_entry_inv t nd Hd) as (i & n & Ht & Hn & Hwn & ->).
    rewrite node_refs_with_children by (rewrite ?map_length; auto).
    apply forallb_forall. intros c Hc. apply in_map_iff in Hc. destruct Hc as (c0 & <- & Hc0).
    destruct c0 as [a|j]; cbn [phir ref_below]; [reflexivity |].
    destruct (tf_child_lt t i n j Ht Hn Hc0) as (a & Ha & Hj).
    unfold base. rewrite (tb_phi e h r s r' Hwf Hroot Hrun Hw a j Hj). apply Nat.ltb_lt. exact Ha.
  Qed.

  Lemma tf_root_in_log i : r = RP i -> In i (log s).
  Proof.
    intros ->. apply (deepcopy_exactly_creach e true h (RP i) s _ Hwf Hroot Hrun). constructor.
  Qed.

  Lemma tf_root_ok : root_ok d rd.
  Proof.
    unfold rd. destruct r as [a|i] eqn:Hr; cbn [phir root_ok]; [exact I |].
    rewrite tf_length. apply (tb_phi_lt e h (RP i) s r'); auto.
    rewrite <- Hr in *. apply tf_root_in_log. exact Hr.
  Qed.

  Lemma tf_all_entries_writable nd : In nd d -> writable nd = true.
  Proof.
    intros Hin. apply In_nth_error in Hin. destruct Hin as [t Ht].
    destruct (tf_entry_inv t nd Ht) as (i & n & _ & _ & Hwn & ->).
    rewrite writable_with_children. exact Hwn.
  Qed.
End TableFacts.

Lemma all_writable_of_all e d rd :
  wf_b e d = true -> root_ok d rd -> (forall nd, In nd d -> writable nd = true) ->
  all_writable e d rd = true.
Proof.
  intros Hwf Hroot Hall. unfold all_writable, doc_order.
  destruct (mrun e d (copy_node e true) rd) as [s res] eqn:Hrun.
  destruct (deepcopy_total e true d rd s res Hwf Hroot Hrun) as [r' ->].
  apply forallb_forall. intros i Hin.
  destruct (tb_memo_of_log e d rd s r' Hwf Hroot Hrun i Hin) as [x Hx].
  destruct (tb_node e d rd s r' Hwf Hroot Hrun i x Hx) as [n Hn].
  unfold node_writable. rewrite Hn. apply Hall. eapply nth_error_In; eauto.
Qed.

(* the closed form of a document *)
Lemma ser_closed e h r d rd :
  wf_b e h = true -> root_ok h r -> all_writable e h r = true -> ser e h r = Some (d, rd) ->
  exists s r', mrun e h (copy_node e true) r = (s, inl r') /\
    forallb (node_writable h) (log s) = true /\
    d = map (entry_of e h (memo s)) (log s) /\ rd = phir (length h) (memo s) r.
Proof.
  intros Hwf Hroot Hw Hser. destruct (ser_inv _ _ _ _ _ Hser) as (s & r' & Hrun & Hd & Hrd & Hord).
  unfold all_writable in Hw. rewrite Hord in Hw. exists s, r'.
  split; [exact Hrun |]. split; [exact Hw |]. split.
  - rewrite Hd. apply (tb_table e h r s r'); assumption.
  - rewrite Hrd. eapply tb_root; eauto.
Qed.

(* P3 *)
Theorem ser_wf e h r d rd :
  wf_b e h = true -> root_ok h r -> all_writable e h r = true -> ser e h r = Some (d, rd) ->
  wf_b e d = true /\ root_ok d rd /\ all_writable e d rd = true.
Proof.
  intros Hwf Hroot Hw Hser.
  destruct (ser_closed _ _ _ _ _ Hwf Hroot Hw Hser) as (s & r' & Hrun & Hw' & -> & ->).
  pose proof (tf_wf e h r s r' Hwf Hroot Hrun Hw') as H1.
  pose proof (tf_root_ok e h r s r' Hwf Hroot Hrun Hw') as H2.
  split; [exact H1 |]. split; [exact H2 |].
  apply all_writable_of_all; [exact H1 | exact H2 |].
  apply (tf_all_entries_writable e h s Hw').
Qed.

(* ------------------------------------------------------------------------------------------ *)
(* 6. two walks over heaps related by a relabelling of the objects finish the objects in the same
      order *)

Lemma mvisit_hit e h on fu st s i y :
  memo_get (memo s) i = Some y -> mvisit e h on fu st s (RP i) = (s, inl y).
Proof. intros H. destruct fu; cbn [mvisit]; rewrite H; reflexivity. Qed.

Lemma mvisit_atom e h on fu st s a : mvisit e h on fu st s (RA a) = (s, inl (RA a)).
Proof. destruct fu; reflexivity. Qed.

Section Sim.
  Variable e : sigenv.
  Variables h1 h2 : heap.
  Variables on1 on2 : nat -> node -> list ref -> heap -> heap * (ref + fail).
  Hypothesis Hkoa2 : forall i n rs o,
    on2 i n rs o = (o, inl (RP i)) \/
    exists nd, on2 i n rs o = (o ++ [nd], inl (RP (length o))).
  Variable f : nat -> nat.
  Variable Dom : nat -> Prop.
  Hypothesis Hwf2 : wf_b e h2 = true.

  Definition fr (c : ref) : ref := match c with RP j => RP (f j) | RA a => RA a end.

  Hypothesis Hdom_child : forall i n j,
    Dom i -> nth_error h1 i = Some n -> In (RP j) (children e n) -> Dom j.
  Hypothesis Hinj : forall i j, Dom i -> Dom j -> f i = f j -> i = j.
  Hypothesis Hnode : forall i n, Dom i -> nth_error h1 i = Some n ->
    exists n', nth_error h2 (f i) = Some n' /\ children e n' = map fr (children e n).

  Definition srel (s1 s2 : mstate) : Prop :=
    log s2 = map f (log s1) /\
    forall i, Dom i -> (memo_get (memo s1) i = None <-> memo_get (memo s2) (f i) = None).

  Definition ref_cond (fu2 : nat) (st2 : list nat) (x : ref) : Prop :=
    forall i, x = RP i -> Dom i /\ f i < fu2 /\ forall k, In k st2 -> f i < k.

  Lemma sim_go (v1 v2 : mstate -> ref -> mstate * (ref + fail)) (C : ref -> Prop) l :
    (forall x, In x l -> C x) ->
    (forall x s1 s1' x' s2, C x -> v1 s1 x = (s1', inl x') -> srel s1 s2 ->
       exists s2' y', v2 s2 (fr x) = (s2', inl y') /\ srel s1' s2') ->
    forall s1 s1' rs s2, mgo v1 s1 l = (s1', inl rs) -> srel s1 s2 ->
    exists s2' rs2, mgo v2 s2 (map fr l) = (s2', inl rs2) /\ srel s1' s2'.
  Proof.
    intros HC Hv. induction l as [|x l IH]; intros s1 s1' rs s2 Hg Hrel.
    - cbn [mgo] in Hg. inversion Hg; subst. exists s2, []. split; [reflexivity | exact Hrel].
    - rewrite mgo_cons in Hg. destruct (v1 s1 x) as [s1a [x'|fl]] eqn:Hx; [| discriminate].
      destruct (mgo v1 s1a l) as [s1b [rs'|fl]] eqn:Hgl; [| discriminate].
      inversion Hg; subst s1' rs.
      destruct (Hv x s1 s1a x' s2 (HC x (or_introl eq_refl)) Hx Hrel) as (s2a & y' & Hy & Hrela).
      destruct (IH (fun z Hz => HC z (or_intror Hz)) s1a s1b rs' s2a Hgl Hrela) as (s2b & rs2 & Hg2 & Hrelb).
      exists s2b, (y' :: rs2). split; [| exact Hrelb].
      cbn [map]. rewrite mgo_cons, Hy, Hg2. reflexivity.
  Qed.

  Lemma sim_visit : forall fu1 st1 s1 x s1' x',
    mvisit e h1 on1 fu1 st1 s1 x = (s1', inl x') ->
    forall fu2 st2 s2, srel s1 s2 -> ref_cond fu2 st2 x ->
    exists s2' y', mvisit e h2 on2 fu2 st2 s2 (fr x) = (s2', inl y') /\ srel s1' s2'.
  Proof.
    induction fu1 as [|fu1 IH]; intros st1 s1 x s1' x' Hv fu2 st2 s2 Hrel Hc.
    - destruct x as [a|i].
      + rewrite mvisit_atom in Hv. inversion Hv; subst. exists s2, (RA a).
        split; [apply mvisit_atom | exact Hrel].
      + destruct (Hc i eq_refl) as (Hd & _). cbn [mvisit] in Hv.
        destruct (memo_get (memo s1) i) as [y|] eqn:Hm.
        * inversion Hv; subst.
          destruct (memo_get (memo s2) (f i)) as [y2|] eqn:Hm2.
          -- exists s2, y2. split; [apply mvisit_hit; exact Hm2 | exact Hrel].
          -- apply (proj2 Hrel i Hd) in Hm2. congruence.
        * destruct (existsb (Nat.eqb i) st1); discriminate.
    - destruct x as [a|i].
      + rewrite mvisit_atom in Hv. inversion Hv; subst. exists s2, (RA a).
        split; [apply mvisit_atom | exact Hrel].
      + destruct (Hc i eq_refl) as (Hd & Hfu & Hst).
        destruct (memo_get (memo s1) i) as [y|] eqn:Hm.
        * rewrite (mvisit_hit _ _ _ _ _ _ _ _ Hm) in Hv. inversion Hv; subst.
          destruct (memo_get (memo s2) (f i)) as [y2|] eqn:Hm2.
          -- exists s2, y2. split; [apply mvisit_hit; exact Hm2 | exact Hrel].
          -- apply (proj2 Hrel i Hd) in Hm2. congruence.
        * destruct (existsb (Nat.eqb i) st1) eqn:He.
          { cbn [mvisit] in Hv. rewrite Hm, He in Hv. discriminate. }
          destruct (nth_error h1 i) as [n|] eqn:Hn.
          2:{ cbn [mvisit] in Hv. rewrite Hm, He, Hn in Hv. discriminate. }
          rewrite (mvisit_step e h1 on1 fu1 st1 s1 i n Hm He Hn) in Hv.
          destruct (mgo (mvisit e h1 on1 fu1 (i :: st1)) s1 (children e n)) as [s1a [rs|fl]] eqn:Hg;
            [| discriminate].
          destruct (on1 i n rs (out s1a)) as [o' [r1|fl]] eqn:Hon; [| discriminate].
          inversion Hv; subst s1' x'. clear Hv.
          destruct (Hnode i n Hd Hn) as (n' & Hn' & Hch).
          assert (Hm2 : memo_get (memo s2) (f i) = None) by (apply (proj2 Hrel i Hd); exact Hm).
          destruct fu2 as [|fu2]; [lia |]. cbn [fr].
          rewrite (mvisit_step e h2 on2 fu2 st2 s2 (f i) n' Hm2 (existsb_stack_false _ _ Hst) Hn').
          rewrite Hch.
          assert (Hchild : forall x, In x (children e n) -> ref_cond fu2 (f i :: st2) x).
          { intros x Hx j ->. split; [eapply Hdom_child; eauto |].
            assert (Hlt : f j < f i).
            { eapply (wf_children_lt e h2 (f i) n' (f j) Hwf2 Hn'). rewrite Hch.
              apply in_map_iff. exists (RP j). split; [reflexivity | exact Hx]. }
            split; [lia |]. intros k [<-|Hk]; [exact Hlt |]. specialize (Hst k Hk). lia. }
          destruct (sim_go (mvisit e h1 on1 fu1 (i :: st1)) (mvisit e h2 on2 fu2 (f i :: st2))
                      (ref_cond fu2 (f i :: st2)) (children e n) Hchild) with (s1 := s1) (s1' := s1a) (rs := rs) (s2 := s2)
            as (s2a & rs2 & Hg2 & Hrela); [| exact Hg | exact Hrel |].
          { intros x s0 s0' x0 s3 Hcx Hvx Hr0. eapply IH; eauto. }
          rewrite Hg2.
          assert (Hstep : forall o2 r2, srel (mk_ms ((i, r1) :: memo s1a) o' (log s1a ++ [i]))
                                             (mk_ms ((f i, r2) :: memo s2a) o2 (log s2a ++ [f i]))).
          { intros o2 r2. destruct Hrela as [Hl Hmm]. split; cbn [log memo].
            - rewrite Hl, map_app. reflexivity.
            - intros j Hj. cbn [memo_get]. destruct (Nat.eqb j i) eqn:Eji.
              + apply Nat.eqb_eq in Eji. subst j. rewrite Nat.eqb_refl. split; discriminate.
              + assert (Efji : Nat.eqb (f j) (f i) = false).
                { apply Nat.eqb_neq. intros Heq. apply Nat.eqb_neq in Eji. apply Eji. apply Hinj; auto. }
                rewrite Efji. apply Hmm. exact Hj. }
          destruct (Hkoa2 (f i) n' rs2 (out s2a)) as [Hk2|[nd Hk2]]; rewrite Hk2;
            eexists; eexists; (split; [reflexivity | apply Hstep]).
  Qed.
End Sim.

(* ------------------------------------------------------------------------------------------ *)
(* 7. a compact post-order table is its own document; the document of any input is one *)

Lemma ser_of_run e h r s r' : mrun e h (copy_node e true) r = (s, inl r') ->
  ser e h r = Some (map (unshift_node e (length h)) (skipn (length h) (out s)), unshift_ref (length h) r').
Proof. intros H. unfold ser. rewrite H. reflexivity. Qed.

Lemma doc_order_of_run e h r s r' : mrun e h (copy_node e true) r = (s, inl r') -> doc_order e h r = log s.
Proof. intros H. unfold doc_order. rewrite H. reflexivity. Qed.

(* entries are in normal form: unflatten (flatten x) = x *)
Definition entry_normal (e : sigenv) (nd : node) : Prop :=
  writable nd = true /\ with_children e nd (children e nd) = nd.

Lemma ser_compact_table_fix e d rd s2 y :
  wf_b e d = true -> root_ok d rd ->
  mrun e d (copy_node e true) rd = (s2, inl y) ->
  log s2 = seq 0 (length d) ->
  (forall nd, In nd d -> entry_normal e nd) ->
  ser e d rd = Some (d, rd).
Proof.
  intros Hwf Hroot Hrun Hlog Hnorm.
  assert (Hw : forallb (node_writable d) (log s2) = true).
  { apply forallb_forall. intros t Ht. rewrite Hlog in Ht. apply in_seq in Ht.
    unfold node_writable. destruct (nth_error d t) as [nd|] eqn:Hn.
    - apply Hnorm. eapply nth_error_In; eauto.
    - apply nth_error_None in Hn. lia. }
  assert (Hphi : forall t, t < length d -> phi (length d) (memo s2) t = t).
  { intros t Ht. apply (tb_phi e d rd s2 y Hwf Hroot Hrun Hw). rewrite Hlog.
    rewrite nth_error_seq' by exact Ht. reflexivity. }
  rewrite (ser_of_run _ _ _ _ _ Hrun).
  rewrite (tb_table e d rd s2 y Hwf Hroot Hrun Hw), (tb_root e d rd s2 y Hwf Hroot Hrun).
  f_equal. f_equal.
  - apply nth_error_ext'. intros t. rewrite nth_error_map, Hlog.
    destruct (nth_error d t) as [nd|] eqn:Hn.
    + assert (Ht : t < length d) by (apply nth_error_Some; rewrite Hn; discriminate).
      rewrite nth_error_seq' by exact Ht. cbn [option_map Nat.add]. f_equal.
      unfold entry_of. rewrite Hn.
      replace (map (phir (length d) (memo s2)) (children e nd)) with (children e nd).
      * apply Hnorm. eapply nth_error_In; eauto.
      * rewrite <- (map_id (children e nd)) at 1. apply map_ext_in. intros c Hc.
        destruct c as [a|j]; cbn [phir]; [reflexivity |].
        pose proof (wf_children_lt e d t nd j Hwf Hn Hc). rewrite Hphi by lia. reflexivity.
    + apply nth_error_None in Hn.
      replace (nth_error (seq 0 (length d)) t) with (@None nat); [reflexivity |].
      symmetry. apply nth_error_None. rewrite seq_length. exact Hn.
  - destruct rd as [a|k]; cbn [phir]; [reflexivity |]. cbn [root_ok] in Hroot.
    rewrite Hphi by exact Hroot. reflexivity.
Qed.

(* the walk over a document finishes its entries in the order of the table *)
Lemma doc_walk_sorted e h r d rd :
  wf_b e h = true -> root_ok h r -> all_writable e h r = true -> ser e h r = Some (d, rd) ->
  exists s2 y, mrun e d (copy_node e true) rd = (s2, inl y) /\ log s2 = seq 0 (length d).
Proof.
  intros Hwf Hroot Hw Hser.
  destruct (ser_closed _ _ _ _ _ Hwf Hroot Hw Hser) as (s & r' & Hrun & Hw' & Hd & Hrd).
  pose proof (tf_wf e h r s r' Hwf Hroot Hrun Hw') as Hwfd.
  rewrite <- Hd in Hwfd.
  set (f := phi (length h) (memo s)).
  assert (Hlen : length d = length (log s)) by (rewrite Hd; apply map_length).
  assert (Hsim : exists s2 y, mrun e d (copy_node e true) rd = (s2, inl y) /\ log s2 = map f (log s)).
  { unfold mrun in Hrun.
    destruct (sim_visit e h d (copy_node e true) (copy_node e true) (copy_koa e true) f
                (fun i => In i (log s)) Hwfd) with (fu1 := S (length h)) (st1 := @nil nat)
                (s1 := mk_ms [] h []) (x := r) (s1' := s) (x' := r')
                (fu2 := S (length d)) (st2 := @nil nat) (s2 := mk_ms [] d [])
      as (s2 & y & Hv2 & Hrel).
    - intros i n j Hi Hn Hj. apply In_nth_error in Hi. destruct Hi as [t Ht].
      destruct (tf_child_lt e h r s r' Hwf Hroot Hrun t i n j Ht Hn Hj) as (a & _ & Ha).
      eapply nth_error_In; eauto.
    - intros i j Hi Hj. apply (tb_phi_inj e h r s r' Hwf Hroot Hrun Hw'); assumption.
    - intros i n Hi Hn. apply In_nth_error in Hi. destruct Hi as [t Ht].
      destruct (tf_entry e h s Hw' t i Ht) as (n0 & Hn0 & Hwn & Hdt).
      rewrite Hn in Hn0. inversion Hn0; subst n0.
      unfold f. rewrite (tb_phi e h r s r' Hwf Hroot Hrun Hw' t i Ht). rewrite Hd.
      eexists. split; [exact Hdt |]. rewrite children_with_children by (rewrite map_length; reflexivity).
      reflexivity.
    - exact Hrun.
    - split; [reflexivity |]. intros i _. cbn [memo memo_get]. tauto.
    - intros i ->. split; [apply (tf_root_in_log e h (RP i) s r' Hwf Hroot Hrun i eq_refl) |].
      split; [| intros k []]. rewrite Hlen.
      pose proof (tb_phi_lt e h (RP i) s r' Hwf Hroot Hrun Hw' i
                    (tf_root_in_log e h (RP i) s r' Hwf Hroot Hrun i eq_refl)). fold f in H. lia.
    - exists s2, y. split; [| exact (proj1 Hrel)].
      unfold mrun. rewrite Hrd. exact Hv2. }
  destruct Hsim as (s2 & y & Hrun2 & Hlog2). exists s2, y. split; [exact Hrun2 |].
  rewrite Hlog2, Hlen. apply nth_error_ext'. intros t. rewrite nth_error_map.
  destruct (nth_error (log s) t) as [i|] eqn:Ht.
  - cbn [option_map]. unfold f. rewrite (tb_phi e h r s r' Hwf Hroot Hrun Hw' t i Ht).
    rewrite nth_error_seq' by (apply nth_error_Some; rewrite Ht; discriminate). reflexivity.
  - cbn [option_map]. symmetry. apply nth_error_None. rewrite seq_length.
    apply nth_error_None. exact Ht.
Qed.

Theorem doc_order_of_doc e h r d rd :
  wf_b e h = true -> root_ok h r -> all_writable e h r = true -> ser e h r = Some (d, rd) ->
  doc_order e d rd = seq 0 (length d).
Proof.
  intros Hwf Hroot Hw Hser.
  destruct (doc_walk_sorted _ _ _ _ _ Hwf Hroot Hw Hser) as (s2 & y & Hrun2 & Hlog2).
  rewrite (doc_order_of_run _ _ _ _ _ Hrun2). exact Hlog2.
Qed.

(* P1 *)
Theorem ser_fixpoint e h r d rd :
  wf_b e h = true -> root_ok h r -> all_writable e h r = true ->
  ser e h r = Some (d, rd) -> ser e d rd = Some (d, rd).
Proof.
  intros Hwf Hroot Hw Hser.
  destruct (ser_wf _ _ _ _ _ Hwf Hroot Hw Hser) as (Hwfd & Hrootd & _).
  destruct (doc_walk_sorted _ _ _ _ _ Hwf Hroot Hw Hser) as (s2 & y & Hrun2 & Hlog2).
  destruct (ser_closed _ _ _ _ _ Hwf Hroot Hw Hser) as (s & r' & Hrun & Hw' & Hd & Hrd).
  apply (ser_compact_table_fix e d rd s2 y Hwfd Hrootd Hrun2 Hlog2).
  intros nd Hin. rewrite Hd in Hin. apply In_nth_error in Hin. destruct Hin as [t Ht].
  destruct (tf_entry_inv e h s Hw' t nd Ht) as (i & n & _ & _ & Hwn & ->). split.
  - rewrite writable_with_children. exact Hwn.
  - apply with_children_self. rewrite map_length. reflexivity.
Qed.

Corollary roundtrip_is_doc e h r :
  wf_b e h = true -> root_ok h r -> all_writable e h r = true -> roundtrip e h r = ser e h r.
Proof.
  intros Hwf Hroot Hw. unfold roundtrip, deser.
  destruct (ser e h r) as [[d rd]|] eqn:Hser; [| reflexivity].
  eapply ser_fixpoint; eauto.
Qed.

Corollary redump_same e h r :
  wf_b e h = true -> root_ok h r -> all_writable e h r = true -> redump e h r = ser e h r.
Proof.
  intros Hwf Hroot Hw. unfold redump. rewrite roundtrip_is_doc by assumption.
  destruct (ser e h r) as [[d rd]|] eqn:Hser; [| reflexivity].
  eapply ser_fixpoint; eauto.
Qed.

(* ------------------------------------------------------------------------------------------ *)
(* 8. compactness *)

(* P4: one entry per writable object the walk reaches (no hypothesis on writability) ... *)
Theorem ser_entries e h r d rd :
  wf_b e h = true -> root_ok h r -> ser e h r = Some (d, rd) ->
  length d = length (filter (node_writable h) (doc_order e h r)).
Proof.
  intros Hwf Hroot Hser. destruct (ser_inv _ _ _ _ _ Hser) as (s & r' & Hrun & -> & _ & ->).
  rewrite map_length. apply (tb_length e h r s r' Hwf Hroot Hrun).
Qed.

(* ... and, when everything reachable is writable, no garbage: every entry is reachable from the
   root of the document *)
Theorem ser_compact e h r d rd :
  wf_b e h = true -> root_ok h r -> all_writable e h r = true -> ser e h r = Some (d, rd) ->
  length d = length (doc_order e h r) /\
  length d = length (filter (node_writable h) (doc_order e h r)) /\
  (forall k, k < length d -> creach e d rd k).
Proof.
  intros Hwf Hroot Hw Hser. split; [| split].
  - rewrite (ser_entries _ _ _ _ _ Hwf Hroot Hser). unfold all_writable in Hw.
    rewrite (filter_all _ _ Hw). reflexivity.
  - eapply ser_entries; eassumption.
  - intros k Hlt. destruct (ser_wf _ _ _ _ _ Hwf Hroot Hw Hser) as (Hwfd & Hrootd & _).
    destruct (doc_walk_sorted _ _ _ _ _ Hwf Hroot Hw Hser) as (s2 & y & Hrun2 & Hlog2).
    apply (deepcopy_exactly_creach e true d rd s2 _ Hwfd Hrootd Hrun2).
    rewrite Hlog2. apply in_seq. lia.
Qed.

(* ------------------------------------------------------------------------------------------ *)
(* 9. doc_index / doc_order *)

Lemma doc_index_inv e h r i k : doc_index e h r i = Some k ->
  exists s r' j, mrun e h (copy_node e true) r = (s, inl r') /\
    memo_get (memo s) i = Some (RP j) /\ length h <= j /\ k = j - length h.
Proof.
  unfold doc_index. destruct (mrun e h (copy_node e true) r) as [s [r'|fl]]; [| discriminate].
  destruct (memo_get (memo s) i) as [[a|j]|] eqn:Hg; try discriminate.
  destruct (Nat.leb (length h) j) eqn:Hl; [| discriminate]. intros H. inversion H.
  apply Nat.leb_le in Hl. exists s, r', j. auto.
Qed.

(* P5 (a) *)
Theorem doc_index_range e h r d rd i k :
  wf_b e h = true -> root_ok h r -> ser e h r = Some (d, rd) ->
  doc_index e h r i = Some k -> k < length d /\ In i (doc_order e h r).
Proof.
  intros Hwf Hroot Hser Hi. destruct (doc_index_inv _ _ _ _ _ Hi) as (s & r' & j & Hrun & Hg & Hl & ->).
  rewrite (ser_of_run _ _ _ _ _ Hrun) in Hser. inversion Hser; subst d rd.
  rewrite (doc_order_of_run _ _ _ _ _ Hrun). split.
  - rewrite map_length, skipn_length.
    destruct (deepcopy_fresh_distinct e true h r s _ Hwf Hroot Hrun i i _ _ Hg Hg)
      as [[[Hx Hlt]|(k' & Hx & Hk')] _]; inversion Hx; subst; lia.
  - eapply tb_in_log; eauto.
Qed.

(* P5 (b) *)
Theorem doc_index_injective e h r i j k :
  wf_b e h = true -> root_ok h r ->
  doc_index e h r i = Some k -> doc_index e h r j = Some k -> i = j.
Proof.
  intros Hwf Hroot Hi Hj.
  destruct (doc_index_inv _ _ _ _ _ Hi) as (s & r' & a & Hrun & Hga & Hla & Hka).
  destruct (doc_index_inv _ _ _ _ _ Hj) as (s' & r'' & b & Hrun' & Hgb & Hlb & Hkb).
  rewrite Hrun in Hrun'. inversion Hrun'; subst s' r''.
  destruct (Nat.eq_dec i j) as [|Hne]; [assumption | exfalso].
  destruct (deepcopy_fresh_distinct e true h r s _ Hwf Hroot Hrun i j _ _ Hga Hgb) as [_ Hd].
  apply (Hd Hne). f_equal. lia.
Qed.

Lemma seq_split_nth base len A (x : ref) B :
  map RP (seq base len) = A ++ x :: B -> x = RP (base + length A).
Proof.
  intros H.
  assert (Hn : nth_error (map RP (seq base len)) (length A) = Some x).
  { rewrite H, nth_error_app2 by lia. rewrite Nat.sub_diag. reflexivity. }
  rewrite nth_error_map in Hn.
  destruct (nth_error (seq base len) (length A)) as [v|] eqn:Hs; [| discriminate].
  assert (Hlt : length A < len).
  { rewrite <- (seq_length len base). apply nth_error_Some. rewrite Hs. discriminate. }
  rewrite nth_error_seq' in Hs by exact Hlt. inversion Hs; subst. cbn [option_map] in Hn. congruence.
Qed.

Lemma filter_cons_true {A} (f : A -> bool) x l : f x = true -> filter f (x :: l) = x :: filter f l.
Proof. intros H. cbn [filter]. rewrite H. reflexivity. Qed.

Lemma seq_split_nth2 base len A (x : ref) B y C :
  map RP (seq base len) = A ++ x :: B ++ y :: C ->
  x = RP (base + length A) /\ y = RP (base + (length A + S (length B))).
Proof.
  intros H. split; [eapply seq_split_nth; exact H |].
  replace (A ++ x :: B ++ y :: C) with ((A ++ x :: B) ++ y :: C) in H
    by (rewrite <- app_assoc; reflexivity).
  apply seq_split_nth in H. rewrite app_length in H. exact H.
Qed.

(* P5 (c): the entries of the items of an object come before its own entry *)
Theorem doc_index_children_first e h r i j ki kj :
  wf_b e h = true -> root_ok h r -> child_of e h i j ->
  doc_index e h r i = Some ki -> doc_index e h r j = Some kj -> kj < ki.
Proof.
  intros Hwf Hroot Hc Hi Hj.
  destruct (doc_index_inv _ _ _ _ _ Hi) as (s & r' & a & Hrun & Hga & Hla & ->).
  destruct (doc_index_inv _ _ _ _ _ Hj) as (s' & r'' & b & Hrun' & Hgb & Hlb & ->).
  rewrite Hrun in Hrun'. inversion Hrun'; subst s' r''. clear Hrun'.
  pose proof (koa_children_first e h _ Hwf (copy_koa e true) r s _ Hroot Hrun i j
                (tb_in_log e h r s r' Hwf Hroot Hrun _ _ Hga) Hc) as (l1 & l2 & l3 & Hl).
  destruct (mrun_tight e h _ (copy_koa e true) r s _ Hrun) as [Hlen Hmap].
  pose proof (tb_timeline e h r s r' Hwf Hroot Hrun) as Htl. rewrite Hl in Htl.
  apply map_eq_app in Htl. destruct Htl as (T1 & T' & HT & HT1 & HT').
  apply map_eq_cons in HT'. destruct HT' as ([j0 rj] & T'' & -> & Hj0 & HT'').
  apply map_eq_app in HT''. destruct HT'' as (T2 & T3' & -> & HT2 & HT3').
  apply map_eq_cons in HT3'. destruct HT3' as ([i0 ri] & T3 & -> & Hi0 & HT3).
  cbn [fst] in Hj0, Hi0. subst j0 i0.
  assert (Hnd : NoDup (map fst (memo s))) by apply (deepcopy_memo_function e true h r s _ Hwf Hroot Hrun).
  assert (Hrj : rj = RP b).
  { assert (Hin : In (j, rj) (memo s)).
    { apply in_rev. rewrite HT. apply in_or_app. right. left. reflexivity. }
    apply (memo_get_of_in _ _ _ Hnd) in Hin. congruence. }
  assert (Hri : ri = RP a).
  { assert (Hin : In (i, ri) (memo s)).
    { apply in_rev. rewrite HT. apply in_or_app. right. right. apply in_or_app. right. left. reflexivity. }
    apply (memo_get_of_in _ _ _ Hnd) in Hin. congruence. }
  subst rj ri. rewrite HT in Hmap.
  assert (Hfb : fresh_entry h (j, RP b) = true) by (unfold fresh_entry; cbn [snd]; apply Nat.leb_le; exact Hlb).
  assert (Hfa : fresh_entry h (i, RP a) = true) by (unfold fresh_entry; cbn [snd]; apply Nat.leb_le; exact Hla).
  rewrite filter_app, (filter_cons_true _ _ _ Hfb), filter_app, (filter_cons_true _ _ _ Hfa) in Hmap.
  rewrite map_app in Hmap. cbn [map snd] in Hmap. rewrite map_app in Hmap. cbn [map snd] in Hmap.
  symmetry in Hmap. destruct (seq_split_nth2 _ _ _ _ _ _ _ Hmap) as [Hb Ha].
  inversion Hb. inversion Ha. lia.
Qed.

(* P5 (d) *)
Theorem doc_order_spec e h r :
  wf_b e h = true -> root_ok h r ->
  NoDup (doc_order e h r) /\ (forall i, In i (doc_order e h r) <-> creach e h r i).
Proof.
  intros Hwf Hroot. unfold doc_order.
  destruct (mrun e h (copy_node e true) r) as [s res] eqn:Hrun.
  destruct (deepcopy_total e true h r s res Hwf Hroot Hrun) as [r' ->]. split.
  - exact (deepcopy_once e true h r s _ Hwf Hroot Hrun).
  - exact (deepcopy_exactly_creach e true h r s _ Hwf Hroot Hrun).
Qed.

(* under all_writable, doc_index is the position in doc_order *)
Theorem doc_index_position e h r t i :
  wf_b e h = true -> root_ok h r -> all_writable e h r = true ->
  nth_error (doc_order e h r) t = Some i -> doc_index e h r i = Some t.
Proof.
  intros Hwf Hroot Hw Ht. unfold doc_index, all_writable, doc_order in *.
  destruct (mrun e h (copy_node e true) r) as [s res] eqn:Hrun.
  destruct (deepcopy_total e true h r s res Hwf Hroot Hrun) as [r' ->].
  rewrite (tb_position e h r s r' Hwf Hroot Hrun Hw t i Ht).
  replace (Nat.leb (length h) (length h + t)) with true by (symmetry; apply Nat.leb_le; lia).
  f_equal. lia.
Qed.

(* ------------------------------------------------------------------------------------------ *)
(* 10. the table is isomorphic to the input (vocabulary of Iso_proofs / Copy_proofs) *)

Lemma Forall2_map_r {A B} (R : A -> B -> Prop) (g : A -> B) l :
  (forall x, In x l -> R x (g x)) -> Forall2 R l (map g l).
Proof.
  induction l as [|x l IH]; intros H; cbn [map]; constructor.
  - apply H. left; reflexivity.
  - apply IH. intros y Hy. apply H. right; exact Hy.
Qed.

(* the correspondence: object i of the input <-> entry doc_index i *)
Definition doc_bij (e : sigenv) (h : heap) (r : ref) : bij :=
  flat_map (fun i => match doc_index e h r i with Some k => [(i, k)] | None => [] end) (doc_order e h r).

(* P6 *)
Theorem ser_iso e h r d rd :
  wf_b e h = true -> root_ok h r -> all_writable e h r = true ->
  (forall i n, creach e h r i -> nth_error h i = Some n -> node_canonical e n) ->
  ser e h r = Some (d, rd) ->
  exists m, bij_wf m /\ simulates h d m /\ rel_ref m r rd /\
            (forall i k, In (i, k) m <-> doc_index e h r i = Some k).
Proof.
  intros Hwf Hroot Hw Hcanon Hser.
  destruct (ser_closed _ _ _ _ _ Hwf Hroot Hw Hser) as (s & r' & Hrun & Hw' & Hd & Hrd).
  set (f := phi (length h) (memo s)).
  exists (map (fun i => (i, f i)) (log s)).
  assert (Hin : forall i k, In (i, k) (map (fun i => (i, f i)) (log s)) <-> In i (log s) /\ k = f i).
  { intros i k. rewrite in_map_iff. split.
    - intros (i0 & Heq & Hi0). inversion Heq; subst. auto.
    - intros [Hi ->]. exists i. auto. }
  assert (Hchild : forall i n j, In i (log s) -> nth_error h i = Some n -> In (RP j) (children e n) ->
                   In j (log s)).
  { intros i n j Hi Hn Hj. apply In_nth_error in Hi. destruct Hi as [t Ht].
    destruct (tf_child_lt e h r s r' Hwf Hroot Hrun t i n j Ht Hn Hj) as (a & _ & Ha).
    eapply nth_error_In; eauto. }
  split; [| split; [| split]].
  - intros i k i' k' H1 H2. apply Hin in H1, H2. destruct H1 as [Hi ->], H2 as [Hi' ->].
    split; [intros ->; reflexivity |]. apply (tb_phi_inj e h r s r' Hwf Hroot Hrun Hw'); assumption.
  - intros i k H1. apply Hin in H1. destruct H1 as [Hi ->].
    apply In_nth_error in Hi. destruct Hi as [t Ht].
    destruct (tf_entry e h s Hw' t i Ht) as (n & Hn & Hwn & Hdt).
    assert (Hc : node_canonical e n).
    { eapply Hcanon; [| exact Hn].
      apply (deepcopy_exactly_creach e true h r s _ Hwf Hroot Hrun). eapply nth_error_In; eauto. }
    exists n, (with_children e n (map (phir (length h) (memo s)) (children e n))).
    split; [exact Hn |]. split.
    { unfold f. rewrite (tb_phi e h r s r' Hwf Hroot Hrun Hw' t i Ht), Hd. exact Hdt. }
    destruct (canonical_with_children e n (map (phir (length h) (memo s)) (children e n)) Hc)
      as [Hsh Hrf]; [apply map_length |].
    split; [symmetry; exact Hsh |]. rewrite Hrf, (canonical_refs e n Hc).
    apply Forall2_map_r. intros c Hcin. destruct c as [a|j]; cbn [phir rel_ref]; [reflexivity |].
    apply Hin. split; [| reflexivity]. eapply Hchild; eauto. eapply nth_error_In; eauto.
  - rewrite Hrd. destruct r as [a|i]; cbn [phir rel_ref]; [reflexivity |].
    apply Hin. split; [| reflexivity]. apply (tf_root_in_log e h (RP i) s r' Hwf Hroot Hrun i eq_refl).
  - intros i k. rewrite Hin. split.
    + intros [Hi ->]. apply In_nth_error in Hi. destruct Hi as [t Ht].
      unfold f. rewrite (tb_phi e h r s r' Hwf Hroot Hrun Hw' t i Ht).
      apply doc_index_position; try assumption. rewrite (doc_order_of_run _ _ _ _ _ Hrun). exact Ht.
    + intros Hi. destruct (doc_index_inv _ _ _ _ _ Hi) as (s0 & r0 & j & Hrun0 & Hg & Hl & ->).
      rewrite Hrun in Hrun0. inversion Hrun0; subst s0 r0.
      split; [eapply tb_in_log; eauto |]. unfold f, phi. rewrite Hg. reflexivity.
Qed.

(* ------------------------------------------------------------------------------------------ *)
(* 11. refcounts *)

(* the number of item slots of the table that hold entry k *)
Definition slot_count (e : sigenv) (d : heap) (k : nat) : nat :=
  list_sum (map (fun nd => occurrences k (children e nd)) d).

Lemma fold_refcount e h i l : forall acc,
  fold_left (fun acc j => match nth_error h j with
                          | Some n => (acc + occurrences i (children e n))%nat
                          | None => acc
                          end) l acc =
  acc + list_sum (map (fun j => match nth_error h j with
                                | Some n => occurrences i (children e n)
                                | None => 0 end) l).
Proof.
  induction l as [|j l IH]; intros acc; cbn [fold_left map].
  - unfold list_sum. cbn [fold_right]. lia.
  - rewrite IH. unfold list_sum. cbn [fold_right]. destruct (nth_error h j); lia.
Qed.

Lemma occurrences_map (g : nat -> nat) (gr : ref -> ref) (P : nat -> Prop) i cs :
  (forall a, gr (RA a) = RA a) -> (forall j, gr (RP j) = RP (g j)) ->
  (forall a b, P a -> P b -> g a = g b -> a = b) -> P i ->
  (forall j, In (RP j) cs -> P j) ->
  occurrences (g i) (map gr cs) = occurrences i cs.
Proof.
  intros Ha Hp Hinj Hi Hcs. unfold occurrences.
  induction cs as [|c cs IH]; [reflexivity |]. cbn [map filter].
  assert (IH' : length (filter (fun c => match c with RP k => Nat.eqb k (g i) | RA _ => false end) (map gr cs)) =
                length (filter (fun c => match c with RP k => Nat.eqb k i | RA _ => false end) cs)).
  { apply IH. intros j Hj. apply Hcs. right; exact Hj. }
  destruct c as [a|j].
  - rewrite Ha. exact IH'.
  - rewrite Hp. assert (Hpj : P j) by (apply Hcs; left; reflexivity).
    destruct (Nat.eqb j i) eqn:E.
    + apply Nat.eqb_eq in E. subst j. rewrite Nat.eqb_refl. cbn [length]. f_equal. exact IH'.
    + replace (Nat.eqb (g j) (g i)) with false; [exact IH' |].
      symmetry. apply Nat.eqb_neq. intros Heq. apply Nat.eqb_neq in E. apply E. apply Hinj; assumption.
Qed.

(* P7 *)
Theorem doc_refcount_spec e h r d rd i k :
  wf_b e h = true -> root_ok h r -> all_writable e h r = true ->
  ser e h r = Some (d, rd) -> doc_index e h r i = Some k ->
  doc_refcount e h r i = slot_count e d k + (if ref_eq_dec rd (RP k) then 1 else 0).
Proof.
  intros Hwf Hroot Hw Hser Hi.
  destruct (ser_closed _ _ _ _ _ Hwf Hroot Hw Hser) as (s & r' & Hrun & Hw' & Hd & Hrd).
  destruct (doc_index_inv _ _ _ _ _ Hi) as (s0 & r0 & a & Hrun0 & Hg & Hl & Hk).
  rewrite Hrun in Hrun0. inversion Hrun0; subst s0 r0. clear Hrun0.
  set (f := phi (length h) (memo s)).
  assert (Hkf : k = f i) by (unfold f, phi; rewrite Hg; exact Hk).
  assert (Hilog : In i (log s)) by (eapply tb_in_log; eauto).
  assert (Hinj : forall a b, In a (log s) -> In b (log s) -> f a = f b -> a = b).
  { intros x y Hx Hy. apply (tb_phi_inj e h r s r' Hwf Hroot Hrun Hw'); assumption. }
  assert (Hocc : forall cs, (forall j, In (RP j) cs -> In j (log s)) ->
                 occurrences k (map (phir (length h) (memo s)) cs) = occurrences i cs).
  { intros cs Hcs. rewrite Hkf.
    apply (occurrences_map f (phir (length h) (memo s)) (fun j => In j (log s))); auto. }
  unfold doc_refcount. rewrite (doc_order_of_run _ _ _ _ _ Hrun), fold_refcount.
  rewrite Nat.add_comm. f_equal.
  - unfold slot_count. rewrite Hd, map_map. f_equal. apply map_ext_in. intros j Hj.
    apply In_nth_error in Hj. destruct Hj as [t Ht].
    destruct (tf_entry e h s Hw' t j Ht) as (n & Hn & Hwn & _).
    unfold entry_of. rewrite Hn. rewrite children_with_children by apply map_length.
    symmetry. apply Hocc. intros j' Hj'.
    destruct (tf_child_lt e h r s r' Hwf Hroot Hrun t j n j' Ht Hn Hj') as (b & _ & Hb).
    eapply nth_error_In; eauto.
  - assert (Hroot_occ : occurrences k [rd] = occurrences i [r]).
    { rewrite Hrd. apply (Hocc [r]). intros j [Hj|[]]. subst r.
      apply (tf_root_in_log e h (RP j) s r' Hwf Hroot Hrun j eq_refl). }
    rewrite <- Hroot_occ. unfold occurrences. cbn [filter].
    destruct rd as [x|j]; [destruct (ref_eq_dec (RA x) (RP k)); [discriminate | reflexivity] |].
    destruct (Nat.eqb j k) eqn:E.
    + apply Nat.eqb_eq in E. subst j. destruct (ref_eq_dec (RP k) (RP k)); [reflexivity | congruence].
    + apply Nat.eqb_neq in E. destruct (ref_eq_dec (RP j) (RP k)) as [Heq|]; [inversion Heq; congruence | reflexivity].
Qed.

(* ------------------------------------------------------------------------------------------ *)
(* 12. non-vacuity.  A list (1) shared by a tuple, a Config, a dict and the root; a Config (4) with
       two arguments stored out of signature order, a tag and an empty tag set; a dict (5); a set
       (0); an unreachable opaque object (2).  The table order differs from the heap order. *)

Definition doc_env : sigenv :=
  [(10%N, [mkparam 0%N PosOrKw None false; mkparam 1%N PosOrKw None false])].

Definition doc_heap : heap :=
  [ NSet false [AInt 7];
    NList [RA (AInt 1)];
    NOpaque 9%N;
    NTuple [RP 1; RA (AInt 2)];
    NBuildable BConfig 10%N [(KName 1%N, RP 1); (KName 0%N, RP 3)] [(KName 0%N, [5%N]); (KName 1%N, [])];
    NDict [(AStr [1%N], RP 1); (AInt 3, RP 4)];
    NList [RP 5; RP 0; RP 1; RP 4] ].

Definition doc_table : heap :=
  [ NList [RA (AInt 1)];
    NTuple [RP 0; RA (AInt 2)];
    NBuildable BConfig 10%N [(KName 0%N, RP 1); (KName 1%N, RP 0)] [(KName 0%N, [5%N])];
    NDict [(AStr [1%N], RP 0); (AInt 3, RP 2)];
    NSet false [AInt 7];
    NList [RP 3; RP 4; RP 0; RP 2] ].

Example doc_example :
  wf_b doc_env doc_heap = true /\ all_writable doc_env doc_heap (RP 6) = true /\
  ser doc_env doc_heap (RP 6) = Some (doc_table, RP 5) /\
  doc_order doc_env doc_heap (RP 6) = [1; 3; 4; 5; 0; 6] /\
  map (doc_index doc_env doc_heap (RP 6)) [0; 1; 2; 3; 4; 5; 6] =
    [Some 4; Some 0; None; Some 1; Some 2; Some 3; Some 5] /\
  map (doc_refcount doc_env doc_heap (RP 6)) [0; 1; 3; 4; 5; 6] = [1; 4; 1; 2; 1; 1] /\
  ser doc_env doc_heap (RA (AInt 1)) = Some ([], RA (AInt 1)).
Proof. vm_compute. repeat split. Qed.

Example doc_example_root : root_ok doc_heap (RP 6).
Proof. cbn. lia. Qed.

Example ser_fixpoint_example : ser doc_env doc_table (RP 5) = Some (doc_table, RP 5).
Proof.
  apply (ser_fixpoint doc_env doc_heap (RP 6));
    [vm_compute; reflexivity | exact doc_example_root | vm_compute; reflexivity | vm_compute; reflexivity].
Qed.

Example roundtrip_example : roundtrip doc_env doc_heap (RP 6) = Some (doc_table, RP 5) /\
                            redump doc_env doc_heap (RP 6) = Some (doc_table, RP 5).
Proof.
  rewrite redump_same, roundtrip_is_doc;
    try exact doc_example_root; try (vm_compute; reflexivity). split; vm_compute; reflexivity.
Qed.

Example ser_total_example : exists d rd, ser doc_env doc_heap (RP 6) = Some (d, rd).
Proof. apply ser_total; [vm_compute; reflexivity | exact doc_example_root]. Qed.

Example ser_wf_example :
  wf_b doc_env doc_table = true /\ root_ok doc_table (RP 5) /\ all_writable doc_env doc_table (RP 5) = true.
Proof.
  apply (ser_wf doc_env doc_heap (RP 6));
    [vm_compute; reflexivity | exact doc_example_root | vm_compute; reflexivity | vm_compute; reflexivity].
Qed.

Example ser_compact_example :
  length doc_table = length (doc_order doc_env doc_heap (RP 6)) /\
  length doc_table = length (filter (node_writable doc_heap) (doc_order doc_env doc_heap (RP 6))) /\
  (forall k, k < length doc_table -> creach doc_env doc_table (RP 5) k).
Proof.
  apply (ser_compact doc_env doc_heap (RP 6));
    [vm_compute; reflexivity | exact doc_example_root | vm_compute; reflexivity | vm_compute; reflexivity].
Qed.

Example doc_index_example :
  (2 < length doc_table /\ In 4 (doc_order doc_env doc_heap (RP 6))) /\
  (forall j, doc_index doc_env doc_heap (RP 6) j = Some 2 -> 4 = j) /\
  (* the Config (4, entry 2) holds the tuple (3, entry 1) *)
  1 < 2 /\
  NoDup (doc_order doc_env doc_heap (RP 6)).
Proof.
  split; [| split; [| split]].
  - apply (doc_index_range doc_env doc_heap (RP 6) doc_table (RP 5));
      [vm_compute; reflexivity | exact doc_example_root | vm_compute; reflexivity | vm_compute; reflexivity].
  - intros j Hj. apply (doc_index_injective doc_env doc_heap (RP 6) 4 j 2);
      [vm_compute; reflexivity | exact doc_example_root | vm_compute; reflexivity | exact Hj].
  - apply (doc_index_children_first doc_env doc_heap (RP 6) 4 3 2 1);
      [vm_compute; reflexivity | exact doc_example_root | | vm_compute; reflexivity | vm_compute; reflexivity].
    eexists. split; [reflexivity |]. vm_compute. left; reflexivity.
  - apply doc_order_spec; [vm_compute; reflexivity | exact doc_example_root].
Qed.

Example doc_refcount_example :
  doc_refcount doc_env doc_heap (RP 6) 1 = slot_count doc_env doc_table 0 + 0 /\
  doc_refcount doc_env doc_heap (RP 6) 6 = slot_count doc_env doc_table 5 + 1.
Proof.
  split.
  - apply (doc_refcount_spec doc_env doc_heap (RP 6) doc_table (RP 5) 1 0);
      [vm_compute; reflexivity | exact doc_example_root | vm_compute; reflexivity
      | vm_compute; reflexivity | vm_compute; reflexivity].
  - apply (doc_refcount_spec doc_env doc_heap (RP 6) doc_table (RP 5) 6 5);
      [vm_compute; reflexivity | exact doc_example_root | vm_compute; reflexivity
      | vm_compute; reflexivity | vm_compute; reflexivity].
Qed.

(* the same configuration in canonical encoding (arguments in signature order, no empty tag set) *)
Definition doc_heap_c : heap :=
  [ NSet false [AInt 7];
    NList [RA (AInt 1)];
    NTuple [RP 1; RA (AInt 2)];
    NBuildable BConfig 10%N [(KName 0%N, RP 2); (KName 1%N, RP 1)] [(KName 0%N, [5%N])];
    NDict [(AStr [1%N], RP 1); (AInt 3, RP 3)];
    NList [RP 4; RP 0; RP 1; RP 3] ].

Example ser_iso_example :
  exists m, bij_wf m /\ simulates doc_heap_c doc_table m /\ rel_ref m (RP 5) (RP 5) /\
            (forall i k, In (i, k) m <-> doc_index doc_env doc_heap_c (RP 5) i = Some k).
Proof.
  apply (ser_iso doc_env doc_heap_c (RP 5) doc_table (RP 5));
    [vm_compute; reflexivity | cbn; lia | vm_compute; reflexivity | | vm_compute; reflexivity].
  apply heap_canonical_b_spec. vm_compute. reflexivity.
Qed.

(* why all_writable: an opaque object is passed through by the copy, so the re-based pointer to it is
   meaningless; here the "document" refers to itself and cannot be loaded *)
Theorem ser_fixpoint_needs_writable :
  exists e h r d rd,
    wf_b e h = true /\ root_ok h r /\ all_writable e h r = false /\
    ser e h r = Some (d, rd) /\ ser e d rd = None /\ wf_b e d = false.
Proof.
  exists [], [NOpaque 3%N; NList [RP 0]], (RP 1), [NList [RP 0]], (RP 0).
  split; [vm_compute; reflexivity |]. split; [cbn; lia |]. repeat split; vm_compute; reflexivity.
Qed.
