(* ArgSpec: the reference model of C03 -- a bound-argument list whose non-variadic prefix has
   fixed length, plus a dict of named arguments -- with Python list semantics taken from PySlice.
   This is the specification; ArgStore is the algorithm.  `abs` relates them. *)
From Fiddle Require Import PyBase PySlice Sig ArgStore.

Record spec := mkspec {
  sp_prefix : list (option ref);       (* one slot per positional-only / positional-or-keyword parameter *)
  sp_varargs : list ref;               (* the *args values *)
  sp_named : list (N * ref)            (* keyword-only and **kwargs entries, insertion ordered *)
}.

Definition spec_eq_dec : forall a b : spec, {a = b} + {a <> b}.
Proof.
  decide equality.
  - apply list_eq_dec. decide equality; auto using N.eq_dec, ref_eq_dec.
  - apply (list_eq_dec ref_eq_dec).
  - apply list_eq_dec. decide equality; auto using ref_eq_dec.
Defined.

Section WithSig.
  Variable sg : sig.

  Definition n0 : nat := n_prefix sg.
  Definition has_varpos : bool := match vps sg with Some _ => true | None => false end.

  (* slot number of a positional-or-keyword parameter name *)
  Fixpoint slot_from (ps : list param) (n : N) (i : nat) : option nat :=
    match ps with
    | [] => None
    | p :: ps' =>
        if N.eqb (pname p) n then (match pk p with PosOrKw => Some i | _ => None end)
        else slot_from ps' n (S i)
    end.
  Definition slot_of (n : N) : option nat := slot_from (prefix_params sg) n 0.

  (* ------------------------------------------------------------------ the abstraction function *)
  Fixpoint abs_prefix (ps : list param) (i : nat) (st : store) : list (option ref) :=
    match ps with
    | [] => []
    | p :: ps' =>
        (match pk p with
         | PosOnly => sget st (kpos i)
         | _ => sget st (KName (pname p))
         end) :: abs_prefix ps' (S i) st
    end.

  Fixpoint abs_varargs (fuel : nat) (st : store) (i : nat) : list ref :=
    match fuel with
    | O => []
    | S f => match sget st (kpos i) with
             | Some v => v :: abs_varargs f st (S i)
             | None => []
             end
    end.

  Fixpoint abs_named (st : store) : list (N * ref) :=
    match st with
    | [] => []
    | (KName n, v) :: st' =>
        match slot_of n with
        | Some _ => abs_named st'
        | None => (n, v) :: abs_named st'
        end
    | (KPos _, _) :: st' => abs_named st'
    end.

  Definition abs (st : store) : spec :=
    mkspec (abs_prefix (prefix_params sg) 0 st)
           (match vps sg with Some s => abs_varargs (length st) st s | None => [] end)
           (abs_named st).

  (* ------------------------------------------------------------------ what the spec reports *)
  Fixpoint view_prefix (ps : list param) (slots : list (option ref)) : list ref :=
    match ps, slots with
    | p :: ps', o :: slots' =>
        (match o with
         | Some v => v
         | None => match pdefault p with Some d => d | None => NoValue end
         end) :: view_prefix ps' slots'
    | _, _ => []
    end.

  (* cfg[:] *)
  Definition spec_view (sp : spec) : list ref :=
    view_prefix (prefix_params sg) (sp_prefix sp) ++ sp_varargs sp.

  Definition ndget : list (N * ref) -> N -> option ref := dget N.eqb.
  Definition ndset : list (N * ref) -> N -> ref -> list (N * ref) := dset N.eqb.
  Definition nddel : list (N * ref) -> N -> list (N * ref) := ddel N.eqb.

  (* ------------------------------------------------------------------ one edit / read *)
  Definition set_slot (sp : spec) (j : nat) (v : option ref) : spec :=
    mkspec (list_set_nat (sp_prefix sp) j v) (sp_varargs sp) (sp_named sp).

  (* write position j of the positional list *)
  Definition set_pos (sp : spec) (j : nat) (v : ref) : spec :=
    if Nat.ltb j n0 then set_slot sp j (Some v)
    else mkspec (sp_prefix sp) (list_set_nat (sp_varargs sp) (j - n0) v) (sp_named sp).

  Fixpoint set_pos_each (sp : spec) (idxs : list Z) (vs : list ref) : spec :=
    match idxs, vs with
    | i :: idxs', v :: vs' => set_pos_each (set_pos sp (Z.to_nat i) v) idxs' vs'
    | _, _ => sp
    end.

  Fixpoint unset_slots (slots : list (option ref)) (i : Z) (drop : list Z) : list (option ref) :=
    match slots with
    | [] => []
    | o :: slots' => (if zmem i drop then None else o) :: unset_slots slots' (i + 1) drop
    end.

  Definition spec_len (sp : spec) : Z := Z.of_nat n0 + zlen (sp_varargs sp).

  Definition spec_step (sp : spec) (o : op) : spec * out :=
    match o with
    | OGetAttr n =>
        (sp,
         let cur := match slot_of n with
                    | Some j => match nth_error (sp_prefix sp) j with Some o => o | None => None end
                    | None => ndget (sp_named sp) n
                    end in
         match cur with
         | Some v => OVal v
         | None =>
             match find_param sg n with
             | Some p =>
                 match pk p with
                 | PosOnly | VarPos => OErr EAttribute
                 | _ => if pfactory p then OErr EValue
                        else match pdefault p with Some d => OVal d | None => OErr EAttribute end
                 end
             | None => OErr EAttribute
             end
         end)
    | OSetAttr n v =>
        match validate_param_name sg n with
        | Some e => (sp, OErr e)
        | None =>
            match slot_of n with
            | Some j => (set_slot sp j (Some v), OUnit)
            | None => (mkspec (sp_prefix sp) (sp_varargs sp) (ndset (sp_named sp) n v), OUnit)
            end
        end
    | ODelAttr n =>
        match slot_of n with
        | Some j =>
            match nth_error (sp_prefix sp) j with
            | Some (Some _) => (set_slot sp j None, OUnit)
            | _ => (sp, OErr EAttribute)
            end
        | None =>
            match ndget (sp_named sp) n with
            | Some _ => (mkspec (sp_prefix sp) (sp_varargs sp) (nddel (sp_named sp) n), OUnit)
            | None => (sp, OErr EAttribute)
            end
        end
    | OGetItem i =>
        (sp,
         match replace_int sg i with
         | inr e => OErr e
         | inl z => match list_get (spec_view sp) z with Some v => OVal v | None => OErr EIndex end
         end)
    | OSetItem i v =>
        match replace_int sg i with
        | inr e => (sp, OErr e)
        | inl z =>
            match norm_index z (spec_len sp) with
            | Some j => (set_pos sp (Z.to_nat j) v, OUnit)
            | None => (sp, OErr EIndex)
            end
        end
    | ODelItem i =>
        match replace_int sg i with
        | inr e => (sp, OErr e)
        | inl z =>
            match norm_index z (spec_len sp) with
            | Some j =>
                if j <? Z.of_nat n0 then (set_slot sp (Z.to_nat j) None, OUnit)
                else (mkspec (sp_prefix sp) (list_del_nat (sp_varargs sp) (Z.to_nat j - n0))
                             (sp_named sp), OUnit)
            | None => (sp, OErr EIndex)
            end
        end
    | OGetSlice sl =>
        (sp,
         match list_get_slice (spec_view sp) (replace_part sg (sl_start sl))
                 (replace_part sg (sl_stop sl)) (sl_step sl) with
         | Some l => OList l
         | None => OErr EValue
         end)
    | OSetSlice sl vs =>
        let a := replace_part sg (sl_start sl) in
        let b := replace_part sg (sl_stop sl) in
        match slice_indices a b (sl_step sl) (spec_len sp) with
        | None => (sp, OErr EValue)
        | Some (st, en, step) =>
            let rng := py_range st en step in
            let spans := negb has_varpos || (list_min st rng <? Z.of_nat n0) in
            if spans then
              (* the slice reaches the fixed-length prefix: it must not change the length *)
              if Nat.eqb (length rng) (length vs) then (set_pos_each sp rng vs, OUnit)
              else (sp, OErr EValue)
            else
              (* entirely inside *args: plain Python list assignment *)
              match list_set_slice (spec_view sp) a b (sl_step sl) vs with
              | Some l' => (mkspec (sp_prefix sp) (skipn n0 l') (sp_named sp), OUnit)
              | None => (sp, OErr EValue)
              end
        end
    | ODelSlice sl =>
        match slice_indices (replace_part sg (sl_start sl)) (replace_part sg (sl_stop sl))
                (sl_step sl) (spec_len sp) with
        | None => (sp, OErr EValue)
        | Some (st, en, step) =>
            let rng := py_range st en step in
            (mkspec (unset_slots (sp_prefix sp) 0 rng)
                    (filter_idx (sp_varargs sp) (Z.of_nat n0) rng)
                    (sp_named sp), OUnit)
        end
    end.

  (* ------------------------------------------------------------------ representation invariant *)
  Definition key_ok (st : store) (k : skey) : bool :=
    match k with
    | KPos i =>
        (0 <=? i) &&
        (if i <? Z.of_nat n0 then
           match nth_error (prefix_params sg) (Z.to_nat i) with
           | Some p => pkind_eqb (pk p) PosOnly
           | None => false
           end
         else
           has_varpos &&
           (* contiguous: every slot between n0 and i is present *)
           forallb (fun j => smem st (kpos j)) (nat_seq n0 (Z.to_nat i - n0)))
    | KName n =>
        (* a stored name is a nameable parameter, or (only with **kwargs) any other name --
           including one that coincides with a positional-only / variadic parameter, which the
           constructor accepts: f(1, a=2) for def f(a, /, **kw) *)
        match find_param sg n with
        | Some p => match pk p with
                    | PosOrKw | KwOnly => true
                    | _ => has_var_kw sg
                    end
        | None => has_var_kw sg
        end
    end.

  Fixpoint keys_distinct (st : store) : bool :=
    match st with
    | [] => true
    | (k, _) :: st' => negb (smem st' k) && keys_distinct st'
    end.

  Definition inv_b (st : store) : bool :=
    keys_distinct st
    && forallb (fun kv => key_ok st (fst kv)) st
    && forallb (fun kv => negb (ref_eqb (snd kv) NoValue)) st.

  Definition inv (st : store) : Prop := inv_b st = true.

  (* values written by an operation are real values (NO_VALUE is the "unset" marker) *)
  Definition op_ok (o : op) : bool :=
    match o with
    | OSetAttr _ v | OSetItem _ v => negb (ref_eqb v NoValue)
    | OSetSlice _ vs => forallb (fun v => negb (ref_eqb v NoValue)) vs
    | _ => true
    end.

  (* the refinement statement, as a boolean (so that it can be tested on generated histories) *)
  Definition refines_step_b (st : store) (o : op) : bool :=
    let '(st', r) := step sg st o in
    let '(sp', r') := spec_step (abs st) o in
    (if out_eq_dec r r' then true else false)
    && (if spec_eq_dec (abs st') sp' then true else false)
    && inv_b st'.
End WithSig.
