(* C05, the converse direction: a build that returns normally ran no failing callable - every Config
   reachable from the root has a callable the oracle lets succeed; contrapositive: if some reachable
   Config fails, the build cannot return normally. *)
From Fiddle Require Import PyBase PySlice Sig ArgStore PyCall Heap Traverse Build Build_stmt
  Traverse_proofs Build_proofs.
From Coq Require Import List NArith.
Import ListNotations.

Theorem success_means_no_reachable_failure e fails h r s res r' :
  wf_b e h = true -> root_ok h r -> mrun e h (build_node e fails) r = (s, res) ->
  res = inl r' ->
  forall i fn a t, reach e h r i -> nth_error h i = Some (NBuildable BConfig fn a t) -> fails i = None.
Proof.
  intros Hwf Hroot Hrun Hres i fn a t Hreach Hn.
  pose proof (reach_processed e fails h r s res Hwf Hroot Hrun r' i Hres Hreach) as Hin.
  destruct (log_entries_ok e fails h r s res Hwf Hroot Hrun i Hin)
    as [Hf|[Hb|[(fn' & a' & t' & H)|[(fn' & a' & t' & H)|(fn' & a' & t' & H)]]]].
  - exact Hf.
  - unfold is_buildable in Hb. rewrite Hn in Hb. discriminate.
  - rewrite Hn in H. discriminate.
  - rewrite Hn in H. discriminate.
  - rewrite Hn in H. discriminate.
Qed.

Theorem reachable_failure_means_failure e fails h r s res i fn a t x :
  wf_b e h = true -> root_ok h r -> mrun e h (build_node e fails) r = (s, res) ->
  reach e h r i -> nth_error h i = Some (NBuildable BConfig fn a t) -> fails i = Some x ->
  exists f, res = inr f.
Proof.
  intros Hwf Hroot Hrun Hreach Hn Hf. destruct res as [r'|f]; [|exists f; reflexivity].
  pose proof (success_means_no_reachable_failure e fails h r s (inl r') r' Hwf Hroot Hrun eq_refl
                i fn a t Hreach Hn) as H.
  rewrite H in Hf. discriminate.
Qed.
