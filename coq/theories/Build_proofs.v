(* Build_proofs: the statements of Build_stmt.v for fdl.build (Build.build_node) on well-formed
   heaps, from the generic traversal invariant of Traverse_proofs.v. *)
From Fiddle Require Import PyBase PySlice Sig ArgStore PyCall Heap Traverse Build Build_stmt
  Traverse_proofs.
From Coq Require Import List Arith Lia Bool.
Import ListNotations.
Local Open Scope nat_scope.

Ltac bn_cases H :=
  repeat match type of H with
         | context [match ?x with _ => _ end] => destruct x eqn:?
         | context [if ?x then _ else _] => destruct x eqn:?
         end.

Section BuildNode.
  Variable e : sigenv.
  Variable fails : nat -> option N.

  Lemma build_app i n rs o o' x :
    build_node e fails i n rs o = (o', x) -> exists ext, o' = o ++ ext.
  Proof.
    intros H. unfold build_node, alloc in H. cbn zeta in H.
    bn_cases H; inversion H; subst;
      solve [exists []; rewrite app_nil_r; reflexivity | eexists; reflexivity].
  Qed.

  (* a failure of build_node is a TypeError or an exception raised at that very node *)
  Lemma build_fail i n rs o o' fl :
    build_node e fails i n rs o = (o', inr fl) ->
    fl = FType i \/
    exists x, fl = FRaise i x /\
      (fails i = Some x \/ (x = 0%N /\ exists fn a t, n = NBuildable BTagged fn a t)).
  Proof.
    intros H. unfold build_node, alloc in H. cbn zeta in H.
    bn_cases H; inversion H; subst; try (left; reflexivity);
      right; eexists; (split; [reflexivity |]); eauto 8.
  Qed.

  Definition alloc_kind (n : node) : bool :=
    match n with
    | NBuildable BTagged _ _ _ => false
    | n => traversable n
    end.

  Lemma build_alloc i n rs o o' ri :
    alloc_kind n = true -> build_node e fails i n rs o = (o', inl ri) ->
    ri = RP (length o) /\ exists nd, o' = o ++ [nd].
  Proof.
    intros Hk H. unfold build_node, alloc in H. cbn zeta in H.
    destruct n; cbn [alloc_kind traversable] in Hk; try discriminate;
      bn_cases H; inversion H; subst; try discriminate; (split; [reflexivity | eexists; reflexivity]).
  Qed.

  Definition mirror_at (i : nat) (n : node) (rs : list ref) (o o' : heap) (ri : ref) : Prop :=
    match n with
    | NList _ | NTuple _ | NDict _ | NDefaultDict _ _ | NNamedTuple _ _ =>
        ri = RP (length o) /\ o' = o ++ [with_children e n rs]
    | NBuildable BConfig fn args _ =>
        exists vw, ri = RP (length o) /\ o' = o ++ [NObj fn vw] /\
          build1 (sig_of e fn) (combine (map fst (flat_args e fn args)) rs) = Some vw /\
          fails i = None
    | NBuildable _ _ _ _ => True
    | _ => ri = RP i
    end.

  Lemma build_mirror i n rs o o' ri :
    build_node e fails i n rs o = (o', inl ri) -> mirror_at i n rs o o' ri.
  Proof.
    intros H. unfold build_node, alloc in H. cbn zeta in H.
    destruct n; cbn [mirror_at]; try (inversion H; subst; auto; fail).
    destruct k; try exact I.
    bn_cases H; inversion H; subst. eexists. split; [reflexivity |]. split; [reflexivity |].
    split; [| reflexivity]. unfold build1.
    match goal with Ht : transform_build _ _ = Some _ |- _ => rewrite Ht end.
    match goal with Hp : py_call _ _ _ = Some _ |- _ => exact Hp end.
  Qed.
End BuildNode.

(* ------------------------------------------------------------------------------------------ *)
(* consequences of the timeline for build_node: fresh results *)

Section Fresh.
  Variable e : sigenv.
  Variable fails : nat -> option N.
  Variable h : heap.
  Let bn := build_node e fails.
  Let rec_ := recorded e h bn.

  Lemma allocates_kind i n : allocates h i = true -> nth_error h i = Some n -> alloc_kind n = true.
  Proof.
    unfold allocates. intros Ha Hn. rewrite Hn in Ha. destruct n; cbn [alloc_kind]; auto.
  Qed.

  Lemma recorded_fresh m : forall o, rec_ m o ->
    forall i ri, memo_get m i = Some ri -> allocates h i = true ->
    exists k, ri = RP k /\ length h <= k < length o.
  Proof.
    induction m as [|[a ra] m IH]; intros o Hrec i ri Hg Hal; [discriminate |].
    cbn [rec_ recorded] in Hrec.
    destruct Hrec as (n & rs & o0 & o1 & Hn & Hm & Hon & [ext Ho] & Hrec').
    destruct (build_app _ _ _ _ _ _ _ _ Hon) as [ext1 Ho1].
    cbn [memo_get] in Hg. destruct (Nat.eqb i a) eqn:Hia.
    - apply Nat.eqb_eq in Hia. subst a. inversion Hg; subst ra.
      destruct (build_alloc _ _ _ _ _ _ _ _ (allocates_kind _ _ Hal Hn) Hon) as [Hri [nd Hnd]].
      destruct (recorded_prefix e h bn (build_app e fails) m o0 Hrec') as [ext0 Ho0].
      exists (length o0). split; [exact Hri |].
      rewrite Ho, Hnd, Ho0, !app_length. cbn [length]. lia.
    - destruct (IH o0 Hrec' i ri Hg Hal) as (k & Hk & Hlt).
      exists k. split; [exact Hk |]. rewrite Ho, Ho1, !app_length. lia.
  Qed.

  Lemma recorded_distinct m : forall o, rec_ m o ->
    forall i j ri rj, memo_get m i = Some ri -> memo_get m j = Some rj ->
    allocates h i = true -> allocates h j = true -> i <> j -> ri <> rj.
  Proof.
    induction m as [|[a ra] m IH]; intros o Hrec i j ri rj Hgi Hgj Hai Haj Hij; [discriminate |].
    cbn [rec_ recorded] in Hrec.
    destruct Hrec as (n & rs & o0 & o1 & Hn & Hm & Hon & [ext Ho] & Hrec').
    cbn [memo_get] in Hgi, Hgj.
    destruct (Nat.eqb i a) eqn:Hia; destruct (Nat.eqb j a) eqn:Hja.
    - apply Nat.eqb_eq in Hia, Hja. congruence.
    - apply Nat.eqb_eq in Hia. subst a. inversion Hgi; subst ra.
      destruct (build_alloc _ _ _ _ _ _ _ _ (allocates_kind _ _ Hai Hn) Hon) as [Hri _].
      destruct (recorded_fresh m o0 Hrec' j rj Hgj Haj) as (k & Hk & Hlt).
      subst. intros Heq. inversion Heq. lia.
    - apply Nat.eqb_eq in Hja. subst a. inversion Hgj; subst ra.
      destruct (build_alloc _ _ _ _ _ _ _ _ (allocates_kind _ _ Haj Hn) Hon) as [Hrj _].
      destruct (recorded_fresh m o0 Hrec' i ri Hgi Hai) as (k & Hk & Hlt).
      subst. intros Heq. inversion Heq. lia.
    - eapply IH; eauto.
  Qed.
End Fresh.

(* ------------------------------------------------------------------------------------------ *)
(* the statements *)

Section Holds.
  Variable e : sigenv.
  Variable fails : nat -> option N.
  Variables (h : heap) (r : ref) (s : mstate) (res : ref + fail).
  Hypothesis Hwf : wf_b e h = true.
  Hypothesis Hroot : root_ok h r.
  Hypothesis Hrun : mrun e h (build_node e fails) r = (s, res).

  Let bn := build_node e fails.

  Lemma run_vspec : vspec e h bn (mk_ms [] h []) r s res.
  Proof. apply mrun_spec; auto. apply build_app. Qed.

  Lemma run_inv : inv e h bn s.
  Proof. destruct run_vspec as (Hinv & _). exact Hinv. Qed.

  Lemma run_log_creach k : In k (log s) -> creach e h r k.
  Proof.
    destruct run_vspec as (_ & _ & (l & Hl & Hr) & _). cbn [log app] in Hl. rewrite Hl. apply Hr.
  Qed.

  Lemma run_prefix : exists ext, out s = h ++ ext.
  Proof.
    destruct run_inv as (_ & _ & _ & Hrec). eapply recorded_prefix; eauto. apply build_app.
  Qed.

  Theorem pure_holds : pure_stmt h s.
  Proof.
    destruct run_prefix as [ext Ho]. unfold pure_stmt. rewrite Ho. split.
    - rewrite firstn_app, Nat.sub_diag, firstn_all. cbn [firstn]. apply app_nil_r.
    - rewrite app_length. lia.
  Qed.

  Theorem once_holds : once_stmt s.
  Proof. destruct run_inv as (_ & Hnd & _). exact Hnd. Qed.

  Theorem memo_function_holds : memo_function_stmt s.
  Proof.
    split; [apply (inv_memo_nodup e h bn); exact run_inv |].
    intros i. apply (inv_log_memo e h bn). exact run_inv.
  Qed.

  Theorem enough_fuel_holds : enough_fuel_stmt res.
  Proof.
    destruct run_vspec as (_ & _ & _ & Hres). unfold enough_fuel_stmt.
    destruct res as [r'|fl]; [repeat split; intros; discriminate |].
    destruct Hres as (i & n & rs & o & o' & Hon & _).
    apply build_fail in Hon. destruct Hon as [Hfl|(x & Hfl & _)]; subst fl;
      repeat split; intros; discriminate.
  Qed.

  (* completeness half of exactly_reach: holds unconditionally *)
  Theorem reach_processed r' i : res = inl r' -> reach e h r i -> In i (log s).
  Proof.
    intros Hres Hreach. destruct run_vspec as (_ & _ & _ & Hsucc). rewrite Hres in Hsucc.
    destruct Hsucc as [_ Hall]. apply Hall. apply reach_creach. exact Hreach.
  Qed.

  (* soundness half needs distinct keys in dictionary-like nodes: otherwise a child can be
     visited without being addressable by any path *)
  Theorem only_reach_partial : keys_ok h -> only_reach_stmt e h r s.
  Proof.
    intros Hk i Hin. apply creach_reach; [apply keys_ok_elts_ok; exact Hk |].
    apply run_log_creach. exact Hin.
  Qed.

  Theorem exactly_reach_partial : keys_ok h -> exactly_reach_stmt e h r s res.
  Proof.
    intros Hk r' Hres i. split; [apply only_reach_partial; exact Hk | eapply reach_processed; eauto].
  Qed.

  (* the variants over child-step reachability hold without the extra hypothesis *)
  Theorem only_creach_holds : forall i, In i (log s) -> creach e h r i.
  Proof. exact run_log_creach. Qed.

  Theorem exactly_creach_holds : forall r', res = inl r' -> forall i, In i (log s) <-> creach e h r i.
  Proof.
    intros r' Hres i. split; [apply run_log_creach |].
    destruct run_vspec as (_ & _ & _ & Hsucc). rewrite Hres in Hsucc. apply Hsucc.
  Qed.

  Theorem children_first_holds : children_first_stmt e h s.
  Proof.
    intros i j Hin Hc. destruct run_inv as (_ & _ & Hord & _).
    apply in_split in Hin. destruct Hin as (l1 & l2 & Hl).
    pose proof (Hord l1 i l2 Hl j Hc) as Hj.
    apply in_split in Hj. destruct Hj as (a & b & Hl1).
    exists a, b, l2. rewrite Hl, Hl1, <- app_assoc. reflexivity.
  Qed.

  Theorem fresh_distinct_holds : fresh_distinct_stmt h s.
  Proof.
    intros i j ri rj Hai Haj Hgi Hgj. destruct run_inv as (_ & _ & _ & Hrec). split.
    - destruct (recorded_fresh e fails h _ _ Hrec i ri Hgi Hai) as (k & Hk & Hlt).
      exists k. split; [exact Hk | lia].
    - intros Hij. eapply recorded_distinct; eauto.
  Qed.

  Lemma run_lookup i ri : memo_get (memo s) i = Some ri ->
    exists n rs o0 o1,
      nth_error h i = Some n /\
      map (map_ref (memo s)) (children e n) = map Some rs /\
      bn i n rs o0 = (o1, inl ri) /\
      (exists ext0, o0 = h ++ ext0) /\ (exists ext, out s = o1 ++ ext).
  Proof.
    intros Hg. pose proof run_inv as Hinv. destruct Hinv as (Hk & Hnd & Hord & Hrec).
    eapply recorded_lookup; eauto; [apply build_app |].
    apply (inv_memo_nodup e h bn). exact run_inv.
  Qed.

  Lemma nth_error_mid {A} (o : list A) x ext : nth_error ((o ++ [x]) ++ ext) (length o) = Some x.
  Proof.
    rewrite <- app_assoc. rewrite nth_error_app2 by lia. rewrite Nat.sub_diag. reflexivity.
  Qed.

  Theorem mirrors_holds : mirrors_stmt e h s.
  Proof.
    intros i n ri Hin Hn Hg.
    destruct (run_lookup i ri Hg) as (n' & rs & o0 & o1 & Hn' & Hm & Hon & _ & [ext Ho]).
    rewrite Hn in Hn'. inversion Hn'; subst n'. exists rs. split; [exact Hm |].
    apply build_mirror in Hon. rewrite Ho.
    destruct n; cbn [mirror_at] in Hon; try exact Hon;
      try (destruct Hon as [Hri Ho1]; subst; eexists; split; [reflexivity | apply nth_error_mid]).
    destruct k; try exact I.
    destruct Hon as (vw & Hri & Ho1 & Hb & _). subst.
    exists (length o0), vw. split; [reflexivity |]. split; [apply nth_error_mid | exact Hb].
  Qed.

  (* failure_prefix as stated claims [fails k = Some x] also when the failing node is a
     TaggedValue without value (which raises whatever the oracle says): that part needs the
     failing node not to be a TaggedValue; the reach part needs keys_ok. *)
  Definition is_tagged (k : nat) : Prop :=
    exists fn a t, nth_error h k = Some (NBuildable BTagged fn a t).

  Lemma log_entries_ok i : In i (log s) ->
    fails i = None \/ is_buildable h i = false
    \/ (exists fn a t, nth_error h i = Some (NBuildable BPartial fn a t))
    \/ (exists fn a t, nth_error h i = Some (NBuildable BArgFactory fn a t))
    \/ (exists fn a t, nth_error h i = Some (NBuildable BTagged fn a t)).
  Proof.
    intros Hin. apply (inv_log_memo e h bn s i run_inv) in Hin.
    apply memo_get_in_some in Hin. destruct Hin as [ri Hg].
    destruct (run_lookup i ri Hg) as (n & rs & o0 & o1 & Hn & _ & Hon & _).
    apply build_mirror in Hon. unfold is_buildable. rewrite Hn.
    destruct n; cbn [mirror_at] in Hon; auto.
    destruct k.
    - destruct Hon as (vw & _ & _ & _ & Hf). left; exact Hf.
    - right; right; left; eauto.
    - right; right; right; left; eauto.
    - right; right; right; right; eauto.
  Qed.

  (* everything failure_prefix says, with child-step reachability and the precise account of
     where the exception comes from (the oracle, or a TaggedValue without value, which raises
     exception class 0); no extra hypothesis *)
  Theorem failure_prefix_core : forall k x, res = inr (FRaise k x) ->
    creach e h r k /\ ~ In k (log s) /\ (fails k = Some x \/ (x = 0%N /\ is_tagged k)) /\
    (forall j, child_of e h k j -> In j (log s)) /\
    (forall i, In i (log s) ->
       fails i = None \/ is_buildable h i = false
       \/ (exists fn a t, nth_error h i = Some (NBuildable BPartial fn a t))
       \/ (exists fn a t, nth_error h i = Some (NBuildable BArgFactory fn a t))
       \/ (exists fn a t, nth_error h i = Some (NBuildable BTagged fn a t))).
  Proof.
    intros k x Hres. destruct run_vspec as (_ & _ & _ & Hfail). rewrite Hres in Hfail.
    destruct Hfail as (i & n & rs & o & o' & Hon & Hc & Hnotin & Hn & Hch).
    apply build_fail in Hon. destruct Hon as [Hfl|(x' & Hfl & Hwhy)]; [discriminate |].
    inversion Hfl; subst i x'.
    split; [exact Hc |]. split; [exact Hnotin |]. split.
    { destruct Hwhy as [Hf|(Hx & fn & a & t & Hnk)]; [left; exact Hf |].
      right. split; [exact Hx |]. exists fn, a, t. rewrite Hn, Hnk. reflexivity. }
    split; [| exact log_entries_ok].
    intros j (n0 & Hn0 & Hj). rewrite Hn in Hn0. inversion Hn0; subst n0. auto.
  Qed.

  (* the exact statement, under keys_ok and the (necessary) assumption that the oracle agrees
     with a TaggedValue that raises for lack of a value *)
  Theorem failure_prefix_partial :
    keys_ok h -> (forall k, res = inr (FRaise k 0%N) -> is_tagged k -> fails k = Some 0%N) ->
    failure_prefix_stmt e fails h r s res.
  Proof.
    intros Hk Hnt k x Hres.
    destruct (failure_prefix_core k x Hres) as (Hc & Hnotin & Hwhy & Hch & Hlog).
    split; [apply creach_reach; [apply keys_ok_elts_ok; exact Hk | exact Hc] |].
    split; [exact Hnotin |]. split; [| split; [exact Hch | exact Hlog]].
    destruct Hwhy as [Hf|[Hx Ht]]; [exact Hf |]. subst x. apply Hnt; assumption.
  Qed.

  Corollary failure_prefix_partial_untagged :
    keys_ok h -> (forall k x, res = inr (FRaise k x) -> ~ is_tagged k) ->
    failure_prefix_stmt e fails h r s res.
  Proof.
    intros Hk Hnt. apply failure_prefix_partial; [exact Hk |].
    intros k Hres Ht. exfalso. eapply Hnt; eauto.
  Qed.
End Holds.

(* ------------------------------------------------------------------------------------------ *)
(* why the three statements above carry an extra hypothesis: they are false as stated *)

Definition no_fail_ (_ : nat) : option N := None.

(* a dictionary node with a duplicated key: the second value is traversed (and rebuilt) but no
   path leads to it, so it is processed without being `reach`able *)
Definition cex_dup_heap : heap :=
  [NList []; NDict [(ANone, RA ANone); (ANone, RP 0)]].

Lemma cex_dup_not_reach : ~ reach [] cex_dup_heap (RP 1) 0.
Proof.
  intros [p Hp]. destruct p as [|pe p]; cbn -[pelt_eq_dec] in Hp; [discriminate |].
  destruct (pelt_eq_dec (PKey ANone) pe).
  - destruct p; cbn -[pelt_eq_dec] in Hp; discriminate.
  - discriminate.
Qed.

Theorem only_reach_stmt_false :
  exists e fails h r s res,
    wf_b e h = true /\ root_ok h r /\ mrun e h (build_node e fails) r = (s, res) /\
    ~ only_reach_stmt e h r s.
Proof.
  exists [], no_fail_, cex_dup_heap, (RP 1).
  eexists. eexists. split; [vm_compute; reflexivity |]. split; [cbn; lia |].
  split; [vm_compute; reflexivity |].
  intros H. apply cex_dup_not_reach. apply H. cbn. left; reflexivity.
Qed.

Theorem exactly_reach_stmt_false :
  exists e fails h r s res,
    wf_b e h = true /\ root_ok h r /\ mrun e h (build_node e fails) r = (s, res) /\
    ~ exactly_reach_stmt e h r s res.
Proof.
  exists [], no_fail_, cex_dup_heap, (RP 1).
  eexists. eexists. split; [vm_compute; reflexivity |]. split; [cbn; lia |].
  split; [vm_compute; reflexivity |].
  intros H. apply cex_dup_not_reach. eapply H; [reflexivity |]. cbn. left; reflexivity.
Qed.

(* a TaggedValue without value raises although the oracle says nothing fails *)
Definition cex_tag_heap : heap := [NBuildable BTagged 0%N [] []].

Theorem failure_prefix_stmt_false :
  exists e fails h r s res,
    wf_b e h = true /\ root_ok h r /\ mrun e h (build_node e fails) r = (s, res) /\
    keys_ok h /\ ~ failure_prefix_stmt e fails h r s res.
Proof.
  exists [], no_fail_, cex_tag_heap, (RP 0).
  eexists. eexists. split; [vm_compute; reflexivity |]. split; [cbn; lia |].
  split; [vm_compute; reflexivity |]. split.
  - intros i n Hn. destruct i as [|[|i]]; cbn in Hn; inversion Hn; subst; exact I.
  - intros H. destruct (H 0 0%N eq_refl) as (_ & _ & Hf & _). discriminate.
Qed.

(* ------------------------------------------------------------------------------------------ *)
(* keys_ok as a boolean, so that the hypothesis can be checked on concrete heaps by computation *)

Fixpoint nodupb {A} (dec : forall a b : A, {a = b} + {a <> b}) (l : list A) : bool :=
  match l with
  | [] => true
  | x :: l' => (if in_dec dec x l' then false else true) && nodupb dec l'
  end.

Lemma nodupb_spec {A} dec (l : list A) : nodupb dec l = true -> NoDup l.
Proof.
  induction l as [|x l IH]; cbn [nodupb]; intros H; [constructor |].
  apply andb_true_iff in H. destruct H as [Hx Hl].
  destruct (in_dec dec x l); [discriminate |]. constructor; auto.
Qed.

Definition node_keys_ok_b (n : node) : bool :=
  match n with
  | NDict kvs | NDefaultDict _ kvs => nodupb atom_eq_dec (map fst kvs)
  | NNamedTuple _ fs => nodupb N.eq_dec (map fst fs)
  | _ => true
  end.
Definition keys_ok_b (h : heap) : bool := forallb node_keys_ok_b h.

Lemma keys_ok_b_spec h : keys_ok_b h = true -> keys_ok h.
Proof.
  unfold keys_ok_b, keys_ok. intros H i n Hn. rewrite forallb_forall in H.
  specialize (H n (nth_error_In _ _ Hn)).
  destruct n; cbn [node_keys_ok node_keys_ok_b] in *; auto; eapply nodupb_spec; eauto.
Qed.
