(* Lang_proofs: C11.  auto_config's as_buildable() semantics of a straight-line configuration
   program (Lang.eval true) versus running the program (Lang.eval false), related through fdl.build.

   1. eval true only appends list / tuple / dict / Buildable nodes (no callable is invoked).
   2. A Config made from a call site (signature_binding) is called by fdl.build exactly like the
      direct call (py_call): same view.
   3. Building the configuration graph gives an object graph isomorphic to the direct result. *)
From Fiddle Require Import PyBase PySlice Sig ArgStore ArgSpec PyCall C01Check PyCall_proofs Heap
  Traverse Build Build_stmt Traverse_proofs Build_proofs Iso_proofs Store_proofs Tags_proofs
  Copy_proofs C02Check Lang.
From Coq Require Import List Arith Lia Bool NArith ZArith.
Import ListNotations.
Local Open Scope nat_scope.

(* ------------------------------------------------------------------------------------------ *)
(* the local loops of eval, as named functions *)

Definition ev_list (ev : heap -> expr -> heap * option ref) :=
  fix eval_list (o : heap) (xs : list expr) : heap * option (list ref) :=
    match xs with
    | [] => (o, Some [])
    | y :: ys =>
        match ev o y with
        | (o1, Some r) => match eval_list o1 ys with
                          | (o2, Some rs) => (o2, Some (r :: rs))
                          | (o2, None) => (o2, None)
                          end
        | (o1, None) => (o1, None)
        end
    end.

Definition ev_kvs {K : Type} (ev : heap -> expr -> heap * option ref) :=
  fix eval_kw (o : heap) (kvs : list (K * expr)) : heap * option (list (K * ref)) :=
    match kvs with
    | [] => (o, Some [])
    | (k, y) :: ys =>
        match ev o y with
        | (o1, Some r) => match eval_kw o1 ys with
                          | (o2, Some rs) => (o2, Some ((k, r) :: rs))
                          | (o2, None) => (o2, None)
                          end
        | (o1, None) => (o1, None)
        end
    end.

Definition kwn (ks : list (N * ref)) : store := map (fun kv => (KName (fst kv), snd kv)) ks.

Lemma eval_S e cfg f env o x :
  eval e cfg (S f) env o x =
  let ev := eval e cfg f env in
  match x with
  | EConst a => (o, Some (RA a))
  | EVar i => (o, nth_error env i)
  | EList xs => match ev_list ev o xs with
                | (o1, Some rs) => let '(o2, r) := alloc o1 (NList rs) in (o2, Some r)
                | (o1, None) => (o1, None)
                end
  | ETuple xs => match ev_list ev o xs with
                 | (o1, Some []) => (o1, Some (RA AEmptyTuple))
                 | (o1, Some rs) => let '(o2, r) := alloc o1 (NTuple rs) in (o2, Some r)
                 | (o1, None) => (o1, None)
                 end
  | EDict kvs => match ev_kvs ev o kvs with
                 | (o1, Some rs) => let '(o2, r) := alloc o1 (NDict rs) in (o2, Some r)
                 | (o1, None) => (o1, None)
                 end
  | ECall fn pos kw =>
      match ev_list ev o pos with
      | (o1, Some ps) =>
          match ev_kvs ev o1 kw with
          | (o2, Some ks) =>
              if cfg then
                match signature_binding (sig_of e fn) ps ks with
                | Some st => let '(o3, r) := alloc o2 (NBuildable BConfig fn st []) in (o3, Some r)
                | None => (o2, None)
                end
              else
                match py_call (sig_of e fn) ps (kwn ks) with
                | Some vw => let '(o3, r) := alloc o2 (NObj fn vw) in (o3, Some r)
                | None => (o2, None)
                end
          | (o2, None) => (o2, None)
          end
      | (o1, None) => (o1, None)
      end
  | EPartial fn pos kw =>
      match ev_list ev o pos with
      | (o1, Some ps) =>
          match ev_kvs ev o1 kw with
          | (o2, Some ks) =>
              if cfg then
                match signature_binding (sig_of e fn) ps ks with
                | Some st => let '(o3, r) := alloc o2 (NBuildable BPartial fn st []) in (o3, Some r)
                | None => (o2, None)
                end
              else let '(o3, r) := alloc o2 (NPartialObj fn ps ks) in (o3, Some r)
          | (o2, None) => (o2, None)
          end
      | (o1, None) => (o1, None)
      end
  end.
Proof. reflexivity. Qed.

(* ------------------------------------------------------------------------------------------ *)
(* small list / heap facts *)

Lemma wf_from_app e (a b : heap) : forall i,
  wf_from e (a ++ b) i = wf_from e a i && wf_from e b (i + length a).
Proof.
  induction a as [|n a IH]; intros i; cbn [app wf_from length].
  - rewrite Nat.add_0_r. reflexivity.
  - rewrite IH, andb_assoc. replace (S i + length a) with (i + S (length a)) by lia. reflexivity.
Qed.

Definition below (b : nat) (rs : list ref) : Prop := forallb (ref_below b) rs = true.

Lemma ref_below_mono b b' r : b <= b' -> ref_below b r = true -> ref_below b' r = true.
Proof.
  destruct r as [a|j]; cbn [ref_below]; [auto |].
  intros Hle H. apply Nat.ltb_lt in H. apply Nat.ltb_lt. lia.
Qed.

Lemma below_mono b b' rs : b <= b' -> below b rs -> below b' rs.
Proof.
  unfold below. intros Hle H. rewrite forallb_forall in *. intros x Hx.
  eapply ref_below_mono; eauto.
Qed.

Lemma below_incl b l l' : incl l' l -> below b l -> below b l'.
Proof. unfold below. intros Hi H. rewrite forallb_forall in *. auto. Qed.

Lemma below_app b l l' : below b l -> below b l' -> below b (l ++ l').
Proof. unfold below. intros H1 H2. rewrite forallb_app, H1, H2. reflexivity. Qed.

Lemma below_in b l r : below b l -> In r l -> ref_below b r = true.
Proof. unfold below. intros H Hin. rewrite forallb_forall in H. auto. Qed.

(* ------------------------------------------------------------------------------------------ *)
(* the values stored by signature_binding are values of the call site *)

Lemma bind_pos_values ps : forall index pos acc st,
  bind_pos ps index pos acc = Some st -> incl (map snd st) (map snd acc ++ pos).
Proof.
  induction ps as [|p ps IH]; intros index pos acc st H; destruct pos as [|v pos];
    cbn [bind_pos] in H; try discriminate.
  - inversion H; subst. apply incl_appl, incl_refl.
  - inversion H; subst. apply incl_appl, incl_refl.
  - destruct (pk p).
    + apply IH in H. rewrite map_app in H. cbn [map snd] in H. rewrite <- app_assoc in H. exact H.
    + apply IH in H. rewrite map_app in H. cbn [map snd] in H. rewrite <- app_assoc in H. exact H.
    + inversion H; subst. rewrite map_app. apply incl_app; [apply incl_appl, incl_refl |].
      apply incl_appr. intros x Hx. apply in_map_iff in Hx. destruct Hx as ([k w] & <- & Hin).
      exact (in_combine_r (map kpos (nat_seq index (length (v :: pos)))) (v :: pos) k w Hin).
    + discriminate.
    + discriminate.
Qed.

Lemma bind_kw_values sg kw : forall acc st,
  bind_kw sg kw acc = Some st -> st = acc ++ kwn kw.
Proof.
  induction kw as [|[n v] kw IH]; intros acc st H; cbn [bind_kw] in H.
  - inversion H; subst. cbn [kwn map]. rewrite app_nil_r. reflexivity.
  - destruct (smem acc (KName n)); [discriminate |].
    assert (Hstep : bind_kw sg kw (acc ++ [(KName n, v)]) = Some st \/ False).
    { destruct (find_param sg n) as [p|]; [destruct (pk p) |]; try (left; exact H);
        destruct (has_var_kw sg); try discriminate; left; exact H. }
    destruct Hstep as [Hstep|[]]. apply IH in Hstep. rewrite Hstep, <- app_assoc. reflexivity.
Qed.

Lemma order_bound_in sg st kv : In kv (order_bound sg st) -> In kv st.
Proof.
  unfold order_bound. intros H. apply in_app_or in H. destruct H as [H|H].
  - apply in_flat_map in H. destruct H as (p & _ & H).
    destruct (pk p); try (destruct H; fail);
      (destruct (sget st (KName (pname p))) as [v|] eqn:Hg; [| destruct H]);
      (destruct H as [H|[]]; subst kv; apply sget_In; exact Hg).
  - apply in_app_or in H. destruct H as [H|H]; apply filter_In in H; tauto.
Qed.

Lemma kwn_values ks : map snd (kwn ks) = map snd ks.
Proof. unfold kwn. rewrite map_map. reflexivity. Qed.

Lemma sb_values sg ps ks st :
  signature_binding sg ps ks = Some st -> incl (map snd st) (ps ++ map snd ks).
Proof.
  unfold signature_binding. intros H.
  destruct (bind_pos sg 0 ps []) as [st1|] eqn:H1; [| discriminate].
  destruct (bind_kw sg ks st1) as [st2|] eqn:H2; [| discriminate].
  inversion H; subst st. apply bind_pos_values in H1. apply bind_kw_values in H2. subst st2.
  intros x Hx. apply in_map_iff in Hx. destruct Hx as (kv & <- & Hin).
  apply order_bound_in in Hin. apply in_app_or in Hin. destruct Hin as [Hin|Hin].
  - apply in_or_app. left. apply (H1 (snd kv)). apply in_map. exact Hin.
  - apply in_or_app. right. rewrite <- kwn_values. apply in_map. exact Hin.
Qed.

(* ------------------------------------------------------------------------------------------ *)
(* 1. as_buildable only appends configuration nodes                                             *)

Definition cfg_node (n : node) : Prop :=
  match n with
  | NList _ | NTuple _ | NDict _ => True
  | NBuildable BConfig _ _ [] | NBuildable BPartial _ _ [] => True
  | _ => False
  end.

Section Single.
  Variable e : sigenv.
  Variable env : list ref.

  (* o' extends o by configuration nodes; if the environment is closed in o, the extension is
     well-formed and the results are closed in o' *)
  Definition ok (o o' : heap) (l : option (list ref)) : Prop :=
    exists d, o' = o ++ d /\ Forall cfg_node d /\
      (below (length o) env ->
       wf_from e d (length o) = true /\ forall rs, l = Some rs -> below (length o') rs).

  Lemma ok_refl o l : (forall rs, l = Some rs -> below (length o) env -> below (length o) rs) ->
    ok o o l.
  Proof.
    intros H. exists []. rewrite app_nil_r. split; [reflexivity |]. split; [constructor |].
    intros Hb. split; [reflexivity |]. intros rs Hl. eauto.
  Qed.

  Definition app_opt (a b : option (list ref)) : option (list ref) :=
    match a, b with Some x, Some y => Some (x ++ y) | _, _ => None end.

  Lemma ok_trans o o1 o2 l1 l2 : ok o o1 l1 -> ok o1 o2 l2 -> ok o o2 (app_opt l1 l2).
  Proof.
    intros (d1 & -> & K1 & W1) (d2 & -> & K2 & W2). exists (d1 ++ d2).
    split; [rewrite app_assoc; reflexivity |]. split; [apply Forall_app; auto |].
    intros Hb. destruct (W1 Hb) as [Wf1 B1].
    assert (Hb1 : below (length (o ++ d1)) env).
    { eapply below_mono; [| exact Hb]. rewrite app_length. lia. }
    destruct (W2 Hb1) as [Wf2 B2]. split.
    - rewrite wf_from_app, Wf1. rewrite app_length in Wf2. exact Wf2.
    - intros rs Hl. destruct l1 as [x|], l2 as [y|]; cbn [app_opt] in Hl; try discriminate.
      inversion Hl; subst rs. apply below_app; [| apply B2; reflexivity].
      eapply below_mono; [| apply B1; reflexivity]. rewrite !app_length. lia.
  Qed.

  Lemma ok_weaken o o' l l' :
    ok o o' l -> (forall rs', l' = Some rs' -> exists rs, l = Some rs /\ incl rs' rs) -> ok o o' l'.
  Proof.
    intros (d & -> & K & W) H. exists d. split; [reflexivity |]. split; [exact K |].
    intros Hb. destruct (W Hb) as [Wf B]. split; [exact Wf |].
    intros rs' Hl. destruct (H rs' Hl) as (rs & Hrs & Hinc). eapply below_incl; eauto.
  Qed.

  Lemma ok_alloc o o1 l n :
    ok o o1 (Some l) -> cfg_node n -> incl (node_refs e n) l ->
    ok o (o1 ++ [n]) (Some [RP (length o1)]).
  Proof.
    intros (d & -> & K & W) Hn Hinc. exists (d ++ [n]).
    split; [rewrite app_assoc; reflexivity |]. split; [apply Forall_app; auto |].
    intros Hb. destruct (W Hb) as [Wf B]. split.
    - rewrite wf_from_app, Wf. cbn [wf_from]. rewrite !andb_true_r.
      rewrite <- app_length. eapply below_incl; [exact Hinc | apply B; reflexivity].
    - intros rs Hl. inversion Hl; subst rs. unfold below. cbn [forallb ref_below].
      rewrite andb_true_r. apply Nat.ltb_lt. rewrite !app_length. cbn [length]. lia.
  Qed.

  Definition one (r : option ref) : option (list ref) := option_map (fun x => [x]) r.

  Section Loops.
    Variable ev : heap -> expr -> heap * option ref.
    Hypothesis Hev : forall o x o' r, ev o x = (o', r) -> ok o o' (one r).

    Lemma ev_list_ok xs : forall o o' l, ev_list ev o xs = (o', l) -> ok o o' l.
    Proof.
      induction xs as [|y ys IH]; intros o o' l H; cbn [ev_list] in H.
      - inversion H; subst. apply ok_refl. intros rs Hl _. inversion Hl. reflexivity.
      - destruct (ev o y) as [o1 [r|]] eqn:Hy.
        + apply Hev in Hy. destruct (ev_list ev o1 ys) as [o2 [rs|]] eqn:Hys; inversion H; subst.
          * apply IH in Hys. exact (ok_trans _ _ _ _ _ Hy Hys).
          * apply IH in Hys. exact (ok_trans _ _ _ _ _ Hy Hys).
        + inversion H; subst. apply Hev in Hy. exact Hy.
    Qed.

    Lemma ev_kvs_ok {K} (kvs : list (K * expr)) : forall o o' l,
      ev_kvs ev o kvs = (o', l) -> ok o o' (option_map (map snd) l).
    Proof.
      induction kvs as [|[k y] ys IH]; intros o o' l H; cbn [ev_kvs] in H.
      - inversion H; subst. apply ok_refl. intros rs Hl _. inversion Hl. reflexivity.
      - destruct (ev o y) as [o1 [r|]] eqn:Hy.
        + apply Hev in Hy. destruct (ev_kvs ev o1 ys) as [o2 [rs|]] eqn:Hys; inversion H; subst.
          * apply IH in Hys. exact (ok_trans _ _ _ _ _ Hy Hys).
          * apply IH in Hys. exact (ok_trans _ _ _ _ _ Hy Hys).
        + inversion H; subst. apply Hev in Hy. exact Hy.
    Qed.
  End Loops.

  Lemma ok_none o o' l : ok o o' l -> ok o o' None.
  Proof. intros H. eapply ok_weaken; [exact H |]. intros rs' Hl. discriminate. Qed.

  Lemma ok_atom o o' l a : ok o o' l -> ok o o' (Some [RA a]).
  Proof.
    intros (d & -> & K & W). exists d. split; [reflexivity |]. split; [exact K |].
    intros Hb. destruct (W Hb) as [Wf _]. split; [exact Wf |].
    intros rs Hl. inversion Hl; subst. reflexivity.
  Qed.

  Lemma eval_ok : forall f o x o' r, eval e true f env o x = (o', r) -> ok o o' (one r).
  Proof.
    induction f as [|f IH]; intros o x o' r H.
    - cbn [eval] in H. inversion H; subst. apply ok_refl. intros rs Hl. discriminate.
    - rewrite eval_S in H. cbv zeta in H.
      pose proof (ev_list_ok _ IH) as HL.
      pose proof (fun K => @ev_kvs_ok _ IH K) as HK.
      destruct x as [a|i|fn pos kw|fn pos kw|xs|xs|kvs].
      + inversion H; subst. apply ok_refl. intros rs Hl _. inversion Hl. reflexivity.
      + inversion H; subst. apply ok_refl. intros rs Hl Hb.
        destruct (nth_error env i) as [v|] eqn:Hv; [| discriminate]. inversion Hl; subst rs.
        unfold below. cbn [forallb]. rewrite andb_true_r.
        eapply below_in; [exact Hb | eapply nth_error_In; exact Hv].
      + destruct (ev_list _ o pos) as [o1 [ps|]] eqn:H1.
        2:{ inversion H; subst. apply HL in H1. exact H1. }
        apply HL in H1.
        destruct (ev_kvs _ o1 kw) as [o2 [ks|]] eqn:H2.
        2:{ inversion H; subst. apply HK in H2. exact (ok_trans _ _ _ _ _ H1 H2). }
        apply HK in H2. pose proof (ok_trans _ _ _ _ _ H1 H2) as H12. cbn [option_map app_opt] in H12.
        destruct (signature_binding (sig_of e fn) ps ks) as [st|] eqn:Hsb.
        * unfold alloc in H. inversion H; subst. eapply ok_alloc; [exact H12 | exact I |].
          cbn [node_refs]. eapply sb_values; exact Hsb.
        * inversion H; subst. eapply ok_none; exact H12.
      + destruct (ev_list _ o pos) as [o1 [ps|]] eqn:H1.
        2:{ inversion H; subst. apply HL in H1. exact H1. }
        apply HL in H1.
        destruct (ev_kvs _ o1 kw) as [o2 [ks|]] eqn:H2.
        2:{ inversion H; subst. apply HK in H2. exact (ok_trans _ _ _ _ _ H1 H2). }
        apply HK in H2. pose proof (ok_trans _ _ _ _ _ H1 H2) as H12. cbn [option_map app_opt] in H12.
        destruct (signature_binding (sig_of e fn) ps ks) as [st|] eqn:Hsb.
        * unfold alloc in H. inversion H; subst. eapply ok_alloc; [exact H12 | exact I |].
          cbn [node_refs]. eapply sb_values; exact Hsb.
        * inversion H; subst. eapply ok_none; exact H12.
      + destruct (ev_list _ o xs) as [o1 [rs|]] eqn:H1.
        2:{ inversion H; subst. apply HL in H1. exact H1. }
        apply HL in H1. unfold alloc in H. inversion H; subst.
        eapply ok_alloc; [exact H1 | exact I | cbn [node_refs children]; apply incl_refl].
      + destruct (ev_list _ o xs) as [o1 [rs|]] eqn:H1.
        2:{ inversion H; subst. apply HL in H1. exact H1. }
        apply HL in H1. destruct rs as [|r0 rs].
        * inversion H; subst. eapply ok_atom; exact H1.
        * unfold alloc in H. inversion H; subst.
          eapply ok_alloc; [exact H1 | exact I | cbn [node_refs children]; apply incl_refl].
      + destruct (ev_kvs _ o kvs) as [o1 [rs|]] eqn:H1.
        2:{ inversion H; subst. apply HK in H1. exact H1. }
        apply HK in H1. cbn [option_map] in H1. unfold alloc in H. inversion H; subst.
        eapply ok_alloc; [exact H1 | exact I | cbn [node_refs children]; apply incl_refl].
  Qed.
End Single.

Lemma run_body_ok e fuel body : forall env o o' res,
  run_body e true fuel env o body = (o', res) -> ok e env o o' res.
Proof.
  induction body as [|x rest IH]; intros env o o' res H; cbn [run_body] in H.
  - inversion H; subst. apply ok_refl. intros rs Hl Hb. inversion Hl; subst. exact Hb.
  - destruct (eval e true fuel env o x) as [o1 [r|]] eqn:Hx.
    + apply eval_ok in Hx. apply IH in H.
      destruct Hx as (d1 & -> & K1 & W1). destruct H as (d2 & -> & K2 & W2).
      exists (d1 ++ d2). split; [rewrite app_assoc; reflexivity |].
      split; [apply Forall_app; auto |].
      intros Hb. destruct (W1 Hb) as [Wf1 B1].
      assert (Hb1 : below (length (o ++ d1)) (env ++ [r])).
      { apply below_app; [| apply B1; reflexivity].
        eapply below_mono; [| exact Hb]. rewrite app_length. lia. }
      destruct (W2 Hb1) as [Wf2 B2]. split; [| exact B2].
      rewrite wf_from_app, Wf1. rewrite app_length in Wf2. exact Wf2.
    + inversion H; subst. apply eval_ok in Hx. eapply ok_none; exact Hx.
Qed.

Lemma run_program_ok e fuel args o p hc res :
  run_program e true fuel args o p = (hc, res) -> ok e args o hc (one res).
Proof.
  unfold run_program. intros H.
  destruct (run_body e true fuel args o (p_body p)) as [o1 [env|]] eqn:Hb.
  2:{ inversion H; subst. apply run_body_ok in Hb. exact Hb. }
  apply run_body_ok in Hb.
  assert (Hret : forall o2 r, eval e true fuel env o1 (p_ret p) = (o2, r) -> ok e args o o2 (one r)).
  { intros o2 r Hr. apply eval_ok in Hr.
    destruct Hb as (d1 & -> & K1 & W1). destruct Hr as (d2 & -> & K2 & W2).
    exists (d1 ++ d2). split; [rewrite app_assoc; reflexivity |].
    split; [apply Forall_app; auto |].
    intros Hba. destruct (W1 Hba) as [Wf1 B1]. destruct (W2 (B1 env eq_refl)) as [Wf2 B2].
    split; [| exact B2]. rewrite wf_from_app, Wf1. rewrite app_length in Wf2. exact Wf2. }
  destruct (eval e true fuel env o1 (p_ret p)) as [o2 [r|]] eqn:Hr.
  - specialize (Hret o2 (Some r) eq_refl).
    destruct (contains_buildable (S (length o2)) o2 r); inversion H; subst;
      [exact Hret | eapply ok_none; exact Hret].
  - inversion H; subst. exact (Hret hc None eq_refl).
Qed.

(* as_buildable( *args ) leaves the argument objects alone and only creates lists, tuples, dicts,
   Configs and Partials: no configurable callable is invoked, no functools.partial is made *)
Theorem as_buildable_no_invocation : forall e fuel args o p hc res,
  run_program e true fuel args o p = (hc, res) ->
  exists d, hc = o ++ d /\
    Forall (fun n => match n with
                     | NList _ | NTuple _ | NDict _ => True
                     | NBuildable BConfig _ _ [] | NBuildable BPartial _ _ [] => True
                     | _ => False
                     end) d.
Proof.
  intros e fuel args o p hc res H. apply run_program_ok in H.
  destruct H as (d & Hd & K & _). exists d. split; [exact Hd | exact K].
Qed.

Lemma run_program_wf e fuel args o p hc res :
  run_program e true fuel args o p = (hc, res) ->
  wf_b e o = true -> below (length o) args ->
  wf_b e hc = true /\ forall r, res = Some r -> ref_below (length hc) r = true.
Proof.
  intros H Hwf Hb. apply run_program_ok in H. destruct H as (d & -> & _ & W).
  destruct (W Hb) as [Wf B]. split.
  - unfold wf_b in *. rewrite wf_from_app, Hwf. exact Wf.
  - intros r Hr. subst res. specialize (B [r] eq_refl). unfold below in B.
    cbn [forallb] in B. rewrite andb_true_r in B. exact B.
Qed.

(* ------------------------------------------------------------------------------------------ *)
(* the two semantics run in lock step: same references, pointwise related nodes                 *)

Definition plain (n : node) : Prop :=
  match n with
  | NList _ | NTuple _ | NDict _ | NDefaultDict _ _ | NNamedTuple _ _ => True
  | _ => False
  end.

Inductive nrel (e : sigenv) : node -> node -> Prop :=
| nr_plain n : plain n -> nrel e n n
| nr_call fn ps ks st vw :
    signature_binding (sig_of e fn) ps ks = Some st ->
    py_call (sig_of e fn) ps (kwn ks) = Some vw ->
    nrel e (NBuildable BConfig fn st []) (NObj fn vw)
| nr_partial fn ps ks st :
    signature_binding (sig_of e fn) ps ks = Some st ->
    nrel e (NBuildable BPartial fn st []) (NPartialObj fn ps ks).

Lemma Forall2_len {A B} (R : A -> B -> Prop) l1 l2 : Forall2 R l1 l2 -> length l1 = length l2.
Proof. induction 1; cbn [length]; congruence. Qed.

Section Double.
  Variable e : sigenv.
  Variable env : list ref.

  Definition rel2 (oc op oc' op' : heap) : Prop :=
    exists dc dp, oc' = oc ++ dc /\ op' = op ++ dp /\ Forall2 (nrel e) dc dp.

  Lemma rel2_refl oc op : rel2 oc op oc op.
  Proof. exists [], []. rewrite !app_nil_r. repeat split. constructor. Qed.

  Lemma rel2_trans oc op oc1 op1 oc2 op2 :
    rel2 oc op oc1 op1 -> rel2 oc1 op1 oc2 op2 -> rel2 oc op oc2 op2.
  Proof.
    intros (dc1 & dp1 & -> & -> & F1) (dc2 & dp2 & -> & -> & F2).
    exists (dc1 ++ dc2), (dp1 ++ dp2). rewrite !app_assoc. repeat split.
    apply Forall2_app; assumption.
  Qed.

  Lemma rel2_length oc op oc' op' :
    rel2 oc op oc' op' -> length oc = length op -> length oc' = length op'.
  Proof.
    intros (dc & dp & -> & -> & F) Hl. rewrite !app_length, Hl, (Forall2_len _ _ _ F). reflexivity.
  Qed.

  Lemma rel2_alloc oc op oc1 op1 nc np :
    rel2 oc op oc1 op1 -> nrel e nc np -> rel2 oc op (oc1 ++ [nc]) (op1 ++ [np]).
  Proof.
    intros H Hn. eapply rel2_trans; [exact H |]. exists [nc], [np]. repeat split.
    constructor; [exact Hn | constructor].
  Qed.

  Section Loops.
    Variables evc evp : heap -> expr -> heap * option ref.
    Hypothesis Hev : forall oc op x oc' op' rc rp,
      length oc = length op -> evc oc x = (oc', Some rc) -> evp op x = (op', Some rp) ->
      rc = rp /\ rel2 oc op oc' op'.

    Lemma ev_list_rel xs : forall oc op oc' op' lc lp,
      length oc = length op ->
      ev_list evc oc xs = (oc', Some lc) -> ev_list evp op xs = (op', Some lp) ->
      lc = lp /\ rel2 oc op oc' op'.
    Proof.
      induction xs as [|y ys IH]; intros oc op oc' op' lc lp Hl Hc Hp; cbn [ev_list] in Hc, Hp.
      - inversion Hc; inversion Hp; subst. split; [reflexivity | apply rel2_refl].
      - destruct (evc oc y) as [oc1 [rc|]] eqn:Hyc; [| discriminate].
        destruct (evp op y) as [op1 [rp|]] eqn:Hyp; [| discriminate].
        destruct (ev_list evc oc1 ys) as [oc2 [rsc|]] eqn:Hysc; [| discriminate].
        destruct (ev_list evp op1 ys) as [op2 [rsp|]] eqn:Hysp; [| discriminate].
        inversion Hc; inversion Hp; subst.
        destruct (Hev _ _ _ _ _ _ _ Hl Hyc Hyp) as [-> R1].
        destruct (IH _ _ _ _ _ _ (rel2_length _ _ _ _ R1 Hl) Hysc Hysp) as [-> R2].
        split; [reflexivity | eapply rel2_trans; eauto].
    Qed.

    Lemma ev_kvs_rel {K} (kvs : list (K * expr)) : forall oc op oc' op' lc lp,
      length oc = length op ->
      ev_kvs evc oc kvs = (oc', Some lc) -> ev_kvs evp op kvs = (op', Some lp) ->
      lc = lp /\ rel2 oc op oc' op'.
    Proof.
      induction kvs as [|[k y] ys IH]; intros oc op oc' op' lc lp Hl Hc Hp; cbn [ev_kvs] in Hc, Hp.
      - inversion Hc; inversion Hp; subst. split; [reflexivity | apply rel2_refl].
      - destruct (evc oc y) as [oc1 [rc|]] eqn:Hyc; [| discriminate].
        destruct (evp op y) as [op1 [rp|]] eqn:Hyp; [| discriminate].
        destruct (ev_kvs evc oc1 ys) as [oc2 [rsc|]] eqn:Hysc; [| discriminate].
        destruct (ev_kvs evp op1 ys) as [op2 [rsp|]] eqn:Hysp; [| discriminate].
        inversion Hc; inversion Hp; subst.
        destruct (Hev _ _ _ _ _ _ _ Hl Hyc Hyp) as [-> R1].
        destruct (IH _ _ _ _ _ _ (rel2_length _ _ _ _ R1 Hl) Hysc Hysp) as [-> R2].
        split; [reflexivity | eapply rel2_trans; eauto].
    Qed.
  End Loops.

  Lemma eval_rel : forall f oc op x oc' op' rc rp,
    length oc = length op ->
    eval e true f env oc x = (oc', Some rc) -> eval e false f env op x = (op', Some rp) ->
    rc = rp /\ rel2 oc op oc' op'.
  Proof.
    induction f as [|f IH]; intros oc op x oc' op' rc rp Hl Hc Hp.
    - cbn [eval] in Hc. discriminate.
    - rewrite eval_S in Hc, Hp. cbv zeta in Hc, Hp.
      pose proof (ev_list_rel _ _ IH) as HL.
      pose proof (fun K => @ev_kvs_rel _ _ IH K) as HK.
      destruct x as [a|i|fn pos kw|fn pos kw|xs|xs|kvs].
      + inversion Hc; inversion Hp; subst. split; [reflexivity | apply rel2_refl].
      + inversion Hc; inversion Hp; subst. split; [congruence | apply rel2_refl].
      + destruct (ev_list _ oc pos) as [oc1 [psc|]] eqn:H1c; [| discriminate].
        destruct (ev_list _ op pos) as [op1 [psp|]] eqn:H1p; [| discriminate].
        destruct (HL _ _ _ _ _ _ _ Hl H1c H1p) as [-> R1].
        destruct (ev_kvs _ oc1 kw) as [oc2 [ksc|]] eqn:H2c; [| discriminate].
        destruct (ev_kvs _ op1 kw) as [op2 [ksp|]] eqn:H2p; [| discriminate].
        destruct (HK _ _ _ _ _ _ _ _ (rel2_length _ _ _ _ R1 Hl) H2c H2p) as [-> R2].
        pose proof (rel2_trans _ _ _ _ _ _ R1 R2) as R12.
        destruct (signature_binding (sig_of e fn) psp ksp) as [st|] eqn:Hsb; [| discriminate].
        destruct (py_call (sig_of e fn) psp (kwn ksp)) as [vw|] eqn:Hpc; [| discriminate].
        unfold alloc in Hc, Hp. inversion Hc; inversion Hp; subst.
        split; [rewrite (rel2_length _ _ _ _ R12 Hl); reflexivity |].
        apply rel2_alloc; [exact R12 | econstructor; eassumption].
      + destruct (ev_list _ oc pos) as [oc1 [psc|]] eqn:H1c; [| discriminate].
        destruct (ev_list _ op pos) as [op1 [psp|]] eqn:H1p; [| discriminate].
        destruct (HL _ _ _ _ _ _ _ Hl H1c H1p) as [-> R1].
        destruct (ev_kvs _ oc1 kw) as [oc2 [ksc|]] eqn:H2c; [| discriminate].
        destruct (ev_kvs _ op1 kw) as [op2 [ksp|]] eqn:H2p; [| discriminate].
        destruct (HK _ _ _ _ _ _ _ _ (rel2_length _ _ _ _ R1 Hl) H2c H2p) as [-> R2].
        pose proof (rel2_trans _ _ _ _ _ _ R1 R2) as R12.
        destruct (signature_binding (sig_of e fn) psp ksp) as [st|] eqn:Hsb; [| discriminate].
        unfold alloc in Hc, Hp. inversion Hc; inversion Hp; subst.
        split; [rewrite (rel2_length _ _ _ _ R12 Hl); reflexivity |].
        apply rel2_alloc; [exact R12 | econstructor; eassumption].
      + destruct (ev_list _ oc xs) as [oc1 [rsc|]] eqn:H1c; [| discriminate].
        destruct (ev_list _ op xs) as [op1 [rsp|]] eqn:H1p; [| discriminate].
        destruct (HL _ _ _ _ _ _ _ Hl H1c H1p) as [-> R1].
        unfold alloc in Hc, Hp. inversion Hc; inversion Hp; subst.
        split; [rewrite (rel2_length _ _ _ _ R1 Hl); reflexivity |].
        apply rel2_alloc; [exact R1 | apply nr_plain; exact I].
      + destruct (ev_list _ oc xs) as [oc1 [rsc|]] eqn:H1c; [| discriminate].
        destruct (ev_list _ op xs) as [op1 [rsp|]] eqn:H1p; [| discriminate].
        destruct (HL _ _ _ _ _ _ _ Hl H1c H1p) as [-> R1].
        destruct rsp as [|r0 rsp].
        * inversion Hc; inversion Hp; subst. split; [reflexivity | exact R1].
        * unfold alloc in Hc, Hp. inversion Hc; inversion Hp; subst.
          split; [rewrite (rel2_length _ _ _ _ R1 Hl); reflexivity |].
          apply rel2_alloc; [exact R1 | apply nr_plain; exact I].
      + destruct (ev_kvs _ oc kvs) as [oc1 [rsc|]] eqn:H1c; [| discriminate].
        destruct (ev_kvs _ op kvs) as [op1 [rsp|]] eqn:H1p; [| discriminate].
        destruct (HK _ _ _ _ _ _ _ _ Hl H1c H1p) as [-> R1].
        unfold alloc in Hc, Hp. inversion Hc; inversion Hp; subst.
        split; [rewrite (rel2_length _ _ _ _ R1 Hl); reflexivity |].
        apply rel2_alloc; [exact R1 | apply nr_plain; exact I].
  Qed.
End Double.

Lemma run_body_rel e fuel body : forall env oc op oc' op' envc envp,
  length oc = length op ->
  run_body e true fuel env oc body = (oc', Some envc) ->
  run_body e false fuel env op body = (op', Some envp) ->
  envc = envp /\ rel2 e oc op oc' op'.
Proof.
  induction body as [|x rest IH]; intros env oc op oc' op' envc envp Hl Hc Hp;
    cbn [run_body] in Hc, Hp.
  - inversion Hc; inversion Hp; subst. split; [reflexivity | apply rel2_refl].
  - destruct (eval e true fuel env oc x) as [oc1 [rc|]] eqn:Hxc; [| discriminate].
    destruct (eval e false fuel env op x) as [op1 [rp|]] eqn:Hxp; [| discriminate].
    destruct (eval_rel e env fuel _ _ _ _ _ _ _ Hl Hxc Hxp) as [-> R1].
    destruct (IH _ _ _ _ _ _ _ (rel2_length _ _ _ _ _ R1 Hl) Hc Hp) as [-> R2].
    split; [reflexivity | eapply rel2_trans; eauto].
Qed.

Lemma run_program_rel e fuel args o p hc hp rc rp :
  run_program e true fuel args o p = (hc, Some rc) ->
  run_program e false fuel args o p = (hp, Some rp) ->
  rc = rp /\ rel2 e o o hc hp.
Proof.
  unfold run_program. intros Hc Hp.
  destruct (run_body e true fuel args o (p_body p)) as [oc1 [envc|]] eqn:Hbc; [| discriminate].
  destruct (run_body e false fuel args o (p_body p)) as [op1 [envp|]] eqn:Hbp; [| discriminate].
  destruct (run_body_rel e fuel _ _ _ _ _ _ _ _ eq_refl Hbc Hbp) as [-> R1].
  destruct (eval e true fuel envp oc1 (p_ret p)) as [oc2 [r1|]] eqn:Hrc; [| discriminate].
  destruct (eval e false fuel envp op1 (p_ret p)) as [op2 [r2|]] eqn:Hrp; [| discriminate].
  destruct (eval_rel e envp fuel _ _ _ _ _ _ _ (rel2_length _ _ _ _ _ R1 eq_refl) Hrc Hrp) as [-> R2].
  destruct (contains_buildable (S (length oc2)) oc2 r2); [| discriminate].
  inversion Hc; inversion Hp; subst. split; [reflexivity | eapply rel2_trans; eauto].
Qed.

(* ------------------------------------------------------------------------------------------ *)
(* 2. signature_binding versus py_call                                                          *)

(* generic store facts *)
Lemma sget_app (a b : store) k :
  sget (a ++ b) k = match sget a k with Some v => Some v | None => sget b k end.
Proof.
  induction a as [|[k0 v0] a IH]; [reflexivity |]. cbn [app]. rewrite !sget_cons.
  destruct (skey_eqb k k0); [reflexivity | exact IH].
Qed.

Lemma sget_none_notin (st : store) k : sget st k = None <-> ~ In k (map fst st).
Proof.
  split.
  - intros H Hin. apply in_map_iff in Hin. destruct Hin as ([k' v] & Hk & Hin). cbn [fst] in Hk.
    subst k'. apply In_sget_some in Hin. congruence.
  - intros H. destruct (sget st k) as [v|] eqn:Hg; [| reflexivity].
    exfalso. apply H. apply sget_In in Hg. apply in_map_iff. exists (k, v). auto.
Qed.

Lemma nodup_app_intro {A} (a b : list A) :
  NoDup a -> NoDup b -> (forall x, In x a -> In x b -> False) -> NoDup (a ++ b).
Proof.
  induction a as [|x a IH]; intros Ha Hb Hd; [exact Hb |].
  inversion Ha as [|? ? Hx Ha']; subst. cbn [app]. constructor.
  - intros Hin. apply in_app_or in Hin. destruct Hin as [Hin|Hin]; [auto |].
    apply (Hd x); [left; reflexivity | exact Hin].
  - apply IH; auto. intros y Hy1 Hy2. apply (Hd y); [right; exact Hy1 | exact Hy2].
Qed.

Lemma nodup_app_r {A} (a b : list A) : NoDup (a ++ b) -> NoDup b.
Proof.
  induction a as [|x a IH]; intros H; [exact H |]. cbn [app] in H. inversion H; subst. auto.
Qed.

Lemma sget_same (a b : store) :
  NoDup (map fst b) ->
  (forall k v, sget a k = Some v -> In (k, v) b) ->
  (forall k v, In (k, v) b -> sget a k = Some v) ->
  forall k, sget b k = sget a k.
Proof.
  intros Hnd H1 H2 k. destruct (sget a k) as [v|] eqn:Ha.
  - apply nodup_in_sget; [exact Hnd | apply H1; exact Ha].
  - destruct (sget b k) as [v|] eqn:Hb; [| reflexivity].
    apply sget_In in Hb. apply H2 in Hb. congruence.
Qed.

Lemma map_fst_combine {A B} (a : list A) : forall (b : list B),
  length a = length b -> map fst (combine a b) = a.
Proof.
  induction a as [|x a IH]; intros [|y b] H; cbn [length combine map fst] in *; try discriminate;
    [reflexivity |]. f_equal. apply IH. lia.
Qed.

Lemma nodup_keys_distinct (st : store) : NoDup (map fst st) -> keys_distinct st = true.
Proof.
  induction st as [|[k v] st IH]; intros H; [reflexivity |].
  cbn [map fst] in H. inversion H as [|? ? Hk Hnd]; subst.
  rewrite keys_distinct_cons. rewrite (IH Hnd), andb_true_r. apply negb_true_iff.
  rewrite smem_sget. apply sget_none_notin in Hk. rewrite Hk. reflexivity.
Qed.

(* what bind_pos stores *)
Fixpoint pstore (ps : list param) (i : nat) (pos : list ref) : store :=
  match ps, pos with
  | p :: ps', v :: pos' => (akey p i, v) :: pstore ps' (S i) pos'
  | _, _ => []
  end.

Definition vstore (i : nat) (lo : list ref) : store :=
  combine (map kpos (nat_seq i (length lo))) lo.

Lemma bind_pos_nil ps index acc : bind_pos ps index [] acc = Some acc.
Proof. destruct ps; reflexivity. Qed.

Lemma bind_pos_spec pre : forall post index pos acc st,
  Forall (fun p => is_prefix_kind (pk p) = true) pre ->
  match post with q :: _ => is_prefix_kind (pk q) = false | [] => True end ->
  bind_pos (pre ++ post) index pos acc = Some st ->
  st = acc ++ pstore pre index (firstn (length pre) pos)
           ++ vstore (index + length pre) (skipn (length pre) pos)
  /\ (skipn (length pre) pos = [] \/ exists q post', post = q :: post' /\ pk q = VarPos).
Proof.
  induction pre as [|p pre IH]; intros post index pos acc st HF Hpost H.
  - cbn [app length firstn skipn pstore]. rewrite Nat.add_0_r.
    destruct pos as [|v pos].
    + rewrite bind_pos_nil in H. inversion H; subst. cbn [app]. unfold vstore. cbn.
      rewrite app_nil_r. split; [reflexivity | left; reflexivity].
    + destruct post as [|q post]; [cbn [app bind_pos] in H; discriminate |].
      cbn [app bind_pos] in H. destruct (pk q) eqn:Kq; try discriminate.
      inversion H; subst. split; [reflexivity |]. right. eauto.
  - inversion HF as [|? ? Hp HF']; subst.
    destruct pos as [|v pos].
    + rewrite bind_pos_nil in H. inversion H; subst. cbn [length firstn skipn pstore app].
      destruct pre; cbn [pstore]; unfold vstore; cbn; rewrite app_nil_r;
        (split; [reflexivity | left; reflexivity]).
    + cbn [app bind_pos] in H. cbn [length firstn skipn pstore].
      replace (index + S (length pre)) with (S index + length pre) by lia.
      unfold akey at 1.
      destruct (pk p) eqn:Kp; try discriminate.
      * destruct (IH _ _ _ _ _ HF' Hpost H) as [-> Hlo]. split; [| exact Hlo].
        rewrite <- app_assoc. reflexivity.
      * destruct (IH _ _ _ _ _ HF' Hpost H) as [-> Hlo]. split; [| exact Hlo].
        rewrite <- app_assoc. reflexivity.
Qed.

Lemma pstore_keys pre : forall i pos k,
  In k (map fst (pstore pre i pos)) ->
  exists j p, nth_error pre j = Some p /\ k = akey p (i + j) /\ j < length pos.
Proof.
  induction pre as [|q pre IH]; intros i pos k H; [destruct H |].
  destruct pos as [|v pos]; [destruct H |]. cbn [pstore map fst In] in H.
  destruct H as [H|H].
  - exists 0, q. rewrite Nat.add_0_r. cbn [length]. repeat split; [auto | lia].
  - destruct (IH _ _ _ H) as (j & p & Hj & Hk & Hl). exists (S j), p.
    replace (i + S j) with (S i + j) by lia. cbn [length]. repeat split; [exact Hj | exact Hk | lia].
Qed.

Lemma sget_pstore_nth pre : forall i pos j p,
  NoDup (map pname pre) -> nth_error pre j = Some p ->
  sget (pstore pre i pos) (akey p (i + j)) = nth_error pos j.
Proof.
  induction pre as [|q pre IH]; intros i pos j p HN Hj; [destruct j; discriminate |].
  cbn [map] in HN. inversion HN as [|? ? Hq HN']; subst.
  destruct pos as [|v pos]; [destruct j; reflexivity |].
  cbn [pstore]. rewrite sget_cons. destruct j as [|j]; cbn [nth_error] in *.
  - inversion Hj; subst. rewrite Nat.add_0_r, skey_eqb_refl. reflexivity.
  - rewrite skey_eqb_neq.
    + replace (i + S j) with (S i + j) by lia. apply IH; assumption.
    + intros E. apply akey_eq in E. destruct E as [E|E]; [lia |].
      apply Hq. rewrite <- E. apply in_map. eapply nth_error_In; exact Hj.
Qed.

Lemma pstore_nodup pre : forall i pos,
  NoDup (map pname pre) -> NoDup (map fst (pstore pre i pos)).
Proof.
  induction pre as [|q pre IH]; intros i pos HN; [constructor |].
  cbn [map] in HN. inversion HN as [|? ? Hq HN']; subst.
  destruct pos as [|v pos]; [constructor |]. cbn [pstore map fst]. constructor; [| apply IH; exact HN'].
  intros Hin. apply pstore_keys in Hin. destruct Hin as (j & p & Hj & Hk & _).
  apply akey_eq in Hk. destruct Hk as [Hk|Hk]; [lia |].
  apply Hq. rewrite Hk. apply in_map. eapply nth_error_In; exact Hj.
Qed.

Lemma vstore_keys i lo : map fst (vstore i lo) = map kpos (nat_seq i (length lo)).
Proof. unfold vstore. apply map_fst_combine. rewrite map_length, nat_seq_length. reflexivity. Qed.

Lemma sget_vstore lo : forall i j, sget (vstore i lo) (kpos (i + j)) = nth_error lo j.
Proof.
  induction lo as [|v lo IH]; intros i j; [destruct j; reflexivity |].
  unfold vstore. cbn [length nat_seq map combine]. rewrite sget_cons.
  destruct j as [|j]; cbn [nth_error].
  - rewrite Nat.add_0_r, skey_eqb_refl. reflexivity.
  - rewrite skey_eqb_neq by (intros E; apply kpos_inj in E; lia).
    replace (i + S j) with (S i + j) by lia. apply IH.
Qed.

Lemma vstore_nodup i lo : NoDup (map fst (vstore i lo)).
Proof.
  rewrite vstore_keys. apply map_inj_nodup; [intros a b; apply kpos_inj | apply nat_seq_nodup].
Qed.

(* what bind_kw checks *)
Lemma bind_kw_spec sg kw : forall acc st,
  bind_kw sg kw acc = Some st ->
  st = acc ++ kwn kw /\
  (NoDup (map fst acc) -> NoDup (map fst st)) /\
  (forall n v, In (n, v) kw ->
     sget acc (KName n) = None /\ (nameable sg n = false -> has_var_kw sg = true)).
Proof.
  induction kw as [|[n v] kw IH]; intros acc st H; cbn [bind_kw] in H.
  - inversion H; subst. cbn [kwn map]. rewrite app_nil_r. split; [reflexivity |].
    split; [auto | intros n v []].
  - destruct (smem acc (KName n)) eqn:Hm; [discriminate |].
    assert (Hstep : bind_kw sg kw (acc ++ [(KName n, v)]) = Some st /\
                    (nameable sg n = false -> has_var_kw sg = true)).
    { unfold nameable. destruct (find_param sg n) as [p|]; [destruct (pk p) |];
        try (split; [exact H | intros; discriminate]);
        destruct (has_var_kw sg); try discriminate; split; auto. }
    destruct Hstep as [Hstep Hvk]. destruct (IH _ _ Hstep) as (-> & Hnd & Hall).
    apply smem_false_sget in Hm.
    split; [cbn [kwn map fst snd]; rewrite <- app_assoc; reflexivity |]. split.
    + intros Hacc. apply Hnd. rewrite map_app. cbn [map fst]. apply nodup_app_intro.
      * exact Hacc.
      * constructor; [intros [] | constructor].
      * intros x Hx [Hx'|[]]. subst x. apply sget_none_notin in Hm. auto.
    + intros n' v' [Heq|Hin].
      * inversion Heq; subst. auto.
      * destruct (Hall n' v' Hin) as [Hg Hk]. split; [| exact Hk].
        rewrite sget_app in Hg. destruct (sget acc (KName n')); [discriminate | reflexivity].
Qed.

(* order_bound and flat_args keep the stored (key, value) pairs and the order of the extras *)
Lemma nameable_find sg n :
  nameable sg n = match find_param sg n with
                  | Some p => match pk p with PosOrKw | KwOnly => true | _ => false end
                  | None => false end.
Proof. reflexivity. Qed.

Lemma order_bound_complete sg st k v :
  sget st k = Some v -> In (k, v) (order_bound sg st).
Proof.
  intros Hg. unfold order_bound. destruct k as [z|n].
  - apply in_or_app. right. apply in_or_app. left. apply filter_In. split; [apply sget_In; exact Hg | reflexivity].
  - destruct (nameable sg n) eqn:Hn.
    + apply in_or_app. left. rewrite nameable_find in Hn.
      destruct (find_param sg n) as [p|] eqn:Hf; [| discriminate].
      apply find_param_some in Hf. destruct Hf as [Hin Hname]. subst n.
      apply in_flat_map. exists p. split; [exact Hin |].
      destruct (pk p); try discriminate; rewrite Hg; left; reflexivity.
    + apply in_or_app. right. apply in_or_app. right. apply filter_In.
      split; [apply sget_In; exact Hg |]. cbn [fst]. rewrite nameable_find in Hn.
      destruct (find_param sg n) as [p|]; [destruct (pk p) |]; try discriminate; reflexivity.
Qed.

Lemma nodup_map_filter {A B} (f : A -> B) (g : A -> bool) l :
  NoDup (map f l) -> NoDup (map f (filter g l)).
Proof.
  induction l as [|x l IH]; intros H; [constructor |].
  cbn [map] in H. inversion H as [|? ? Hx Hnd]; subst. cbn [filter].
  destruct (g x); [| auto]. cbn [map]. constructor; [| auto].
  intros Hin. apply Hx. apply in_map_iff in Hin. destruct Hin as (y & Hy & Hyin).
  apply filter_In in Hyin. apply in_map_iff. exists y. tauto.
Qed.

Lemma order_bound_nodup sg st :
  NoDup (map pname sg) -> NoDup (map fst st) -> NoDup (map fst (order_bound sg st)).
Proof.
  intros HN Hst. unfold order_bound. rewrite !map_app.
  set (named := flat_map _ sg).
  assert (Hnamed : forall k, In k (map fst named) ->
                   exists p, In p sg /\ k = KName (pname p) /\ nameable sg (pname p) = true).
  { intros k Hk. apply in_map_iff in Hk. destruct Hk as (kv & <- & Hin).
    apply in_flat_map in Hin. destruct Hin as (p & Hp & Hin). exists p. split; [exact Hp |].
    rewrite (nameable_param sg p HN Hp).
    destruct (pk p); try (destruct Hin; fail);
      (destruct (sget st (KName (pname p))); [| destruct Hin]);
      (destruct Hin as [<-|[]]; split; reflexivity). }
  apply nodup_app_intro; [| apply nodup_app_intro |].
  - subst named. clear Hnamed. induction sg as [|p sg IH]; [constructor |].
    cbn [map] in HN. inversion HN as [|? ? Hp HN']; subst. cbn [flat_map]. rewrite map_app.
    apply nodup_app_intro; [| apply IH; exact HN' |].
    + destruct (pk p); try constructor;
        (destruct (sget st (KName (pname p))); [| constructor]);
        (constructor; [intros [] | constructor]).
    + intros k H1 H2.
      assert (Hk : k = KName (pname p)).
      { destruct (pk p); try (destruct H1; fail);
          (destruct (sget st (KName (pname p))); [| destruct H1]);
          (destruct H1 as [<-|[]]; reflexivity). }
      subst k. apply in_map_iff in H2. destruct H2 as (kv & Hkv & Hin).
      apply in_flat_map in Hin. destruct Hin as (q & Hq & Hin).
      assert (Hkq : fst kv = KName (pname q)).
      { destruct (pk q); try (destruct Hin; fail);
          (destruct (sget st (KName (pname q))); [| destruct Hin]);
          (destruct Hin as [<-|[]]; reflexivity). }
      rewrite Hkq in Hkv. inversion Hkv as [Hpq]. apply Hp. rewrite <- Hpq. apply in_map. exact Hq.
  - apply nodup_map_filter. exact Hst.
  - apply nodup_map_filter. exact Hst.
  - intros k H1 H2. apply in_map_iff in H1. destruct H1 as ([k1 v1] & <- & H1).
    apply filter_In in H1. destruct H1 as [_ H1]. cbn [fst] in *.
    apply in_map_iff in H2. destruct H2 as ([k2 v2] & Hk & H2).
    apply filter_In in H2. destruct H2 as [_ H2]. cbn [fst] in *. subst k2.
    destruct k1; discriminate.
  - intros k H1 H2. destruct (Hnamed k H1) as (p & Hp & -> & Hn).
    apply in_app_or in H2. destruct H2 as [H2|H2];
      apply in_map_iff in H2; destruct H2 as ([k2 v2] & Hk & H2);
      apply filter_In in H2; destruct H2 as [_ H2]; cbn [fst] in *; subst k2; [discriminate |].
    rewrite nameable_find in Hn.
    destruct (find_param sg (pname p)) as [q|]; [destruct (pk q) |]; discriminate.
Qed.

Lemma sget_order_bound sg st :
  NoDup (map pname sg) -> NoDup (map fst st) ->
  forall k, sget (order_bound sg st) k = sget st k.
Proof.
  intros HN Hst. apply sget_same.
  - apply order_bound_nodup; assumption.
  - intros k v. apply order_bound_complete.
  - intros k v Hin. apply nodup_in_sget; [exact Hst | eapply order_bound_in; exact Hin].
Qed.

Lemma sget_flat_args e fn args :
  NoDup (map fst args) -> forall k, sget (flat_args e fn args) k = sget args k.
Proof.
  intros Hnd. apply sget_same.
  - apply flat_args_ok.
  - intros k v Hg. apply flat_args_exact; assumption.
  - intros k v Hin. apply (flat_args_exact e fn args k v Hnd). exact Hin.
Qed.

Lemma extras_of_app sg a b : extras_of sg (a ++ b) = extras_of sg a ++ extras_of sg b.
Proof.
  induction a as [|[[z|n] v] a IH]; [reflexivity | cbn [app extras_of]; exact IH |].
  cbn [app]. rewrite !extras_of_cons_name, IH. destruct (nameable sg n); reflexivity.
Qed.

Lemma extras_of_nonextra sg st :
  (forall k, In k (map fst st) -> nonextra sg k = true) -> extras_of sg st = [].
Proof.
  induction st as [|[[z|n] v] st IH]; intros H; [reflexivity | |].
  - cbn [extras_of]. apply IH. intros k Hk. apply H. right; exact Hk.
  - rewrite extras_of_cons_name. rewrite (H (KName n) (or_introl eq_refl) : nameable sg n = true).
    apply IH. intros k Hk. apply H. right; exact Hk.
Qed.

Lemma extras_of_order_bound sg st :
  NoDup (map pname sg) -> extras_of sg (order_bound sg st) = extras_of sg st.
Proof.
  intros HN. unfold order_bound. rewrite !extras_of_app.
  rewrite extras_of_nonextra, extras_of_nonextra; cbn [app].
  - induction st as [|[[z|n] v] st IH]; [reflexivity | cbn [filter fst extras_of]; exact IH |].
    cbn [filter fst]. rewrite extras_of_cons_name, nameable_find.
    destruct (find_param sg n) as [p|] eqn:Hf; [destruct (pk p) eqn:Kp |];
      rewrite ?extras_of_cons_name, ?nameable_find, ?Hf, ?Kp, IH; reflexivity.
  - intros k Hk. apply in_map_iff in Hk. destruct Hk as ([k1 v1] & <- & H1).
    apply filter_In in H1. destruct H1 as [_ H1]. cbn [fst] in *. destruct k1; [reflexivity | discriminate].
  - intros k Hk. apply in_map_iff in Hk. destruct Hk as (kv & <- & Hin).
    apply in_flat_map in Hin. destruct Hin as (p & Hp & Hin).
    assert (Hk : fst kv = KName (pname p) /\ nameable sg (pname p) = true).
    { rewrite (nameable_param sg p HN Hp).
      destruct (pk p); try (destruct Hin; fail);
        (destruct (sget st (KName (pname p))); [| destruct Hin]);
        (destruct Hin as [<-|[]]; split; reflexivity). }
    destruct Hk as [-> Hn]. exact Hn.
Qed.

(* flat_args: the signature-ordered part holds no extras; the extras follow in stored order *)
Section FlatExtras.
  Variable sg : sig.
  Hypothesis HN : NoDup (map pname sg).
  Variable args : store.

  Definition nonx (result : store) : Prop := forall k, In k (map fst result) -> nonextra sg k = true.

  Lemma nonx_sset result k v : nonx result -> nonextra sg k = true -> nonx (sset result k v).
  Proof.
    intros Hr Hk k' Hin. apply sset_keys in Hin. destruct Hin as [->|Hin]; auto.
  Qed.

  Lemma oa_varargs_nonx fuel : forall index result,
    nonx result -> nonx (oa_varargs fuel args index result).
  Proof.
    induction fuel as [|f IH]; intros index result Hr; cbn [oa_varargs]; [exact Hr |].
    destruct (sget args (kpos index)); [| exact Hr]. apply IH. apply nonx_sset; [exact Hr | reflexivity].
  Qed.

  Lemma oa_params_nonx veq fl ps : (forall p, In p ps -> In p sg) -> forall index result,
    nonx result -> nonx (oa_params veq fl args ps index result).
  Proof.
    induction ps as [|p ps IH]; intros Hsub index result Hr; cbn [oa_params]; [exact Hr |].
    apply IH; [intros q Hq; apply Hsub; right; exact Hq |].
    assert (Hp : In p sg) by (apply Hsub; left; reflexivity).
    pose proof (nameable_param sg p HN Hp) as Hnm.
    destruct (pk p) eqn:Kp.
    - destruct (match sget args (kpos index) with Some v => Some v | None => _ end); [| exact Hr].
      destruct (_ || _); [| exact Hr]. apply nonx_sset; [exact Hr | reflexivity].
    - destruct (match sget args (KName (pname p)) with Some v => Some v | None => _ end); [| exact Hr].
      destruct (_ || _); [| exact Hr]. apply nonx_sset; [exact Hr | exact Hnm].
    - apply oa_varargs_nonx; exact Hr.
    - destruct (match sget args (KName (pname p)) with Some v => Some v | None => _ end); [| exact Hr].
      destruct (_ || _); [| exact Hr]. apply nonx_sset; [exact Hr | exact Hnm].
    - exact Hr.
  Qed.

  Lemma extras_of_sset_nonextra result k v :
    nonextra sg k = true -> extras_of sg (sset result k v) = extras_of sg result.
  Proof.
    intros Hk. unfold sset. induction result as [|[k0 v0] result IH]; cbn [dset].
    - destruct k as [z|n]; [reflexivity |]. rewrite extras_of_cons_name.
      cbn [nonextra] in Hk. rewrite Hk. reflexivity.
    - destruct (skey_eqb k k0) eqn:E.
      + apply skey_eqb_eq in E. subst k0. destruct k as [z|n]; [reflexivity |].
        rewrite !extras_of_cons_name. cbn [nonextra] in Hk. rewrite Hk. reflexivity.
      + destruct k0 as [z0|n0]; [cbn [extras_of]; exact IH |].
        rewrite !extras_of_cons_name, IH. reflexivity.
  Qed.

  Lemma sset_fresh (result : store) k v : ~ In k (map fst result) -> sset result k v = result ++ [(k, v)].
  Proof.
    unfold sset. induction result as [|[k0 v0] result IH]; intros H; [reflexivity |].
    cbn [dset]. rewrite skey_eqb_neq.
    - cbn [app]. f_equal. apply IH. intros Hin. apply H. right; exact Hin.
    - intros E. apply H. left. cbn [fst]. congruence.
  Qed.

  Lemma vk_take_nonextra k : vk_take sg k = match k with KPos _ => true | KName _ => negb (nonextra sg k) end.
  Proof.
    destruct k as [z|n]; [reflexivity |]. cbn [vk_take nonextra]. rewrite nameable_find.
    destruct (find_param sg n) as [p|]; [destruct (pk p) |]; reflexivity.
  Qed.

  Lemma extras_of_var_keyword items : forall result,
    NoDup (map fst items) ->
    (forall k, In k (map fst items) -> nonextra sg k = false -> ~ In k (map fst result)) ->
    extras_of sg (oa_var_keyword sg items result) = extras_of sg result ++ extras_of sg items.
  Proof.
    induction items as [|[k v] items IH]; intros result Hnd Hfresh; cbn [oa_var_keyword].
    - cbn [extras_of]. rewrite app_nil_r. reflexivity.
    - cbn [map fst] in Hnd. inversion Hnd as [|? ? Hk Hnd']; subst.
      fold (vk_take sg k). rewrite vk_take_nonextra.
      destruct k as [z|n].
      + rewrite IH; [| exact Hnd' |].
        * rewrite extras_of_sset_nonextra by reflexivity. reflexivity.
        * intros k Hin Hx Hin'. apply sset_keys in Hin'. destruct Hin' as [->|Hin']; [discriminate |].
          apply (Hfresh k); [right; exact Hin | exact Hx | exact Hin'].
      + destruct (nonextra sg (KName n)) eqn:Hx; cbn [negb].
        * rewrite IH; [| exact Hnd' |].
          -- rewrite extras_of_cons_name. cbn [nonextra] in Hx. rewrite Hx. reflexivity.
          -- intros k Hin. apply Hfresh. right; exact Hin.
        * assert (Hnot : ~ In (KName n) (map fst result)).
          { apply Hfresh; [left; reflexivity | exact Hx]. }
          rewrite (sset_fresh result _ v Hnot). rewrite IH; [| exact Hnd' |].
          -- rewrite extras_of_app, !extras_of_cons_name. cbn [nonextra] in Hx. rewrite Hx.
             cbn [extras_of]. rewrite <- app_assoc. reflexivity.
          -- intros k Hin Hxk Hin'. rewrite map_app in Hin'. apply in_app_or in Hin'.
             destruct Hin' as [Hin'|[Heq|[]]].
             ++ apply (Hfresh k); [right; exact Hin | exact Hxk | exact Hin'].
             ++ cbn [fst] in Heq. subst k. apply Hk. exact Hin.
  Qed.
End FlatExtras.

Lemma extras_of_flat_args e fn args :
  NoDup (map pname (sig_of e fn)) -> NoDup (map fst args) ->
  extras_of (sig_of e fn) (flat_args e fn args) = extras_of (sig_of e fn) args.
Proof.
  intros HN Hnd. unfold flat_args, ordered_arguments, default_flags.
  cbn [f_equal_to_default f_defaults f_var_keyword f_positional negb andb].
  assert (Hnx : nonx (sig_of e fn) (oa_params ref_never_eq
                  (mkflags true false false true true) args (sig_of e fn) 0 [])).
  { apply oa_params_nonx; [exact HN | auto | intros k []]. }
  rewrite extras_of_var_keyword; [| exact Hnd |].
  - rewrite (extras_of_nonextra _ _ Hnx). reflexivity.
  - intros k _ Hx Hin. apply Hnx in Hin. congruence.
Qed.

(* the shape of what signature_binding stores *)
Lemma rk_not_prefix p : 1 < rk p -> is_prefix_kind (pk p) = false.
Proof.
  intros H. destruct (is_prefix_kind (pk p)) eqn:E; [| reflexivity]. apply rk_prefix in E. lia.
Qed.

Lemma sb_analysis sg pos ks st :
  valid_sig sg = true -> signature_binding sg pos ks = Some st ->
  exists pre post pos1 lo,
    sg = pre ++ post /\ Forall (fun p => rk p <= 1) pre /\ Forall (fun p => 1 < rk p) post /\
    kinds_sorted post = true /\
    pos = pos1 ++ lo /\ length pos1 <= length pre /\
    (lo = [] \/ (length pos1 = length pre /\ exists q post', post = q :: post' /\ pk q = VarPos)) /\
    let st1 := pstore pre 0 pos1 ++ vstore (length pre) lo in
    st = order_bound sg (st1 ++ kwn ks) /\
    NoDup (map fst (st1 ++ kwn ks)) /\
    (forall n v, In (n, v) ks ->
       sget st1 (KName n) = None /\ (nameable sg n = false -> has_var_kw sg = true)).
Proof.
  intros HV H. destruct (valid_sig_parts sg HV) as [HS HN].
  destruct (sorted_split 1 sg HS) as (pre & post & Hsg & F1 & F2 & S2).
  unfold signature_binding in H.
  destruct (bind_pos sg 0 pos []) as [st1|] eqn:H1; [| discriminate].
  destruct (bind_kw sg ks st1) as [st2|] eqn:H2; [| discriminate].
  inversion H; subst st. clear H.
  assert (HFa : Forall (fun p => is_prefix_kind (pk p) = true) pre).
  { eapply Forall_impl; [| exact F1]. cbn beta. intros x X. apply rk_prefix, X. }
  assert (Hhead : match post with q :: _ => is_prefix_kind (pk q) = false | [] => True end).
  { destruct post as [|q post]; [exact I |]. inversion F2; subst. apply rk_not_prefix. assumption. }
  rewrite Hsg in H1. destruct (bind_pos_spec pre post 0 pos [] st1 HFa Hhead H1) as [Hst1 Hlo].
  cbn [app Nat.add] in Hst1.
  exists pre, post, (firstn (length pre) pos), (skipn (length pre) pos).
  split; [exact Hsg |]. split; [exact F1 |]. split; [exact F2 |]. split; [exact S2 |].
  split; [symmetry; apply firstn_skipn |]. split; [rewrite firstn_length; lia |].
  split.
  { destruct Hlo as [Hlo|Hlo]; [left; exact Hlo |].
    destruct (skipn (length pre) pos) as [|x l] eqn:Hsk; [left; reflexivity |]. right.
    split; [| exact Hlo]. rewrite firstn_length.
    assert (length pre < length pos); [| lia].
    destruct (le_lt_dec (length pos) (length pre)) as [Hle|Hlt]; [| exact Hlt].
    rewrite skipn_all2 in Hsk by exact Hle. discriminate. }
  cbv zeta. rewrite <- Hst1.
  destruct (bind_kw_spec sg ks st1 st2 H2) as (-> & Hnd & Hall).
  split; [reflexivity |]. split; [| exact Hall].
  apply Hnd. rewrite Hst1, map_app.
  assert (HNa : NoDup (map pname pre)).
  { rewrite Hsg, map_app in HN. eapply nodup_app_l; exact HN. }
  apply nodup_app_intro; [apply pstore_nodup; exact HNa | apply vstore_nodup |].
  intros k Hk1 Hk2. apply pstore_keys in Hk1. destruct Hk1 as (j & p & Hj & -> & Hl).
  rewrite vstore_keys in Hk2. apply in_map_iff in Hk2. destruct Hk2 as (i & Hi & Hin).
  apply nat_seq_in in Hin. unfold akey in Hi. cbn [Nat.add] in Hi.
  assert (j < length pre) by (apply nth_error_Some; congruence).
  destruct (pk p); try discriminate Hi; apply kpos_inj in Hi; lia.
Qed.

Lemma sget_kwn_pos ks z : sget (kwn ks) (KPos z) = None.
Proof.
  induction ks as [|[n v] ks IH]; [reflexivity |]. cbn [kwn map fst snd]. rewrite sget_cons.
  rewrite skey_eqb_neq by discriminate. exact IH.
Qed.

Lemma varargs_of_exact l : forall f st i,
  length l <= f -> (forall j, sget st (kpos (i + j)) = nth_error l j) -> varargs_of f st i = l.
Proof.
  induction l as [|v l IH]; intros f st i Hf H.
  - apply varargs_of_empty. specialize (H 0). rewrite Nat.add_0_r in H. exact H.
  - destruct f as [|f]; [cbn [length] in Hf; lia |]. rewrite varargs_of_S.
    pose proof (H 0) as H0. rewrite Nat.add_0_r in H0. cbn [nth_error] in H0. rewrite H0.
    f_equal. apply IH; [cbn [length] in Hf; lia |].
    intros j. specialize (H (S j)). replace (i + S j) with (S i + j) in H by lia. exact H.
Qed.

Lemma nget_combine_some names : forall pos n v,
  nget (combine names pos) n = Some v ->
  exists j, nth_error names j = Some n /\ nth_error pos j = Some v.
Proof.
  induction names as [|m names IH]; intros pos n v H; [discriminate |].
  destruct pos as [|w pos]; [discriminate |]. cbn [combine] in H. rewrite nget_cons in H.
  destruct (N.eqb_spec n m) as [->|Hne].
  - inversion H; subst. exists 0. split; reflexivity.
  - destruct (IH _ _ _ H) as (j & H1 & H2). exists (S j). split; assumption.
Qed.

Section Binding.
  Variable e : sigenv.
  Variable fn : N.
  Let sg := sig_of e fn.
  Hypothesis HV : valid_sig sg = true.
  Variables (pos : list ref) (ks : list (N * ref)) (st : store).
  Hypothesis Hsb : signature_binding sg pos ks = Some st.

  Let st' := flat_args e fn st.

  (* everything about the flattened store of a Config made from a call site *)
  Lemma sb_facts :
    exists pre post pos1 lo,
      sg = pre ++ post /\ Forall (fun p => rk p <= 1) pre /\ Forall (fun p => 1 < rk p) post /\
      kinds_sorted post = true /\
      pos = pos1 ++ lo /\ length pos1 <= length pre /\
      (lo = [] \/ (length pos1 = length pre /\ vps sg = Some (length pre))) /\
      NoDup (map fst st') /\
      (forall j p, nth_error pre j = Some p ->
         sget st' (akey p j) = match nth_error pos1 j with
                               | Some v => Some v
                               | None => sget (kwn ks) (akey p j) end) /\
      (forall i, sget st' (kpos (length pre + i)) = nth_error lo i) /\
      (forall n, (forall p, In p pre -> pname p = n -> pk p = PosOnly) ->
         sget st' (KName n) = sget (kwn ks) (KName n)) /\
      (forall k v, sget st' k = Some v ->
         (exists j p, nth_error pre j = Some p /\ k = akey p j /\ nth_error pos1 j = Some v) \/
         (exists i, k = kpos (length pre + i) /\ nth_error lo i = Some v) \/
         (exists n, k = KName n /\ In (n, v) ks)) /\
      extras_of sg st' = extras_of sg (kwn ks) /\
      NoDup (map fst (kwn ks)) /\
      (forall n v, In (n, v) ks ->
         (forall j p, nth_error pre j = Some p -> pk p = PosOrKw -> pname p = n ->
            nth_error pos1 j = None) /\
         (nameable sg n = false -> has_var_kw sg = true)).
  Proof.
    destruct (valid_sig_parts sg HV) as [HS HN].
    destruct (sb_analysis sg pos ks st HV Hsb)
      as (pre & post & pos1 & lo & Hsg & F1 & F2 & S2 & Hpos & Hlen1 & Hlo & Hst & Hnd2 & Hkw).
    cbv zeta in Hst, Hnd2, Hkw.
    set (st1 := pstore pre 0 pos1 ++ vstore (length pre) lo) in *.
    set (st2 := st1 ++ kwn ks) in *.
    assert (HFa : Forall (fun p => is_prefix_kind (pk p) = true) pre).
    { eapply Forall_impl; [| exact F1]. cbn beta. intros x X. apply rk_prefix, X. }
    assert (HNa : NoDup (map pname pre)).
    { rewrite Hsg, map_app in HN. eapply nodup_app_l; exact HN. }
    assert (Hpre_in : forall p, In p pre -> In p sg).
    { intros p Hp. rewrite Hsg. apply in_or_app. left; exact Hp. }
    assert (Hnd_ob : NoDup (map fst st)) by (rewrite Hst; apply order_bound_nodup; assumption).
    assert (T1 : forall k, sget st' k = sget st2 k).
    { intros k. unfold st'. rewrite sget_flat_args by exact Hnd_ob. rewrite Hst.
      apply sget_order_bound; assumption. }
    assert (Hnd' : NoDup (map fst st')) by apply flat_args_ok.
    assert (Hvs_none : forall k, (forall i, k <> kpos (length pre + i)) -> sget (vstore (length pre) lo) k = None).
    { intros k Hk. apply sget_none_notin. rewrite vstore_keys. intros Hin.
      apply in_map_iff in Hin. destruct Hin as (i & <- & Hin). apply nat_seq_in in Hin.
      apply (Hk (i - length pre)). f_equal. lia. }
    assert (Hps_none : forall k, (forall j p, nth_error pre j = Some p -> k <> akey p j) ->
                       sget (pstore pre 0 pos1) k = None).
    { intros k Hk. apply sget_none_notin. intros Hin. apply pstore_keys in Hin.
      destruct Hin as (j & p & Hj & -> & _). exact (Hk j p Hj eq_refl). }
    assert (Hps1 : forall j p, nth_error pre j = Some p -> sget st1 (akey p j) = nth_error pos1 j).
    { intros j p Hj. unfold st1. rewrite sget_app.
      rewrite (sget_pstore_nth pre 0 pos1 j p HNa Hj : sget _ (akey p j) = _).
      destruct (nth_error pos1 j); [reflexivity |].
      apply Hvs_none. intros i E. assert (j < length pre) by (apply nth_error_Some; congruence).
      unfold akey in E. destruct (pk p); try discriminate E; apply kpos_inj in E; lia. }
    assert (Hvps : lo <> [] -> vps sg = Some (length pre)).
    { intros Hne. destruct Hlo as [Hl|(_ & q & post' & Hq & Kq)]; [congruence |].
      unfold vps. rewrite Hsg, vps_from_app.
      - subst post. rewrite vps_from_cons, Kq. reflexivity.
      - eapply Forall_impl; [| exact F1]. cbn beta. intros x X Y. unfold rk in X. rewrite Y in X.
        cbn in X. lia. }
    assert (Hx1 : extras_of sg st1 = []).
    { apply extras_of_nonextra. intros k Hk. unfold st1 in Hk. rewrite map_app in Hk.
      apply in_app_or in Hk. destruct Hk as [Hk|Hk].
      - apply pstore_keys in Hk. destruct Hk as (j & p & Hj & -> & _).
        pose proof (nth_error_In _ _ Hj) as Hp. rewrite Forall_forall in HFa. specialize (HFa p Hp).
        unfold akey. destruct (pk p) eqn:K; try discriminate HFa; [reflexivity |].
        cbn [nonextra]. rewrite (nameable_param sg p HN (Hpre_in p Hp)), K. reflexivity.
      - rewrite vstore_keys in Hk. apply in_map_iff in Hk. destruct Hk as (i & <- & _). reflexivity. }
    exists pre, post, pos1, lo.
    split; [exact Hsg |]. split; [exact F1 |]. split; [exact F2 |]. split; [exact S2 |].
    split; [exact Hpos |]. split; [exact Hlen1 |]. split.
    { destruct Hlo as [Hl|(Hl & Hq)]; [left; exact Hl |].
      destruct lo as [|x lo0]; [left; reflexivity |]. right. split; [exact Hl |].
      apply Hvps. discriminate. }
    split; [exact Hnd' |]. split.
    { intros j p Hj. rewrite T1. unfold st2. rewrite sget_app, (Hps1 j p Hj).
      destruct (nth_error pos1 j); reflexivity. }
    split.
    { intros i. rewrite T1. unfold st2, st1. rewrite !sget_app. rewrite Hps_none.
      - rewrite sget_vstore. destruct (nth_error lo i); [reflexivity | apply sget_kwn_pos].
      - intros j p Hj E. assert (j < length pre) by (apply nth_error_Some; congruence).
        unfold akey in E. destruct (pk p); try discriminate E; apply kpos_inj in E; lia. }
    split.
    { intros n Hn. rewrite T1. unfold st2, st1. rewrite !sget_app. rewrite Hps_none.
      - rewrite Hvs_none; [reflexivity | intros i E; discriminate E].
      - intros j p Hj E. pose proof (Hn p (nth_error_In _ _ Hj)) as Hpo.
        unfold akey in E. destruct (pk p) eqn:K; try discriminate E;
          inversion E as [Hpn]; specialize (Hpo (eq_sym Hpn)); discriminate. }
    split.
    { intros k v Hg. rewrite T1 in Hg. unfold st2 in Hg. rewrite sget_app in Hg.
      destruct (sget st1 k) as [v1|] eqn:Hg1.
      - inversion Hg; subst v1. clear Hg. pose proof (sget_In_keys _ _ _ Hg1) as Hk.
        unfold st1 in Hk. rewrite map_app in Hk. apply in_app_or in Hk. destruct Hk as [Hk|Hk].
        + apply pstore_keys in Hk. destruct Hk as (j & p & Hj & -> & _). left.
          exists j, p. split; [exact Hj |]. split; [reflexivity |].
          cbn [Nat.add] in Hg1. rewrite (Hps1 j p Hj) in Hg1. exact Hg1.
        + rewrite vstore_keys in Hk. apply in_map_iff in Hk. destruct Hk as (i & <- & Hi).
          pose proof (nat_seq_in _ _ _ Hi) as Hi1. right. left.
          exists (i - length pre). replace (length pre + (i - length pre)) with i by lia.
          split; [reflexivity |].
          unfold st1 in Hg1. rewrite sget_app, Hps_none in Hg1.
          * replace i with (length pre + (i - length pre)) in Hg1 at 1 by lia.
            rewrite sget_vstore in Hg1. exact Hg1.
          * intros j p Hj E. assert (j < length pre) by (apply nth_error_Some; congruence).
            unfold akey in E. destruct (pk p); try discriminate E; apply kpos_inj in E; lia.
      - right. right. apply sget_In in Hg. unfold kwn in Hg. apply in_map_iff in Hg.
        destruct Hg as ([n w] & Heq & Hin). cbn [fst snd] in Heq. inversion Heq; subst k v.
        exists n. split; [reflexivity | exact Hin]. }
    split.
    { unfold st'. change (extras_of (sig_of e fn) (flat_args e fn st) = extras_of sg (kwn ks)).
      rewrite (extras_of_flat_args e fn st HN Hnd_ob). change (sig_of e fn) with sg. rewrite Hst.
      rewrite (extras_of_order_bound sg st2 HN). unfold st2.
      rewrite extras_of_app, Hx1. reflexivity. }
    split.
    { unfold st2 in Hnd2. rewrite map_app in Hnd2. apply nodup_app_r in Hnd2. exact Hnd2. }
    intros n v Hnv. destruct (Hkw n v Hnv) as [Hnone Hvk]. split; [| exact Hvk].
    intros j p Hj K Hpn. rewrite <- (Hps1 j p Hj). unfold akey. rewrite K, Hpn. exact Hnone.
  Qed.

  Lemma binding_facts :
    inv01_b sg st' = true /\
    (forall vw, py_call sg pos (kwn ks) = Some vw -> reference_view sg st' = Some vw).
  Proof.
    destruct (valid_sig_parts sg HV) as [HS HN].
    destruct sb_facts as (pre & post & pos1 & lo & Hsg & F1 & F2 & S2 & Hpos & Hlen1 & Hlo & Hnd' &
                          S1 & S2' & S3 & Hcls & Hextras & Hndk & Hkw).
    assert (HFa : Forall (fun p => is_prefix_kind (pk p) = true) pre).
    { eapply Forall_impl; [| exact F1]. cbn beta. intros x X. apply rk_prefix, X. }
    assert (HNa : NoDup (map pname pre)).
    { rewrite Hsg, map_app in HN. eapply nodup_app_l; exact HN. }
    assert (Hpre_in : forall p, In p pre -> In p sg).
    { intros p Hp. rewrite Hsg. apply in_or_app. left; exact Hp. }
    assert (Hpost_in : forall p, In p post -> In p sg).
    { intros p Hp. rewrite Hsg. apply in_or_app. right; exact Hp. }
    assert (Hprefix : prefix_params sg = pre) by (rewrite Hsg; apply prefix_params_split; assumption).
    assert (Hpost_names : forall p, In p post -> ~ In (pname p) (map pname pre)).
    { intros p Hp Hin. rewrite Hsg, map_app in HN. eapply nodup_app_disj; [exact HN | exact Hin |].
      apply in_map. exact Hp. }
    assert (Hvps : lo <> [] -> vps sg = Some (length pre)).
    { intros Hne. destruct Hlo as [Hl|[_ Hv]]; [congruence | exact Hv]. }
    assert (Hlo_len : length lo <= length st').
    { apply (run_length_bound st' (length pre)). intros j Hj. rewrite smem_sget, S2'.
      destruct (nth_error lo j) eqn:E; [reflexivity |]. apply nth_error_None in E. lia. }
    assert (Hvar : varargs_of (length st') st' (length pre) = lo).
    { apply varargs_of_exact; [exact Hlo_len |]. intros j. apply S2'. }
    split.
    - (* the storage invariant *)
      unfold inv01_b. apply andb_true_iff. split; [apply nodup_keys_distinct; exact Hnd' |].
      apply forallb_forall. intros [k v] Hin. cbn [fst].
      assert (Hg : sget st' k = Some v) by (apply nodup_in_sget; assumption).
      destruct (Hcls k v Hg) as [(j & p & Hj & -> & _)|[(i & -> & Hi)|(n & -> & Hnv)]].
      + pose proof (nth_error_In _ _ Hj) as Hp.
        assert (Hjl : j < length pre) by (apply nth_error_Some; congruence).
        rewrite Forall_forall in HFa. specialize (HFa p Hp).
        unfold akey. destruct (pk p) eqn:K; try discriminate HFa.
        * unfold kpos, key_ok01, key_ok, ArgSpec.n0, n_prefix. rewrite Hprefix.
          assert (E0 : (0 <=? Z.of_nat j)%Z = true) by (apply Z.leb_le; lia). rewrite E0.
          assert (E1 : (Z.of_nat j <? Z.of_nat (length pre))%Z = true) by (apply Z.ltb_lt; lia).
          rewrite E1, Nat2Z.id, Hj. unfold pkind_eqb. rewrite K. reflexivity.
        * unfold key_ok01, key_ok. rewrite (find_param_nodup sg p HN (Hpre_in p Hp)), K. reflexivity.
      + assert (Hne : lo <> []) by (intros ->; destruct i; discriminate).
        assert (Hil : i < length lo) by (apply nth_error_Some; congruence).
        unfold kpos, key_ok01, key_ok, ArgSpec.n0, n_prefix, has_varpos. rewrite Hprefix, (Hvps Hne).
        assert (E0 : (0 <=? Z.of_nat (length pre + i))%Z = true) by (apply Z.leb_le; lia). rewrite E0.
        assert (E1 : (Z.of_nat (length pre + i) <? Z.of_nat (length pre))%Z = false) by (apply Z.ltb_ge; lia).
        rewrite E1, Nat2Z.id. cbn [andb]. apply forallb_forall. intros j Hj.
        apply PyCall_proofs.nat_seq_in in Hj. rewrite smem_sget.
        replace j with (length pre + (j - length pre)) by lia. rewrite S2'.
        destruct (nth_error lo (j - length pre)) eqn:E; [reflexivity |].
        apply nth_error_None in E. lia.
      + destruct (Hkw n v Hnv) as [_ Hvk]. unfold key_ok01, key_ok.
        change (match find_param sg n with
                | Some p => match pk p with PosOrKw | KwOnly => true | _ => has_var_kw sg end
                | None => has_var_kw sg end || has_var_kw sg = true).
        destruct (has_var_kw sg); [apply orb_true_r |].
        rewrite nameable_find in Hvk.
        destruct (find_param sg n) as [p|]; [destruct (pk p) |]; try reflexivity;
          specialize (Hvk eq_refl); discriminate.
    - (* the view *)
      intros vw Hpc. rewrite <- Hpc. symmetry. unfold py_call.
      assert (Hbp : bind_positional sg pos [] = (combine (map pname pre) pos1, lo)).
      { rewrite Hsg, Hpos. destruct Hlo as [->|(Hl & Hv)].
        - rewrite app_nil_r. rewrite bind_positional_short by assumption. reflexivity.
        - rewrite bind_positional_full; [reflexivity | exact HFa | exact Hl |].
          destruct post as [|q post']; [exact I |]. inversion F2; subst. apply rk_not_prefix. assumption. }
      rewrite Hbp.
      assert (Hstar : negb (match lo, vps sg with [], _ => true | _ :: _, Some _ => true
                                             | _ :: _, None => false end) = false).
      { destruct lo as [|x lo0]; [reflexivity |]. rewrite Hvps by discriminate. reflexivity. }
      rewrite Hstar.
      rewrite (bind_keywords_spec sg (kwn ks) (combine (map pname pre) pos1) []).
      2:{ apply nodup_keys_distinct. exact Hndk. }
      2:{ intros k v Hin. unfold kwn in Hin. apply in_map_iff in Hin.
          destruct Hin as ([n w] & Heq & Hnv). cbn [fst snd] in Heq. inversion Heq; subst k v.
          destruct (Hkw n w Hnv) as [Hexcl Hvk]. exists n. split; [reflexivity |]. split; [| exact Hvk].
          intros Hnm. destruct (nget (combine (map pname pre) pos1) n) as [w'|] eqn:Hng; [| reflexivity].
          exfalso. apply nget_combine_some in Hng. destruct Hng as (j & Hj1 & Hj2).
          rewrite nth_error_map in Hj1. destruct (nth_error pre j) as [p|] eqn:Hj; [| discriminate].
          cbn [option_map] in Hj1. inversion Hj1 as [Hpn]. clear Hj1.
          pose proof (nth_error_In _ _ Hj) as Hp.
          rewrite <- Hpn, (nameable_param sg p HN (Hpre_in p Hp)) in Hnm.
          rewrite Forall_forall in HFa. specialize (HFa p Hp).
          assert (K : pk p = PosOrKw) by (destruct (pk p); try discriminate; reflexivity).
          rewrite (Hexcl j p Hj K Hpn) in Hj2. discriminate. }
      cbn [app]. unfold reference_view. apply finish_ref_pointwise. intros j p Hj. cbn [Nat.add].
      destruct (lt_dec j (length pre)) as [L|L].
      + rewrite Hsg, nth_error_app1 in Hj by exact L.
        pose proof (nth_error_In _ _ Hj) as Hp.
        assert (Hpk : is_prefix_kind (pk p) = true) by (rewrite Forall_forall in HFa; auto).
        assert (K1 : pk p <> VarPos) by (intros X; rewrite X in Hpk; discriminate).
        assert (K2 : pk p <> VarKw) by (intros X; rewrite X in Hpk; discriminate).
        rewrite here_fv_vd, here_ref_vd by assumption. do 2 f_equal.
        rewrite nget_app, (nget_combine_nth pre pos1 j p HNa Hj), (S1 j p Hj).
        destruct (nth_error pos1 j); [reflexivity |].
        rewrite nget_named_of, (nameable_param sg p HN (Hpre_in p Hp)).
        unfold akey. destruct (pk p); try discriminate Hpk; [| reflexivity].
        unfold kpos. rewrite sget_kwn_pos. reflexivity.
      + rewrite Hsg, nth_error_app2 in Hj by lia.
        pose proof (nth_error_In _ _ Hj) as Hp.
        assert (Hrk : 1 < rk p) by (rewrite Forall_forall in F2; auto).
        assert (Hnot : ~ In (pname p) (map pname pre)) by (apply Hpost_names; exact Hp).
        unfold rk in Hrk. destruct (pk p) eqn:K; cbn in Hrk; try lia.
        * (* *args *)
          unfold here_fv, here_ref. rewrite K.
          assert (Hj' : nth_error sg j = Some p).
          { rewrite Hsg, nth_error_app2 by lia. exact Hj. }
          pose proof (vps_unique sg 0 j p HS Hj' K) as U. fold (vps sg) in U. cbn [Nat.add] in U.
          assert (j = length pre).
          { rewrite Hsg in U. eapply vps_split; eassumption. }
          subst j. rewrite Hvar. reflexivity.
        * (* keyword-only *)
          rewrite here_fv_vd, here_ref_vd by (rewrite K; discriminate). do 3 f_equal.
          rewrite nget_app, (nget_combine_notin _ pos1 _ Hnot), nget_named_of.
          rewrite (nameable_param sg p HN (Hpost_in p Hp)), K.
          unfold akey. rewrite K. symmetry. apply S3.
          intros q Hq Hqn. exfalso. apply Hnot. rewrite <- Hqn. apply in_map. exact Hq.
        * (* **kwargs *)
          unfold here_fv, here_ref. rewrite K, Hextras. reflexivity.
  Qed.
End Binding.

(* ------------------------------------------------------------------------------------------ *)
(* renaming the references of a store / view: binding is natural in the values                  *)

Definition kmap {K : Type} (mu : ref -> ref) (l : list (K * ref)) : list (K * ref) :=
  map (fun kv => (fst kv, mu (snd kv))) l.

Definition pmap (mu : ref -> ref) (p : pval) : pval :=
  match p with
  | PV v => PV (mu v)
  | PTuple l => PTuple (map mu l)
  | PDict d => PDict (kmap mu d)
  end.

Definition vmap (mu : ref -> ref) (vw : view) : view := map (fun nx => (fst nx, pmap mu (snd nx))) vw.

(* renaming all references of a node *)
Definition nmap (mu : ref -> ref) (n : node) : node :=
  match n with
  | NList xs => NList (map mu xs)
  | NTuple xs => NTuple (map mu xs)
  | NDict kvs => NDict (kmap mu kvs)
  | NDefaultDict f kvs => NDefaultDict f (kmap mu kvs)
  | NNamedTuple ty fs => NNamedTuple ty (kmap mu fs)
  | NBuildable k fn args tags => NBuildable k fn (kmap mu args) tags
  | NObj fn vw => NObj fn (vmap mu vw)
  | NPartialObj fn pos kw => NPartialObj fn (map mu pos) (kmap mu kw)
  | other => other
  end.

Lemma kmap_keys {K} mu (l : list (K * ref)) : map fst (kmap mu l) = map fst l.
Proof. unfold kmap. rewrite map_map. reflexivity. Qed.

Lemma kmap_values {K} mu (l : list (K * ref)) : map snd (kmap mu l) = map mu (map snd l).
Proof. unfold kmap. rewrite !map_map. reflexivity. Qed.

Lemma combine_kmap {K} mu (l : list (K * ref)) :
  combine (map fst l) (map mu (map snd l)) = kmap mu l.
Proof. induction l as [|[k v] l IH]; [reflexivity |]. cbn [map fst snd combine kmap]. f_equal. exact IH. Qed.

Lemma kmap_id {K} (l : list (K * ref)) : kmap (fun r => r) l = l.
Proof. induction l as [|[k v] l IH]; [reflexivity |]. cbn [kmap map fst snd]. f_equal. exact IH. Qed.

Lemma pmap_id p : pmap (fun r => r) p = p.
Proof. destruct p; cbn [pmap]; [reflexivity | rewrite map_id; reflexivity | rewrite kmap_id; reflexivity]. Qed.

Lemma vmap_id vw : vmap (fun r => r) vw = vw.
Proof.
  induction vw as [|[n x] vw IH]; [reflexivity |]. cbn [vmap map fst snd]. rewrite pmap_id.
  f_equal. exact IH.
Qed.

Lemma sget_kmap mu (st : store) k : sget (kmap mu st) k = option_map mu (sget st k).
Proof.
  induction st as [|[k0 v0] st IH]; [reflexivity |]. cbn [kmap map fst snd]. rewrite !sget_cons.
  destruct (skey_eqb k k0); [reflexivity | exact IH].
Qed.

Lemma smem_kmap mu (st : store) k : smem (kmap mu st) k = smem st k.
Proof. rewrite !smem_sget, sget_kmap. destruct (sget st k); reflexivity. Qed.

Lemma keys_distinct_kmap mu (st : store) : keys_distinct (kmap mu st) = keys_distinct st.
Proof.
  induction st as [|[k v] st IH]; [reflexivity |]. cbn [kmap map fst snd].
  rewrite !keys_distinct_cons. fold (kmap mu st). rewrite smem_kmap, IH. reflexivity.
Qed.

Lemma forallb_ext' {A} (f g : A -> bool) l : (forall x, f x = g x) -> forallb f l = forallb g l.
Proof. intros H. induction l as [|x l IH]; [reflexivity |]. cbn [forallb]. rewrite H, IH. reflexivity. Qed.

Lemma forallb_map' {A B} (f : A -> B) (g : B -> bool) l : forallb g (map f l) = forallb (fun x => g (f x)) l.
Proof. induction l as [|x l IH]; [reflexivity |]. cbn [map forallb]. rewrite IH. reflexivity. Qed.

Lemma key_ok01_kmap sg mu (st : store) k : key_ok01 sg (kmap mu st) k = key_ok01 sg st k.
Proof.
  destruct k as [z|n]; cbn [key_ok01 key_ok]; [| reflexivity].
  f_equal. destruct (z <? Z.of_nat (ArgSpec.n0 sg))%Z; [reflexivity |]. f_equal.
  apply forallb_ext'. intros j. apply smem_kmap.
Qed.

Lemma inv01_b_kmap sg mu (st : store) : inv01_b sg (kmap mu st) = inv01_b sg st.
Proof.
  unfold inv01_b. rewrite keys_distinct_kmap. f_equal.
  unfold kmap at 2. rewrite forallb_map'. apply forallb_ext'. intros [k v]. cbn [fst].
  apply key_ok01_kmap.
Qed.

Lemma varargs_of_kmap mu f : forall (st : store) i,
  varargs_of f (kmap mu st) i = map mu (varargs_of f st i).
Proof.
  induction f as [|f IH]; intros st i; [reflexivity |]. rewrite !varargs_of_S, sget_kmap.
  destruct (sget st (kpos i)); [| reflexivity]. cbn [option_map map]. f_equal. apply IH.
Qed.

Lemma extras_of_kmap sg mu (st : store) : extras_of sg (kmap mu st) = kmap mu (extras_of sg st).
Proof.
  induction st as [|[[z|n] v] st IH]; [reflexivity | exact IH |].
  cbn [kmap map fst snd]. fold (kmap mu st). rewrite !extras_of_cons_name, IH.
  destruct (nameable sg n); reflexivity.
Qed.

Lemma kmap_length {K} mu (l : list (K * ref)) : length (kmap mu l) = length l.
Proof. unfold kmap. apply map_length. Qed.

Lemma reference_params_kmap sg mu (st : store) ps :
  (forall p d, In p ps -> pdefault p = Some d -> mu d = d) ->
  forall idx, reference_params sg ps idx (kmap mu st) = option_map (vmap mu) (reference_params sg ps idx st).
Proof.
  induction ps as [|p ps IH]; intros Hd idx; [reflexivity |].
  rewrite !reference_params_cons. rewrite IH by (intros q d Hq; apply Hd; right; exact Hq).
  assert (Hh : here_ref sg (kmap mu st) p idx = option_map (pmap mu) (here_ref sg st p idx)).
  { unfold here_ref. rewrite kmap_length, varargs_of_kmap, extras_of_kmap, sget_kmap.
    destruct (pk p); try reflexivity;
      (destruct (sget st (akey p idx)); [reflexivity |]);
      (destruct (pdefault p) as [d|] eqn:Hpd; [| reflexivity]);
      cbn [option_map pmap]; rewrite (Hd p d (or_introl eq_refl) Hpd); reflexivity. }
  rewrite Hh. destruct (here_ref sg st p idx); [| reflexivity].
  destruct (reference_params sg ps (S idx) st); reflexivity.
Qed.

(* whether binding succeeds depends on the stored keys only *)
Lemma smem_keys (a b : store) k : map fst a = map fst b -> smem a k = smem b k.
Proof.
  revert b. induction a as [|[k0 v0] a IH]; intros [|[k1 v1] b] H; cbn [map fst] in H; try discriminate;
    [reflexivity |].
  inversion H; subst. rewrite !smem_sget, !sget_cons. destruct (skey_eqb k k1); [reflexivity |].
  rewrite <- !smem_sget. apply IH. assumption.
Qed.

Lemma keys_distinct_keys (a b : store) : map fst a = map fst b -> keys_distinct a = keys_distinct b.
Proof.
  revert b. induction a as [|[k0 v0] a IH]; intros [|[k1 v1] b] H; cbn [map fst] in H; try discriminate;
    [reflexivity |].
  inversion H; subst. rewrite !keys_distinct_cons. rewrite (smem_keys a b k1) by assumption.
  rewrite (IH b) by assumption. reflexivity.
Qed.

Lemma key_ok01_keys sg (a b : store) k : map fst a = map fst b -> key_ok01 sg a k = key_ok01 sg b k.
Proof.
  intros H. destruct k as [z|n]; cbn [key_ok01 key_ok]; [| reflexivity].
  f_equal. destruct (z <? Z.of_nat (ArgSpec.n0 sg))%Z; [reflexivity |]. f_equal.
  apply forallb_ext'. intros j. apply smem_keys. exact H.
Qed.

Lemma inv01_b_keys sg (a b : store) : map fst a = map fst b -> inv01_b sg a = inv01_b sg b.
Proof.
  intros H. unfold inv01_b. rewrite (keys_distinct_keys a b H). f_equal.
  rewrite <- (forallb_map' fst (key_ok01 sg a) a), <- (forallb_map' fst (key_ok01 sg b) b), H.
  apply forallb_ext'. intros k. apply key_ok01_keys. exact H.
Qed.

Lemma reference_some_keys sg (a b : store) ps : map fst a = map fst b ->
  forall idx, reference_params sg ps idx a <> None -> reference_params sg ps idx b <> None.
Proof.
  intros H. induction ps as [|p ps IH]; intros idx Ha; [discriminate |].
  rewrite reference_params_cons in *.
  destruct (here_ref sg a p idx) as [x|] eqn:Hx; [| congruence].
  destruct (reference_params sg ps (S idx) a) as [rest|] eqn:Hr; [| congruence].
  specialize (IH (S idx)). rewrite Hr in IH. specialize (IH ltac:(discriminate)).
  destruct (reference_params sg ps (S idx) b); [| congruence].
  assert (Hh : here_ref sg b p idx <> None).
  { unfold here_ref in *. destruct (pk p); try discriminate;
      (pose proof (smem_keys a b (akey p idx) H) as Hm; rewrite !smem_sget in Hm;
       destruct (sget b (akey p idx)); [discriminate |];
       destruct (sget a (akey p idx)); [discriminate Hm |];
       destruct (pdefault p); [discriminate | discriminate Hx]). }
  destruct (here_ref sg b p idx); [discriminate | congruence].
Qed.

(* A Config made by as_buildable from a call site, once its arguments are built (mu maps each
   argument to what it was built into), is called exactly like the direct call, on the built
   arguments.  Defaults are not configured: they must be left alone by mu. *)
Theorem binding_agrees_gen : forall e fn ps ks st vw (mu : ref -> ref),
  valid_sig (sig_of e fn) = true ->
  (forall p d, In p (sig_of e fn) -> pdefault p = Some d -> mu d = d) ->
  signature_binding (sig_of e fn) ps ks = Some st ->
  py_call (sig_of e fn) ps (kwn ks) = Some vw ->
  build1 (sig_of e fn)
    (combine (map fst (flat_args e fn st)) (map mu (map snd (flat_args e fn st))))
  = Some (vmap mu vw).
Proof.
  intros e fn ps ks st vw mu HV Hd Hsb Hpc.
  destruct (binding_facts e fn HV ps ks st Hsb) as [Hinv Hview].
  rewrite combine_kmap.
  rewrite build_binds_exactly; [| exact HV | rewrite inv01_b_kmap; exact Hinv].
  unfold reference_view. rewrite reference_params_kmap by exact Hd.
  fold (reference_view (sig_of e fn) (flat_args e fn st)). rewrite (Hview vw Hpc). reflexivity.
Qed.

Lemma build1_build_node e fails i fn st rs o vw :
  build1 (sig_of e fn) (combine (map fst (flat_args e fn st)) rs) = Some vw -> fails i = None ->
  build_node e fails i (NBuildable BConfig fn st []) rs o = (o ++ [NObj fn vw], inl (RP (length o))).
Proof.
  intros Hb Hf. unfold build1 in Hb. unfold build_node.
  destruct (transform_build _ _) as [[pos kws]|]; [| discriminate].
  rewrite Hb, Hf. reflexivity.
Qed.

(* the same, as a statement about what fdl.build does at the Config (Build.build_node) *)
Theorem binding_agrees : forall e fails i fn ps ks st vw o,
  valid_sig (sig_of e fn) = true ->
  signature_binding (sig_of e fn) ps ks = Some st ->
  py_call (sig_of e fn) ps (map (fun kv => (KName (fst kv), snd kv)) ks) = Some vw ->
  fails i = None ->
  build_node e fails i (NBuildable BConfig fn st []) (map snd (flat_args e fn st)) o
  = (o ++ [NObj fn vw], inl (RP (length o))).
Proof.
  intros e fails i fn ps ks st vw o HV Hsb Hpc Hf.
  apply build1_build_node; [| exact Hf].
  pose proof (binding_agrees_gen e fn ps ks st vw (fun r => r) HV (fun _ _ _ _ => eq_refl) Hsb Hpc) as H.
  rewrite map_id, vmap_id in H. exact H.
Qed.

(* ------------------------------------------------------------------------------------------ *)
(* functools.partial objects up to argument binding: sort_kw is a stable sort by name            *)

Definition fk (n : N) (l : list (N * ref)) : list (N * ref) := filter (fun x => N.eqb (fst x) n) l.

Lemma fk_cons n y l : fk n (y :: l) = if N.eqb (fst y) n then y :: fk n l else fk n l.
Proof. reflexivity. Qed.

Lemma fk_app n a b : fk n (a ++ b) = fk n a ++ fk n b.
Proof. unfold fk. apply filter_app. Qed.

Lemma fk_in n l z : In z (fk n l) <-> In z l /\ fst z = n.
Proof. unfold fk. rewrite filter_In, N.eqb_eq. reflexivity. Qed.

Lemma fk_insert n x l : fk n (insert_kw x l) = if N.eqb (fst x) n then x :: fk n l else fk n l.
Proof.
  induction l as [|y l IH]; cbn [insert_kw].
  - rewrite fk_cons. reflexivity.
  - destruct (N.leb (fst x) (fst y)) eqn:Hle.
    + rewrite fk_cons. reflexivity.
    + rewrite !fk_cons, IH.
      destruct (N.eqb_spec (fst x) n) as [Hx|Hx]; destruct (N.eqb_spec (fst y) n) as [Hy|Hy]; try reflexivity.
      exfalso. rewrite Hx, Hy, N.leb_refl in Hle. discriminate.
Qed.

Lemma sort_kw_cons x l : sort_kw (x :: l) = insert_kw x (sort_kw l).
Proof. reflexivity. Qed.

Lemma fk_sort n l : fk n (sort_kw l) = fk n l.
Proof.
  induction l as [|x l IH]; [reflexivity |]. rewrite sort_kw_cons, fk_insert, fk_cons, IH. reflexivity.
Qed.

Fixpoint sortedk (l : list (N * ref)) : Prop :=
  match l with
  | [] => True
  | x :: l' => (forall y, In y l' -> (fst x <= fst y)%N) /\ sortedk l'
  end.

Lemma insert_in x l y : In y (insert_kw x l) <-> y = x \/ In y l.
Proof.
  induction l as [|z l IH]; cbn [insert_kw In].
  - intuition congruence.
  - destruct (N.leb (fst x) (fst z)); cbn [In]; [intuition congruence |].
    rewrite IH. intuition congruence.
Qed.

Lemma insert_sorted x l : sortedk l -> sortedk (insert_kw x l).
Proof.
  induction l as [|z l IH]; intros Hs; cbn [insert_kw].
  - cbn [sortedk]. split; [intros y [] | exact I].
  - destruct Hs as [Hz Hl]. destruct (N.leb (fst x) (fst z)) eqn:Hle.
    + apply N.leb_le in Hle. cbn [sortedk]. split; [| split; assumption].
      intros y [<-|Hy]; [exact Hle |]. specialize (Hz y Hy). lia.
    + apply N.leb_gt in Hle. cbn [sortedk]. split; [| apply IH; exact Hl].
      intros y Hy. apply insert_in in Hy. destruct Hy as [->|Hy]; [lia | auto].
Qed.

Lemma sort_sorted l : sortedk (sort_kw l).
Proof.
  induction l as [|x l IH]; [exact I |]. rewrite sort_kw_cons. apply insert_sorted. exact IH.
Qed.

Lemma sorted_unique l1 : forall l2,
  sortedk l1 -> sortedk l2 -> (forall n, fk n l1 = fk n l2) -> l1 = l2.
Proof.
  induction l1 as [|x l1 IH]; intros [|y l2] H1 H2 Hfk.
  - reflexivity.
  - specialize (Hfk (fst y)). rewrite fk_cons, N.eqb_refl in Hfk. discriminate.
  - specialize (Hfk (fst x)). rewrite fk_cons, N.eqb_refl in Hfk. discriminate.
  - destruct H1 as [Hx H1]. destruct H2 as [Hy H2].
    assert (Hxy : fst x = fst y).
    { apply N.le_antisymm.
      - assert (Hin : In y (fk (fst y) (x :: l1))).
        { rewrite Hfk, fk_cons, N.eqb_refl. left; reflexivity. }
        apply fk_in in Hin. destruct Hin as [[<-|Hin] _]; [lia | auto].
      - assert (Hin : In x (fk (fst x) (y :: l2))).
        { rewrite <- Hfk, fk_cons, N.eqb_refl. left; reflexivity. }
        apply fk_in in Hin. destruct Hin as [[<-|Hin] _]; [lia | auto]. }
    pose proof (Hfk (fst x)) as H0. rewrite !fk_cons, <- Hxy, N.eqb_refl in H0.
    inversion H0 as [[Heq Htl]]. subst y. f_equal. apply IH; [exact H1 | exact H2 |].
    intros n. specialize (Hfk n). rewrite !fk_cons in Hfk.
    destruct (N.eqb_spec (fst x) n) as [Hn|Hn]; [subst n; exact Htl | exact Hfk].
Qed.

Lemma sort_kw_perkey l1 l2 : (forall n, fk n l1 = fk n l2) -> sort_kw l1 = sort_kw l2.
Proof.
  intros H. apply sorted_unique; [apply sort_sorted | apply sort_sorted |].
  intros n. rewrite !fk_sort. apply H.
Qed.

Lemma insert_kmap mu x l :
  insert_kw (fst x, mu (snd x)) (kmap mu l) = kmap mu (insert_kw x l).
Proof.
  induction l as [|y l IH]; [reflexivity |]. cbn [kmap map insert_kw fst snd].
  destruct (N.leb (fst x) (fst y)); [reflexivity |]. cbn [map]. f_equal. exact IH.
Qed.

Lemma sort_kmap mu l : sort_kw (kmap mu l) = kmap mu (sort_kw l).
Proof.
  induction l as [|x l IH]; [reflexivity |]. cbn [kmap map]. rewrite !sort_kw_cons.
  fold (kmap mu l). rewrite IH. apply insert_kmap.
Qed.

Definition opt1 (n : N) (o : option ref) : list (N * ref) :=
  match o with Some v => [(n, v)] | None => [] end.

Lemma nget_notin (l : list (N * ref)) n : ~ In n (map fst l) -> nget l n = None.
Proof.
  induction l as [|[k v] l IH]; intros H; [reflexivity |]. rewrite nget_cons.
  destruct (N.eqb_spec n k) as [->|Hne]; [exfalso; apply H; left; reflexivity |].
  apply IH. intros Hin. apply H. right; exact Hin.
Qed.

Lemma fk_nodup n (l : list (N * ref)) : NoDup (map fst l) -> fk n l = opt1 n (nget l n).
Proof.
  induction l as [|[k v] l IH]; intros Hnd; [reflexivity |].
  cbn [map fst] in Hnd. inversion Hnd as [|? ? Hk Hnd']; subst.
  rewrite fk_cons, nget_cons. cbn [fst]. destruct (N.eqb_spec k n) as [->|Hne].
  - rewrite N.eqb_refl. rewrite (IH Hnd'), (nget_notin l n Hk). reflexivity.
  - destruct (N.eqb_spec n k) as [E|_]; [congruence |]. apply IH. exact Hnd'.
Qed.

Lemma nget_kmap mu (l : list (N * ref)) n : nget (kmap mu l) n = option_map mu (nget l n).
Proof.
  induction l as [|[k v] l IH]; [reflexivity |]. cbn [kmap map fst snd]. rewrite !nget_cons.
  destruct (N.eqb n k); [reflexivity | exact IH].
Qed.

Lemma nget_kwn ks n : sget (kwn ks) (KName n) = nget ks n.
Proof.
  induction ks as [|[k v] ks IH]; [reflexivity |]. cbn [kwn map fst snd]. rewrite sget_cons, nget_cons.
  unfold skey_eqb. destruct (skey_eq_dec (KName n) (KName k)) as [E|E].
  - inversion E; subst. rewrite N.eqb_refl. reflexivity.
  - destruct (N.eqb_spec n k) as [->|_]; [congruence | exact IH].
Qed.

Lemma kwn_keys_nodup ks : NoDup (map fst (kwn ks)) -> NoDup (map fst ks).
Proof.
  unfold kwn. rewrite map_map. cbn [fst]. intros H.
  rewrite <- (map_map fst KName) in H. eapply NoDup_map_inv. exact H.
Qed.

Definition knames (kws : store) : list (N * ref) :=
  flat_map (fun kv => match fst kv with KName nm => [(nm, snd kv)] | KPos _ => [] end) kws.

Lemma knames_nget kws n : nget (knames kws) n = sget kws (KName n).
Proof.
  induction kws as [|[[z|k] v] kws IH]; [reflexivity | |]; cbn [knames flat_map fst snd app].
  - rewrite sget_cons, skey_eqb_neq by discriminate. exact IH.
  - fold (knames kws). rewrite nget_cons, sget_cons. unfold skey_eqb.
    destruct (skey_eq_dec (KName n) (KName k)) as [E|E].
    + inversion E; subst. rewrite N.eqb_refl. reflexivity.
    + destruct (N.eqb_spec n k) as [->|_]; [congruence | exact IH].
Qed.

Lemma knames_nodup kws : NoDup (map fst kws) -> NoDup (map fst (knames kws)).
Proof.
  induction kws as [|[[z|k] v] kws IH]; intros H; [constructor | |]; cbn [knames flat_map fst snd app];
    cbn [map fst] in H; inversion H as [|? ? Hk Hnd]; subst.
  - apply IH. exact Hnd.
  - fold (knames kws). cbn [map fst]. constructor; [| apply IH; exact Hnd].
    intros Hin. apply Hk. apply in_map_iff in Hin. destruct Hin as ([n w] & Hn & Hin). cbn [fst] in Hn. subst n.
    assert (Hg : nget (knames kws) k <> None).
    { clear - Hin. induction (knames kws) as [|[a b] l IH]; [destruct Hin |]. rewrite nget_cons.
      destruct (N.eqb_spec k a); [discriminate |]. destruct Hin as [E|Hin]; [inversion E; congruence | auto]. }
    rewrite knames_nget in Hg. destruct (sget kws (KName k)) eqn:E; [| congruence].
    eapply sget_In_keys. exact E.
Qed.

Lemma combine_keys_nodup {B} (a : list N) : forall (l : list B), NoDup a -> NoDup (map fst (combine a l)).
Proof.
  induction a as [|x a IH]; intros l H; [constructor |]. destruct l as [|y l]; [constructor |].
  inversion H as [|? ? Hx Hnd]; subst. cbn [combine map fst]. constructor; [| apply IH; exact Hnd].
  intros Hin. apply Hx. apply in_map_iff in Hin. destruct Hin as ([k w] & <- & Hin).
  apply in_combine_l in Hin. exact Hin.
Qed.

(* bind_prefix, as bind_positional *)
Lemma bind_prefix_nil ps : bind_prefix ps [] = ([], []).
Proof. destruct ps; reflexivity. Qed.

Lemma bind_prefix_short pre : forall post pos,
  Forall (fun p => is_prefix_kind (pk p) = true) pre -> length pos <= length pre ->
  bind_prefix (pre ++ post) pos = (combine (map pname pre) pos, []).
Proof.
  induction pre as [|p pre IH]; intros post pos HF HL.
  - destruct pos; [| cbn [length] in HL; lia]. apply bind_prefix_nil.
  - inversion HF as [|? ? Hp HF']; subst. destruct pos as [|v pos]; [reflexivity |].
    cbn [app bind_prefix map combine]. rewrite Hp. cbn [length] in HL.
    rewrite IH by (assumption || lia). reflexivity.
Qed.

Lemma bind_prefix_full pre : forall post pos1 lo,
  Forall (fun p => is_prefix_kind (pk p) = true) pre -> length pos1 = length pre ->
  match post with [] => True | q :: _ => is_prefix_kind (pk q) = false end ->
  bind_prefix (pre ++ post) (pos1 ++ lo) = (combine (map pname pre) pos1, lo).
Proof.
  induction pre as [|p pre IH]; intros post pos1 lo HF HL H2.
  - destruct pos1; [| discriminate]. cbn [app map combine].
    destruct post as [|q post]; [destruct lo; reflexivity |].
    destruct lo as [|v lo]; [reflexivity |]. cbn [bind_prefix]. rewrite H2. reflexivity.
  - inversion HF as [|? ? Hp HF']; subst. destruct pos1 as [|v pos1]; [discriminate |].
    cbn [app bind_prefix map combine]. rewrite Hp. cbn [length] in HL.
    rewrite IH by (assumption || lia). reflexivity.
Qed.

(* the values of the stored active parameters, in order *)
Fixpoint lkvals (b : store) (ps : list param) (i : nat) : list ref :=
  match ps with
  | [] => []
  | p :: ps' => match sget b (akey p i) with
                | Some v => v :: lkvals b ps' (S i)
                | None => lkvals b ps' (S i)
                end
  end.

(* the first m parameters are stored, the others are not *)
Definition pat (b : store) (ps : list param) (i m : nat) : Prop :=
  forall j p, nth_error ps j = Some p ->
    (j < m -> sget b (akey p (i + j)) <> None) /\ (m <= j -> sget b (akey p (i + j)) = None).

Lemma pat_tail b p ps i m : pat b (p :: ps) i m -> pat b ps (S i) (pred m).
Proof.
  intros H j q Hj. destruct (H (S j) q Hj) as [H1 H2].
  replace (i + S j) with (S i + j) in * by lia. split; intros; [apply H1 | apply H2]; lia.
Qed.

Lemma lkvals_none b ps : forall i, pat b ps i 0 -> lkvals b ps i = [].
Proof.
  induction ps as [|p ps IH]; intros i H; [reflexivity |]. cbn [lkvals].
  destruct (H 0 p eq_refl) as [_ H0]. rewrite Nat.add_0_r in H0. rewrite (H0 (le_n _)).
  apply IH. apply (pat_tail b p ps i 0 H).
Qed.

Lemma lkvals_nth b ps : forall i m j, pat b ps i m ->
  nth_error (lkvals b ps i) j =
  match nth_error ps j with Some p => sget b (akey p (i + j)) | None => None end.
Proof.
  induction ps as [|p ps IH]; intros i m j H; [destruct j; reflexivity |].
  cbn [lkvals]. pose proof (H 0 p eq_refl) as [H0a H0b]. rewrite Nat.add_0_r in H0a, H0b.
  destruct m as [|m].
  - rewrite (H0b (le_n _)). rewrite (lkvals_none b ps (S i) (pat_tail b p ps i 0 H)).
    destruct j as [|j]; cbn [nth_error]; [rewrite Nat.add_0_r; symmetry; apply H0b; lia |].
    destruct (nth_error ps j) as [q|] eqn:Hq; [| reflexivity].
    symmetry. apply (H (S j) q Hq). lia.
  - destruct (sget b (akey p i)) as [v|] eqn:Hv; [| exfalso; apply H0a; [lia | reflexivity]].
    destruct j as [|j]; cbn [nth_error]; [rewrite Nat.add_0_r; symmetry; exact Hv |].
    rewrite (IH (S i) m j (pat_tail b p ps i (S m) H)).
    replace (i + S j) with (S i + j) by lia. reflexivity.
Qed.

Lemma pos_of_none b ps : forall i sk acc, pat b ps i 0 ->
  pos_of (lk b ps i) sk acc = Some (acc, sk ++ ps).
Proof.
  induction ps as [|p ps IH]; intros i sk acc H; cbn [lk pos_of].
  - rewrite app_nil_r. reflexivity.
  - destruct (H 0 p eq_refl) as [_ H0]. rewrite Nat.add_0_r in H0. rewrite (H0 (le_n _)).
    rewrite (IH (S i) (sk ++ [p]) acc (pat_tail b p ps i 0 H)). rewrite <- app_assoc. reflexivity.
Qed.

Lemma pos_of_pat b ps : forall i m acc, pat b ps i m ->
  pos_of (lk b ps i) [] acc = Some (acc ++ lkvals b ps i, skipn m ps).
Proof.
  induction ps as [|p ps IH]; intros i m acc H; cbn [lk pos_of lkvals].
  - rewrite app_nil_r. destruct m; reflexivity.
  - pose proof (H 0 p eq_refl) as [H0a H0b]. rewrite Nat.add_0_r in H0a, H0b.
    destruct m as [|m].
    + rewrite (H0b (le_n _)). rewrite (pos_of_none b ps (S i) ([] ++ [p]) acc (pat_tail b p ps i 0 H)).
      rewrite (lkvals_none b ps (S i) (pat_tail b p ps i 0 H)), app_nil_r. reflexivity.
    + destruct (sget b (akey p i)) as [v|] eqn:Hv; [| exfalso; apply H0a; [lia | reflexivity]].
      unfold append_positional. cbn [fill_skipped].
      rewrite (IH (S i) m (acc ++ [v]) (pat_tail b p ps i (S m) H)). rewrite <- app_assoc. reflexivity.
Qed.

Lemma lkvals_length b ps : forall i, length (lkvals b ps i) <= length ps.
Proof.
  induction ps as [|p ps IH]; intros i; cbn [lkvals length]; [lia |].
  destruct (sget b (akey p i)); cbn [length]; specialize (IH (S i)); lia.
Qed.

Lemma lkvals_length_full b ps : forall i, pat b ps i (length ps) -> length (lkvals b ps i) = length ps.
Proof.
  induction ps as [|p ps IH]; intros i H; [reflexivity |]. cbn [lkvals length].
  destruct (H 0 p eq_refl) as [H0 _]. rewrite Nat.add_0_r in H0. cbn [length] in H0.
  destruct (sget b (akey p i)); [| exfalso; apply H0; [lia | reflexivity]].
  cbn [length]. f_equal. apply IH. apply (pat_tail b p ps i (S (length ps)) H).
Qed.

Lemma kinds_sorted_app_l a : forall b, kinds_sorted (a ++ b) = true -> kinds_sorted a = true.
Proof.
  induction a as [|p a IH]; intros b H; [reflexivity |].
  destruct a as [|q a]; [reflexivity |]. cbn [app] in H. rewrite kinds_sorted_cons2 in H |- *.
  apply andb_true_iff in H. destruct H as [H1 H2]. apply andb_true_iff. split; [exact H1 |].
  apply (IH b). exact H2.
Qed.

Lemma prefix_split pre :
  kinds_sorted pre = true -> Forall (fun p => rk p <= 1) pre ->
  exists po pkw, pre = po ++ pkw /\ Forall (fun p => pk p = PosOnly) po /\
                 Forall (fun p => pk p = PosOrKw) pkw.
Proof.
  intros HS F1. destruct (sorted_split 0 pre HS) as (po & pkw & Hpre & G1 & G2 & _).
  exists po, pkw. split; [exact Hpre |]. split.
  - eapply Forall_impl; [| exact G1]. cbn beta. unfold rk. intros x X.
    destruct (pk x); cbn in X; try lia; reflexivity.
  - rewrite Hpre in F1. apply Forall_app in F1. destruct F1 as [_ F1].
    rewrite Forall_forall in *. intros x Hx. specialize (F1 x Hx). specialize (G2 x Hx).
    unfold rk in *. destruct (pk x); cbn in *; try lia; reflexivity.
Qed.

(* transform_build on a store with the keys of a Config made from a call site *)
Section PartialBuild.
  Variables (e : sigenv) (fn : N).
  Local Notation sg := (sig_of e fn).
  Hypothesis HV : valid_sig sg = true.
  Variables (pos : list ref) (ks : list (N * ref)) (st : store).
  Local Notation st' := (flat_args e fn st).
  Variables (pre post : list param) (pos1 lo : list ref).
  Hypothesis Hsg : sg = pre ++ post.
  Hypothesis F1 : Forall (fun p => rk p <= 1) pre.
  Hypothesis F2 : Forall (fun p => 1 < rk p) post.
  Hypothesis S2 : kinds_sorted post = true.
  Hypothesis Hpos : pos = pos1 ++ lo.
  Hypothesis Hlen1 : length pos1 <= length pre.
  Hypothesis Hlo : lo = [] \/ (length pos1 = length pre /\ vps sg = Some (length pre)).
  Hypothesis Hnd' : NoDup (map fst st').
  Hypothesis S1 : forall j p, nth_error pre j = Some p ->
    sget st' (akey p j) = match nth_error pos1 j with
                          | Some v => Some v
                          | None => sget (kwn ks) (akey p j) end.
  Hypothesis S2' : forall i, sget st' (kpos (length pre + i)) = nth_error lo i.
  Hypothesis S3 : forall n, (forall p, In p pre -> pname p = n -> pk p = PosOnly) ->
    sget st' (KName n) = sget (kwn ks) (KName n).
  Hypothesis Hndk : NoDup (map fst (kwn ks)).
  Hypothesis Hkw : forall n v, In (n, v) ks ->
    (forall j p, nth_error pre j = Some p -> pk p = PosOrKw -> pname p = n -> nth_error pos1 j = None) /\
    (nameable sg n = false -> has_var_kw sg = true).
  Variables po pkw : list param.
  Hypothesis Hpre : pre = po ++ pkw.
  Hypothesis Hpo : Forall (fun p => pk p = PosOnly) po.
  Hypothesis Hpkw : Forall (fun p => pk p = PosOrKw) pkw.

  Variable b : store.
  Hypothesis Hkeys : map fst b = map fst st'.

  Let HS : kinds_sorted sg = true := proj1 (valid_sig_parts sg HV).
  Let HN : NoDup (map pname sg) := proj2 (valid_sig_parts sg HV).

  Lemma pb_HNa : NoDup (map pname pre).
  Proof. pose proof HN as H. rewrite Hsg, map_app in H. eapply nodup_app_l; exact H. Qed.

  Lemma pb_HNpo : NoDup (map pname po).
  Proof. pose proof pb_HNa as H. rewrite Hpre, map_app in H. eapply nodup_app_l; exact H. Qed.

  Lemma pb_HFa : Forall (fun p => is_prefix_kind (pk p) = true) pre.
  Proof. eapply Forall_impl; [| exact F1]. cbn beta. intros x X. apply rk_prefix, X. Qed.

  Lemma pb_head : match post with [] => True | q :: _ => is_prefix_kind (pk q) = false end.
  Proof. destruct post as [|q post']; [exact I |]. inversion F2; subst. apply rk_not_prefix. assumption. Qed.

  Lemma pb_nodup_b : NoDup (map fst b).
  Proof. rewrite Hkeys. exact Hnd'. Qed.

  Lemma pb_none k : sget b k = None <-> sget st' k = None.
  Proof.
    pose proof (smem_keys b st' k Hkeys) as H. rewrite !smem_sget in H.
    destruct (sget b k), (sget st' k); split; intros; congruence.
  Qed.

  Lemma pb_po_pre j p : nth_error po j = Some p -> nth_error pre j = Some p.
  Proof.
    intros H. rewrite Hpre, nth_error_app1; [exact H |]. apply nth_error_Some. congruence.
  Qed.

  Lemma pb_po_akey j p : nth_error po j = Some p -> akey p j = kpos j.
  Proof.
    intros H. rewrite Forall_forall in Hpo. unfold akey. rewrite (Hpo p (nth_error_In _ _ H)). reflexivity.
  Qed.

  Lemma pb_pre_kind j p : nth_error pre j = Some p ->
    (pk p = PosOnly /\ nth_error po j = Some p) \/ (pk p = PosOrKw /\ length po <= j).
  Proof.
    intros H. rewrite Hpre in H. destruct (lt_dec j (length po)) as [L|L].
    - rewrite nth_error_app1 in H by exact L. left. split; [| exact H].
      rewrite Forall_forall in Hpo. apply Hpo. eapply nth_error_In; exact H.
    - rewrite nth_error_app2 in H by lia. right. split; [| lia].
      rewrite Forall_forall in Hpkw. apply Hpkw. eapply nth_error_In; exact H.
  Qed.

  Lemma pb_pat_po : pat b po 0 (length pos1).
  Proof.
    intros j p Hj. cbn [Nat.add]. pose proof (S1 j p (pb_po_pre j p Hj)) as H.
    rewrite (pb_po_akey j p Hj) in *. unfold kpos in H at 2. rewrite sget_kwn_pos in H. split.
    - intros L. rewrite pb_none, H. destruct (nth_error pos1 j) eqn:E; [discriminate |].
      apply nth_error_None in E. lia.
    - intros L. apply pb_none. rewrite H. destruct (nth_error pos1 j) eqn:E; [| reflexivity].
      assert (j < length pos1) by (apply nth_error_Some; congruence). lia.
  Qed.

  Lemma pb_pat_pre : length pos1 = length pre -> pat b pre 0 (length pre).
  Proof.
    intros Hl j p Hj. cbn [Nat.add]. assert (L : j < length pre) by (apply nth_error_Some; congruence).
    split; [| intros; lia]. intros _. rewrite pb_none, (S1 j p Hj).
    destruct (nth_error pos1 j) eqn:E; [discriminate |]. apply nth_error_None in E. lia.
  Qed.

  Lemma pb_vps s : vps sg = Some s -> s = length pre.
  Proof. intros H. rewrite Hsg in H. eapply vps_split; eassumption. Qed.

  Lemma tb_novin : lo = [] ->
    transform_build sg b = Some (lkvals b po 0, sdels (ksof b po 0) b).
  Proof.
    intros Hl.
    assert (Hflag : match vps sg with Some s => smem b (kpos s) | None => false end = false).
    { destruct (vps sg) as [s|] eqn:Ev; [| reflexivity]. rewrite (pb_vps s Ev).
      rewrite smem_sget. replace (sget b (kpos (length pre))) with (@None ref); [reflexivity |].
      symmetry. apply pb_none. pose proof (S2' 0) as H. rewrite Nat.add_0_r, Hl in H. exact H. }
    assert (Htb : tb_params false sg 0 b [] [] =
                  Some (lkvals b po 0, sdels (ksof b po 0) b, skipn (length pos1) po)).
    { rewrite Hsg, Hpre, <- app_assoc.
      rewrite (tb_params_spec false (pkw ++ post)).
      - rewrite (pos_of_pat b po 0 (length pos1) [] pb_pat_po). reflexivity.
      - apply Forall_app. split.
        + eapply Forall_impl; [| exact Hpkw]. cbn beta. unfold active. intros x ->. reflexivity.
        + eapply Forall_impl; [| exact F2]. cbn beta. unfold rk, active. intros x X.
          destruct (pk x); cbn in X; try lia; reflexivity.
      - eapply Forall_impl; [| exact Hpo]. cbn beta. unfold active. intros x ->. reflexivity.
      - exact pb_HNpo. }
    unfold transform_build. rewrite Hflag, Htb.
    destruct (vps sg) as [s|] eqn:Ev; [| reflexivity].
    rewrite tb_varargs_spec, varargs_of_empty; [reflexivity |].
    apply sget_sdels_none. apply smem_false_sget. exact Hflag.
  Qed.

  Lemma tb_vin : lo <> [] ->
    let vs := varargs_of (length b) b (length pre) in
    transform_build sg b =
    Some (lkvals b pre 0 ++ vs,
          sdels (ksof b pre 0 ++ map kpos (seq (length pre) (length vs))) b).
  Proof.
    intros Hne vs.
    destruct Hlo as [Hl|[Hl Hv]]; [congruence |].
    assert (Hmem : smem b (kpos (length pre)) = true).
    { rewrite smem_sget. destruct (sget b (kpos (length pre))) eqn:E; [reflexivity |].
      apply pb_none in E. pose proof (S2' 0) as H. rewrite Nat.add_0_r, E in H.
      destruct lo; [congruence | discriminate]. }
    assert (Htb : tb_params true sg 0 b [] [] =
                  Some (lkvals b pre 0, sdels (ksof b pre 0) b, [])).
    { rewrite Hsg at 1.
      rewrite (tb_params_spec true post).
      - rewrite (pos_of_pat b pre 0 (length pre) [] (pb_pat_pre Hl)). rewrite skipn_all. reflexivity.
      - eapply Forall_impl; [| exact F2]. cbn beta. unfold rk, active. intros x X.
        destruct (pk x); cbn in X; try lia; reflexivity.
      - eapply Forall_impl; [| exact F1]. cbn beta. unfold rk, active. intros x X.
        destruct (pk x); cbn in X; try lia; reflexivity.
      - exact pb_HNa. }
    unfold transform_build. rewrite Hv, Hmem, Htb.
    set (rest0 := sdels (ksof b pre 0) b).
    assert (Hvs : varargs_of (length rest0) rest0 (length pre) = vs).
    { unfold vs. rewrite <- (varargs_of_fuel rest0 (length pre) (length b)) by apply length_sdels.
      apply varargs_of_ext. intros j Hj. apply sget_sdels_notin. intros X.
      apply ksof_in in X. destruct X as (j' & q & Hq & E & _).
      assert (j' < length pre) by (apply nth_error_Some; congruence).
      unfold akey in E. destruct (pk q); try discriminate E. apply kpos_inj in E. lia. }
    rewrite tb_varargs_spec, Hvs. cbn [fill_skipped]. rewrite sdels_app. fold rest0.
    destruct vs as [|v0 vs0]; [| reflexivity].
    cbn [length seq map]. rewrite app_nil_r. reflexivity.
  Qed.

  Lemma pb_total : transform_build sg b <> None.
  Proof.
    destruct (list_eq_dec ref_eq_dec lo []) as [E|E].
    - rewrite (tb_novin E). discriminate.
    - pose proof (tb_vin E) as H. cbv zeta in H. rewrite H. discriminate.
  Qed.

  (* b holds the built arguments: st' renamed by mu *)
  Variable mu : ref -> ref.
  Hypothesis Hb : b = kmap mu st'.

  Lemma pb_sget k : sget b k = option_map mu (sget st' k).
  Proof. rewrite Hb. apply sget_kmap. Qed.

  Lemma pb_excl j p v : nth_error pre j = Some p -> pk p = PosOrKw -> nth_error pos1 j = Some v ->
    nget ks (pname p) = None.
  Proof.
    intros Hj K Hv. destruct (nget ks (pname p)) as [w|] eqn:E; [| reflexivity]. exfalso.
    assert (Hin : In (pname p, w) ks).
    { clear - E. induction ks as [|[k x] l IH]; [discriminate |]. rewrite nget_cons in E.
      destruct (N.eqb_spec (pname p) k) as [->|_]; [inversion E; left; reflexivity | right; auto]. }
    destruct (Hkw _ _ Hin) as [Hx _]. rewrite (Hx j p Hj K eq_refl) in Hv. discriminate.
  Qed.

  Lemma pb_name_other n : ~ In n (map pname pre) -> sget b (KName n) = option_map mu (nget ks n).
  Proof.
    intros Hn. rewrite pb_sget, S3, nget_kwn; [reflexivity |].
    intros p Hp Hpn. exfalso. apply Hn. rewrite <- Hpn. apply in_map. exact Hp.
  Qed.

  Lemma pb_name_po j p : nth_error pre j = Some p -> pk p = PosOnly ->
    sget b (kpos j) = option_map mu (nth_error pos1 j) /\
    sget b (KName (pname p)) = option_map mu (nget ks (pname p)).
  Proof.
    intros Hj K. split.
    - rewrite pb_sget. pose proof (S1 j p Hj) as H. unfold akey in H. rewrite K in H. rewrite H.
      destruct (nth_error pos1 j); [reflexivity |]. unfold kpos. rewrite sget_kwn_pos. reflexivity.
    - rewrite pb_sget, S3, nget_kwn; [reflexivity |].
      intros q Hq Hqn. destruct (In_nth_error _ _ Hq) as [j' Hj'].
      destruct (nodup_names_nth pre j' j q p pb_HNa Hj' Hj Hqn) as [_ ->]. exact K.
  Qed.

  Lemma pb_name_pkw j p : nth_error pre j = Some p -> pk p = PosOrKw ->
    sget b (KName (pname p)) =
    option_map mu (match nth_error pos1 j with Some v => Some v | None => nget ks (pname p) end).
  Proof.
    intros Hj K. rewrite pb_sget. pose proof (S1 j p Hj) as H. unfold akey in H. rewrite K in H.
    rewrite H, nget_kwn. reflexivity.
  Qed.

  Lemma pb_perkey pos0 kws0 :
    NoDup (map fst kws0) ->
    (forall j p, nth_error pre j = Some p -> pk p = PosOnly ->
       nth_error pos0 j = sget b (kpos j) /\
       sget kws0 (KName (pname p)) = sget b (KName (pname p))) ->
    (forall j p, nth_error pre j = Some p -> pk p = PosOrKw ->
       (nth_error pos0 j = None /\ sget kws0 (KName (pname p)) = sget b (KName (pname p))) \/
       (nth_error pos0 j = sget b (KName (pname p)) /\ sget kws0 (KName (pname p)) = None /\
        nth_error pos1 j <> None)) ->
    (forall n, ~ In n (map pname pre) -> sget kws0 (KName n) = sget b (KName n)) ->
    sort_kw (combine (map pname pre) pos0 ++ knames kws0) =
    sort_kw (kmap mu (combine (map pname pre) pos1 ++ ks)).
  Proof.
    intros Hndk0 H1 H2 H3. apply sort_kw_perkey. intros n.
    unfold kmap at 1. rewrite map_app. fold (kmap mu (combine (map pname pre) pos1)). fold (kmap mu ks).
    rewrite !fk_app.
    rewrite (fk_nodup n (combine (map pname pre) pos0)) by (apply combine_keys_nodup, pb_HNa).
    rewrite (fk_nodup n (knames kws0)) by (apply knames_nodup; exact Hndk0).
    rewrite (fk_nodup n (kmap mu (combine (map pname pre) pos1)))
      by (rewrite kmap_keys; apply combine_keys_nodup, pb_HNa).
    rewrite (fk_nodup n (kmap mu ks)) by (rewrite kmap_keys; apply kwn_keys_nodup; exact Hndk).
    rewrite knames_nget, !nget_kmap.
    destruct (in_dec N.eq_dec n (map pname pre)) as [Hin|Hnin].
    - apply in_map_iff in Hin. destruct Hin as (p & <- & Hp).
      destruct (In_nth_error _ _ Hp) as [j Hj].
      rewrite (nget_combine_nth pre pos0 j p pb_HNa Hj), (nget_combine_nth pre pos1 j p pb_HNa Hj).
      destruct (pb_pre_kind j p Hj) as [[K _]|[K _]].
      + destruct (H1 j p Hj K) as [E1 E2]. destruct (pb_name_po j p Hj K) as [E3 E4].
        rewrite E1, E2, E3, E4. reflexivity.
      + pose proof (pb_name_pkw j p Hj K) as E3.
        destruct (H2 j p Hj K) as [[E1 E2]|(E1 & E2 & E5)]; rewrite E1, E2, ?E3.
        * destruct (nth_error pos1 j) as [v|] eqn:Ev; cbn [option_map opt1 app].
          -- rewrite (pb_excl j p v Hj K Ev). reflexivity.
          -- reflexivity.
        * destruct (nth_error pos1 j) as [v|] eqn:Ev; [| congruence]. cbn [option_map opt1 app].
          rewrite (pb_excl j p v Hj K Ev). reflexivity.
    - rewrite !(nget_combine_notin _ _ _ Hnin), (H3 n Hnin), (pb_name_other n Hnin). reflexivity.
  Qed.

  Lemma pb_agrees pos0 kws0 :
    transform_build sg b = Some (pos0, kws0) ->
    norm_node e (NPartialObj fn pos0 (knames kws0)) = nmap mu (norm_node e (NPartialObj fn pos ks)).
  Proof.
    intros Htb.
    assert (Hpy : bind_prefix sg pos = (combine (map pname pre) pos1, lo)).
    { rewrite Hsg, Hpos. destruct Hlo as [->|[Hl _]].
      - rewrite app_nil_r. apply bind_prefix_short; [exact pb_HFa | exact Hlen1].
      - apply bind_prefix_full; [exact pb_HFa | exact Hl | exact pb_head]. }
    unfold norm_node. rewrite Hpy. cbn [nmap]. rewrite <- sort_kmap.
    assert (HDb : keys_distinct b = true) by (apply nodup_keys_distinct, pb_nodup_b).
    destruct (list_eq_dec ref_eq_dec lo []) as [El|El].
    - (* no *args stored *)
      rewrite (tb_novin El) in Htb. inversion Htb; subst pos0 kws0. clear Htb.
      assert (Hlen0 : length (lkvals b po 0) <= length pre).
      { pose proof (lkvals_length b po 0). rewrite Hpre, app_length. lia. }
      rewrite Hsg, (bind_prefix_short pre post _ pb_HFa Hlen0). rewrite El. cbn [map]. f_equal.
      assert (Hrest : forall n, sget (sdels (ksof b po 0) b) (KName n) = sget b (KName n)).
      { intros n. apply sget_sdels_notin. intros X. apply ksof_in in X.
        destruct X as (j & q & Hq & E & _). cbn [Nat.add] in E. rewrite (pb_po_akey j q Hq) in E. discriminate E. }
      apply pb_perkey.
      + apply keys_distinct_NoDup, keys_distinct_sdels, HDb.
      + intros j p Hj K. split; [| apply Hrest].
        destruct (pb_pre_kind j p Hj) as [[_ Hpoj]|[K' _]]; [| congruence].
        rewrite (lkvals_nth b po 0 (length pos1) j pb_pat_po), Hpoj. cbn [Nat.add]. rewrite (pb_po_akey j p Hpoj). reflexivity.
      + intros j p Hj K. left. split; [| apply Hrest].
        destruct (pb_pre_kind j p Hj) as [[K' _]|[_ Hge]]; [congruence |].
        rewrite (lkvals_nth b po 0 (length pos1) j pb_pat_po).
        destruct (nth_error po j) eqn:E; [| reflexivity].
        assert (j < length po) by (apply nth_error_Some; congruence). lia.
      + intros n _. apply Hrest.
    - (* *args stored: every positional parameter was given by position *)
      pose proof (tb_vin El) as Hv. cbv zeta in Hv. rewrite Hv in Htb. inversion Htb; subst pos0 kws0.
      clear Htb Hv.
      destruct Hlo as [Hl|[Hl Hvps]]; [congruence |].
      assert (Hlenk : length (lkvals b pre 0) = length pre).
      { apply lkvals_length_full. apply pb_pat_pre. exact Hl. }
      rewrite Hsg, (bind_prefix_full pre post _ _ pb_HFa Hlenk pb_head).
      assert (Hvs : varargs_of (length b) b (length pre) = map mu lo).
      { rewrite Hb, kmap_length, varargs_of_kmap. f_equal.
        apply varargs_of_exact; [| exact S2'].
        apply (run_length_bound st' (length pre)). intros j Hj. rewrite smem_sget, S2'.
        destruct (nth_error lo j) eqn:E; [reflexivity |]. apply nth_error_None in E. lia. }
      rewrite Hvs. f_equal.
      set (D := ksof b pre 0 ++ map kpos (seq (length pre) (length (map mu lo)))).
      assert (HD : forall n, In (KName n) D -> exists j p, nth_error pre j = Some p /\ pk p = PosOrKw /\ pname p = n).
      { intros n X. unfold D in X. apply in_app_or in X. destruct X as [X|X].
        - apply ksof_in in X. destruct X as (j & q & Hq & E & _). exists j, q. split; [exact Hq |].
          unfold akey in E. pose proof pb_HFa as HFa. rewrite Forall_forall in HFa.
          specialize (HFa q (nth_error_In _ _ Hq)).
          destruct (pk q); try discriminate E; try discriminate HFa. inversion E. split; reflexivity.
        - apply in_map_iff in X. destruct X as (i & Ei & _). discriminate Ei. }
      apply pb_perkey.
      + apply keys_distinct_NoDup, keys_distinct_sdels, HDb.
      + intros j p Hj K. split.
        * rewrite (lkvals_nth b pre 0 (length pre) j (pb_pat_pre Hl)), Hj. unfold akey. rewrite K. reflexivity.
        * apply sget_sdels_notin. intros X. destruct (HD _ X) as (j' & q & Hq & Kq & Hqn).
          destruct (nodup_names_nth pre j' j q p pb_HNa Hq Hj Hqn) as [_ ->]. congruence.
      + intros j p Hj K. right.
        assert (Hak : akey p (0 + j) = KName (pname p)) by (unfold akey; rewrite K; reflexivity).
        split; [| split].
        * rewrite (lkvals_nth b pre 0 (length pre) j (pb_pat_pre Hl)), Hj, Hak. reflexivity.
        * apply sget_sdels_in; [exact HDb |]. unfold D. apply in_or_app. left. rewrite <- Hak.
          apply ksof_complete; [exact Hj |]. apply (pb_pat_pre Hl j p Hj). apply nth_error_Some. congruence.
        * intros E. apply nth_error_None in E. assert (j < length pre) by (apply nth_error_Some; congruence). lia.
      + intros n Hn. apply sget_sdels_notin. intros X. destruct (HD _ X) as (j' & q & Hq & _ & Hqn).
        apply Hn. rewrite <- Hqn. apply in_map. eapply nth_error_In; exact Hq.
  Qed.
End PartialBuild.

(* ------------------------------------------------------------------------------------------ *)
(* 3. building the configuration graph                                                          *)

Lemma holes_map {A} (f : A -> A) (l : list A) : map (fun _ => hole) (map f l) = map (fun _ => hole) l.
Proof. rewrite map_map. reflexivity. Qed.

Lemma keyed_kmap {K} mu (l : list (K * ref)) :
  map (fun kv => (fst kv, hole)) (kmap mu l) = map (fun kv => (fst kv, hole)) l.
Proof. unfold kmap. rewrite map_map. reflexivity. Qed.

Lemma erase_pmap mu p : erase_pval (pmap mu p) = erase_pval p.
Proof. destruct p; cbn [pmap erase_pval]; [reflexivity | rewrite holes_map; reflexivity | rewrite keyed_kmap; reflexivity]. Qed.

Lemma shape_nmap mu n : shape (nmap mu n) = shape n.
Proof.
  destruct n; cbn [nmap shape]; rewrite ?holes_map, ?keyed_kmap; try reflexivity.
  f_equal. unfold vmap. rewrite map_map. apply map_ext. intros [k p]. cbn [fst snd].
  rewrite erase_pmap. reflexivity.
Qed.

Lemma refs_nmap mu n : refs_of (nmap mu n) = map mu (refs_of n).
Proof.
  destruct n; cbn [nmap refs_of]; rewrite ?kmap_values; try reflexivity.
  - induction vw as [|[k p] vw IH]; [reflexivity |]. cbn [vmap map flat_map fst snd].
    rewrite map_app. f_equal; [| exact IH].
    destruct p; cbn [pmap]; [reflexivity | reflexivity | apply kmap_values].
  - rewrite map_app. reflexivity.
Qed.

Lemma plain_with_children e mu n : plain n -> with_children e n (map mu (children e n)) = nmap mu n.
Proof.
  destruct n; cbn [plain]; intros H; try (destruct H; fail); cbn [with_children children nmap];
    rewrite ?combine_kmap; reflexivity.
Qed.

Lemma plain_refs e n : plain n -> refs_of n = children e n.
Proof. destruct n; cbn [plain]; intros H; try (destruct H; fail); reflexivity. Qed.

Lemma plain_norm e n : plain n -> norm_node e n = n.
Proof. destruct n; cbn [plain]; intros H; try (destruct H; fail); reflexivity. Qed.

Lemma plain_nmap mu n : plain n -> plain (nmap mu n).
Proof. destruct n; cbn [plain nmap]; auto. Qed.

Lemma map_fixed {A} (f : A -> A) l : map f l = l -> forall x, In x l -> f x = x.
Proof.
  induction l as [|y l IH]; intros H x Hin; [destruct Hin |]. cbn [map] in H. inversion H as [[Hy Hl]].
  destruct Hin as [<-|Hin]; [exact Hy | apply IH; assumption].
Qed.

Lemma map_fix_all {A} (f : A -> A) l : (forall x, In x l -> f x = x) -> map f l = l.
Proof.
  induction l as [|y l IH]; intros H; [reflexivity |]. cbn [map]. rewrite H by (left; reflexivity).
  f_equal. apply IH. intros x Hx. apply H. right; exact Hx.
Qed.

Lemma Forall2_nth {A B} (R : A -> B -> Prop) l1 l2 : Forall2 R l1 l2 ->
  forall i a, nth_error l1 i = Some a -> exists b, nth_error l2 i = Some b /\ R a b.
Proof.
  induction 1 as [|x y l1 l2 Hxy _ IH]; intros i a Hi; [destruct i; discriminate |].
  destruct i as [|i]; cbn [nth_error] in *.
  - inversion Hi; subst. eauto.
  - apply IH; exact Hi.
Qed.

(* keep the pointers among vs, send every other pointer to an atom *)
Definition keep (vs : list ref) (x : ref) : ref :=
  match x with
  | RA _ => x
  | RP _ => if in_dec ref_eq_dec x vs then x else RA ANone
  end.

Lemma keep_fixed vs j : keep vs (RP j) = RP j -> In (RP j) vs.
Proof. cbn [keep]. destruct (in_dec ref_eq_dec (RP j) vs); [auto | discriminate]. Qed.

Lemma keep_in vs x : In x vs -> keep vs x = x.
Proof. destruct x; cbn [keep]; [reflexivity |]. intros H. destruct (in_dec ref_eq_dec (RP p) vs); [reflexivity | contradiction]. Qed.

Lemma memo_get_nodup m i x : NoDup (map fst m) -> In (i, x) m -> memo_get m i = Some x.
Proof.
  induction m as [|[a ra] m IH]; intros Hnd Hin; [destruct Hin |].
  cbn [map fst] in Hnd. inversion Hnd as [|? ? Ha Hnd']; subst. cbn [memo_get].
  destruct Hin as [Heq|Hin].
  - inversion Heq; subst. rewrite Nat.eqb_refl. reflexivity.
  - destruct (Nat.eqb i a) eqn:E; [| auto]. apply Nat.eqb_eq in E. subst a.
    exfalso. apply Ha. apply in_map_iff. exists (i, x). auto.
Qed.

Section BuildIso.
  Variable e : sigenv.
  Hypothesis Hsigs : forall fn, valid_sig (sig_of e fn) = true.
  Hypothesis Hdefs : forall fn p i, In p (sig_of e fn) -> pdefault p <> Some (RP i).

  (* the two facts about functools.partial / fdl.Partial that the construction needs *)
  Hypothesis partial_total : forall fn ps ks st b,
    signature_binding (sig_of e fn) ps ks = Some st ->
    map fst b = map fst (flat_args e fn st) ->
    transform_build (sig_of e fn) b <> None.
  Hypothesis partial_agrees : forall fn ps ks st mu pos' kws',
    signature_binding (sig_of e fn) ps ks = Some st ->
    (forall a, mu (RA a) = RA a) ->
    transform_build (sig_of e fn) (kmap mu (flat_args e fn st)) = Some (pos', kws') ->
    norm_node e (NPartialObj fn pos' (knames kws')) = nmap mu (norm_node e (NPartialObj fn ps ks)).

  Let bn := build_node e no_fail.

  Lemma defaults_fixed (mu : ref -> ref) fn :
    (forall a, mu (RA a) = RA a) ->
    forall p d, In p (sig_of e fn) -> pdefault p = Some d -> mu d = d.
  Proof.
    intros Hmu p d Hp Hd. destruct d as [a|i]; [apply Hmu |].
    exfalso. exact (Hdefs fn p i Hp Hd).
  Qed.

  (* what build_node does on a node of the configuration heap, given the built children *)
  Lemma build_related n np (mu : ref -> ref) i o :
    nrel e n np -> (forall a, mu (RA a) = RA a) ->
    exists nb, bn i n (map mu (children e n)) o = (o ++ [nb], inl (RP (length o))) /\
               norm_node e nb = nmap mu (norm_node e np).
  Proof.
    intros Hrel Hmu. destruct Hrel as [n Hpl|fn ps ks st vw Hsb Hpc|fn ps ks st Hsb].
    - exists (nmap mu n). split.
      + unfold bn, build_node. rewrite (plain_with_children e mu n Hpl).
        destruct n; cbn [plain] in Hpl; try (destruct Hpl; fail); reflexivity.
      + rewrite !plain_norm by (try apply plain_nmap; exact Hpl). reflexivity.
    - exists (NObj fn (vmap mu vw)). split; [| reflexivity].
      unfold bn. cbn [children]. apply build1_build_node; [| reflexivity].
      apply (binding_agrees_gen e fn ps ks st vw mu (Hsigs fn)); [| exact Hsb | exact Hpc].
      apply defaults_fixed. exact Hmu.
    - cbn [children]. unfold bn, build_node. rewrite combine_kmap.
      destruct (transform_build (sig_of e fn) (kmap mu (flat_args e fn st))) as [[pos' kws']|] eqn:Htb.
      + eexists. split; [reflexivity |].
        apply (partial_agrees fn ps ks st mu pos' kws' Hsb Hmu Htb).
      + exfalso. apply (partial_total fn ps ks st _ Hsb (kmap_keys mu _) Htb).
  Qed.

  Lemma build_total n np i rs o :
    nrel e n np -> length rs = length (children e n) -> exists o' r', bn i n rs o = (o', inl r').
  Proof.
    intros Hrel Hlen. destruct Hrel as [n Hpl|fn ps ks st vw Hsb Hpc|fn ps ks st Hsb].
    - unfold bn, build_node, alloc. destruct n; cbn [plain] in Hpl; try (destruct Hpl; fail); eauto.
    - cbn [children] in Hlen. rewrite map_length in Hlen.
      assert (Hb : build1 (sig_of e fn) (combine (map fst (flat_args e fn st)) rs) <> None).
      { destruct (binding_facts e fn (Hsigs fn) ps ks st Hsb) as [Hinv Hview].
        set (b := combine (map fst (flat_args e fn st)) rs).
        assert (Hk : map fst (flat_args e fn st) = map fst b).
        { unfold b. symmetry. apply map_fst_combine. rewrite map_length. auto. }
        rewrite build_binds_exactly; [| apply Hsigs | rewrite <- (inv01_b_keys _ _ _ Hk); exact Hinv].
        unfold reference_view. apply (reference_some_keys _ _ _ _ Hk).
        fold (reference_view (sig_of e fn) (flat_args e fn st)). rewrite (Hview vw Hpc). discriminate. }
      unfold bn, build_node. unfold build1 in Hb.
      destruct (transform_build _ _) as [[pos kws]|]; [| congruence].
      destruct (py_call (sig_of e fn) pos kws); [| congruence]. unfold no_fail, alloc. eauto.
    - cbn [children] in Hlen. rewrite map_length in Hlen. unfold bn, build_node.
      destruct (transform_build (sig_of e fn) (combine (map fst (flat_args e fn st)) rs))
        as [[pos' kws']|] eqn:Htb.
      + unfold alloc. eauto.
      + exfalso. apply (partial_total fn ps ks st _ Hsb) in Htb; [exact Htb |].
        apply map_fst_combine. rewrite map_length. auto.
  Qed.

  (* every pointer held by the directly computed object is an argument of the Config *)
  Lemma ptrs_covered n np j :
    nrel e n np -> In (RP j) (refs_of (norm_node e np)) -> In (RP j) (children e n).
  Proof.
    intros Hrel Hin. set (V := children e n).
    destruct (build_related n np (keep V) 0 [] Hrel (fun a => eq_refl)) as (nb1 & Hb1 & Hn1).
    destruct (build_related n np (fun r => r) 0 [] Hrel (fun a => eq_refl)) as (nb2 & Hb2 & Hn2).
    fold V in Hb1, Hb2. rewrite map_id in Hb2.
    rewrite (map_fix_all (keep V) V (keep_in V)) in Hb1. rewrite Hb1 in Hb2.
    inversion Hb2; subst nb2. rewrite Hn1 in Hn2.
    apply (f_equal refs_of) in Hn2. rewrite !refs_nmap, map_id in Hn2.
    apply keep_fixed. apply (map_fixed _ _ Hn2). exact Hin.
  Qed.

  Variables hc hp : heap.
  Hypothesis Hrel : Forall2 (nrel e) hc hp.
  Hypothesis Hwf : wf_b e hc = true.

  Lemma hc_node i n : nth_error hc i = Some n -> exists np, nth_error hp i = Some np /\ nrel e n np.
  Proof. apply (Forall2_nth _ _ _ Hrel). Qed.

  (* the build never fails *)
  Lemma mgo_total visit l :
    (forall x, In x l -> forall s s' res, visit s x = (s', res) -> exists r', res = inl r') ->
    forall s s' res, mgo visit s l = (s', res) -> exists rs, res = inl rs /\ length rs = length l.
  Proof.
    induction l as [|x l IH]; intros Hv s s' res H.
    - cbn [mgo] in H. inversion H; subst. exists []. split; reflexivity.
    - rewrite mgo_cons in H. destruct (visit s x) as [s1 [x'|fl]] eqn:Hx.
      + destruct (mgo visit s1 l) as [s2 [l''|fl]] eqn:Hl.
        * inversion H; subst. apply IH in Hl; [| intros y Hy; apply Hv; right; exact Hy].
          destruct Hl as (rs & Hrs & Hlen). inversion Hrs; subst.
          exists (x' :: rs). split; [reflexivity | cbn [length]; congruence].
        * apply IH in Hl; [| intros y Hy; apply Hv; right; exact Hy].
          destruct Hl as (rs & Hrs & _). discriminate.
      + apply Hv in Hx; [| left; reflexivity]. destruct Hx as [r' Hr']. discriminate.
  Qed.

  Lemma mvisit_total : forall fuel stack s r s' res,
    (forall i, r = RP i -> i < fuel /\ i < length hc /\ forall k, In k stack -> i < k) ->
    mvisit e hc bn fuel stack s r = (s', res) -> exists r', res = inl r'.
  Proof.
    induction fuel as [|f IH]; intros stack s r s' res Hr H.
    - destruct r as [a|i]; [cbn [mvisit] in H; inversion H; eauto |].
      destruct (Hr i eq_refl) as [Hlt _]. lia.
    - destruct r as [a|i]; [cbn [mvisit] in H; inversion H; eauto |].
      destruct (Hr i eq_refl) as (_ & Hlen & Hstack).
      destruct (memo_get (memo s) i) as [r'|] eqn:Hm.
      + cbn [mvisit] in H. rewrite Hm in H. inversion H; eauto.
      + destruct (nth_error hc i) as [n|] eqn:Hn; [| apply nth_error_None in Hn; lia].
        rewrite (mvisit_step e hc bn f stack s i n Hm (existsb_stack_false _ _ Hstack) Hn) in H.
        destruct (mgo (mvisit e hc bn f (i :: stack)) s (children e n)) as [s1 [rs|fl]] eqn:Hg.
        * apply mgo_total in Hg.
          2:{ intros x Hx s0 s0' res0 Hv. eapply IH; [| exact Hv].
              intros j Hj. subst x. pose proof (wf_children_lt e hc i n j Hwf Hn Hx) as Hji.
              destruct (Hr i eq_refl) as (Hif & _ & _).
              split; [lia |]. split; [lia |]. intros k [Hk|Hk]; [lia |]. specialize (Hstack k Hk). lia. }
          destruct Hg as (rs' & Hrs & Hlenrs). inversion Hrs; subst rs'.
          destruct (hc_node i n Hn) as (np & _ & Hnr).
          destruct (build_total n np i rs (out s1) Hnr Hlenrs) as (o' & r' & Hb).
          fold bn in H. rewrite Hb in H. inversion H; eauto.
        * apply mgo_total in Hg.
          2:{ intros x Hx s0 s0' res0 Hv. eapply IH; [| exact Hv].
              intros j Hj. subst x. pose proof (wf_children_lt e hc i n j Hwf Hn Hx) as Hji.
              destruct (Hr i eq_refl) as (Hif & _ & _).
              split; [lia |]. split; [lia |]. intros k [Hk|Hk]; [lia |]. specialize (Hstack k Hk). lia. }
          destruct Hg as (rs' & Hrs & _). discriminate.
  Qed.

  Definition bij_of (m : list (nat * ref)) : bij := map (fun ik => (snd ik, fst ik)) (memo_bij m).

  Lemma bij_of_in m k i : In (k, i) (bij_of m) <-> In (i, RP k) m.
  Proof.
    unfold bij_of. rewrite <- memo_bij_in. split.
    - intros H. apply in_map_iff in H. destruct H as ([a b] & Heq & Hin). cbn [fst snd] in Heq.
      inversion Heq; subst. exact Hin.
    - intros H. apply in_map_iff. exists (i, k). split; [reflexivity | exact H].
  Qed.

  Lemma allocates_all i n : nth_error hc i = Some n -> allocates hc i = true.
  Proof.
    intros Hn. destruct (hc_node i n Hn) as (np & _ & Hnr). unfold allocates. rewrite Hn.
    destruct Hnr as [n Hpl| |]; [| reflexivity | reflexivity].
    destruct n; cbn [plain] in Hpl; try (destruct Hpl; fail); reflexivity.
  Qed.

  Theorem build_iso : forall r,
    root_ok hc r ->
    exists s rb,
      mrun e hc bn r = (s, inl rb) /\
      exists m, bij_wf m /\ simulates (norm_heap e (out s)) (norm_heap e hp) m /\ rel_ref m rb r.
  Proof.
    intros r Hroot.
    destruct (mrun e hc bn r) as [s res] eqn:Hrun.
    assert (Htot : exists rb, res = inl rb).
    { unfold mrun in Hrun. eapply mvisit_total; [| exact Hrun].
      intros i Hi. subst r. cbn [root_ok] in Hroot. split; [lia |]. split; [exact Hroot | intros k []]. }
    destruct Htot as [rb ->]. exists s, rb. split; [reflexivity |].
    pose proof (run_vspec e no_fail hc r s (inl rb) Hwf Hroot Hrun) as Hspec.
    destruct Hspec as (_ & _ & _ & Hroot_img & _).
    pose proof (memo_function_holds e no_fail hc r s (inl rb) Hwf Hroot Hrun) as [Hmnd _].
    pose proof (fresh_distinct_holds e no_fail hc r s (inl rb) Hwf Hroot Hrun) as Hfresh.
    (* every memo entry is the image of a node of hc, a fresh pointer *)
    assert (Hentry : forall i ri, memo_get (memo s) i = Some ri ->
              exists k, ri = RP k /\ In (k, i) (bij_of (memo s))).
    { intros i ri Hg.
      destruct (run_lookup e no_fail hc r s (inl rb) Hwf Hroot Hrun i ri Hg) as (n & _ & _ & _ & Hn & _).
      destruct (Hfresh i i ri ri (allocates_all i n Hn) (allocates_all i n Hn) Hg Hg) as [(k & -> & _) _].
      exists k. split; [reflexivity |]. apply bij_of_in. apply memo_get_in. exact Hg. }
    exists (bij_of (memo s)). split; [| split].
    - (* one-to-one *)
      intros k i k' i' H1 H2. apply bij_of_in in H1, H2.
      pose proof (memo_get_nodup _ _ _ Hmnd H1) as G1. pose proof (memo_get_nodup _ _ _ Hmnd H2) as G2.
      split.
      + intros <-. destruct (Nat.eq_dec i i') as [Heq|Hne]; [exact Heq |].
        destruct (run_lookup e no_fail hc r s (inl rb) Hwf Hroot Hrun i _ G1) as (n & _ & _ & _ & Hn & _).
        destruct (run_lookup e no_fail hc r s (inl rb) Hwf Hroot Hrun i' _ G2) as (n' & _ & _ & _ & Hn' & _).
        destruct (Hfresh i i' _ _ (allocates_all i n Hn) (allocates_all i' n' Hn') G1 G2) as [_ Hd].
        exfalso. apply (Hd Hne). reflexivity.
      + intros <-. rewrite G1 in G2. inversion G2. reflexivity.
    - (* corresponding nodes *)
      intros k i Hin. apply bij_of_in in Hin. pose proof (memo_get_nodup _ _ _ Hmnd Hin) as Hg.
      destruct (run_lookup e no_fail hc r s (inl rb) Hwf Hroot Hrun i _ Hg)
        as (n & rs & o0 & o1 & Hn & Hmap & Hon & _ & [ext Hout]).
      destruct (hc_node i n Hn) as (np & Hnp & Hnr).
      set (mu := fun x => match map_ref (memo s) x with Some y => y | None => x end).
      assert (Hrs : rs = map mu (children e n)).
      { clear - Hmap. revert rs Hmap. induction (children e n) as [|c cs IH]; intros [|y rs] H;
          cbn [map] in H; try discriminate; [reflexivity |].
        inversion H as [[Hc Hcs]]. cbn [map]. unfold mu at 1. rewrite Hc. f_equal. apply IH. exact Hcs. }
      destruct (build_related n np mu i o0 Hnr (fun a => eq_refl)) as (nb & Hb & Hnorm).
      rewrite <- Hrs in Hb. fold bn in Hon. rewrite Hb in Hon. inversion Hon as [[Ho1 Hk]].
      exists (norm_node e nb), (norm_node e np). split.
      { unfold norm_heap. rewrite nth_error_map, Hout, <- Ho1.
        rewrite (nth_error_mid' o0 nb ext). reflexivity. }
      split; [unfold norm_heap; rewrite nth_error_map, Hnp; reflexivity |].
      rewrite Hnorm. split; [apply shape_nmap |]. rewrite refs_nmap.
      assert (Hall : forall x, In x (refs_of (norm_node e np)) -> rel_ref (bij_of (memo s)) (mu x) x).
      { intros x Hx. destruct x as [a|j]; [reflexivity |].
        pose proof (ptrs_covered n np j Hnr Hx) as Hc.
        assert (Hgj : exists rj, memo_get (memo s) j = Some rj).
        { clear - Hmap Hc. revert rs Hmap. induction (children e n) as [|c cs IH]; intros rs H; [destruct Hc |].
          destruct rs as [|y rs]; cbn [map] in H; [discriminate |]. inversion H as [[Hy Hcs]].
          destruct Hc as [->|Hc]; [exists y; exact Hy | eapply IH; eauto]. }
        destruct Hgj as [rj Hgj]. destruct (Hentry j rj Hgj) as (k' & -> & Hk').
        unfold mu. cbn [map_ref]. rewrite Hgj. exact Hk'. }
      clear - Hall. induction (refs_of (norm_node e np)) as [|x l IH]; [constructor |].
      cbn [map]. constructor; [apply Hall; left; reflexivity |].
      apply IH. intros y Hy. apply Hall. right; exact Hy.
    - (* the roots correspond *)
      destruct r as [a|i]; cbn [map_ref] in Hroot_img.
      + inversion Hroot_img; subst. reflexivity.
      + destruct (Hentry i rb Hroot_img) as (k & -> & Hk). exact Hk.
  Qed.
End BuildIso.

(* the two facts about partials, discharged *)
Lemma partial_total_holds e :
  (forall fn, valid_sig (sig_of e fn) = true) ->
  forall fn ps ks st b,
    signature_binding (sig_of e fn) ps ks = Some st ->
    map fst b = map fst (flat_args e fn st) ->
    transform_build (sig_of e fn) b <> None.
Proof.
  intros Hsigs fn ps ks st b Hsb Hk.
  destruct (sb_facts e fn (Hsigs fn) ps ks st Hsb)
    as (pre & post & pos1 & lo & Hsg & F1 & F2 & S2 & Hpos & Hlen1 & Hlo & Hnd' &
        S1 & S2' & S3 & Hcls & Hextras & Hndk & Hkw).
  destruct (valid_sig_parts _ (Hsigs fn)) as [HS _].
  assert (HSpre : kinds_sorted pre = true) by (rewrite Hsg in HS; eapply kinds_sorted_app_l; exact HS).
  destruct (prefix_split pre HSpre F1) as (po & pkw & Hpre & Hpo & Hpkw).
  eapply (pb_total e fn (Hsigs fn) ps ks st pre post pos1 lo); eassumption.
Qed.

Lemma partial_agrees_holds e :
  (forall fn, valid_sig (sig_of e fn) = true) ->
  forall fn ps ks st mu pos' kws',
    signature_binding (sig_of e fn) ps ks = Some st ->
    (forall a, mu (RA a) = RA a) ->
    transform_build (sig_of e fn) (kmap mu (flat_args e fn st)) = Some (pos', kws') ->
    norm_node e (NPartialObj fn pos' (knames kws')) = nmap mu (norm_node e (NPartialObj fn ps ks)).
Proof.
  intros Hsigs fn ps ks st mu pos' kws' Hsb _ Htb.
  destruct (sb_facts e fn (Hsigs fn) ps ks st Hsb)
    as (pre & post & pos1 & lo & Hsg & F1 & F2 & S2 & Hpos & Hlen1 & Hlo & Hnd' &
        S1 & S2' & S3 & Hcls & Hextras & Hndk & Hkw).
  destruct (valid_sig_parts _ (Hsigs fn)) as [HS _].
  assert (HSpre : kinds_sorted pre = true) by (rewrite Hsg in HS; eapply kinds_sorted_app_l; exact HS).
  destruct (prefix_split pre HSpre F1) as (po & pkw & Hpre & Hpo & Hpkw).
  eapply (pb_agrees e fn (Hsigs fn) ps ks st pre post pos1 lo Hsg F1 F2 S2 Hpos Hlen1 Hlo Hnd'
            S1 S2' S3 Hndk Hkw po pkw Hpre Hpo Hpkw (kmap mu (flat_args e fn st)) (kmap_keys mu _) mu eq_refl).
  exact Htb.
Qed.

(* ------------------------------------------------------------------------------------------ *)
(* C11: build (as_buildable( *args )) is isomorphic to fn( *args )                              *)

(* the argument objects: plain containers (lists, tuples, dicts, ...) of atoms and of each other *)
Definition plain_heap (o : heap) : Prop := Forall plain o.

Definition plain_b (n : node) : bool :=
  match n with
  | NList _ | NTuple _ | NDict _ | NDefaultDict _ _ | NNamedTuple _ _ => true
  | _ => false
  end.

Lemma plain_b_spec n : plain_b n = true -> plain n.
Proof. destruct n; cbn [plain_b plain]; intros H; try discriminate; exact I. Qed.

Lemma plain_heap_b_spec o : forallb plain_b o = true -> plain_heap o.
Proof.
  intros H. apply Forall_forall. intros n Hn. rewrite forallb_forall in H. apply plain_b_spec. auto.
Qed.

(* the signatures: valid parameter lists whose defaults are atoms *)
Definition env_ok_b (e : sigenv) : bool :=
  forallb (fun ns => valid_sig (snd ns) &&
                     forallb (fun p => match pdefault p with Some (RP _) => false | _ => true end) (snd ns)) e.

Lemma env_ok_b_spec e : env_ok_b e = true ->
  (forall fn, valid_sig (sig_of e fn) = true) /\
  (forall fn p i, In p (sig_of e fn) -> pdefault p <> Some (RP i)).
Proof.
  induction e as [|[n sg] e IH]; intros H.
  - split; [intros fn; reflexivity | intros fn p i []].
  - cbn [env_ok_b forallb snd] in H. apply andb_true_iff in H. destruct H as [H1 H2].
    apply andb_true_iff in H1. destruct H1 as [Hv Hd]. destruct (IH H2) as [IH1 IH2]. split.
    + intros fn. cbn [sig_of]. destruct (N.eqb n fn); [exact Hv | apply IH1].
    + intros fn p i. cbn [sig_of]. destruct (N.eqb n fn); [| apply IH2].
      intros Hp Hpd. rewrite forallb_forall in Hd. specialize (Hd p Hp). rewrite Hpd in Hd. discriminate.
Qed.

Theorem build_equals_call : forall e fuel args o p hc rc hp rp,
  (forall fn, valid_sig (sig_of e fn) = true) ->
  (forall fn q i, In q (sig_of e fn) -> pdefault q <> Some (RP i)) ->
  wf_b e o = true -> Forall plain o -> forallb (ref_below (length o)) args = true ->
  run_program e true fuel args o p = (hc, Some rc) ->
  run_program e false fuel args o p = (hp, Some rp) ->
  exists s rb,
    mrun e hc (build_node e no_fail) rc = (s, inl rb) /\
    exists m, bij_wf m /\ simulates (norm_heap e (out s)) (norm_heap e hp) m /\ rel_ref m rb rp.
Proof.
  intros e fuel args o p hc rc hp rp Hsigs Hdefs Hwf Hplain Hargs Hc Hp.
  destruct (run_program_rel e fuel args o p hc hp rc rp Hc Hp) as [<- (dc & dp & -> & -> & Hrel)].
  destruct (run_program_wf e fuel args o p _ _ Hc Hwf Hargs) as [Hwfc Hroot].
  assert (Hrel' : Forall2 (nrel e) (o ++ dc) (o ++ dp)).
  { apply Forall2_app; [| exact Hrel]. clear - Hplain. induction Hplain; constructor; auto.
    apply nr_plain. assumption. }
  assert (Hroot' : root_ok (o ++ dc) rc).
  { specialize (Hroot rc eq_refl). destruct rc as [a|i]; cbn [root_ok ref_below] in *; [exact I |].
    apply Nat.ltb_lt. exact Hroot. }
  exact (build_iso e Hsigs Hdefs (partial_total_holds e Hsigs) (partial_agrees_holds e Hsigs)
           (o ++ dc) (o ++ dp) Hrel' Hwfc rc Hroot').
Qed.

(* ------------------------------------------------------------------------------------------ *)
(* a concrete program: non-vacuity of the statements above
     def fa(a, b=None)                      -- 10;  a=1 b=2
     def fb(x, /, y, *args, k=0, **kw)      -- 11;  x=3 y=4 args=5 k=6 kw=7
     def prog(p0, p1):
       v2 = [p0, 1]
       v3 = fa(v2, b=v2)                                  # v2 used twice
       v4 = functools.partial(fb, 1, v2, k=v3, z=p1)
       return fb(v3, v3, v4, p0, w=(v2, v4))              # v3, v4, v2 shared
   called with p0 = [1, 2], p1 = 7 *)
Definition ex_env : sigenv :=
  [ (10%N, [mkparam 1 PosOrKw None false; mkparam 2 PosOrKw (Some (RA ANone)) false]);
    (11%N, [mkparam 3 PosOnly None false; mkparam 4 PosOrKw None false; mkparam 5 VarPos None false;
            mkparam 6 KwOnly (Some (RA (AInt 0))) false; mkparam 7 VarKw None false]) ].
Definition ex_heap : heap := [NList [RA (AInt 1); RA (AInt 2)]].
Definition ex_args : list ref := [RP 0; RA (AInt 7)].
Definition ex_prog : program :=
  mkprog [ EList [EVar 0; EConst (AInt 1)];
           ECall 10 [EVar 2] [(2%N, EVar 2)];
           EPartial 11 [EConst (AInt 1); EVar 2] [(6%N, EVar 3); (9%N, EVar 1)] ]
         (ECall 11 [EVar 3; EVar 3; EVar 4; EVar 0] [(8%N, ETuple [EVar 2; EVar 4])]).

(* why the argument objects must be plain containers: fdl.build copies lists but leaves an
   arbitrary object alone, so a list shared between an argument and an attribute of another
   (opaque) argument is no longer shared after the build.
     l = []; obj = fa(l)                       # obj.a is l
     def prog(p0, p1): return fa(p0, b=p1)     called with (l, obj) *)
Definition cex_heap : heap := [NList []; NObj 10 [(1%N, PV (RP 0)); (2%N, PV (RA ANone))]].
Definition cex_args : list ref := [RP 0; RP 1].
Definition cex_prog : program := mkprog [] (ECall 10 [EVar 0] [(2%N, EVar 1)]).

Theorem build_equals_call_needs_plain_args :
  exists o args p hc rc hp rp s rb,
    wf_b ex_env o = true /\ forallb (ref_below (length o)) args = true /\
    run_program ex_env true 10 args o p = (hc, Some rc) /\
    run_program ex_env false 10 args o p = (hp, Some rp) /\
    mrun ex_env hc (build_node ex_env no_fail) rc = (s, inl rb) /\
    ~ exists m, bij_wf m /\ simulates (norm_heap ex_env (out s)) (norm_heap ex_env hp) m /\
                rel_ref m rb rp.
Proof.
  exists cex_heap, cex_args, cex_prog. do 6 eexists.
  split; [reflexivity |]. split; [reflexivity |].
  split; [vm_compute; reflexivity |]. split; [vm_compute; reflexivity |].
  split; [vm_compute; reflexivity |].
  intros (m & Hw & Hs & Hr). cbn [rel_ref] in Hr.
  destruct (Hs 4 2 Hr) as (n1 & n2 & H1 & H2 & _ & Hf).
  vm_compute in H1, H2. inversion H1; inversion H2; subst n1 n2. clear H1 H2.
  cbn [refs_of flat_map snd app] in Hf.
  inversion Hf as [|? ? ? ? H30 Hf']; subst. inversion Hf' as [|? ? ? ? H11 _]; subst.
  cbn [rel_ref] in H30, H11.
  destruct (Hs 1 1 H11) as (n1 & n2 & H1 & H2 & _ & Hf1).
  vm_compute in H1, H2. inversion H1; inversion H2; subst n1 n2. clear H1 H2.
  cbn [refs_of flat_map snd app] in Hf1. inversion Hf1 as [|? ? ? ? H00 _]; subst.
  cbn [rel_ref] in H00.
  destruct (Hw 3 0 0 0 H30 H00) as [_ Hc]. specialize (Hc eq_refl). discriminate.
Qed.

Lemma checks_sound : forall e o,
  (env_ok_b e = true ->
   (forall fn, valid_sig (sig_of e fn) = true) /\
   (forall fn q i, In q (sig_of e fn) -> pdefault q <> Some (RP i))) /\
  (forallb plain_b o = true -> Forall plain o).
Proof. intros e o. split; [apply env_ok_b_spec | apply plain_heap_b_spec]. Qed.
