(* Sig: parameter kinds, signatures (inspect.Signature as Fiddle's SignatureInfo sees it). *)
From Fiddle Require Import PyBase.

Inductive pkind := PosOnly | PosOrKw | VarPos | KwOnly | VarKw.
Definition pkind_eq_dec : forall a b : pkind, {a = b} + {a <> b}.
Proof. decide equality. Defined.
Definition pkind_eqb (a b : pkind) : bool := if pkind_eq_dec a b then true else false.

(* pfactory: the default is a dataclass default_factory sentinel *)
Record param := mkparam { pname : N; pk : pkind; pdefault : option ref; pfactory : bool }.
Definition sig := list param.

Definition is_prefix_kind (k : pkind) : bool :=
  match k with PosOnly | PosOrKw => true | _ => false end.

(* SignatureInfo._var_positional_start : index of the *args parameter *)
Fixpoint vps_from (sg : sig) (i : nat) : option nat :=
  match sg with
  | [] => None
  | p :: sg' => match pk p with VarPos => Some i | _ => vps_from sg' (S i) end
  end.
Definition vps (sg : sig) : option nat := vps_from sg 0.

Definition has_var_kw (sg : sig) : bool := existsb (fun p => pkind_eqb (pk p) VarKw) sg.

Fixpoint find_param (sg : sig) (n : N) : option param :=
  match sg with
  | [] => None
  | p :: sg' => if N.eqb (pname p) n then Some p else find_param sg' n
  end.

(* the parameters that can be passed by position, in order *)
Definition prefix_params (sg : sig) : list param := filter (fun p => is_prefix_kind (pk p)) sg.
Definition n_prefix (sg : sig) : nat := length (prefix_params sg).

(* params[i] with Python's negative indexing; None = IndexError *)
Definition py_nth_param (sg : sig) (i : Z) : option param :=
  let len := Z.of_nat (length sg) in
  let j := if i <? 0 then i + len else i in
  if (j <? 0) || (len <=? j) then None else nth_error sg (Z.to_nat j).

(* A valid Python parameter list: kinds in order PosOnly* PosOrKw* VarPos? KwOnly* VarKw?,
   distinct names, no non-default positional parameter after a default one. *)
Definition kind_rank (k : pkind) : nat :=
  match k with PosOnly => 0 | PosOrKw => 1 | VarPos => 2 | KwOnly => 3 | VarKw => 4 end.

Fixpoint kinds_sorted (sg : sig) : bool :=
  match sg with
  | [] => true
  | p :: sg' =>
      match sg' with
      | [] => true
      | q :: _ =>
          let a := kind_rank (pk p) in let b := kind_rank (pk q) in
          (Nat.ltb a b || (Nat.eqb a b && negb (Nat.eqb a 2) && negb (Nat.eqb a 4))) && kinds_sorted sg'
      end
  end.

Fixpoint names_distinct (sg : sig) : bool :=
  match sg with
  | [] => true
  | p :: sg' => negb (existsb (fun q => N.eqb (pname q) (pname p)) sg') && names_distinct sg'
  end.

Fixpoint defaults_trailing (ps : list param) (seen : bool) : bool :=
  match ps with
  | [] => true
  | p :: ps' =>
      match pdefault p with
      | Some _ => defaults_trailing ps' true
      | None => negb seen && defaults_trailing ps' false
      end
  end.

Definition variadic_no_default (sg : sig) : bool :=
  forallb (fun p => match pk p with
                    | VarPos | VarKw => match pdefault p with None => true | Some _ => false end
                    | _ => true end) sg.

Definition valid_sig (sg : sig) : bool :=
  kinds_sorted sg && names_distinct sg && defaults_trailing (prefix_params sg) false
  && variadic_no_default sg.
