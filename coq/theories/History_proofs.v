(* History_proofs: facts about the argument-history model (History.v), property C16.
   1. the sequence-number invariant is preserved by every operation;
   2. operations under suspended tracking append nothing; balanced suspend blocks restore the switch;
   3. arguments, tags and outputs do not depend on the history, the counter or the switch;
   4. an edit appends exactly one entry per primitive write, in order, with consecutive ids;
   5. the last entry of every key is the current value / tag set (tracked runs);
   6. a concrete non-vacuity example. *)
From Coq Require Import Permutation.
From Fiddle Require Import PyBase PySlice Sig ArgStore ArgSpec History Store_proofs.
Local Open Scope nat_scope.

(* ------------------------------------------------------------------------------------------
   0. basic projections *)

Lemma log_entry_args s k v : b_args (log_entry s k v) = b_args s.
Proof. unfold log_entry. destruct (b_tracking s); reflexivity. Qed.
Lemma log_entry_tags s k v : b_tags (log_entry s k v) = b_tags s.
Proof. unfold log_entry. destruct (b_tracking s); reflexivity. Qed.
Lemma log_entry_tracking s k v : b_tracking (log_entry s k v) = b_tracking s.
Proof. unfold log_entry. destruct (b_tracking s) eqn:E; cbn [b_tracking]; auto. Qed.
Lemma log_entry_stack s k v : b_stack (log_entry s k v) = b_stack s.
Proof. unfold log_entry. destruct (b_tracking s); reflexivity. Qed.
Lemma log_entry_off s k v : b_tracking s = false -> log_entry s k v = s.
Proof. unfold log_entry. intros ->. reflexivity. Qed.
Lemma log_entry_on s k v :
  b_tracking s = true ->
  log_entry s k v = mk_bs (b_args s) (b_tags s) (hist_append (b_hist s) k (mk_he (b_counter s) v))
                          (S (b_counter s)) true (b_stack s).
Proof. unfold log_entry. intros ->. reflexivity. Qed.

Definition write_entry (w : write) : hkey * hval :=
  match w with WSet k v => (HK k, HVal v) | WDel k => (HK k, HDeleted) end.

Lemma log_write_entry s w : log_write s w = log_entry s (fst (write_entry w)) (snd (write_entry w)).
Proof. destruct w; reflexivity. Qed.

(* replaying a list of (key, value) pairs: the i-th pair gets sequence number c + i *)
Fixpoint hreplay (h : hist) (c : nat) (l : list (hkey * hval)) : hist :=
  match l with
  | [] => h
  | kv :: l' => hreplay (hist_append h (fst kv) (mk_he c (snd kv))) (S c) l'
  end.

Lemma hreplay_app h c l1 l2 :
  hreplay h c (l1 ++ l2) = hreplay (hreplay h c l1) (c + length l1) l2.
Proof.
  revert h c. induction l1 as [|kv l1 IH]; intros h c; cbn [hreplay app length].
  - rewrite Nat.add_0_r. reflexivity.
  - rewrite IH. f_equal. lia.
Qed.

(* how the history and the counter of s' extend those of s *)
Definition hc_ext (s s' : bstate) (l : list (hkey * hval)) : Prop :=
  if b_tracking s
  then b_hist s' = hreplay (b_hist s) (b_counter s) l /\ b_counter s' = b_counter s + length l
  else b_hist s' = b_hist s /\ b_counter s' = b_counter s.

(* the switch and the stack are untouched *)
Definition sw_same (s s' : bstate) : Prop :=
  b_tracking s' = b_tracking s /\ b_stack s' = b_stack s.

Definition ext (s s' : bstate) (l : list (hkey * hval)) : Prop := sw_same s s' /\ hc_ext s s' l.

Lemma ext_refl s : ext s s [].
Proof.
  split; [split; reflexivity|]. unfold hc_ext. destruct (b_tracking s); cbn [hreplay length]; auto.
Qed.

Lemma ext_trans s s1 s2 l1 l2 : ext s s1 l1 -> ext s1 s2 l2 -> ext s s2 (l1 ++ l2).
Proof.
  intros [[T1 K1] H1] [[T2 K2] H2]. split.
  - split; congruence.
  - unfold hc_ext in *. rewrite T1 in H2. destruct (b_tracking s).
    + destruct H1 as [A1 B1], H2 as [A2 B2]. rewrite A2, B2, A1, B1, hreplay_app, app_length.
      split; [reflexivity | lia].
    + destruct H1 as [A1 B1], H2 as [A2 B2]. split; congruence.
Qed.

Lemma ext_log_entry s k v : ext s (log_entry s k v) [(k, v)].
Proof.
  split.
  - split; [apply log_entry_tracking | apply log_entry_stack].
  - unfold hc_ext, log_entry. destruct (b_tracking s); cbn [b_hist b_counter hreplay length fst snd].
    + split; [reflexivity | lia].
    + auto.
Qed.

Lemma ext_same_hc s s' :
  b_hist s' = b_hist s -> b_counter s' = b_counter s -> b_tracking s' = b_tracking s ->
  b_stack s' = b_stack s -> ext s s' [].
Proof.
  intros H C T K. split; [split; assumption|].
  unfold hc_ext. destruct (b_tracking s); cbn [hreplay length]; split; auto. lia.
Qed.

Lemma ext_with_tags s m : ext s (with_tags s m) [].
Proof. apply ext_same_hc; reflexivity. Qed.

Lemma ext_fold_log_write ws : forall s, ext s (fold_left log_write ws s) (map write_entry ws).
Proof.
  induction ws as [|w ws IH]; intros s; cbn [fold_left map].
  - apply ext_refl.
  - change (write_entry w :: map write_entry ws) with ([write_entry w] ++ map write_entry ws).
    eapply ext_trans; [|apply IH].
    rewrite log_write_entry. destruct (write_entry w) as [k v]. apply ext_log_entry.
Qed.

(* ---- tag operations *)
Section Ext.
  Variable sg : sig.

  Lemma ext_add_tag s a t : exists l, ext s (fst (add_tag sg s a t)) l.
  Proof.
    unfold add_tag. destruct (validate_targ sg a); [exists []; apply ext_refl|].
    destruct (targ_key sg s a) as [k|e]; [|exists []; apply ext_refl].
    cbn [fst]. eexists. eapply ext_trans; [apply ext_with_tags | apply ext_log_entry].
  Qed.

  Lemma ext_clear_tags s a : exists l, ext s (fst (clear_tags sg s a)) l.
  Proof.
    unfold clear_tags. destruct (validate_targ sg a); [exists []; apply ext_refl|].
    destruct (targ_key sg s a) as [k|e]; [|exists []; apply ext_refl].
    cbn [fst]. eexists. eapply ext_trans; [apply ext_with_tags | apply ext_log_entry].
  Qed.

  Lemma ext_remove_tag s a t : exists l, ext s (fst (remove_tag sg s a t)) l.
  Proof.
    unfold remove_tag. destruct (validate_targ sg a); [exists []; apply ext_refl|].
    destruct (targ_key sg s a) as [k|e]; [|exists []; apply ext_refl].
    cbv zeta. destruct (tset_mem t (tags_get (b_tags s) k)); cbn [fst].
    - eexists. eapply ext_trans; [apply ext_with_tags|].
      eapply ext_trans; [apply ext_with_tags | apply ext_log_entry].
    - eexists. apply ext_with_tags.
  Qed.

  Lemma ext_add_tags a ts : forall s, exists l, ext s (fst (add_tags sg s a ts)) l.
  Proof.
    induction ts as [|t ts IH]; intros s; cbn [add_tags].
    - exists []. apply ext_refl.
    - destruct (ext_add_tag s a t) as [l1 H1].
      destruct (add_tag sg s a t) as [s1 [e|]] eqn:E; cbn [fst] in *.
      + exists l1. exact H1.
      + destruct (IH s1) as [l2 H2]. exists (l1 ++ l2). eapply ext_trans; eassumption.
  Qed.

  Lemma ext_set_tags s a ts : exists l, ext s (fst (set_tags sg s a ts)) l.
  Proof.
    unfold set_tags.
    destruct (ext_clear_tags s a) as [l1 H1].
    destruct (clear_tags sg s a) as [s1 [e|]] eqn:E1; cbn [fst] in *; [exists l1; exact H1|].
    destruct (ext_add_tags a ts s1) as [l2 H2].
    destruct (add_tags sg s1 a ts) as [s2 [e|]] eqn:E2; cbn [fst] in *.
    - exists (l1 ++ l2). eapply ext_trans; eassumption.
    - destruct (targ_key sg s2 a) as [k|e]; cbn [fst].
      + eexists. eapply ext_trans; [eapply ext_trans; eassumption | apply ext_log_entry].
      + exists (l1 ++ l2). eapply ext_trans; eassumption.
  Qed.

  Definition is_suspend (o : hop) : bool :=
    match o with HSuspendBegin | HSuspendEnd => true | _ => false end.

  Lemma hstep_edit_eq s ed :
    hstep sg s (HEdit ed) =
    (fold_left log_write (snd (fst (step_w sg (b_args s) ed)))
               (mk_bs (fst (fst (step_w sg (b_args s) ed))) (b_tags s) (b_hist s) (b_counter s)
                      (b_tracking s) (b_stack s)),
     snd (step_w sg (b_args s) ed)).
  Proof. cbn [hstep]. destruct (step_w sg (b_args s) ed) as [[args' ws] r]. reflexivity. Qed.

  Lemma hstep_tag_eq s o :
    fst (hstep sg s o) =
    match o with
    | HEdit ed => fst (hstep sg s (HEdit ed))
    | HAddTag a t => fst (add_tag sg s a t)
    | HRemoveTag a t => fst (remove_tag sg s a t)
    | HSetTags a ts => fst (set_tags sg s a ts)
    | HClearTags a => fst (clear_tags sg s a)
    | _ => fst (hstep sg s o)
    end.
  Proof.
    destruct o; try reflexivity; cbn [hstep].
    - destruct (add_tag sg s a t); reflexivity.
    - destruct (remove_tag sg s a t); reflexivity.
    - destruct (set_tags sg s a ts); reflexivity.
    - destruct (clear_tags sg s a); reflexivity.
  Qed.

  (* every operation other than the suspend switch extends the log by replaying some entries *)
  Lemma hstep_ext s o : is_suspend o = false -> exists l, ext s (fst (hstep sg s o)) l.
  Proof.
    intros NS. rewrite hstep_tag_eq. destruct o; try discriminate NS.
    - rewrite hstep_edit_eq. cbn [fst]. eexists.
      eapply ext_trans; [|apply ext_fold_log_write]. apply ext_same_hc; reflexivity.
    - apply ext_add_tag.
    - apply ext_remove_tag.
    - apply ext_set_tags.
    - apply ext_clear_tags.
  Qed.

  (* suspend operations leave history and counter alone *)
  Lemma hstep_suspend_hc s o :
    is_suspend o = true ->
    b_hist (fst (hstep sg s o)) = b_hist s /\ b_counter (fst (hstep sg s o)) = b_counter s /\
    b_args (fst (hstep sg s o)) = b_args s /\ b_tags (fst (hstep sg s o)) = b_tags s.
  Proof.
    destruct o; try discriminate; intros _; cbn [hstep].
    - cbn. auto.
    - destruct (b_stack s); cbn; auto.
  Qed.

  Lemma hstep_hc_ext s o : exists l, hc_ext s (fst (hstep sg s o)) l.
  Proof.
    destruct (is_suspend o) eqn:S.
    - exists []. destruct (hstep_suspend_hc s o S) as (H & C & _).
      unfold hc_ext. destruct (b_tracking s); cbn [hreplay length]; split; auto. lia.
    - destruct (hstep_ext s o S) as [l [_ H]]. exists l. exact H.
  Qed.
End Ext.

(* ------------------------------------------------------------------------------------------
   1. the sequence-number invariant *)

Definition seqs_ok (h : hist) (c : nat) : Prop :=
  (forall en, In en (all_entries h) -> he_seq en < c) /\
  (forall kes, In kes h -> strictly_increasing (map he_seq (snd kes)) = true) /\
  NoDup (map he_seq (all_entries h)).

Lemma nodup_nat_b_iff l : nodup_nat_b l = true <-> NoDup l.
Proof.
  induction l as [|x l IH]; cbn [nodup_nat_b].
  - split; [constructor | reflexivity].
  - rewrite andb_true_iff, negb_true_iff, IH. split.
    + intros [H1 H2]. constructor; [|exact H2]. intros HI.
      assert (E : existsb (Nat.eqb x) l = true)
        by (apply existsb_exists; exists x; split; [exact HI | apply Nat.eqb_refl]).
      congruence.
    + intros H. inversion H as [|? ? H1 H2]; subst. split; [|exact H2].
      destruct (existsb (Nat.eqb x) l) eqn:E; [|reflexivity].
      apply existsb_exists in E. destruct E as [y [HI E]]. apply Nat.eqb_eq in E. subst y.
      contradiction.
Qed.

Lemma seqs_ok_b_iff s : seqs_ok_b s = true <-> seqs_ok (b_hist s) (b_counter s).
Proof.
  unfold seqs_ok_b, seqs_ok. rewrite !andb_true_iff, !forallb_forall, nodup_nat_b_iff.
  split.
  - intros [[H1 H2] H3]. repeat split; [|exact H2|exact H3].
    intros en HI. apply Nat.ltb_lt. apply H1. exact HI.
  - intros [H1 [H2 H3]]. repeat split; [|exact H2|exact H3].
    intros en HI. apply Nat.ltb_lt. apply H1. exact HI.
Qed.

Lemma all_entries_append_perm h k en :
  Permutation (all_entries (hist_append h k en)) (en :: all_entries h).
Proof.
  unfold all_entries. induction h as [|[k' es] h IH]; cbn [hist_append flat_map snd].
  - rewrite app_nil_r. apply Permutation_refl.
  - destruct (hkey_eqb k k'); cbn [flat_map snd].
    + rewrite <- app_assoc. cbn [app]. apply Permutation_sym, Permutation_middle.
    + eapply Permutation_trans; [apply Permutation_app_head; exact IH|].
      apply Permutation_sym, Permutation_middle.
Qed.

Lemma in_all_entries_append h k en x :
  In x (all_entries (hist_append h k en)) <-> x = en \/ In x (all_entries h).
Proof.
  split; intros H.
  - apply (Permutation_in _ (all_entries_append_perm h k en)) in H. destruct H; auto.
  - apply (Permutation_in _ (Permutation_sym (all_entries_append_perm h k en))).
    destruct H; [left; auto | right; auto].
Qed.

Lemma in_hist_append h k en kes :
  In kes (hist_append h k en) ->
  In kes h \/ kes = (k, [en]) \/ exists es, In (fst kes, es) h /\ snd kes = es ++ [en].
Proof.
  induction h as [|[k' es] h IH]; cbn [hist_append].
  - intros [H|[]]. right; left; auto.
  - destruct (hkey_eqb k k').
    + intros [H|H].
      * subst kes. right; right. exists es. cbn [fst snd]. split; [left; reflexivity | reflexivity].
      * left; right; exact H.
    + intros [H|H].
      * left; left; exact H.
      * destruct (IH H) as [A|[A|[es' [A B]]]].
        -- left; right; exact A.
        -- right; left; exact A.
        -- right; right. exists es'. split; [right; exact A | exact B].
Qed.

Lemma in_hist_all_entries h k es x : In (k, es) h -> In x es -> In x (all_entries h).
Proof.
  intros H1 H2. unfold all_entries. apply in_flat_map. exists (k, es). split; assumption.
Qed.

Lemma strictly_increasing_snoc l c :
  strictly_increasing l = true -> (forall x, In x l -> x < c) -> strictly_increasing (l ++ [c]) = true.
Proof.
  induction l as [|a l IH]; intros H B.
  - reflexivity.
  - destruct l as [|b l].
    + cbn [app strictly_increasing]. rewrite andb_true_r. apply Nat.ltb_lt. apply B. left; reflexivity.
    + cbn [strictly_increasing] in H. apply andb_prop in H. destruct H as [H1 H2].
      change ((a :: b :: l) ++ [c]) with (a :: b :: (l ++ [c])).
      cbn [strictly_increasing]. rewrite H1. cbn [andb].
      change (b :: l ++ [c]) with ((b :: l) ++ [c]). apply IH; [exact H2|].
      intros x HI. apply B. right; exact HI.
Qed.

Lemma seqs_ok_append h c k v : seqs_ok h c -> seqs_ok (hist_append h k (mk_he c v)) (S c).
Proof.
  intros [H1 [H2 H3]]. repeat split.
  - intros en HI. apply in_all_entries_append in HI. destruct HI as [E|HI].
    + subst en. cbn [he_seq]. lia.
    + specialize (H1 en HI). lia.
  - intros kes HI. apply in_hist_append in HI. destruct HI as [HI|[E|[es [HI E]]]].
    + apply H2. exact HI.
    + subst kes. reflexivity.
    + rewrite E, map_app. cbn [map he_seq]. apply strictly_increasing_snoc.
      * apply (H2 (fst kes, es)). exact HI.
      * intros x Hx. apply in_map_iff in Hx. destruct Hx as [en [E' Hx]]. subst x.
        apply H1. eapply in_hist_all_entries; eassumption.
  - eapply Permutation_NoDup.
    + apply Permutation_sym. apply Permutation_map. apply all_entries_append_perm.
    + cbn [map he_seq]. constructor; [|exact H3].
      intros HI. apply in_map_iff in HI. destruct HI as [en [E HI]].
      specialize (H1 en HI). lia.
Qed.

Lemma seqs_ok_hreplay l : forall h c, seqs_ok h c -> seqs_ok (hreplay h c l) (c + length l).
Proof.
  induction l as [|[k v] l IH]; intros h c H; cbn [hreplay length fst snd].
  - rewrite Nat.add_0_r. exact H.
  - replace (c + S (length l)) with (S c + length l) by lia. apply IH. apply seqs_ok_append. exact H.
Qed.

Lemma hc_ext_seqs_ok s s' l : hc_ext s s' l -> seqs_ok_b s = true -> seqs_ok_b s' = true.
Proof.
  unfold hc_ext. intros H. rewrite !seqs_ok_b_iff. intros OK.
  destruct (b_tracking s); destruct H as [A B]; rewrite A, B.
  - apply seqs_ok_hreplay. exact OK.
  - exact OK.
Qed.

(* TARGET 1 *)
Theorem seqs_ok_hstep sg s o : seqs_ok_b s = true -> seqs_ok_b (fst (hstep sg s o)) = true.
Proof.
  destruct (hstep_hc_ext sg s o) as [l H]. eapply hc_ext_seqs_ok. exact H.
Qed.

Lemma hrun_cons sg s o ops : hrun sg s (o :: ops) = hrun sg (fst (hstep sg s o)) ops.
Proof. reflexivity. Qed.

Lemma hrun_app sg s ops1 ops2 : hrun sg s (ops1 ++ ops2) = hrun sg (hrun sg s ops1) ops2.
Proof. unfold hrun. apply fold_left_app. Qed.

Theorem seqs_ok_hrun sg ops : forall s, seqs_ok_b s = true -> seqs_ok_b (hrun sg s ops) = true.
Proof.
  induction ops as [|o ops IH]; intros s H.
  - exact H.
  - rewrite hrun_cons. apply IH. apply seqs_ok_hstep. exact H.
Qed.

(* the history is append-only, key by key; new entries carry the sequence numbers
   [old counter, new counter) *)
Lemma hist_get_append h k en k' :
  hist_get (hist_append h k en) k' = if hkey_eqb k' k then hist_get h k' ++ [en] else hist_get h k'.
Proof.
  unfold hist_get. induction h as [|[k0 es] h IH]; cbn [hist_append dget].
  - destruct (hkey_eqb k' k); reflexivity.
  - destruct (hkey_eqb k k0) eqn:E; cbn [dget].
    + unfold hkey_eqb in E. destruct (hkey_eq_dec k k0) as [->|]; [|discriminate].
      destruct (hkey_eqb k' k0); reflexivity.
    + destruct (hkey_eqb k' k0) eqn:E0.
      * unfold hkey_eqb in E0. destruct (hkey_eq_dec k' k0) as [->|]; [|discriminate].
        assert (E1 : hkey_eqb k0 k = false).
        { unfold hkey_eqb in *. destruct (hkey_eq_dec k0 k) as [->|]; [|reflexivity].
          destruct (hkey_eq_dec k k); [discriminate | congruence]. }
        rewrite E1. reflexivity.
      * exact IH.
Qed.

Definition entries_between (lo hi : nat) (es : list hentry) : Prop :=
  forall en, In en es -> lo <= he_seq en < hi.

Lemma hreplay_get l : forall h c k,
  exists suffix, hist_get (hreplay h c l) k = hist_get h k ++ suffix /\
                 entries_between c (c + length l) suffix.
Proof.
  induction l as [|[k0 v0] l IH]; intros h c k; cbn [hreplay length fst snd].
  - exists []. rewrite app_nil_r. split; [reflexivity | intros en []].
  - destruct (IH (hist_append h k0 (mk_he c v0)) (S c) k) as [suf [E B]].
    rewrite hist_get_append in E. destruct (hkey_eqb k k0).
    + exists (mk_he c v0 :: suf). rewrite E, <- app_assoc. split; [reflexivity|].
      intros en [HI|HI].
      * subst en. cbn [he_seq]. lia.
      * specialize (B en HI). lia.
    + exists suf. split; [exact E|]. intros en HI. specialize (B en HI). lia.
Qed.

Lemma hreplay_entries l : forall h c en,
  In en (all_entries (hreplay h c l)) -> In en (all_entries h) \/ c <= he_seq en < c + length l.
Proof.
  induction l as [|[k0 v0] l IH]; intros h c en HI; cbn [hreplay length fst snd] in *.
  - left; exact HI.
  - apply IH in HI. destruct HI as [HI|HI].
    + apply in_all_entries_append in HI. destruct HI as [E|HI].
      * subst en. cbn [he_seq]. right. lia.
      * left; exact HI.
    + right. lia.
Qed.

Theorem counter_mono_hstep sg s o : b_counter s <= b_counter (fst (hstep sg s o)).
Proof.
  destruct (hstep_hc_ext sg s o) as [l H]. unfold hc_ext in H.
  destruct (b_tracking s); destruct H as [_ ->]; lia.
Qed.

Theorem counter_mono_hrun sg ops : forall s, b_counter s <= b_counter (hrun sg s ops).
Proof.
  induction ops as [|o ops IH]; intros s.
  - apply Nat.le_refl.
  - rewrite hrun_cons. eapply Nat.le_trans; [apply counter_mono_hstep | apply IH].
Qed.

(* every key's entry list only grows, and what is added is numbered from the old counter *)
Theorem hstep_append_only sg s o k :
  exists suffix,
    hist_get (b_hist (fst (hstep sg s o))) k = hist_get (b_hist s) k ++ suffix /\
    entries_between (b_counter s) (b_counter (fst (hstep sg s o))) suffix.
Proof.
  destruct (hstep_hc_ext sg s o) as [l H]. unfold hc_ext in H.
  destruct (b_tracking s); destruct H as [-> ->].
  - apply hreplay_get.
  - exists []. rewrite app_nil_r. split; [reflexivity | intros en []].
Qed.

Theorem hstep_new_entries sg s o en :
  In en (all_entries (b_hist (fst (hstep sg s o)))) ->
  In en (all_entries (b_hist s)) \/ b_counter s <= he_seq en < b_counter (fst (hstep sg s o)).
Proof.
  destruct (hstep_hc_ext sg s o) as [l H]. unfold hc_ext in H.
  destruct (b_tracking s); destruct H as [-> ->].
  - apply hreplay_entries.
  - auto.
Qed.

Theorem hrun_append_only sg ops : forall s k,
  exists suffix,
    hist_get (b_hist (hrun sg s ops)) k = hist_get (b_hist s) k ++ suffix /\
    entries_between (b_counter s) (b_counter (hrun sg s ops)) suffix.
Proof.
  induction ops as [|o ops IH]; intros s k.
  - exists []. rewrite app_nil_r. split; [reflexivity | intros en []].
  - rewrite hrun_cons. destruct (hstep_append_only sg s o k) as [s1 [E1 B1]].
    destruct (IH (fst (hstep sg s o)) k) as [s2 [E2 B2]].
    exists (s1 ++ s2). rewrite E2, E1, app_assoc. split; [reflexivity|].
    pose proof (counter_mono_hstep sg s o) as M1.
    pose proof (counter_mono_hrun sg ops (fst (hstep sg s o))) as M2.
    intros en HI. apply in_app_or in HI. destruct HI as [HI|HI].
    + specialize (B1 en HI). lia.
    + specialize (B2 en HI). lia.
Qed.

Theorem hrun_new_entries sg ops : forall s en,
  In en (all_entries (b_hist (hrun sg s ops))) ->
  In en (all_entries (b_hist s)) \/ b_counter s <= he_seq en < b_counter (hrun sg s ops).
Proof.
  induction ops as [|o ops IH]; intros s en HI.
  - left; exact HI.
  - rewrite hrun_cons in *. apply IH in HI.
    pose proof (counter_mono_hstep sg s o) as M1.
    pose proof (counter_mono_hrun sg ops (fst (hstep sg s o))) as M2.
    destruct HI as [HI|HI].
    + apply hstep_new_entries in HI. destruct HI as [HI|HI]; [left; exact HI | right; lia].
    + right; lia.
Qed.

(* program order: whatever a later run adds is numbered above everything logged before *)
Theorem hrun_program_order sg s ops e1 e2 :
  seqs_ok_b s = true ->
  In e1 (all_entries (b_hist s)) ->
  In e2 (all_entries (b_hist (hrun sg s ops))) -> ~ In e2 (all_entries (b_hist s)) ->
  he_seq e1 < he_seq e2.
Proof.
  intros OK H1 H2 N. apply seqs_ok_b_iff in OK. destruct OK as [B _].
  specialize (B e1 H1). apply hrun_new_entries in H2. destruct H2 as [H2|H2]; [contradiction | lia].
Qed.

(* ------------------------------------------------------------------------------------------
   2. suspended tracking *)

(* TARGET 2a: with tracking off, no operation other than the switch itself touches the log *)
Theorem suspended_hstep sg s o :
  b_tracking s = false -> is_suspend o = false ->
  b_hist (fst (hstep sg s o)) = b_hist s /\ b_counter (fst (hstep sg s o)) = b_counter s.
Proof.
  intros T NS. destruct (hstep_ext sg s o NS) as [l [_ H]]. unfold hc_ext in H.
  rewrite T in H. exact H.
Qed.

(* operations other than the switch never change the switch or the stack of saved values *)
Theorem hstep_switch_same sg s o :
  is_suspend o = false ->
  b_tracking (fst (hstep sg s o)) = b_tracking s /\ b_stack (fst (hstep sg s o)) = b_stack s.
Proof. intros NS. destruct (hstep_ext sg s o NS) as [l [H _]]. exact H. Qed.

(* nesting depth after a list of operations; None when an end has no matching begin *)
Fixpoint depth_after (d : nat) (ops : list hop) : option nat :=
  match ops with
  | [] => Some d
  | HSuspendBegin :: r => depth_after (S d) r
  | HSuspendEnd :: r => match d with O => None | S d' => depth_after d' r end
  | _ :: r => depth_after d r
  end.

Definition balanced (ops : list hop) : Prop := depth_after 0 ops = Some 0.

(* the switch together with the saved values is one stack: begin pushes false, end pops *)
Definition sw (s : bstate) : list bool := b_tracking s :: b_stack s.

Lemma sw_run sg ops : forall s d d' pre base,
  depth_after d ops = Some d' ->
  sw s = pre ++ base -> length pre = d -> base <> [] -> Forall (fun b => b = false) pre ->
  exists pre',
    sw (hrun sg s ops) = pre' ++ base /\ length pre' = d' /\ Forall (fun b => b = false) pre' /\
    (hd true base = false ->
     b_hist (hrun sg s ops) = b_hist s /\ b_counter (hrun sg s ops) = b_counter s).
Proof.
  induction ops as [|o ops IH]; intros s d d' pre base D SW L NE AF.
  - cbn [depth_after] in D. inversion D; subst d'. exists pre. cbn [hrun fold_left]. auto.
  - rewrite hrun_cons.
    assert (TR : hd true base = false -> b_tracking s = false).
    { intros HB. unfold sw in SW. destruct pre as [|x pre].
      - cbn [app] in SW. destruct base as [|b base]; [congruence|]. inversion SW as [[T0 K0]].
        cbn [hd] in HB. congruence.
      - inversion AF as [|? ? X0 X1]; subst. cbn [app] in SW. inversion SW. reflexivity. }
    assert (GEN : is_suspend o = false -> depth_after d ops = Some d' ->
                  exists pre',
                    sw (hrun sg (fst (hstep sg s o)) ops) = pre' ++ base /\ length pre' = d' /\
                    Forall (fun b => b = false) pre' /\
                    (hd true base = false ->
                     b_hist (hrun sg (fst (hstep sg s o)) ops) = b_hist s /\
                     b_counter (hrun sg (fst (hstep sg s o)) ops) = b_counter s)).
    { intros NS D'. destruct (hstep_switch_same sg s o NS) as [T K].
      destruct (IH (fst (hstep sg s o)) d d' pre base D') as [pre' (A & B & C & E)]; auto.
      { unfold sw. rewrite T, K. exact SW. }
      exists pre'. split; [exact A|]. split; [exact B|]. split; [exact C|].
      intros HB. destruct (E HB) as [H1 H2]. rewrite H1, H2.
      apply suspended_hstep; [apply TR; exact HB | exact NS]. }
    destruct o; try (apply GEN; [reflexivity | exact D]).
    + (* begin *)
      cbn [depth_after] in D.
      destruct (IH (fst (hstep sg s HSuspendBegin)) (S d) d' (false :: pre) base D)
        as [pre' (A & B & C & E)]; auto.
      { unfold sw in *. cbn [hstep fst b_tracking b_stack app]. rewrite SW. reflexivity. }
      { cbn [length]. congruence. }
      exists pre'. split; [exact A|]. split; [exact B|]. split; [exact C|].
      intros HB. destruct (E HB) as [H1 H2]. rewrite H1, H2. split; reflexivity.
    + (* end *)
      cbn [depth_after] in D. destruct d as [|d]; [discriminate|].
      destruct pre as [|x pre]; [discriminate|]. cbn [length] in L.
      unfold sw in SW. cbn [app] in SW. inversion SW as [[T K]].
      assert (exists prev rest, b_stack s = prev :: rest) as (prev & rest & KS).
      { rewrite K. destruct pre as [|y pre]; cbn [app].
        - destruct base as [|b base]; [congruence|]. eauto.
        - eauto. }
      destruct (IH (fst (hstep sg s HSuspendEnd)) d d' pre base D) as [pre' (A & B & C & E)]; auto.
      { unfold sw. cbn [hstep]. rewrite KS. cbn [fst b_tracking b_stack]. rewrite <- KS. exact K. }
      { inversion AF; assumption. }
      exists pre'. split; [exact A|]. split; [exact B|]. split; [exact C|].
      intros HB. destruct (E HB) as [H1 H2]. rewrite H1, H2.
      cbn [hstep]. rewrite KS. split; reflexivity.
Qed.

(* balanced blocks restore the switch and the stack *)
Theorem balanced_restores sg s ops :
  balanced ops ->
  b_tracking (hrun sg s ops) = b_tracking s /\ b_stack (hrun sg s ops) = b_stack s.
Proof.
  intros B. destruct (sw_run sg ops s 0 0 [] (sw s) B) as [pre' (A & L & _)]; auto.
  { unfold sw. discriminate. }
  destruct pre'; [|discriminate]. cbn [app] in A. unfold sw in A. inversion A. auto.
Qed.

Lemma depth_after_app ops1 : forall ops2 d d1,
  depth_after d ops1 = Some d1 -> depth_after d (ops1 ++ ops2) = depth_after d1 ops2.
Proof.
  induction ops1 as [|o ops1 IH]; intros ops2 d d1 H.
  - cbn in H. inversion H. reflexivity.
  - destruct o; cbn [app depth_after] in *; try (apply IH; exact H).
    destruct d; [discriminate | apply IH; exact H].
Qed.

Lemma depth_after_shift ops : forall d d1 n,
  depth_after d ops = Some d1 -> depth_after (d + n) ops = Some (d1 + n).
Proof.
  induction ops as [|o ops IH]; intros d d1 n H.
  - cbn in *. inversion H. reflexivity.
  - destruct o; cbn [depth_after] in *; try (apply IH; exact H).
    + apply (IH (S d)). exact H.
    + destruct d; [discriminate|]. cbn [Nat.add]. apply IH. exact H.
Qed.

Lemma balanced_wrap ops : balanced ops -> balanced (HSuspendBegin :: ops ++ [HSuspendEnd]).
Proof.
  unfold balanced. intros B. cbn [depth_after].
  rewrite (depth_after_app ops [HSuspendEnd] 1 1).
  - reflexivity.
  - apply (depth_after_shift ops 0 0 1). exact B.
Qed.

Lemma balanced_app ops1 ops2 : balanced ops1 -> balanced ops2 -> balanced (ops1 ++ ops2).
Proof. unfold balanced. intros B1 B2. rewrite (depth_after_app _ _ _ _ B1). exact B2. Qed.

(* TARGET 2b: a suspend block around balanced operations restores switch and stack, and nothing
   executed inside it reaches the log *)
Theorem suspend_block sg s ops :
  balanced ops ->
  let s' := hrun sg s (HSuspendBegin :: ops ++ [HSuspendEnd]) in
  b_tracking s' = b_tracking s /\ b_stack s' = b_stack s /\
  b_hist s' = b_hist s /\ b_counter s' = b_counter s.
Proof.
  intros B s'. subst s'.
  destruct (balanced_restores sg s _ (balanced_wrap ops B)) as [T K].
  split; [exact T|]. split; [exact K|].
  rewrite hrun_cons, hrun_app.
  set (s1 := fst (hstep sg s HSuspendBegin)).
  destruct (sw_run sg ops s1 0 0 [] (sw s1) B) as [pre' (A & L & _ & E)]; auto.
  { unfold sw. discriminate. }
  assert (HB : hd true (sw s1) = false) by reflexivity.
  destruct (E HB) as [H C].
  destruct (hstep_suspend_hc sg (hrun sg s1 ops) HSuspendEnd eq_refl) as (H' & C' & _).
  cbn [hrun fold_left]. rewrite H', C', H, C. split; reflexivity.
Qed.

(* ------------------------------------------------------------------------------------------
   3. the history is unobservable *)

Definition same_core (s1 s2 : bstate) : Prop := b_args s1 = b_args s2 /\ b_tags s1 = b_tags s2.

Lemma same_core_refl s : same_core s s.
Proof. split; reflexivity. Qed.

Lemma fold_log_write_args ws : forall s, b_args (fold_left log_write ws s) = b_args s.
Proof.
  induction ws as [|w ws IH]; intros s; cbn [fold_left]; [reflexivity|].
  rewrite IH, log_write_entry. apply log_entry_args.
Qed.

Lemma fold_log_write_tags ws : forall s, b_tags (fold_left log_write ws s) = b_tags s.
Proof.
  induction ws as [|w ws IH]; intros s; cbn [fold_left]; [reflexivity|].
  rewrite IH, log_write_entry. apply log_entry_tags.
Qed.

Section Core.
  Variable sg : sig.

  Lemma targ_key_core s1 s2 a : b_args s1 = b_args s2 -> targ_key sg s1 a = targ_key sg s2 a.
  Proof. destruct a; cbn [targ_key]; intros E; rewrite ?E; reflexivity. Qed.

  Lemma add_tag_core s1 s2 a t :
    same_core s1 s2 ->
    same_core (fst (add_tag sg s1 a t)) (fst (add_tag sg s2 a t)) /\
    snd (add_tag sg s1 a t) = snd (add_tag sg s2 a t).
  Proof.
    intros H. unfold add_tag. destruct (validate_targ sg a); [auto|].
    rewrite (targ_key_core s1 s2) by apply H. destruct (targ_key sg s2 a); [|auto].
    cbn [fst snd]. split; [|reflexivity]. unfold same_core.
    rewrite !log_entry_args, !log_entry_tags. cbn [with_tags b_args b_tags].
    destruct H as [-> ->]. auto.
  Qed.

  Lemma clear_tags_core s1 s2 a :
    same_core s1 s2 ->
    same_core (fst (clear_tags sg s1 a)) (fst (clear_tags sg s2 a)) /\
    snd (clear_tags sg s1 a) = snd (clear_tags sg s2 a).
  Proof.
    intros H. unfold clear_tags. destruct (validate_targ sg a); [auto|].
    rewrite (targ_key_core s1 s2) by apply H. destruct (targ_key sg s2 a); [|auto].
    cbn [fst snd]. split; [|reflexivity]. unfold same_core.
    rewrite !log_entry_args, !log_entry_tags. cbn [with_tags b_args b_tags].
    destruct H as [-> ->]. auto.
  Qed.

  Lemma remove_tag_core s1 s2 a t :
    same_core s1 s2 ->
    same_core (fst (remove_tag sg s1 a t)) (fst (remove_tag sg s2 a t)) /\
    snd (remove_tag sg s1 a t) = snd (remove_tag sg s2 a t).
  Proof.
    intros H. unfold remove_tag. destruct (validate_targ sg a); [auto|].
    rewrite (targ_key_core s1 s2) by apply H. destruct (targ_key sg s2 a); [|auto].
    cbv zeta. destruct H as [HA HT]. rewrite HT.
    destruct (tset_mem t (tags_get (b_tags s2) s)); cbn [fst snd]; (split; [|reflexivity]);
      unfold same_core; rewrite ?log_entry_args, ?log_entry_tags; cbn [with_tags b_args b_tags];
      rewrite HA, ?HT; auto.
  Qed.

  Lemma add_tags_core a ts : forall s1 s2,
    same_core s1 s2 ->
    same_core (fst (add_tags sg s1 a ts)) (fst (add_tags sg s2 a ts)) /\
    snd (add_tags sg s1 a ts) = snd (add_tags sg s2 a ts).
  Proof.
    induction ts as [|t ts IH]; intros s1 s2 H; cbn [add_tags].
    - auto.
    - destruct (add_tag_core s1 s2 a t H) as [C R].
      destruct (add_tag sg s1 a t) as [s1' r1], (add_tag sg s2 a t) as [s2' r2].
      cbn [fst snd] in *. subst r2. destruct r1; [auto|]. apply IH. exact C.
  Qed.

  Lemma set_tags_core s1 s2 a ts :
    same_core s1 s2 ->
    same_core (fst (set_tags sg s1 a ts)) (fst (set_tags sg s2 a ts)) /\
    snd (set_tags sg s1 a ts) = snd (set_tags sg s2 a ts).
  Proof.
    intros H. unfold set_tags.
    destruct (clear_tags_core s1 s2 a H) as [C R].
    destruct (clear_tags sg s1 a) as [s1' r1], (clear_tags sg s2 a) as [s2' r2].
    cbn [fst snd] in *. subst r2. destruct r1; [auto|].
    destruct (add_tags_core a ts s1' s2' C) as [C2 R2].
    destruct (add_tags sg s1' a ts) as [s1'' r1], (add_tags sg s2' a ts) as [s2'' r2].
    cbn [fst snd] in *. subst r2. destruct r1; [auto|].
    rewrite (targ_key_core s1'' s2'') by apply C2. destruct (targ_key sg s2'' a); [|auto].
    cbn [fst snd]. split; [|reflexivity]. unfold same_core.
    rewrite !log_entry_args, !log_entry_tags. exact C2.
  Qed.

  (* TARGET 3: arguments, tags and the output of every operation are functions of the arguments
     and tags alone (not of the history, the counter, the switch or the saved switch values) *)
  Theorem hstep_core s1 s2 o :
    same_core s1 s2 ->
    same_core (fst (hstep sg s1 o)) (fst (hstep sg s2 o)) /\ snd (hstep sg s1 o) = snd (hstep sg s2 o).
  Proof.
    intros H. destruct o.
    - rewrite !hstep_edit_eq. cbn [fst snd]. destruct H as [HA HT]. rewrite HA. split; [|reflexivity].
      split; [rewrite !fold_log_write_args | rewrite !fold_log_write_tags]; cbn [b_args b_tags]; auto.
    - cbn [hstep]. destruct (add_tag_core s1 s2 a t H) as [C R].
      destruct (add_tag sg s1 a t), (add_tag sg s2 a t). cbn [fst snd] in *. subst. auto.
    - cbn [hstep]. destruct (remove_tag_core s1 s2 a t H) as [C R].
      destruct (remove_tag sg s1 a t), (remove_tag sg s2 a t). cbn [fst snd] in *. subst. auto.
    - cbn [hstep]. destruct (set_tags_core s1 s2 a ts H) as [C R].
      destruct (set_tags sg s1 a ts), (set_tags sg s2 a ts). cbn [fst snd] in *. subst. auto.
    - cbn [hstep]. destruct (clear_tags_core s1 s2 a H) as [C R].
      destruct (clear_tags sg s1 a), (clear_tags sg s2 a). cbn [fst snd] in *. subst. auto.
    - cbn [hstep fst snd]. split; [exact H | reflexivity].
    - cbn [hstep]. destruct (b_stack s1), (b_stack s2); cbn [fst snd]; split; try reflexivity; exact H.
  Qed.

  (* the switch operations change neither arguments nor tags, and return None *)
  Theorem hstep_suspend_core s o :
    is_suspend o = true -> same_core (fst (hstep sg s o)) s /\ snd (hstep sg s o) = OUnit.
  Proof.
    intros S. destruct (hstep_suspend_hc sg s o S) as (_ & _ & A & T). split; [split; assumption|].
    destruct o; try discriminate; cbn [hstep]; [reflexivity|]. destruct (b_stack s); reflexivity.
  Qed.

  Fixpoint houts (s : bstate) (ops : list hop) : list out :=
    match ops with
    | [] => []
    | o :: r => snd (hstep sg s o) :: houts (fst (hstep sg s o)) r
    end.

  Theorem hrun_core ops : forall s1 s2,
    same_core s1 s2 ->
    same_core (hrun sg s1 ops) (hrun sg s2 ops) /\ houts s1 ops = houts s2 ops.
  Proof.
    induction ops as [|o ops IH]; intros s1 s2 H.
    - split; [exact H | reflexivity].
    - rewrite !hrun_cons. cbn [houts]. destruct (hstep_core s1 s2 o H) as [C R].
      destruct (IH _ _ C) as [C' R']. rewrite R, R'. auto.
  Qed.

  (* in particular: the run on the state with an empty history, tracking switched off *)
  Definition erase (s : bstate) : bstate := mk_bs (b_args s) (b_tags s) [] 0 false [].

  Corollary hrun_erase s ops :
    same_core (hrun sg s ops) (hrun sg (erase s) ops) /\ houts s ops = houts (erase s) ops.
  Proof. apply hrun_core. split; reflexivity. Qed.
End Core.

(* ------------------------------------------------------------------------------------------
   4. one entry per primitive write *)

Lemma all_entries_append_length h k en :
  length (all_entries (hist_append h k en)) = S (length (all_entries h)).
Proof. rewrite (Permutation_length (all_entries_append_perm h k en)). reflexivity. Qed.

Lemma hreplay_length l : forall h c,
  length (all_entries (hreplay h c l)) = length (all_entries h) + length l.
Proof.
  induction l as [|kv l IH]; intros h c; cbn [hreplay length].
  - lia.
  - rewrite IH, all_entries_append_length. lia.
Qed.

(* the same replay with the sequence number of the i-th entry spelled out: c + i *)
Definition log_indexed (c : nat) (h : hist) (iw : nat * (hkey * hval)) : hist :=
  hist_append h (fst (snd iw)) (mk_he (c + fst iw) (snd (snd iw))).

Lemma hreplay_indexed_gen l : forall h c a,
  fold_left (log_indexed c) (combine (seq a (length l)) l) h = hreplay h (c + a) l.
Proof.
  induction l as [|kv l IH]; intros h c a; cbn [length seq combine fold_left hreplay].
  - reflexivity.
  - rewrite IH. unfold log_indexed. cbn [fst snd]. f_equal. lia.
Qed.

Lemma hreplay_indexed l h c :
  hreplay h c l = fold_left (log_indexed c) (combine (seq 0 (length l)) l) h.
Proof. rewrite hreplay_indexed_gen, Nat.add_0_r. reflexivity. Qed.

(* TARGET 4 *)
Theorem edit_entries sg s ed :
  b_tracking s = true ->
  let writes := snd (fst (step_w sg (b_args s) ed)) in
  let s' := fst (hstep sg s (HEdit ed)) in
  b_hist s' = hreplay (b_hist s) (b_counter s) (map write_entry writes) /\
  b_counter s' = b_counter s + length writes /\
  length (all_entries (b_hist s')) = length (all_entries (b_hist s)) + length writes /\
  b_args s' = fst (fst (step_w sg (b_args s) ed)) /\ b_tags s' = b_tags s.
Proof.
  intros T writes s'. subst writes s'. rewrite hstep_edit_eq. cbn [fst].
  set (ws := snd (fst (step_w sg (b_args s) ed))).
  set (s1 := mk_bs _ _ _ _ _ _).
  destruct (ext_fold_log_write ws s1) as [_ H]. unfold hc_ext in H.
  change (b_tracking s1) with (b_tracking s) in H. rewrite T in H.
  change (b_hist s1) with (b_hist s) in H. change (b_counter s1) with (b_counter s) in H.
  destruct H as [H C]. rewrite map_length in C.
  split; [exact H|]. split; [exact C|]. split.
  - rewrite H, hreplay_length, map_length. reflexivity.
  - split; [rewrite fold_log_write_args | rewrite fold_log_write_tags]; reflexivity.
Qed.

(* the i-th write (from 0) is logged under its own key with sequence number counter + i *)
Corollary edit_entries_indexed sg s ed :
  b_tracking s = true ->
  let writes := snd (fst (step_w sg (b_args s) ed)) in
  b_hist (fst (hstep sg s (HEdit ed))) =
  fold_left (log_indexed (b_counter s))
            (combine (seq 0 (length writes)) (map write_entry writes)) (b_hist s).
Proof.
  intros T writes. destruct (edit_entries sg s ed T) as [H _]. rewrite H.
  rewrite hreplay_indexed, map_length. reflexivity.
Qed.

(* ------------------------------------------------------------------------------------------
   5a. the write log of an edit replays to its final store *)

Fixpoint replay_writes (st : store) (ws : list write) : option store :=
  match ws with
  | [] => Some st
  | WSet k v :: r => replay_writes (sset st k v) r
  | WDel k :: r => if smem st k then replay_writes (sdel st k) r else None
  end.

Lemma replay_writes_app ws1 : forall st ws2,
  replay_writes st (ws1 ++ ws2) =
  match replay_writes st ws1 with Some st1 => replay_writes st1 ws2 | None => None end.
Proof.
  induction ws1 as [|w ws1 IH]; intros st ws2; cbn [app replay_writes].
  - reflexivity.
  - destruct w as [k v|k]; [apply IH|]. destruct (smem st k); [apply IH | reflexivity].
Qed.

(* the invariant of a wstate threaded through an edit that started from a0 *)
Definition wrel (a0 : store) (s : wstate) : Prop := replay_writes a0 (snd s) = Some (fst s).

Lemma wrel_init a0 : wrel a0 (a0, []).
Proof. reflexivity. Qed.

Lemma wrel_arg_set a0 s k v : wrel a0 s -> wrel a0 (arg_set s k v).
Proof.
  unfold wrel, arg_set. intros H. cbn [fst snd]. rewrite replay_writes_app, H. reflexivity.
Qed.

Lemma wrel_arg_del a0 s k s' : wrel a0 s -> arg_del s k = inl s' -> wrel a0 s'.
Proof.
  unfold wrel, arg_del. intros H E. destruct (smem (fst s) k) eqn:M; [|discriminate].
  inversion E; subst s'. cbn [fst snd]. rewrite replay_writes_app, H. cbn [replay_writes].
  rewrite M. reflexivity.
Qed.

Section Wrel.
  Variable sg : sig.
  Variable a0 : store.

  Lemma wrel_setattr s n v : wrel a0 s -> wrel a0 (fst (setattr sg s n v)).
  Proof.
    intros H. unfold setattr. destruct (validate_param_name sg n); cbn [fst];
      [exact H | apply wrel_arg_set; exact H].
  Qed.

  Lemma wrel_delattr s n : wrel a0 s -> wrel a0 (fst (delattr s n)).
  Proof.
    intros H. unfold delattr. destruct (arg_del s (KName n)) as [s'|e] eqn:E; cbn [fst];
      [eapply wrel_arg_del; eassumption | exact H].
  Qed.

  Lemma wrel_set_item_by_index s z v : wrel a0 s -> wrel a0 (fst (set_item_by_index sg s z v)).
  Proof.
    intros H. unfold set_item_by_index. destruct (index_to_key sg z (fst s)) as [k|e]; [|exact H].
    match goal with |- context [if ?b then _ else _] => destruct b end; cbn [fst];
      [exact H | apply wrel_arg_set; exact H].
  Qed.

  Lemma wrel_set_each idxs : forall vs s, wrel a0 s -> wrel a0 (fst (set_each sg s idxs vs)).
  Proof.
    induction idxs as [|i idxs IH]; intros vs s H; cbn [set_each]; [exact H|].
    destruct vs as [|v vs]; [exact H|].
    pose proof (wrel_set_item_by_index s i v H) as H1.
    destruct (set_item_by_index sg s i v) as [s' [e|]]; cbn [fst] in *; [exact H1|].
    apply IH. exact H1.
  Qed.

  Lemma wrel_renumber_set snap new indices : forall s,
    wrel a0 s -> wrel a0 (fst (renumber_set s snap new indices)).
  Proof.
    induction indices as [|index rest IH]; intros s H; cbn [renumber_set]; [exact H|].
    destruct (nth_error new index) as [[j|v]|].
    - destruct (Z.eqb j (Z.of_nat index)); [apply IH; exact H|].
      destruct (sget snap (KPos j)); [apply IH, wrel_arg_set; exact H | exact H].
    - apply IH, wrel_arg_set; exact H.
    - destruct (arg_del s (kpos index)) as [s'|e] eqn:E; [|exact H].
      apply IH. eapply wrel_arg_del; eassumption.
  Qed.

  Lemma wrel_append_new snap new indices : forall s,
    wrel a0 s -> wrel a0 (fst (append_new s snap new indices)).
  Proof.
    induction indices as [|index rest IH]; intros s H; cbn [append_new]; [exact H|].
    destruct (nth_error new index) as [[j|v]|].
    - destruct (sget snap (KPos j)); [apply IH, wrel_arg_set; exact H | exact H].
    - apply IH, wrel_arg_set; exact H.
    - exact H.
  Qed.

  Lemma wrel_set_item_by_slice s sl vs : wrel a0 s -> wrel a0 (fst (set_item_by_slice sg s sl vs)).
  Proof.
    intros H. unfold set_item_by_slice. cbv zeta.
    destruct (slice_indices _ _ _ _) as [[[st en] step]|]; [|exact H].
    match goal with |- context [if ?b then _ else _] => destruct b end.
    - destruct (Nat.eqb _ _); [apply wrel_set_each; exact H | exact H].
    - destruct (vps sg) as [v|]; [|exact H].
      destruct (list_set_slice _ _ _ _ _) as [new|]; [|exact H].
      pose proof (wrel_renumber_set (fst s) new (nat_seq v (length (all_positional sg (fst s)) - v)) s H)
        as H1.
      destruct (renumber_set s (fst s) new _) as [s1 [e|]]; cbn [fst] in *; [exact H1|].
      apply wrel_append_new. exact H1.
  Qed.

  Lemma wrel_setitem s i v : wrel a0 s -> wrel a0 (fst (setitem sg s i v)).
  Proof.
    intros H. unfold setitem. destruct (replace_int sg i); [apply wrel_set_item_by_index|]; exact H.
  Qed.

  Lemma wrel_dpp v indices : forall s new,
    wrel a0 s -> wrel a0 (fst (fst (del_prefix_or_placeholder sg s v new indices))).
  Proof.
    induction indices as [|index rest IH]; intros s new H; cbn [del_prefix_or_placeholder]; [exact H|].
    destruct (Z.ltb index v).
    - destruct (index_to_key sg index (fst s)) as [k|e]; [|exact H].
      destruct (smem (fst s) k); [|apply IH; exact H].
      destruct (arg_del s k) as [s'|e] eqn:E; [|exact H].
      apply IH. eapply wrel_arg_del; eassumption.
    - destruct (list_del_at new index); [apply IH; exact H | exact H].
  Qed.

  Lemma wrel_compact new indices : forall s, wrel a0 s -> wrel a0 (fst (compact s new indices)).
  Proof.
    induction indices as [|index rest IH]; intros s H; cbn [compact]; [exact H|].
    destruct (nth_error new index) as [j|].
    - destruct (Z.eqb j (Z.of_nat index)); [apply IH; exact H|].
      destruct (sget (fst s) (KPos j)); [apply IH, wrel_arg_set; exact H | exact H].
    - destruct (arg_del s (kpos index)) as [s'|e] eqn:E; [|exact H].
      apply IH. eapply wrel_arg_del; eassumption.
  Qed.

  Lemma wrel_del_indices s indices : wrel a0 s -> wrel a0 (fst (del_indices sg s indices)).
  Proof.
    intros H. unfold del_indices. cbv zeta.
    match goal with |- context [del_prefix_or_placeholder sg s ?v ?old ?ix] =>
      pose proof (wrel_dpp v ix s old H) as H1;
      destruct (del_prefix_or_placeholder sg s v old ix) as [[s1 new] [e|]] end;
      cbn [fst] in *; [exact H1|].
    apply wrel_compact. exact H1.
  Qed.

  Lemma wrel_delitem s i : wrel a0 s -> wrel a0 (fst (delitem sg s i)).
  Proof.
    intros H. unfold delitem. destruct (replace_int sg i); [|exact H]. cbv zeta.
    match goal with |- context [if ?b then _ else _] => destruct b end;
      [exact H | apply wrel_del_indices; exact H].
  Qed.

  Lemma wrel_delslice s sl : wrel a0 s -> wrel a0 (fst (delslice sg s sl)).
  Proof.
    intros H. unfold delslice. cbv zeta.
    destruct (slice_indices _ _ _ _) as [[[st en] step]|]; [apply wrel_del_indices|]; exact H.
  Qed.
End Wrel.

(* the "writes replay" lemma, for every operation: the primitive writes of an edit, replayed from the
   starting store (set = sset, delete = sdel of a key that is present), give the final store *)
Theorem step_w_replay sg args o :
  replay_writes args (snd (fst (step_w sg args o))) = Some (fst (fst (step_w sg args o))).
Proof.
  change (wrel args (fst (step_w sg args o))).
  pose proof (wrel_init args) as H. unfold step_w. destruct o.
  - exact H.
  - pose proof (wrel_setattr sg args _ n v H) as H1. destruct (setattr sg (args, []) n v); exact H1.
  - pose proof (wrel_delattr args _ n H) as H1. destruct (delattr (args, []) n); exact H1.
  - exact H.
  - pose proof (wrel_setitem sg args _ i v H) as H1. destruct (setitem sg (args, []) i v); exact H1.
  - pose proof (wrel_delitem sg args _ i H) as H1. destruct (delitem sg (args, []) i); exact H1.
  - exact H.
  - pose proof (wrel_set_item_by_slice sg args _ s vs H) as H1.
    destruct (set_item_by_slice sg (args, []) s vs); exact H1.
  - pose proof (wrel_delslice sg args _ s H) as H1. destruct (delslice sg (args, []) s); exact H1.
Qed.

Lemma replay_writes_keys_distinct ws : forall st st',
  replay_writes st ws = Some st' -> keys_distinct st = true -> keys_distinct st' = true.
Proof.
  induction ws as [|w ws IH]; intros st st' H D; cbn [replay_writes] in H.
  - inversion H; subst. exact D.
  - destruct w as [k v|k].
    + eapply IH; [exact H | apply keys_distinct_sset; exact D].
    + destruct (smem st k); [|discriminate]. eapply IH; [exact H | apply keys_distinct_sdel; exact D].
Qed.

Theorem step_w_keys_distinct sg args o :
  keys_distinct args = true -> keys_distinct (fst (fst (step_w sg args o))) = true.
Proof. apply replay_writes_keys_distinct with (1 := step_w_replay sg args o). Qed.

Lemma inv_keys_distinct sg st : inv sg st -> keys_distinct st = true.
Proof.
  unfold inv, inv_b. intros H. apply andb_prop in H. destruct H as [H _].
  apply andb_prop in H. destruct H as [H _]. exact H.
Qed.

(* ------------------------------------------------------------------------------------------
   5b. the last entry is current *)

Definition entry_current (a : store) (t : tagmap) (kes : hkey * list hentry) : bool :=
  match fst kes with
  | HFn => true
  | HK k =>
      (match last_opt (filter is_value_entry (snd kes)) with
       | None => true
       | Some en =>
           match he_val en, sget a k with
           | HVal v, Some v' => ref_eqb v v'
           | HDeleted, None => true
           | _, _ => false
           end
       end)
      && (match last_opt (filter is_tag_entry (snd kes)) with
          | None => true
          | Some en =>
              match he_val en with
              | HTags ts => if list_eq_dec N.eq_dec ts (tags_get t k) then true else false
              | _ => false
              end
          end)
  end.

Definition lic (a : store) (t : tagmap) (h : hist) : bool := forallb (entry_current a t) h.

Lemma last_is_current_b_lic s : last_is_current_b s = lic (b_args s) (b_tags s) (b_hist s).
Proof. reflexivity. Qed.

Definition hkeys_distinct (h : hist) : Prop := NoDup (map fst h).

Lemma in_keys_hist_append h k en x :
  In x (map fst (hist_append h k en)) -> x = k \/ In x (map fst h).
Proof.
  induction h as [|[k' es] h IH]; cbn [hist_append map fst].
  - intros [H|[]]; auto.
  - destruct (hkey_eqb k k'); cbn [map fst]; intros [H|H].
    + right; left; exact H.
    + right; right; exact H.
    + right; left; exact H.
    + destruct (IH H) as [A|A]; [left; exact A | right; right; exact A].
Qed.

Lemma hkey_eqb_true k k' : hkey_eqb k k' = true -> k = k'.
Proof. unfold hkey_eqb. destruct (hkey_eq_dec k k'); [auto | discriminate]. Qed.

Lemma hkey_eqb_false k k' : hkey_eqb k k' = false -> k <> k'.
Proof. unfold hkey_eqb. destruct (hkey_eq_dec k k'); [discriminate | auto]. Qed.

Lemma hkeys_distinct_append h k en : hkeys_distinct h -> hkeys_distinct (hist_append h k en).
Proof.
  unfold hkeys_distinct. induction h as [|[k' es] h IH]; cbn [hist_append map fst]; intros H.
  - constructor; [intros [] | constructor].
  - inversion H as [|? ? H1 H2]; subst. destruct (hkey_eqb k k') eqn:E; cbn [map fst].
    + constructor; assumption.
    + constructor; [|apply IH; exact H2].
      intros HI. apply in_keys_hist_append in HI. destruct HI as [HI|HI].
      * apply hkey_eqb_false in E. congruence.
      * contradiction.
Qed.

Lemma hkeys_distinct_hreplay l : forall h c, hkeys_distinct h -> hkeys_distinct (hreplay h c l).
Proof.
  induction l as [|kv l IH]; intros h c H; cbn [hreplay]; [exact H|].
  apply IH, hkeys_distinct_append, H.
Qed.

Lemma forallb_hist_append (P : hkey * list hentry -> bool) h k en :
  hkeys_distinct h ->
  (forall k' es, In (k', es) h -> k' <> k -> P (k', es) = true) ->
  (forall es, In (k, es) h -> P (k, es ++ [en]) = true) ->
  P (k, [en]) = true ->
  forallb P (hist_append h k en) = true.
Proof.
  unfold hkeys_distinct. intros ND H1 H2 H3.
  induction h as [|[k' es] h IH]; cbn [hist_append forallb].
  - rewrite H3. reflexivity.
  - cbn [map fst] in ND. inversion ND as [|? ? N1 N2]; subst.
    destruct (hkey_eqb k k') eqn:E; cbn [forallb].
    + apply hkey_eqb_true in E. subst k'. rewrite H2 by (left; reflexivity). cbn [andb].
      apply forallb_forall. intros [k' es'] HI. apply H1; [right; exact HI|].
      intros ->. apply N1. apply (in_map fst) in HI. exact HI.
    + apply hkey_eqb_false in E. rewrite H1; [|left; reflexivity|congruence]. cbn [andb].
      apply IH; [exact N2| |].
      * intros k'' es' HI. apply H1. right; exact HI.
      * intros es' HI. apply H2. right; exact HI.
Qed.

Lemma last_opt_snoc {A} (l : list A) x : last_opt (l ++ [x]) = Some x.
Proof. unfold last_opt. rewrite rev_app_distr. reflexivity. Qed.

Lemma filter_snoc {A} (f : A -> bool) l x :
  filter f (l ++ [x]) = if f x then filter f l ++ [x] else filter f l.
Proof.
  rewrite filter_app. cbn [filter]. destruct (f x); [reflexivity | apply app_nil_r].
Qed.

(* tag map laws *)
Lemma tags_get_set t k l k' :
  tags_get (tags_set t k l) k' = if skey_eqb k' k then l else tags_get t k'.
Proof.
  unfold tags_get, tags_set.
  induction t as [|[k0 l0] t IH]; cbn [dset dget].
  - destruct (skey_eqb k' k); reflexivity.
  - destruct (skey_eqb k k0) eqn:E.
    + apply skey_eqb_eq in E. subst k0. cbn [dget]. destruct (skey_eqb k' k); reflexivity.
    + cbn [dget]. destruct (skey_eqb k' k0) eqn:E0.
      * destruct (skey_eqb k' k) eqn:E1; [|reflexivity].
        apply skey_eqb_eq in E0. apply skey_eqb_eq in E1. subst.
        rewrite skey_eqb_refl in E. discriminate.
      * exact IH.
Qed.

Lemma tags_get_touch t k k' : tags_get (tags_set t k (tags_get t k)) k' = tags_get t k'.
Proof.
  rewrite tags_get_set. destruct (skey_eqb k' k) eqn:E; [|reflexivity].
  apply skey_eqb_eq in E. subst. reflexivity.
Qed.

Lemma entry_current_ext a t a' t' k es :
  sget a' k = sget a k -> tags_get t' k = tags_get t k ->
  entry_current a' t' (HK k, es) = entry_current a t (HK k, es).
Proof. unfold entry_current. cbn [fst snd]. intros -> ->. reflexivity. Qed.

Lemma forallb_ext' {A} (f g : A -> bool) l : (forall x, f x = g x) -> forallb f l = forallb g l.
Proof. intros H. induction l as [|x l IH]; cbn [forallb]; [reflexivity | rewrite H, IH; reflexivity]. Qed.

Lemma lic_ext a t a' t' h :
  (forall k, sget a' k = sget a k) -> (forall k, tags_get t' k = tags_get t k) ->
  lic a' t' h = lic a t h.
Proof.
  intros HA HT. unfold lic. apply forallb_ext'. intros [[k|] es]; [|reflexivity].
  apply entry_current_ext; auto.
Qed.

(* a value entry: the store changes at k only, and now reads as the entry says *)
Lemma lic_value_entry a t h a' k c hv :
  hkeys_distinct h -> lic a t h = true ->
  (forall k', k' <> k -> sget a' k' = sget a k') ->
  match hv, sget a' k with
  | HVal v, Some v' => v = v'
  | HDeleted, None => True
  | _, _ => False
  end ->
  lic a' t (hist_append h (HK k) (mk_he c hv)) = true.
Proof.
  intros ND L FR CUR. unfold lic in *. rewrite forallb_forall in L.
  assert (V : is_value_entry (mk_he c hv) = true /\ is_tag_entry (mk_he c hv) = false).
  { unfold is_value_entry, is_tag_entry. cbn [he_val]. destruct hv; try contradiction; auto. }
  destruct V as [V1 V2].
  assert (CUR' : match he_val (mk_he c hv), sget a' k with
                 | HVal v, Some v' => ref_eqb v v'
                 | HDeleted, None => true
                 | _, _ => false
                 end = true).
  { cbn [he_val]. destruct hv; try contradiction; destruct (sget a' k); try contradiction; auto.
    apply ref_eqb_eq. exact CUR. }
  apply forallb_hist_append; [exact ND| | |].
  - intros [k'|] es HI NE; [|reflexivity].
    rewrite (entry_current_ext a t); [apply (L _ HI) | | reflexivity].
    apply FR. congruence.
  - intros es HI. specialize (L _ HI). unfold entry_current in *. cbn [fst snd] in *.
    rewrite !filter_snoc, V1, V2, last_opt_snoc, CUR'. cbn [andb].
    apply andb_prop in L. destruct L as [_ L]. exact L.
  - unfold entry_current. cbn [fst snd filter]. rewrite V1, V2. cbn [last_opt rev app].
    rewrite CUR'. reflexivity.
Qed.

(* a tag entry: the tag map changes at k only, and now reads as the entry says *)
Lemma lic_tag_entry a t h t' k c l :
  hkeys_distinct h -> lic a t h = true ->
  (forall k', k' <> k -> tags_get t' k' = tags_get t k') ->
  tags_get t' k = l ->
  lic a t' (hist_append h (HK k) (mk_he c (HTags l))) = true.
Proof.
  intros ND L FR CUR. unfold lic in *. rewrite forallb_forall in L.
  assert (CUR' : (if list_eq_dec N.eq_dec l (tags_get t' k) then true else false) = true).
  { destruct (list_eq_dec N.eq_dec l (tags_get t' k)); [reflexivity | congruence]. }
  apply forallb_hist_append; [exact ND| | |].
  - intros [k'|] es HI NE; [|reflexivity].
    rewrite (entry_current_ext a t); [apply (L _ HI) | reflexivity |].
    apply FR. congruence.
  - intros es HI. specialize (L _ HI). unfold entry_current in *. cbn [fst snd] in *.
    rewrite !filter_snoc. unfold is_value_entry at 1, is_tag_entry at 1. cbn [he_val].
    rewrite last_opt_snoc. cbn [he_val]. rewrite CUR', andb_true_r.
    apply andb_prop in L. destruct L as [L _]. exact L.
  - unfold entry_current. cbn [fst snd filter]. unfold is_value_entry, is_tag_entry. cbn [he_val].
    cbn [last_opt rev app he_val]. rewrite CUR'. reflexivity.
Qed.

Lemma lic_replay_writes ws : forall a a' t h c,
  keys_distinct a = true -> hkeys_distinct h -> lic a t h = true ->
  replay_writes a ws = Some a' ->
  lic a' t (hreplay h c (map write_entry ws)) = true.
Proof.
  induction ws as [|w ws IH]; intros a a' t h c D ND L R; cbn [replay_writes map hreplay] in *.
  - inversion R; subst. exact L.
  - destruct w as [k v|k]; cbn [write_entry fst snd].
    + eapply IH; [apply keys_distinct_sset; exact D | apply hkeys_distinct_append; exact ND | | exact R].
      apply (lic_value_entry a t h (sset a k v) k c (HVal v) ND L).
      * intros k' NE. apply sget_sset_neq. exact NE.
      * rewrite sget_sset_eq. reflexivity.
    + destruct (smem a k); [|discriminate].
      eapply IH; [apply keys_distinct_sdel; exact D | apply hkeys_distinct_append; exact ND | | exact R].
      apply (lic_value_entry a t h (sdel a k) k c HDeleted ND L).
      * intros k' NE. apply sget_sdel_neq. exact NE.
      * rewrite (sget_sdel_eq _ _ D). exact I.
Qed.

(* the invariant carried along a tracked run *)
Definition hist_inv (s : bstate) : Prop :=
  keys_distinct (b_args s) = true /\ hkeys_distinct (b_hist s) /\ last_is_current_b s = true.

Lemma inv_tag_log s k l :
  hist_inv s -> b_tracking s = true ->
  hist_inv (log_entry (with_tags s (tags_set (b_tags s) k l)) (HK k) (HTags l)).
Proof.
  intros (D & ND & L) T. rewrite log_entry_on by exact T.
  rewrite last_is_current_b_lic in L. unfold hist_inv. rewrite last_is_current_b_lic.
  cbn [with_tags b_args b_tags b_hist b_counter].
  split; [exact D|]. split; [apply hkeys_distinct_append; exact ND|].
  apply (lic_tag_entry _ _ _ _ _ _ _ ND L).
  - intros k' NE. rewrite tags_get_set, (skey_eqb_neq _ _ NE). reflexivity.
  - rewrite tags_get_set, skey_eqb_refl. reflexivity.
Qed.

Lemma inv_touch s k :
  hist_inv s -> hist_inv (with_tags s (tags_set (b_tags s) k (tags_get (b_tags s) k))).
Proof.
  intros (D & ND & L). unfold hist_inv. rewrite last_is_current_b_lic in *.
  cbn [with_tags b_args b_tags b_hist]. split; [exact D|]. split; [exact ND|].
  rewrite <- L. apply lic_ext; [reflexivity|]. intros k'. apply tags_get_touch.
Qed.

Lemma inv_tag_relog s k :
  hist_inv s -> b_tracking s = true ->
  hist_inv (log_entry s (HK k) (HTags (tags_get (b_tags s) k))).
Proof.
  intros (D & ND & L) T. rewrite log_entry_on by exact T.
  rewrite last_is_current_b_lic in L. unfold hist_inv. rewrite last_is_current_b_lic.
  cbn [b_args b_tags b_hist b_counter].
  split; [exact D|]. split; [apply hkeys_distinct_append; exact ND|].
  apply (lic_tag_entry _ _ _ _ _ _ _ ND L); reflexivity.
Qed.

Section Current.
  Variable sg : sig.

  Lemma tracking_of_ext s s' : (exists l, ext s s' l) -> b_tracking s' = b_tracking s.
  Proof. intros [l [[T _] _]]. exact T. Qed.

  Theorem add_tag_current s a t :
    hist_inv s -> b_tracking s = true -> hist_inv (fst (add_tag sg s a t)).
  Proof.
    intros H T. unfold add_tag. destruct (validate_targ sg a); [exact H|].
    destruct (targ_key sg s a) as [k|e]; [|exact H]. cbn [fst]. apply inv_tag_log; assumption.
  Qed.

  Theorem clear_tags_current s a :
    hist_inv s -> b_tracking s = true -> hist_inv (fst (clear_tags sg s a)).
  Proof.
    intros H T. unfold clear_tags. destruct (validate_targ sg a); [exact H|].
    destruct (targ_key sg s a) as [k|e]; [|exact H]. cbn [fst]. apply inv_tag_log; assumption.
  Qed.

  Theorem remove_tag_current s a t :
    hist_inv s -> b_tracking s = true -> hist_inv (fst (remove_tag sg s a t)).
  Proof.
    intros H T. unfold remove_tag. destruct (validate_targ sg a); [exact H|].
    destruct (targ_key sg s a) as [k|e]; [|exact H]. cbv zeta.
    destruct (tset_mem t (tags_get (b_tags s) k)); cbn [fst].
    - apply inv_tag_log; [apply inv_touch; exact H | exact T].
    - apply inv_touch; exact H.
  Qed.

  Lemma add_tags_current a ts : forall s,
    hist_inv s -> b_tracking s = true -> hist_inv (fst (add_tags sg s a ts)).
  Proof.
    induction ts as [|t ts IH]; intros s H T; cbn [add_tags]; [exact H|].
    pose proof (add_tag_current s a t H T) as H1.
    pose proof (tracking_of_ext _ _ (ext_add_tag sg s a t)) as T1.
    destruct (add_tag sg s a t) as [s1 [e|]]; cbn [fst] in *; [exact H1|].
    apply IH; [exact H1 | congruence].
  Qed.

  Theorem set_tags_current s a ts :
    hist_inv s -> b_tracking s = true -> hist_inv (fst (set_tags sg s a ts)).
  Proof.
    intros H T. unfold set_tags.
    pose proof (clear_tags_current s a H T) as H1.
    pose proof (tracking_of_ext _ _ (ext_clear_tags sg s a)) as T1.
    destruct (clear_tags sg s a) as [s1 [e|]]; cbn [fst] in *; [exact H1|].
    assert (T1' : b_tracking s1 = true) by congruence.
    pose proof (add_tags_current a ts s1 H1 T1') as H2.
    pose proof (tracking_of_ext _ _ (ext_add_tags sg a ts s1)) as T2.
    destruct (add_tags sg s1 a ts) as [s2 [e|]]; cbn [fst] in *; [exact H2|].
    destruct (targ_key sg s2 a) as [k|e]; cbn [fst]; [|exact H2].
    apply inv_tag_relog; [exact H2 | congruence].
  Qed.

  (* attribute, index and slice edits (all nine operations) *)
  Theorem edit_current s ed :
    hist_inv s -> b_tracking s = true -> hist_inv (fst (hstep sg s (HEdit ed))).
  Proof.
    intros (D & ND & L) T.
    destruct (edit_entries sg s ed T) as (EH & _ & _ & EA & ET).
    unfold hist_inv. rewrite last_is_current_b_lic in *. rewrite EH, EA, ET.
    split; [apply step_w_keys_distinct; exact D|].
    split; [apply hkeys_distinct_hreplay; exact ND|].
    apply (lic_replay_writes _ (b_args s)); auto. apply step_w_replay.
  Qed.

  Lemma suspend_current s o : is_suspend o = true -> hist_inv s -> hist_inv (fst (hstep sg s o)).
  Proof.
    intros S (D & ND & L). destruct (hstep_suspend_hc sg s o S) as (EH & _ & EA & ET).
    unfold hist_inv. rewrite last_is_current_b_lic in *. rewrite EH, EA, ET. auto.
  Qed.

  Theorem hist_inv_hstep s o :
    hist_inv s -> b_tracking s = true \/ is_suspend o = true -> hist_inv (fst (hstep sg s o)).
  Proof.
    intros H C. destruct (is_suspend o) eqn:S; [apply suspend_current; assumption|].
    destruct C as [T|C]; [|discriminate]. rewrite hstep_tag_eq. destruct o; try discriminate S.
    - apply edit_current; assumption.
    - apply add_tag_current; assumption.
    - apply remove_tag_current; assumption.
    - apply set_tags_current; assumption.
    - apply clear_tags_current; assumption.
  Qed.

  (* TARGET 5 (partial: the keys of the history must be distinct, as they are in a dict) *)
  Theorem last_is_current_hstep_partial s o :
    b_tracking s = true -> keys_distinct (b_args s) = true -> hkeys_distinct (b_hist s) ->
    last_is_current_b s = true -> is_suspend o = false ->
    last_is_current_b (fst (hstep sg s o)) = true.
  Proof.
    intros T D ND L S. apply (hist_inv_hstep s o); [repeat split; assumption | left; exact T].
  Qed.

  (* a run in which no operation other than the switch executes while tracking is suspended *)
  Fixpoint tracked_run (s : bstate) (ops : list hop) : bool :=
    match ops with
    | [] => true
    | o :: r => (b_tracking s || is_suspend o) && tracked_run (fst (hstep sg s o)) r
    end.

  Theorem hist_inv_hrun ops : forall s,
    hist_inv s -> tracked_run s ops = true -> hist_inv (hrun sg s ops).
  Proof.
    induction ops as [|o ops IH]; intros s H R; [exact H|].
    cbn [tracked_run] in R. apply andb_prop in R. destruct R as [R1 R2].
    rewrite hrun_cons. apply IH; [|exact R2]. apply hist_inv_hstep; [exact H|].
    apply orb_prop in R1. exact R1.
  Qed.

  Theorem last_is_current_tracked_run s ops :
    keys_distinct (b_args s) = true -> hkeys_distinct (b_hist s) -> last_is_current_b s = true ->
    tracked_run s ops = true -> last_is_current_b (hrun sg s ops) = true.
  Proof. intros D ND L R. apply (hist_inv_hrun ops s); [repeat split; assumption | exact R]. Qed.

  Lemma tracked_run_no_suspend ops : forall s,
    b_tracking s = true -> forallb (fun o => negb (is_suspend o)) ops = true -> tracked_run s ops = true.
  Proof.
    induction ops as [|o ops IH]; intros s T F; [reflexivity|].
    cbn [forallb tracked_run] in *. apply andb_prop in F. destruct F as [F1 F2].
    rewrite T. cbn [orb andb]. apply IH; [|exact F2].
    apply negb_true_iff in F1. destruct (hstep_switch_same sg s o F1) as [T' _]. congruence.
  Qed.

  Theorem last_is_current_hrun_partial s ops :
    b_tracking s = true -> keys_distinct (b_args s) = true -> hkeys_distinct (b_hist s) ->
    last_is_current_b s = true -> forallb (fun o => negb (is_suspend o)) ops = true ->
    last_is_current_b (hrun sg s ops) = true.
  Proof.
    intros T D ND L F. apply last_is_current_tracked_run; auto. apply tracked_run_no_suspend; assumption.
  Qed.

  (* suspend blocks that contain only (nested) switches are harmless as well: tracked_run accepts
     them, e.g. [HSuspendBegin; HSuspendBegin; HSuspendEnd; HSuspendEnd] *)
End Current.

(* the two side conditions hold along every run, tracked or not *)
Section Side.
  Variable sg : sig.

  Theorem hkeys_distinct_hstep s o :
    hkeys_distinct (b_hist s) -> hkeys_distinct (b_hist (fst (hstep sg s o))).
  Proof.
    intros ND. destruct (hstep_hc_ext sg s o) as [l H]. unfold hc_ext in H.
    destruct (b_tracking s); destruct H as [-> _]; [apply hkeys_distinct_hreplay|]; exact ND.
  Qed.

  Lemma add_tag_args s a t : b_args (fst (add_tag sg s a t)) = b_args s.
  Proof.
    unfold add_tag. destruct (validate_targ sg a); [reflexivity|].
    destruct (targ_key sg s a); [|reflexivity]. cbn [fst]. rewrite log_entry_args. reflexivity.
  Qed.

  Lemma clear_tags_args s a : b_args (fst (clear_tags sg s a)) = b_args s.
  Proof.
    unfold clear_tags. destruct (validate_targ sg a); [reflexivity|].
    destruct (targ_key sg s a); [|reflexivity]. cbn [fst]. rewrite log_entry_args. reflexivity.
  Qed.

  Lemma remove_tag_args s a t : b_args (fst (remove_tag sg s a t)) = b_args s.
  Proof.
    unfold remove_tag. destruct (validate_targ sg a); [reflexivity|].
    destruct (targ_key sg s a) as [k|e]; [|reflexivity]. cbv zeta.
    destruct (tset_mem t (tags_get (b_tags s) k)); cbn [fst]; rewrite ?log_entry_args; reflexivity.
  Qed.

  Lemma add_tags_args a ts : forall s, b_args (fst (add_tags sg s a ts)) = b_args s.
  Proof.
    induction ts as [|t ts IH]; intros s; cbn [add_tags]; [reflexivity|].
    pose proof (add_tag_args s a t) as H1.
    destruct (add_tag sg s a t) as [s1 [e|]]; cbn [fst] in *; [exact H1|]. rewrite IH. exact H1.
  Qed.

  Lemma set_tags_args s a ts : b_args (fst (set_tags sg s a ts)) = b_args s.
  Proof.
    unfold set_tags. pose proof (clear_tags_args s a) as H1.
    destruct (clear_tags sg s a) as [s1 [e|]]; cbn [fst] in *; [exact H1|].
    pose proof (add_tags_args a ts s1) as H2.
    destruct (add_tags sg s1 a ts) as [s2 [e|]]; cbn [fst] in *; [congruence|].
    destruct (targ_key sg s2 a); cbn [fst]; rewrite ?log_entry_args; congruence.
  Qed.

  (* tag operations never touch the arguments *)
  Theorem tag_ops_keep_args s o :
    match o with HEdit _ => False | _ => True end -> b_args (fst (hstep sg s o)) = b_args s.
  Proof.
    intros NE. rewrite hstep_tag_eq. destruct o; try contradiction.
    - apply add_tag_args.
    - apply remove_tag_args.
    - apply set_tags_args.
    - apply clear_tags_args.
    - reflexivity.
    - cbn [hstep]. destruct (b_stack s); reflexivity.
  Qed.

  Theorem keys_distinct_hstep s o :
    keys_distinct (b_args s) = true -> keys_distinct (b_args (fst (hstep sg s o))) = true.
  Proof.
    intros D. destruct o; try (rewrite tag_ops_keep_args; [exact D | exact I]).
    rewrite hstep_edit_eq. cbn [fst]. rewrite fold_log_write_args. cbn [b_args].
    apply step_w_keys_distinct. exact D.
  Qed.

  Theorem side_conditions_hrun ops : forall s,
    keys_distinct (b_args s) = true -> hkeys_distinct (b_hist s) ->
    keys_distinct (b_args (hrun sg s ops)) = true /\ hkeys_distinct (b_hist (hrun sg s ops)).
  Proof.
    induction ops as [|o ops IH]; intros s D ND; [auto|].
    rewrite hrun_cons. apply IH; [apply keys_distinct_hstep | apply hkeys_distinct_hstep]; assumption.
  Qed.

  (* starting from a configuration whose history is still empty *)
  Corollary last_is_current_from_empty args tags c tr st ops :
    keys_distinct args = true ->
    tracked_run sg (mk_bs args tags [] c tr st) ops = true ->
    last_is_current_b (hrun sg (mk_bs args tags [] c tr st) ops) = true /\
    seqs_ok_b (hrun sg (mk_bs args tags [] c tr st) ops) = true.
  Proof.
    intros D R. split.
    - apply last_is_current_tracked_run; [exact D | constructor | reflexivity | exact R].
    - apply seqs_ok_hrun. reflexivity.
  Qed.
End Side.

(* ------------------------------------------------------------------------------------------
   counterexamples: why the hypotheses of target 5 are needed *)

Definition cx_sig : sig :=
  [ mkparam 1%N PosOnly None false;
    mkparam 2%N PosOrKw (Some (RA (AInt 15))) false;
    mkparam 3%N VarPos None false;
    mkparam 4%N KwOnly (Some (RA (AInt 30))) false;
    mkparam 5%N VarKw None false ].

(* a history "dict" with the same key twice: only the first entry list is extended *)
Definition cx_dup : bstate :=
  mk_bs [ (KName 2%N, RA (AInt 2)) ] []
        [ (HK (KName 2%N), [mk_he 0 (HVal (RA (AInt 2)))]);
          (HK (KName 2%N), [mk_he 1 (HVal (RA (AInt 2)))]) ]
        2 true [].

(* the statement of target 5 without the distinct-history-keys hypothesis is false *)
Example last_is_current_needs_distinct_history_keys :
  exists sg s o,
    b_tracking s = true /\ keys_distinct (b_args s) = true /\ last_is_current_b s = true /\
    seqs_ok_b s = true /\ is_suspend o = false /\
    last_is_current_b (fst (hstep sg s o)) = false.
Proof.
  exists cx_sig, cx_dup, (HEdit (OSetAttr 2%N (RA (AInt 3)))). vm_compute. repeat split.
Qed.

(* an edit inside a suspend block leaves the log behind the state (by design) *)
Definition cx_tracked : bstate :=
  mk_bs [ (KName 2%N, RA (AInt 2)) ] [] [ (HK (KName 2%N), [mk_he 0 (HVal (RA (AInt 2)))]) ] 1 true [].

Example last_is_current_needs_tracking :
  let ops := [HSuspendBegin; HEdit (OSetAttr 2%N (RA (AInt 3))); HSuspendEnd] in
  hist_inv cx_tracked /\ seqs_ok_b (hrun cx_sig cx_tracked ops) = true /\
  b_hist (hrun cx_sig cx_tracked ops) = b_hist cx_tracked /\
  last_is_current_b (hrun cx_sig cx_tracked ops) = false.
Proof.
  cbv zeta. split; [|vm_compute; repeat split].
  split; [reflexivity|]. split; [|reflexivity].
  unfold hkeys_distinct. cbn. repeat constructor. intros [].
Qed.

(* ------------------------------------------------------------------------------------------
   6. non-vacuity: a concrete configuration and history *)

Definition ex16_sig : sig := cx_sig.

(* Config(f, 1, 2, 40, 41): {0: 1, 'p2': 2, 2: 40, 3: 41}, one history entry per argument *)
Definition ex16_state : bstate :=
  mk_bs [ (KPos 0, RA (AInt 1)); (KName 2%N, RA (AInt 2)); (KPos 2, RA (AInt 40)); (KPos 3, RA (AInt 41)) ]
        []
        [ (HFn, [mk_he 0 (HFnVal 7%N)]);
          (HK (KPos 0), [mk_he 1 (HVal (RA (AInt 1)))]);
          (HK (KName 2%N), [mk_he 2 (HVal (RA (AInt 2)))]);
          (HK (KPos 2), [mk_he 3 (HVal (RA (AInt 40)))]);
          (HK (KPos 3), [mk_he 4 (HVal (RA (AInt 41)))]) ]
        5 true [].

Definition ex16_ops : list hop :=
  [ HEdit (OSetItem (IInt 1) (RA (AInt 20)));
    HAddTag (TIndex 0) 9%N;
    HEdit (ODelItem (IInt 2));
    HSuspendBegin; HSuspendBegin; HSuspendEnd; HSuspendEnd;
    HSetTags (TName 4%N) [8%N; 3%N];
    HEdit (OSetSlice (mkslice (Some IVarargs) None None) [RA (AInt 50); RA (AInt 51)]);
    HRemoveTag (TIndex 0) 9%N;
    HEdit (ODelAttr 2%N) ].

(* both invariants after every step *)
Fixpoint invariants_along (sg : sig) (s : bstate) (ops : list hop) : bool :=
  seqs_ok_b s && last_is_current_b s &&
  match ops with
  | [] => true
  | o :: r => invariants_along sg (fst (hstep sg s o)) r
  end.

Example ex16_hypotheses :
  valid_sig ex16_sig = true /\ inv ex16_sig (b_args ex16_state) /\
  b_tracking ex16_state = true /\ hist_inv ex16_state /\ seqs_ok_b ex16_state = true /\
  tracked_run ex16_sig ex16_state ex16_ops = true /\ length ex16_ops = 11.
Proof.
  split; [vm_compute; reflexivity|]. split; [vm_compute; reflexivity|]. split; [reflexivity|].
  split; [|vm_compute; repeat split].
  split; [vm_compute; reflexivity|]. split; [|vm_compute; reflexivity].
  unfold hkeys_distinct. cbn [ex16_state b_hist map fst].
  repeat (constructor; [cbn [In]; intuition discriminate|]). constructor.
Qed.

Example ex16_run :
  invariants_along ex16_sig ex16_state ex16_ops = true /\
  houts ex16_sig ex16_state ex16_ops = repeat OUnit 11 /\
  hrun ex16_sig ex16_state ex16_ops =
  mk_bs [ (KPos 0, RA (AInt 1)); (KPos 2, RA (AInt 50)); (KPos 3, RA (AInt 51)) ]
        [ (KPos 0, []); (KName 4%N, [3%N; 8%N]) ]
        [ (HFn, [mk_he 0 (HFnVal 7%N)]);
          (HK (KPos 0), [mk_he 1 (HVal (RA (AInt 1))); mk_he 6 (HTags [9%N]); mk_he 15 (HTags [])]);
          (HK (KName 2%N), [mk_he 2 (HVal (RA (AInt 2))); mk_he 5 (HVal (RA (AInt 20))); mk_he 16 HDeleted]);
          (HK (KPos 2), [mk_he 3 (HVal (RA (AInt 40))); mk_he 7 (HVal (RA (AInt 41)));
                         mk_he 13 (HVal (RA (AInt 50)))]);
          (HK (KPos 3), [mk_he 4 (HVal (RA (AInt 41))); mk_he 8 HDeleted; mk_he 14 (HVal (RA (AInt 51)))]);
          (HK (KName 4%N), [mk_he 9 (HTags []); mk_he 10 (HTags [8%N]); mk_he 11 (HTags [3%N; 8%N]);
                            mk_he 12 (HTags [3%N; 8%N])]) ]
        17 true [].
Proof. vm_compute. repeat split. Qed.

(* the general theorems apply to it *)
Example ex16_by_theorem :
  seqs_ok_b (hrun ex16_sig ex16_state ex16_ops) = true /\
  last_is_current_b (hrun ex16_sig ex16_state ex16_ops) = true.
Proof.
  destruct ex16_hypotheses as (_ & _ & _ & (D & ND & L) & S & R & _). split.
  - apply seqs_ok_hrun. exact S.
  - apply last_is_current_tracked_run; assumption.
Qed.
