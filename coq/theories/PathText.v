(* PathText: daglish.path_str (what the printers emit), the command-line path grammar
   (daglish_extensions._PATH_PART + ast.literal_eval on keys) and the flag-directive fold. *)
From Fiddle Require Import PyBase PyText Heap.
Open Scope N_scope.

(* Paths at the text level carry their strings *)
Inductive telt := TAttr (name : list N) | TIndex (i : N) | TKeyStr (k : list N) | TKeyInt (i : N).
Definition tpath := list telt.

Definition telt_eq_dec : forall a b : telt, {a = b} + {a <> b}.
Proof. decide equality; auto using N.eq_dec, listN_eq_dec. Defined.
Definition tpath_eq_dec : forall a b : tpath, {a = b} + {a <> b} := list_eq_dec telt_eq_dec.

Definition print_telt (t : telt) : list N :=
  match t with
  | TAttr nm => 46 :: nm                                  (* .name *)
  | TIndex i | TKeyInt i => 91 :: print_nat i ++ [93]    (* [n] *)
  | TKeyStr k => 91 :: repr_str k ++ [93]                (* ['key'] *)
  end.
Definition print_tpath (p : tpath) : list N := flat_map print_telt p.

(* printing._path_str drops a leading '.', absl_flags.utils.parse_path puts it back *)
Definition strip_leading_dot (s : list N) : list N :=
  match s with 46 :: s' => s' | _ => s end.
Definition add_leading_dot (s : list N) : list N :=
  match s with
  | 46 :: _ | 91 :: _ => s
  | _ => 46 :: s
  end.

(* [\w_] on ASCII *)
Definition is_word (c : N) : bool :=
  ((48 <=? c) && (c <=? 57)) || ((65 <=? c) && (c <=? 90)) || ((97 <=? c) && (c <=? 122)) || (c =? 95).

Fixpoint span (f : N -> bool) (s : list N) : list N * list N :=
  match s with
  | c :: s' => if f c then let '(a, b) := span f s' in (c :: a, b) else ([], s)
  | [] => ([], [])
  end.

(* one match of _PATH_PART at the head of s: (element, rest).  key_min_len is 1 for the
   unrepaired grammar ('[^']+') and 0 for the repaired one ('[^']*'). *)
Definition match_part (key_min_len : nat) (s : list N) : option (telt * list N) :=
  match s with
  | 46 :: s' =>
      let '(w, rest) := span is_word s' in
      match w with [] => None | _ => Some (TAttr w, rest) end
  | 91 :: s' =>
      match s' with
      | c :: s'' =>
          if is_digit c then
            let '(d, rest) := span is_digit s' in
            match rest with 93 :: rest' => Some (TKeyInt (parse_digits d 0), rest') | _ => None end
          else if (c =? ch_squote) || (c =? ch_dquote) then
            let '(body, rest) := span (fun x => negb (x =? c)) s'' in
            match rest with
            | q :: 93 :: rest' =>
                if Nat.leb key_min_len (length body) then
                  match unescape (S (length body)) body with
                  | Some k => Some (TKeyStr k, rest')
                  | None => None
                  end
                else None
            | _ => None
            end
          else None
      | [] => None
      end
  | _ => None
  end.

Fixpoint parse_tpath (key_min_len : nat) (fuel : nat) (s : list N) : option tpath :=
  match s with
  | [] => Some []
  | _ =>
      match fuel with
      | O => None
      | S f =>
          match match_part key_min_len s with
          | Some (t, rest) =>
              match parse_tpath key_min_len f rest with
              | Some p => Some (t :: p)
              | None => None
              end
          | None => None
          end
      end
  end.

Definition parse_path_text (key_min_len : nat) (s : list N) : option tpath :=
  parse_tpath key_min_len (S (length s)) (add_leading_dot s).

(* what parsing cannot distinguish: Index vs Key *)
Definition erase (t : telt) : telt := match t with TIndex i => TKeyInt i | other => other end.

(* the domain of the property: identifiers, non-negative ints, quote-free ASCII keys *)
Definition is_ident_start (c : N) : bool :=
  ((65 <=? c) && (c <=? 90)) || ((97 <=? c) && (c <=? 122)) || (c =? 95).
Definition ident_ok (nm : list N) : bool :=
  match nm with c :: _ => is_ident_start c && forallb is_word nm | [] => false end.
Definition key_ok (k : list N) : bool :=
  forallb (fun c => is_ascii c && negb (c =? ch_squote) && negb (c =? ch_dquote)) k.
Definition telt_ok (t : telt) : bool :=
  match t with TAttr nm => ident_ok nm | TKeyStr k => key_ok k | _ => true end.

(* ---------------------------------------------------------------- flag directives *)
Inductive directive := DConfig (name : N) | DConfigStr (name : N) | DSet (assign : N) | DFiddler (name : N).
Inductive flag_result := FOk (applied : list directive) | FErrFirstNotBase | FErrSecondBase.

Definition is_base (d : directive) : bool :=
  match d with DConfig _ | DConfigStr _ => true | _ => false end.

(* FiddleFlag.value: directives are consumed strictly in order *)
Fixpoint run_directives (ds : list directive) (have_base : bool) (applied : list directive) : flag_result :=
  match ds with
  | [] => FOk applied
  | d :: ds' =>
      if negb have_base && negb (is_base d) then FErrFirstNotBase
      else if have_base && is_base d then FErrSecondBase
      else run_directives ds' true (applied ++ [d])
  end.
