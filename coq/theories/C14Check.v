(* C14Check / C15Check: tags and selections.  Observed heaps are re-encoded with the same object
   numbering as the input heap (objects created by the operation are appended). *)
From Fiddle Require Import PyBase PySlice Sig ArgStore PyCall Heap Traverse Tags.

Definition listN_eqb (a b : list N) : bool := if list_eq_dec N.eq_dec a b then true else false.

(* C14: set_tagged and list_tags *)
Record case := mkcase {
  c_env : sigenv; c_subtags : list (N * N); c_heap : heap; c_root : ref;
  c_tag : N; c_value : ref;
  c_via_select : bool;           (* select(root, tag=T).replace(x, deepcopy=False) instead of set_tagged *)
  c_list_tags : list N;          (* list_tags(root) before the edit, sorted *)
  c_after : heap                 (* the heap after set_tagged(root, tag=T, value=x) *)
}.

Definition check_case (c : case) : bool :=
  listN_eqb (list_tags (c_env c) (c_heap c) (c_root c)) (c_list_tags c)
  && (if heap_eq_dec
            (if c_via_select c
             then tag_replace (c_env c) (c_subtags c) (c_heap c) (c_root c) (c_tag c) (c_value c)
             else set_tagged (c_env c) (c_subtags c) (c_heap c) (c_root c) (c_tag c) (c_value c))
            (c_after c) then true else false).

Definition explain_case (c : case) :=
  (list_tags (c_env c) (c_heap c) (c_root c),
   set_tagged (c_env c) (c_subtags c) (c_heap c) (c_root c) (c_tag c) (c_value c),
   tag_replace (c_env c) (c_subtags c) (c_heap c) (c_root c) (c_tag c) (c_value c)).
