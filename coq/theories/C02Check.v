(* C02Check: correspondence checker for fdl.build on object graphs.
   A case: signatures, input heap, root, and what the implementation did: the order in which the
   Buildables' callables were invoked (as input ids) and the resulting object graph (encoded as an
   extension of the input heap), or the fact that it raised. *)
From Fiddle Require Import PyBase PySlice Sig ArgStore PyCall Heap Traverse Build Build_proofs.

Inductive observed :=
| OBuilt (olog : list nat) (oheap : heap) (oroot : ref)
| ORaisedType (olog : list nat).

Record case := mkcase { c_env : sigenv; c_heap : heap; c_root : ref; c_obs : observed }.

Definition no_fail (_ : nat) : option N := None.

(* old objects correspond to themselves, new objects to new objects *)
Definition bij_respects (n : nat) (m : bij) : bool :=
  forallb (fun ij => let '(i, j) := ij in
                     if Nat.ltb i n then Nat.eqb i j else negb (Nat.ltb j n)) m.

Definition list_nat_eqb (a b : list nat) : bool := if list_eq_dec Nat.eq_dec a b then true else false.

Definition check_case (c : case) : bool :=
  wf_b (c_env c) (c_heap c) && keys_ok_b (c_heap c) &&   (* the hypotheses of the C02 theorems *)
  let '(s, res) := mrun (c_env c) (c_heap c) (build_node (c_env c) no_fail) (c_root c) in
  match res, c_obs c with
  | inl r, OBuilt olog oh oroot =>
      list_nat_eqb (call_log (c_heap c) s) olog
      && match iso (out s) oh (S (length (out s) + length oh)) [] r oroot with
         | Some m => bij_respects (length (c_heap c)) m
         | None => false
         end
  | inr (FType _), ORaisedType olog => list_nat_eqb (call_log (c_heap c) s) olog
  | _, _ => false
  end.

Definition explain_case (c : case) :=
  let '(s, res) := mrun (c_env c) (c_heap c) (build_node (c_env c) no_fail) (c_root c) in
  (res, call_log (c_heap c) s, skipn (length (c_heap c)) (out s), wf_b (c_env c) (c_heap c)).
