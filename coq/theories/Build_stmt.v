(* Build_stmt: the statements of C02 (and the parts of C05 that are about the traversal), as
   named propositions.  Proofs are in Build_proofs.v; props/C02.v exports them. *)
From Fiddle Require Import PyBase PySlice Sig ArgStore PyCall Heap Traverse Build.

Section Stmts.
  Variable e : sigenv.

  (* i is reachable from r by a path of traverser steps *)
  Definition reach (h : heap) (r : ref) (i : nat) : Prop := exists p, follow e h r p = Some (RP i).

  (* j is a direct child pointer of node i *)
  Definition child_of (h : heap) (i j : nat) : Prop :=
    exists n, nth_error h i = Some n /\ In (RP j) (children e n).

  Definition before (a b : nat) (l : list nat) : Prop :=
    exists l1 l2 l3, l = l1 ++ a :: l2 ++ b :: l3.

  Definition root_ok (h : heap) (r : ref) : Prop :=
    match r with RA _ => True | RP i => (i < length h)%nat end.

  Definition map_ref (m : list (nat * ref)) (r : ref) : option ref :=
    match r with RA a => Some (RA a) | RP i => memo_get m i end.

  Section WithRun.
    Variable fails : nat -> option N.
    Variables (h : heap) (r : ref) (s : mstate) (res : ref + fail).
    Hypothesis Hwf : wf_b e h = true.
    Hypothesis Hroot : root_ok h r.
    Hypothesis Hrun : mrun e h (build_node e fails) r = (s, res).

    (* the traversal never runs out of fuel, never sees a cycle or a dangling pointer *)
    Definition enough_fuel_stmt : Prop :=
      res <> inr FOutOfFuel /\ res <> inr FDangling /\ (forall i, res <> inr (FCycle i)).

    (* each object is processed at most once *)
    Definition once_stmt : Prop := NoDup (log s).

    (* on success exactly the reachable objects are processed; in particular the invocation log
       is exactly the reachable Buildables, each once *)
    Definition exactly_reach_stmt : Prop :=
      forall r', res = inl r' -> forall i, In i (log s) <-> reach h r i.

    (* whatever happens, only reachable objects are processed *)
    Definition only_reach_stmt : Prop := forall i, In i (log s) -> reach h r i.

    (* children first: every object a node depends on is processed before it *)
    Definition children_first_stmt : Prop :=
      forall i j, In i (log s) -> child_of h i j -> before j i (log s).

    (* the memo is a function defined exactly on the processed objects *)
    Definition memo_function_stmt : Prop :=
      NoDup (map fst (memo s)) /\ forall i, In i (log s) <-> In i (map fst (memo s)).

    (* the input heap is never modified; everything new is allocated after it *)
    Definition pure_stmt : Prop := firstn (length h) (out s) = h /\ (length h <= length (out s))%nat.

    (* objects that are rebuilt (Buildables other than TaggedValue, and containers) get a fresh
       object each: distinct instances, even if equal, give distinct results *)
    Definition allocates (i : nat) : bool :=
      match nth_error h i with
      | Some (NBuildable BTagged _ _ _) => false
      | Some n => traversable n
      | None => false
      end.
    Definition fresh_distinct_stmt : Prop :=
      forall i j ri rj, allocates i = true -> allocates j = true ->
        memo_get (memo s) i = Some ri -> memo_get (memo s) j = Some rj ->
        (exists k, ri = RP k /\ (length h <= k)%nat) /\ (i <> j -> ri <> rj).

    (* the result mirrors the configuration: a container is rebuilt over the results of its
       children; a Config's callable is called, through the build-time transformation and Python's
       binding, with the results of its arguments *)
    Definition mirrors_stmt : Prop :=
      forall i n ri, In i (log s) -> nth_error h i = Some n -> memo_get (memo s) i = Some ri ->
        exists rs, map (map_ref (memo s)) (children e n) = map Some rs /\
        match n with
        | NList _ | NTuple _ | NDict _ | NDefaultDict _ _ | NNamedTuple _ _ =>
            exists k, ri = RP k /\ nth_error (out s) k = Some (with_children e n rs)
        | NBuildable BConfig fn args _ =>
            exists k vw, ri = RP k /\ nth_error (out s) k = Some (NObj fn vw) /\
              build1 (sig_of e fn) (combine (map fst (flat_args e fn args)) rs) = Some vw
        | NBuildable _ _ _ _ => True
        | _ => ri = RP i
        end.

    (* C05: on failure at Buildable k, no callable ran after it: the log is what was completed
       before, k itself is reachable and not in the log, and every object k depends on is done *)
    Definition failure_prefix_stmt : Prop :=
      forall k x, res = inr (FRaise k x) ->
        reach h r k /\ ~ In k (log s) /\ fails k = Some x /\
        (forall j, child_of h k j -> In j (log s)) /\
        (forall i, In i (log s) -> fails i = None \/ is_buildable h i = false
                                   \/ (exists fn a t, nth_error h i = Some (NBuildable BPartial fn a t))
                                   \/ (exists fn a t, nth_error h i = Some (NBuildable BArgFactory fn a t))
                                   \/ (exists fn a t, nth_error h i = Some (NBuildable BTagged fn a t))).
  End WithRun.
End Stmts.
