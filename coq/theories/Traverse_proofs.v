(* Traverse_proofs: the invariant of the memoized post-order traversal (Traverse.mvisit) on
   well-formed heaps, for any on_node that only appends to the output heap. *)
From Fiddle Require Import PyBase PySlice Sig ArgStore PyCall Heap Traverse Build Build_stmt.
From Coq Require Import List Arith Lia Bool.
Import ListNotations.
Local Open Scope nat_scope.

(* ------------------------------------------------------------------------------------------ *)
(* insertion-ordered dictionaries *)

Lemma dget_in_values (d : store) k v : sget d k = Some v -> In v (map snd d).
Proof.
  unfold sget. induction d as [|[k' v'] d IH]; cbn [dget map snd]; intros Hg.
  - discriminate.
  - destruct (skey_eqb k k').
    + inversion Hg; subst. left; reflexivity.
    + right; auto.
Qed.

Lemma sset_values (d : store) k v x :
  In x (map snd (sset d k v)) -> x = v \/ In x (map snd d).
Proof.
  unfold sset. induction d as [|[k' v'] d IH]; cbn [dset map snd In]; intros Hin.
  - destruct Hin as [Hx|[]]. left; auto.
  - destruct (skey_eqb k k'); cbn [map snd In] in Hin.
    + destruct Hin as [Hx|Hin]; [left; auto | right; right; auto].
    + destruct Hin as [Hx|Hin]; [right; left; auto |].
      destruct (IH Hin) as [Hv|Hd]; [left; auto | right; right; auto].
Qed.

Lemma sset_keys (d : store) k v x :
  In x (map fst (sset d k v)) -> x = k \/ In x (map fst d).
Proof.
  unfold sset. induction d as [|[k' v'] d IH]; cbn [dset map fst In]; intros Hin.
  - destruct Hin as [Hx|[]]. left; auto.
  - destruct (skey_eqb k k'); cbn [map fst In] in Hin.
    + right; exact Hin.
    + destruct Hin as [Hx|Hin]; [right; left; auto |].
      destruct (IH Hin) as [Hv|Hd]; [left; auto | right; right; auto].
Qed.

Lemma sset_keys_nodup (d : store) k v :
  NoDup (map fst d) -> NoDup (map fst (sset d k v)).
Proof.
  unfold sset. induction d as [|[k' v'] d IH]; cbn [dset map fst]; intros Hnd.
  - constructor; [intros [] | constructor].
  - destruct (skey_eqb k k') eqn:Hk; cbn [map fst].
    + exact Hnd.
    + inversion Hnd as [|? ? Hnotin Hnd']; subst.
      constructor; [| apply IH; exact Hnd'].
      intros Hin. apply sset_keys in Hin. destruct Hin as [Heq|Hin]; [| auto].
      subst k'. rewrite skey_eqb_refl in Hk. discriminate.
Qed.

(* ------------------------------------------------------------------------------------------ *)
(* ordered_arguments with the default flags only returns stored values, under distinct keys *)

Section FlatArgs.
  Variable sg : sig.
  Variable veq : ref -> ref -> bool.
  Variable args : store.

  Definition fa_ok (result : store) : Prop :=
    (forall v, In v (map snd result) -> In v (map snd args)) /\ NoDup (map fst result).

  Lemma fa_ok_sset result k v : fa_ok result -> In v (map snd args) -> fa_ok (sset result k v).
  Proof.
    intros [Hv Hk] Hin. split.
    - intros x Hx. apply sset_values in Hx. destruct Hx as [Hx|Hx]; [subst; auto | auto].
    - apply sset_keys_nodup; exact Hk.
  Qed.

  Lemma oa_varargs_ok fuel : forall index result,
    fa_ok result -> fa_ok (oa_varargs fuel args index result).
  Proof.
    induction fuel as [|f IH]; intros index result Hok; cbn [oa_varargs].
    - exact Hok.
    - destruct (sget args (kpos index)) as [v|] eqn:Hg; [| exact Hok].
      apply IH. apply fa_ok_sset; [exact Hok | eapply dget_in_values; exact Hg].
  Qed.

  Lemma oa_params_ok fl (Hd : f_defaults fl = false) (Hu : f_unset fl = false) ps :
    forall index result, fa_ok result -> fa_ok (oa_params veq fl args ps index result).
  Proof.
    induction ps as [|p ps IH]; intros index result Hok; cbn [oa_params].
    - exact Hok.
    - apply IH. rewrite Hd, Hu.
      destruct (pk p).
      + destruct (sget args (kpos index)) as [v|] eqn:Hg.
        * destruct (_ || _); [| exact Hok].
          apply fa_ok_sset; [exact Hok | eapply dget_in_values; exact Hg].
        * destruct (pdefault p); exact Hok.
      + destruct (sget args (KName (pname p))) as [v|] eqn:Hg.
        * destruct (_ || _); [| exact Hok].
          apply fa_ok_sset; [exact Hok | eapply dget_in_values; exact Hg].
        * destruct (pdefault p); exact Hok.
      + apply oa_varargs_ok; exact Hok.
      + destruct (sget args (KName (pname p))) as [v|] eqn:Hg.
        * destruct (_ || _); [| exact Hok].
          apply fa_ok_sset; [exact Hok | eapply dget_in_values; exact Hg].
        * destruct (pdefault p); exact Hok.
      + exact Hok.
  Qed.

  Lemma oa_var_keyword_ok items : forall result,
    (forall v, In v (map snd items) -> In v (map snd args)) ->
    fa_ok result -> fa_ok (oa_var_keyword sg items result).
  Proof.
    induction items as [|[k v] items IH]; intros result Hsub Hok; cbn [oa_var_keyword].
    - exact Hok.
    - apply IH.
      + intros x Hx. apply Hsub. right; exact Hx.
      + match goal with |- fa_ok (if ?c then _ else _) => destruct c end; [| exact Hok].
        apply fa_ok_sset; [exact Hok |]. apply Hsub. left; reflexivity.
  Qed.
End FlatArgs.

Lemma flat_args_ok e fn args : fa_ok args (flat_args e fn args).
Proof.
  unfold flat_args, ordered_arguments, default_flags.
  cbn [f_equal_to_default f_defaults f_var_keyword f_positional negb andb].
  apply oa_var_keyword_ok; [auto |].
  apply oa_params_ok; [reflexivity | reflexivity |].
  split; [intros v [] | constructor].
Qed.

(* ------------------------------------------------------------------------------------------ *)
(* well-formedness: children point strictly downwards *)

Lemma children_sub_refs e n c : In c (children e n) -> In c (node_refs e n).
Proof.
  destruct n; cbn [children node_refs]; auto; try (intros []).
  intros Hin. destruct (flat_args_ok e fn args) as [Hv _]. apply Hv; exact Hin.
Qed.

Lemma wf_from_nth e h : forall base i n,
  wf_from e h base = true -> nth_error h i = Some n ->
  forallb (ref_below (base + i)) (node_refs e n) = true.
Proof.
  induction h as [|n0 h IH]; intros base i n Hwf Hn.
  - destruct i; discriminate.
  - cbn [wf_from] in Hwf. apply andb_true_iff in Hwf. destruct Hwf as [H0 Hrest].
    destruct i as [|i]; cbn [nth_error] in Hn.
    + inversion Hn; subst. rewrite Nat.add_0_r. exact H0.
    + replace (base + S i) with (S base + i) by lia. eapply IH; eauto.
Qed.

Lemma wf_children_lt e h i n j :
  wf_b e h = true -> nth_error h i = Some n -> In (RP j) (children e n) -> j < i.
Proof.
  intros Hwf Hn Hin. unfold wf_b in Hwf.
  pose proof (wf_from_nth e h 0 i n Hwf Hn) as Hall. cbn [Nat.add] in Hall.
  rewrite forallb_forall in Hall. specialize (Hall (RP j) (children_sub_refs e n _ Hin)).
  cbn [ref_below] in Hall. apply Nat.ltb_lt in Hall. exact Hall.
Qed.

(* ------------------------------------------------------------------------------------------ *)
(* reachability by child steps, and its relation to reachability by paths *)

Section Reach.
  Variable e : sigenv.
  Variable h : heap.

  Inductive creach : ref -> nat -> Prop :=
  | cr_refl i : creach (RP i) i
  | cr_step i n c k : nth_error h i = Some n -> In c (children e n) -> creach c k -> creach (RP i) k.

  Lemma creach_atom a k : ~ creach (RA a) k.
  Proof. intros H; inversion H. Qed.

  Lemma creach_le (Hwf : wf_b e h = true) r k : creach r k -> forall i, r = RP i -> k <= i.
  Proof.
    induction 1 as [i|i n c k Hn Hin Hc IH]; intros i' Hr; inversion Hr; subst.
    - lia.
    - destruct c as [a|j]; [exfalso; eapply creach_atom; eauto |].
      specialize (IH j eq_refl). pose proof (wf_children_lt e h i' n j Hwf Hn Hin). lia.
  Qed.

  Lemma assoc_elt_in es : forall cs pe c, assoc_elt es cs pe = Some c -> In c cs.
  Proof.
    induction es as [|x es IH]; intros cs pe c Ha; cbn [assoc_elt] in Ha; [discriminate |].
    destruct cs as [|c0 cs]; [discriminate |].
    destruct (pelt_eq_dec x pe).
    - inversion Ha; subst. left; reflexivity.
    - right. eapply IH; eauto.
  Qed.

  Lemma assoc_elt_complete es : forall cs c,
    length es = length cs -> NoDup es -> In c cs -> exists pe, assoc_elt es cs pe = Some c.
  Proof.
    induction es as [|x es IH]; intros cs c Hlen Hnd Hin.
    - destruct cs; [destruct Hin | discriminate].
    - destruct cs as [|c0 cs]; [discriminate |]. cbn [length] in Hlen.
      inversion Hnd as [|? ? Hnotin Hnd']; subst.
      destruct Hin as [Heq|Hin].
      + subst. exists x. cbn [assoc_elt]. destruct (pelt_eq_dec x x); congruence.
      + destruct (IH cs c ltac:(lia) Hnd' Hin) as [pe Hpe]. exists pe. cbn [assoc_elt].
        destruct (pelt_eq_dec x pe) as [Heq|Hne]; [| exact Hpe].
        subst. exfalso. apply Hnotin.
        clear - Hpe. revert cs Hpe. induction es as [|y es IH]; intros cs Hpe; cbn [assoc_elt] in Hpe.
        * discriminate.
        * destruct cs; [discriminate |]. destruct (pelt_eq_dec y pe); [left; auto | right; eauto].
  Qed.

  Lemma reach_creach r k : reach e h r k -> creach r k.
  Proof.
    intros [p Hp]. revert r Hp. induction p as [|pe p IH]; intros r Hp; cbn [follow] in Hp.
    - inversion Hp; subst. constructor.
    - destruct r as [a|i]; [discriminate |].
      destruct (nth_error h i) as [n|] eqn:Hn; [| discriminate].
      destruct (follow_node e n pe) as [r'|] eqn:Hf; [| discriminate].
      eapply cr_step; [exact Hn | | apply IH; exact Hp].
      unfold follow_node in Hf. eapply assoc_elt_in; eauto.
  Qed.

  Definition elts_ok : Prop :=
    forall i n, nth_error h i = Some n ->
      NoDup (elts e n) /\ length (elts e n) = length (children e n).

  Lemma creach_reach (Hok : elts_ok) r k : creach r k -> reach e h r k.
  Proof.
    induction 1 as [i|i n c k Hn Hin Hc IH].
    - exists []. reflexivity.
    - destruct IH as [p Hp]. destruct (Hok i n Hn) as [Hnd Hlen].
      destruct (assoc_elt_complete _ _ c Hlen Hnd Hin) as [pe Hpe].
      exists (pe :: p). cbn [follow]. rewrite Hn. unfold follow_node. rewrite Hpe. exact Hp.
  Qed.
End Reach.

(* elts are distinct as soon as dictionary-like nodes have distinct keys *)
Definition node_keys_ok (n : node) : Prop :=
  match n with
  | NDict kvs | NDefaultDict _ kvs => NoDup (map fst kvs)
  | NNamedTuple _ fs => NoDup (map fst fs)
  | _ => True
  end.
Definition keys_ok (h : heap) : Prop := forall i n, nth_error h i = Some n -> node_keys_ok n.

Lemma nat_seq_in len : forall start x, In x (nat_seq start len) -> start <= x.
Proof.
  induction len as [|len IH]; intros start x Hin; cbn [nat_seq] in Hin; [destruct Hin |].
  destruct Hin as [Heq|Hin]; [lia |]. apply IH in Hin. lia.
Qed.

Lemma nat_seq_nodup len : forall start, NoDup (nat_seq start len).
Proof.
  induction len as [|len IH]; intros start; cbn [nat_seq]; constructor; [| apply IH].
  intros Hin. apply nat_seq_in in Hin. lia.
Qed.

Lemma nat_seq_length len : forall start, length (nat_seq start len) = len.
Proof. induction len as [|len IH]; intros start; cbn [nat_seq length]; [| rewrite IH]; reflexivity. Qed.

Lemma map_inj_nodup {A B} (f : A -> B) (Hinj : forall a b, f a = f b -> a = b) l :
  NoDup l -> NoDup (map f l).
Proof.
  induction 1 as [|x l Hnotin Hnd IH]; cbn [map]; constructor; [| exact IH].
  intros Hin. apply in_map_iff in Hin. destruct Hin as [y [Hy Hin]]. apply Hinj in Hy. subst. auto.
Qed.

Lemma map_fst_map {A B C} (f : A -> C) (l : list (A * B)) :
  map (fun kv => f (fst kv)) l = map f (map fst l).
Proof. rewrite map_map. reflexivity. Qed.

Lemma keys_ok_elts_ok e h : keys_ok h -> elts_ok e h.
Proof.
  intros Hk i n Hn. specialize (Hk i n Hn).
  destruct n; cbn [elts children node_keys_ok] in *;
    try (split; [constructor | reflexivity]).
  - split; [| unfold index_elts; rewrite map_length, nat_seq_length; reflexivity].
    unfold index_elts. apply map_inj_nodup; [| apply nat_seq_nodup].
    intros a b Hab. inversion Hab. lia.
  - split; [| unfold index_elts; rewrite map_length, nat_seq_length; reflexivity].
    unfold index_elts. apply map_inj_nodup; [| apply nat_seq_nodup].
    intros a b Hab. inversion Hab. lia.
  - split; [| rewrite !map_length; reflexivity].
    rewrite (map_fst_map PKey). apply map_inj_nodup; [| exact Hk]. intros a b Hab; inversion Hab; auto.
  - split; [| rewrite !map_length; reflexivity].
    rewrite (map_fst_map PKey). apply map_inj_nodup; [| exact Hk]. intros a b Hab; inversion Hab; auto.
  - split; [| rewrite !map_length; reflexivity].
    rewrite (map_fst_map PAttr). apply map_inj_nodup; [| exact Hk]. intros a b Hab; inversion Hab; auto.
  - split; [| rewrite !map_length; reflexivity].
    rewrite (map_fst_map key_elt). apply map_inj_nodup; [| apply flat_args_ok].
    intros [a|a] [b|b] Hab; inversion Hab; auto.
Qed.

(* ------------------------------------------------------------------------------------------ *)
(* memo lookups *)

Lemma memo_get_some_in m i r : memo_get m i = Some r -> In i (map fst m).
Proof.
  induction m as [|[j x] m IH]; cbn [memo_get map fst In]; intros Hg; [discriminate |].
  destruct (Nat.eqb i j) eqn:Hij.
  - apply Nat.eqb_eq in Hij. left; auto.
  - right; auto.
Qed.

Lemma memo_get_none_notin m i : memo_get m i = None -> ~ In i (map fst m).
Proof.
  induction m as [|[j x] m IH]; cbn [memo_get map fst In]; intros Hg Hin; [exact Hin |].
  destruct (Nat.eqb i j) eqn:Hij; [discriminate |].
  apply Nat.eqb_neq in Hij. destruct Hin as [Heq|Hin]; [congruence | exact (IH Hg Hin)].
Qed.

Lemma memo_get_in_some m i : In i (map fst m) -> exists r, memo_get m i = Some r.
Proof.
  intros Hin. destruct (memo_get m i) as [r|] eqn:Hg; [eauto |].
  exfalso. eapply memo_get_none_notin; eauto.
Qed.

Lemma memo_get_app_mono m m0 j x :
  NoDup (map fst (m ++ m0)) -> memo_get m0 j = Some x -> memo_get (m ++ m0) j = Some x.
Proof.
  induction m as [|[a ra] m IH]; cbn [app map fst memo_get]; intros Hnd Hg; [exact Hg |].
  inversion Hnd as [|? ? Hnotin Hnd']; subst.
  destruct (Nat.eqb j a) eqn:Hja; [| auto].
  apply Nat.eqb_eq in Hja. subst a. exfalso. apply Hnotin.
  rewrite map_app. apply in_or_app. right. eapply memo_get_some_in; eauto.
Qed.

Lemma map_some_transfer {A B} (f g : A -> option B) l : forall rs,
  map f l = map Some rs -> (forall x y, In x l -> f x = Some y -> g x = Some y) ->
  map g l = map Some rs.
Proof.
  induction l as [|x l IH]; intros rs Hm Hfg; destruct rs as [|y rs]; cbn [map] in *;
    try discriminate; [reflexivity |].
  injection Hm as Hx Hl. f_equal.
  - apply Hfg; [left; reflexivity | exact Hx].
  - apply IH; [exact Hl |]. intros x0 y0 Hin. apply Hfg. right; exact Hin.
Qed.

Lemma existsb_stack_false i stack : (forall k, In k stack -> i < k) -> existsb (Nat.eqb i) stack = false.
Proof.
  intros Hs. destruct (existsb (Nat.eqb i) stack) eqn:He; [| reflexivity].
  apply existsb_exists in He. destruct He as [k [Hin Hk]]. apply Nat.eqb_eq in Hk. subst.
  specialize (Hs _ Hin). lia.
Qed.

(* ------------------------------------------------------------------------------------------ *)
(* the generic invariant *)

Section Generic.
  Variable e : sigenv.
  Variable h : heap.
  Variable on_node : nat -> node -> list ref -> heap -> heap * (ref + fail).
  Hypothesis Hwf : wf_b e h = true.
  Hypothesis Happ : forall i n rs o o' x, on_node i n rs o = (o', x) -> exists ext, o' = o ++ ext.

  (* the local loop over the children, as a named function *)
  Definition mgo (visit : mstate -> ref -> mstate * (ref + fail)) :=
    fix go (s : mstate) (l : list ref) : mstate * (list ref + fail) :=
      match l with
      | [] => (s, inl [])
      | x :: l' =>
          match visit s x with
          | (s1, inl x') =>
              match go s1 l' with
              | (s2, inl l'') => (s2, inl (x' :: l''))
              | (s2, inr fl) => (s2, inr fl)
              end
          | (s1, inr fl) => (s1, inr fl)
          end
      end.

  Lemma mgo_cons visit s x l :
    mgo visit s (x :: l) =
    match visit s x with
    | (s1, inl x') =>
        match mgo visit s1 l with
        | (s2, inl l'') => (s2, inl (x' :: l''))
        | (s2, inr fl) => (s2, inr fl)
        end
    | (s1, inr fl) => (s1, inr fl)
    end.
  Proof. reflexivity. Qed.

  Lemma mvisit_step f stack s i n :
    memo_get (memo s) i = None -> existsb (Nat.eqb i) stack = false -> nth_error h i = Some n ->
    mvisit e h on_node (S f) stack s (RP i) =
    match mgo (mvisit e h on_node f (i :: stack)) s (children e n) with
    | (s1, inr fl) => (s1, inr fl)
    | (s1, inl rs) =>
        match on_node i n rs (out s1) with
        | (o', inl r') => (mk_ms ((i, r') :: memo s1) o' (log s1 ++ [i]), inl r')
        | (o', inr fl) => (mk_ms (memo s1) o' (log s1), inr fl)
        end
    end.
  Proof. intros Hm Hs Hn. cbn [mvisit]. rewrite Hm, Hs, Hn. reflexivity. Qed.

  (* every processed node comes after the nodes it points to *)
  Definition ordered (l : list nat) : Prop :=
    forall l1 i l2, l = l1 ++ i :: l2 -> forall j, child_of e h i j -> In j l1.

  (* the memo is a timeline: each entry was produced by on_node from the results of the children
     recorded before it, on the output heap as it was then *)
  Fixpoint recorded (m : list (nat * ref)) (o : heap) : Prop :=
    match m with
    | [] => exists ext, o = h ++ ext
    | (i, ri) :: m' =>
        exists n rs o0 o1,
          nth_error h i = Some n /\
          map (map_ref m') (children e n) = map Some rs /\
          on_node i n rs o0 = (o1, inl ri) /\
          (exists ext, o = o1 ++ ext) /\
          recorded m' o0
    end.

  Definition inv (s : mstate) : Prop :=
    map fst (memo s) = rev (log s) /\ NoDup (log s) /\ ordered (log s) /\ recorded (memo s) (out s).

  Lemma recorded_mono m o ext : recorded m o -> recorded m (o ++ ext).
  Proof.
    destruct m as [|[i ri] m]; cbn [recorded].
    - intros [ext0 Ho]. exists (ext0 ++ ext). rewrite Ho, app_assoc. reflexivity.
    - intros (n & rs & o0 & o1 & Hn & Hm & Hon & [ext0 Ho] & Hrec).
      exists n, rs, o0, o1. repeat split; auto.
      exists (ext0 ++ ext). rewrite Ho, app_assoc. reflexivity.
  Qed.

  Lemma recorded_prefix m : forall o, recorded m o -> exists ext, o = h ++ ext.
  Proof.
    induction m as [|[i ri] m IH]; intros o; cbn [recorded].
    - auto.
    - intros (n & rs & o0 & o1 & Hn & Hm & Hon & [ext0 Ho] & Hrec).
      destruct (IH _ Hrec) as [ext1 Ho0]. destruct (Happ _ _ _ _ _ _ Hon) as [ext2 Ho1].
      exists (ext1 ++ ext2 ++ ext0). rewrite Ho, Ho1, Ho0, !app_assoc. reflexivity.
  Qed.

  Lemma inv_log_memo s i : inv s -> (In i (log s) <-> In i (map fst (memo s))).
  Proof. intros (Hk & _). rewrite Hk. apply in_rev. Qed.

  Lemma inv_memo_nodup s : inv s -> NoDup (map fst (memo s)).
  Proof. intros (Hk & Hnd & _). rewrite Hk. apply NoDup_rev. exact Hnd. Qed.

  Lemma ordered_closed l i j : ordered l -> In i l -> child_of e h i j -> In j l.
  Proof.
    intros Hord Hin Hc. apply in_split in Hin. destruct Hin as (l1 & l2 & Hl).
    specialize (Hord l1 i l2 Hl j Hc). subst l. apply in_or_app. left; exact Hord.
  Qed.

  Lemma closed_creach l (Hord : ordered l) r k :
    creach e h r k -> forall i, r = RP i -> In i l -> In k l.
  Proof.
    induction 1 as [i|i n c k Hn Hin Hc IH]; intros i' Hr Hil; inversion Hr; subst.
    - exact Hil.
    - destruct c as [a|j]; [exfalso; eapply creach_atom; eauto |].
      apply (IH j eq_refl). eapply ordered_closed; eauto. exists n. split; auto.
  Qed.

  Lemma ordered_snoc l i : ordered l -> (forall j, child_of e h i j -> In j l) -> ordered (l ++ [i]).
  Proof.
    intros Hord Hch l1 i' l2 Heq j Hc.
    induction l2 as [|x l2' _] using rev_ind.
    - apply app_inj_tail in Heq. destruct Heq as [Hl Hi]. subst. auto.
    - change (l1 ++ i' :: l2' ++ [x]) with (l1 ++ (i' :: l2') ++ [x]) in Heq.
      rewrite app_assoc in Heq. apply app_inj_tail in Heq. destruct Heq as [Hl Hi].
      eapply Hord; eauto.
  Qed.

  (* specification of one visit *)
  Definition fail_spec (s' : mstate) (from : nat -> Prop) (fl : fail) : Prop :=
    exists i n rs o o',
      on_node i n rs o = (o', inr fl) /\ from i /\ ~ In i (log s') /\ nth_error h i = Some n /\
      (forall j, In (RP j) (children e n) -> In j (log s')).

  Definition vspec (s : mstate) (r : ref) (s' : mstate) (res : ref + fail) : Prop :=
    inv s' /\
    (exists m, memo s' = m ++ memo s) /\
    (exists l, log s' = log s ++ l /\ forall k, In k l -> creach e h r k) /\
    match res with
    | inl r' => map_ref (memo s') r = Some r' /\ (forall k, creach e h r k -> In k (log s'))
    | inr fl => fail_spec s' (creach e h r) fl
    end.

  Definition gspec (s : mstate) (l : list ref) (s' : mstate) (res : list ref + fail) : Prop :=
    inv s' /\
    (exists m, memo s' = m ++ memo s) /\
    (exists lg, log s' = log s ++ lg /\ forall k, In k lg -> exists x, In x l /\ creach e h x k) /\
    match res with
    | inl rs => map (map_ref (memo s')) l = map Some rs /\
                (forall x k, In x l -> creach e h x k -> In k (log s'))
    | inr fl => fail_spec s' (fun i => exists x, In x l /\ creach e h x i) fl
    end.

  Definition visit_ok (visit : mstate -> ref -> mstate * (ref + fail)) (x : ref) : Prop :=
    forall s s' res, inv s -> visit s x = (s', res) -> vspec s x s' res.

  Lemma mgo_spec visit l :
    (forall x, In x l -> visit_ok visit x) ->
    forall s s' res, inv s -> mgo visit s l = (s', res) -> gspec s l s' res.
  Proof.
    induction l as [|x l IH]; intros Hvis s s' res Hinv Hgo.
    - cbn [mgo] in Hgo. inversion Hgo; subst. split; [exact Hinv |].
      split; [exists []; reflexivity |].
      split; [exists []; split; [rewrite app_nil_r; reflexivity | intros k []] |].
      split; [reflexivity | intros x k []].
    - rewrite mgo_cons in Hgo.
      destruct (visit s x) as [s1 [x'|fl]] eqn:Hv.
      + apply (Hvis x (or_introl eq_refl)) in Hv; [| exact Hinv].
        destruct Hv as (Hinv1 & [m1 Hm1] & (l1 & Hl1 & Hr1) & Hmap1 & Hall1).
        destruct (mgo visit s1 l) as [s2 [rs|fl]] eqn:Hg.
        * inversion Hgo; subst s' res.
          apply IH in Hg; [| intros x0 Hx0; apply Hvis; right; exact Hx0 | exact Hinv1].
          destruct Hg as (Hinv2 & [m2 Hm2] & (l2 & Hl2 & Hr2) & Hmap2 & Hall2).
          split; [exact Hinv2 |].
          split; [exists (m2 ++ m1); rewrite Hm2, Hm1, app_assoc; reflexivity |].
          split.
          { exists (l1 ++ l2). split; [rewrite Hl2, Hl1, app_assoc; reflexivity |].
            intros k Hk. apply in_app_or in Hk. destruct Hk as [Hk|Hk].
            - exists x. split; [left; reflexivity | auto].
            - destruct (Hr2 k Hk) as (x0 & Hx0 & Hc). exists x0. split; [right; auto | auto]. }
          split.
          { cbn [map]. f_equal; [| exact Hmap2].
            destruct x as [a|j]; cbn [map_ref] in *; [exact Hmap1 |].
            rewrite Hm2. apply memo_get_app_mono; [| exact Hmap1].
            rewrite <- Hm2. apply inv_memo_nodup; exact Hinv2. }
          { intros x0 k [Hx0|Hx0] Hc.
            - subst x0. rewrite Hl2. apply in_or_app. left. auto.
            - eapply Hall2; eauto. }
        * inversion Hgo; subst s' res.
          apply IH in Hg; [| intros x0 Hx0; apply Hvis; right; exact Hx0 | exact Hinv1].
          destruct Hg as (Hinv2 & [m2 Hm2] & (l2 & Hl2 & Hr2) & Hfail).
          split; [exact Hinv2 |].
          split; [exists (m2 ++ m1); rewrite Hm2, Hm1, app_assoc; reflexivity |].
          split.
          { exists (l1 ++ l2). split; [rewrite Hl2, Hl1, app_assoc; reflexivity |].
            intros k Hk. apply in_app_or in Hk. destruct Hk as [Hk|Hk].
            - exists x. split; [left; reflexivity | auto].
            - destruct (Hr2 k Hk) as (x0 & Hx0 & Hc). exists x0. split; [right; auto | auto]. }
          destruct Hfail as (i & n & rs & o & o' & Hon & (x0 & Hx0 & Hc) & Hnotin & Hn & Hch).
          exists i, n, rs, o, o'. repeat split; auto. exists x0. split; [right; auto | auto].
      + inversion Hgo; subst s' res.
        apply (Hvis x (or_introl eq_refl)) in Hv; [| exact Hinv].
        destruct Hv as (Hinv1 & [m1 Hm1] & (l1 & Hl1 & Hr1) & Hfail).
        split; [exact Hinv1 |]. split; [exists m1; exact Hm1 |].
        split.
        { exists l1. split; [exact Hl1 |]. intros k Hk. exists x. split; [left; reflexivity | auto]. }
        destruct Hfail as (i & n & rs & o & o' & Hon & Hc & Hnotin & Hn & Hch).
        exists i, n, rs, o, o'. repeat split; auto. exists x. split; [left; reflexivity | auto].
  Qed.

  Lemma vspec_same s r r' :
    inv s -> map_ref (memo s) r = Some r' -> (forall k, creach e h r k -> In k (log s)) ->
    vspec s r s (inl r').
  Proof.
    intros Hinv Hm Hall. split; [exact Hinv |]. split; [exists []; reflexivity |].
    split; [exists []; split; [rewrite app_nil_r; reflexivity | intros k []] |].
    split; assumption.
  Qed.

  Lemma mvisit_spec : forall fuel stack s r s' res,
    inv s -> root_ok h r ->
    (forall i, r = RP i -> i < fuel /\ forall k, In k stack -> i < k) ->
    mvisit e h on_node fuel stack s r = (s', res) -> vspec s r s' res.
  Proof.
    induction fuel as [|f IH]; intros stack s r s' res Hinv Hroot Hst Hv.
    - destruct r as [a|i].
      + cbn [mvisit] in Hv. inversion Hv; subst. apply vspec_same; [exact Hinv | reflexivity |].
        intros k Hc. exfalso. eapply creach_atom; eauto.
      + destruct (Hst i eq_refl) as [Hlt _]. lia.
    - destruct r as [a|i].
      + cbn [mvisit] in Hv. inversion Hv; subst. apply vspec_same; [exact Hinv | reflexivity |].
        intros k Hc. exfalso. eapply creach_atom; eauto.
      + destruct (memo_get (memo s) i) as [r'|] eqn:Hm.
        * cbn [mvisit] in Hv. rewrite Hm in Hv. inversion Hv; subst.
          apply vspec_same; [exact Hinv | exact Hm |].
          intros k Hc. destruct Hinv as (Hk & Hnd & Hord & Hrec).
          eapply closed_creach; eauto.
          apply in_rev. rewrite <- Hk. eapply memo_get_some_in; eauto.
        * destruct (Hst i eq_refl) as [Hfuel Hstack].
          cbn [root_ok] in Hroot.
          destruct (nth_error h i) as [n|] eqn:Hn; [| apply nth_error_None in Hn; lia].
          rewrite (mvisit_step f stack s i n Hm (existsb_stack_false _ _ Hstack) Hn) in Hv.
          assert (Hchild_lt : forall j, In (RP j) (children e n) -> j < i).
          { intros j Hj. eapply wf_children_lt; eauto. }
          assert (Hnotin_s : ~ In i (log s)).
          { intros Hin. apply (inv_log_memo s i Hinv) in Hin.
            eapply memo_get_none_notin; eauto. }
          destruct (mgo (mvisit e h on_node f (i :: stack)) s (children e n)) as [s1 [rs|fl]] eqn:Hg.
          -- apply mgo_spec in Hg; [| | exact Hinv].
             2:{ intros x Hx s0 s0' res0 Hinv0 Hv0. eapply IH; eauto.
                 - destruct x as [a|j]; cbn [root_ok]; [exact I |]. specialize (Hchild_lt j Hx). lia.
                 - intros j Hr. subst x. specialize (Hchild_lt j Hx). split; [lia |].
                   intros k [Hk|Hk]; [lia |]. specialize (Hstack k Hk). lia. }
             destruct Hg as (Hinv1 & [m1 Hm1] & (l1 & Hl1 & Hr1) & Hmap1 & Hall1).
             assert (Hnotin1 : ~ In i (log s1)).
             { rewrite Hl1. intros Hin. apply in_app_or in Hin. destruct Hin as [Hin|Hin]; [auto |].
               destruct (Hr1 i Hin) as (x & Hx & Hc). destruct x as [a|j].
               - eapply creach_atom; eauto.
               - pose proof (creach_le e h Hwf _ _ Hc j eq_refl). specialize (Hchild_lt j Hx). lia. }
             assert (Hch1 : forall j, In (RP j) (children e n) -> In j (log s1)).
             { intros j Hj. apply (Hall1 (RP j) j Hj). constructor. }
             assert (Hreach1 : forall k, In k l1 -> creach e h (RP i) k).
             { intros k Hk. destruct (Hr1 k Hk) as (x & Hx & Hc). eapply cr_step; eauto. }
             destruct (on_node i n rs (out s1)) as [o' [r'|fl]] eqn:Hon; inversion Hv; subst s' res.
             ++ destruct Hinv1 as (Hk1 & Hnd1 & Hord1 & Hrec1).
                split.
                { split; [| split; [| split]]; cbn [memo log out].
                  - cbn [map fst]. rewrite rev_unit, Hk1. reflexivity.
                  - apply NoDup_rev in Hnd1. rewrite <- rev_involutive.
                    apply NoDup_rev. rewrite rev_unit. constructor; [| exact Hnd1].
                    rewrite <- in_rev. exact Hnotin1.
                  - apply ordered_snoc; [exact Hord1 |].
                    intros j (n0 & Hn0 & Hj). rewrite Hn in Hn0. inversion Hn0; subst n0. auto.
                  - cbn [recorded]. exists n, rs, (out s1), o'.
                    repeat split; auto. exists []. rewrite app_nil_r. reflexivity. }
                cbn [memo log].
                split; [exists ((i, r') :: m1); rewrite Hm1; reflexivity |].
                split.
                { exists (l1 ++ [i]). split; [rewrite Hl1, app_assoc; reflexivity |].
                  intros k Hk. apply in_app_or in Hk. destruct Hk as [Hk|[Hk|[]]]; [auto |].
                  subst k. constructor. }
                split.
                { cbn [map_ref memo_get]. rewrite Nat.eqb_refl. reflexivity. }
                { intros k Hc. apply in_or_app. inversion Hc as [|? n0 c ? Hn0 Hc0 Hck]; subst.
                  - right; left; reflexivity.
                  - left. rewrite Hn in Hn0. inversion Hn0; subst n0. eapply Hall1; eauto. }
             ++ destruct (Happ _ _ _ _ _ _ Hon) as [ext Hext].
                destruct Hinv1 as (Hk1 & Hnd1 & Hord1 & Hrec1).
                split.
                { split; [| split; [| split]]; cbn [memo log out]; auto.
                  rewrite Hext. apply recorded_mono. exact Hrec1. }
                cbn [memo log].
                split; [exists m1; exact Hm1 |].
                split; [exists l1; split; [exact Hl1 | exact Hreach1] |].
                exists i, n, rs, (out s1), o'. cbn [log]. repeat split; auto. constructor.
          -- inversion Hv; subst s' res.
             apply mgo_spec in Hg; [| | exact Hinv].
             2:{ intros x Hx s0 s0' res0 Hinv0 Hv0. eapply IH; eauto.
                 - destruct x as [a|j]; cbn [root_ok]; [exact I |]. specialize (Hchild_lt j Hx). lia.
                 - intros j Hr. subst x. specialize (Hchild_lt j Hx). split; [lia |].
                   intros k [Hk|Hk]; [lia |]. specialize (Hstack k Hk). lia. }
             destruct Hg as (Hinv1 & [m1 Hm1] & (l1 & Hl1 & Hr1) & Hfail).
             split; [exact Hinv1 |]. split; [exists m1; exact Hm1 |].
             split.
             { exists l1. split; [exact Hl1 |]. intros k Hk.
               destruct (Hr1 k Hk) as (x & Hx & Hc). eapply cr_step; eauto. }
             destruct Hfail as (i0 & n0 & rs & o & o' & Hon & (x & Hx & Hc) & Hnotin & Hn0 & Hch).
             exists i0, n0, rs, o, o'. repeat split; auto. eapply cr_step; eauto.
  Qed.

  Lemma inv_init : inv (mk_ms [] h []).
  Proof.
    split; [reflexivity |]. split; [constructor |]. split.
    - intros l1 i l2 Heq. destruct l1; discriminate.
    - cbn [recorded memo out]. exists []. rewrite app_nil_r. reflexivity.
  Qed.

  Lemma mrun_spec r s res :
    root_ok h r -> mrun e h on_node r = (s, res) -> vspec (mk_ms [] h []) r s res.
  Proof.
    intros Hroot Hrun. unfold mrun in Hrun. eapply mvisit_spec; eauto using inv_init.
    intros i Hr. subst r. cbn [root_ok] in Hroot. split; [lia | intros k []].
  Qed.
End Generic.

(* looking an entry up in the timeline *)
Section Lookup.
  Variable e : sigenv.
  Variable h : heap.
  Variable on_node : nat -> node -> list ref -> heap -> heap * (ref + fail).
  Hypothesis Happ : forall i n rs o o' x, on_node i n rs o = (o', x) -> exists ext, o' = o ++ ext.

  Lemma map_ref_cons_mono a ra m x y :
    ~ In a (map fst m) -> map_ref m x = Some y -> map_ref ((a, ra) :: m) x = Some y.
  Proof.
    intros Hnotin Hx. destruct x as [b|p]; cbn [map_ref memo_get] in *; [exact Hx |].
    destruct (Nat.eqb p a) eqn:Hpa; [| exact Hx].
    apply Nat.eqb_eq in Hpa. subst p. exfalso. apply Hnotin. eapply memo_get_some_in; eauto.
  Qed.

  Lemma recorded_lookup m : forall o,
    recorded e h on_node m o -> NoDup (map fst m) ->
    forall i ri, memo_get m i = Some ri ->
    exists n rs o0 o1,
      nth_error h i = Some n /\
      map (map_ref m) (children e n) = map Some rs /\
      on_node i n rs o0 = (o1, inl ri) /\
      (exists ext0, o0 = h ++ ext0) /\ (exists ext, o = o1 ++ ext).
  Proof.
    induction m as [|[a ra] m IH]; intros o Hrec Hnd i ri Hg; [discriminate |].
    cbn [recorded] in Hrec.
    destruct Hrec as (n & rs & o0 & o1 & Hn & Hm & Hon & [ext Ho] & Hrec').
    cbn [map fst] in Hnd. inversion Hnd as [|? ? Hnotin Hnd']; subst.
    cbn [memo_get] in Hg. destruct (Nat.eqb i a) eqn:Hia.
    - apply Nat.eqb_eq in Hia. subst a. inversion Hg; subst ra.
      exists n, rs, o0, o1. split; [exact Hn |]. split.
      { eapply map_some_transfer; [exact Hm |]. intros x y _. apply map_ref_cons_mono; exact Hnotin. }
      split; [exact Hon |]. split; [eapply recorded_prefix; eauto |]. exists ext; reflexivity.
    - destruct (IH o0 Hrec' Hnd' i ri Hg) as (n' & rs' & o0' & o1' & Hn' & Hm' & Hon' & Hpre & [ext' Ho0]).
      exists n', rs', o0', o1'. split; [exact Hn' |]. split.
      { eapply map_some_transfer; [exact Hm' |]. intros x y _. apply map_ref_cons_mono; exact Hnotin. }
      split; [exact Hon' |]. split; [exact Hpre |].
      destruct (Happ _ _ _ _ _ _ Hon) as [ext2 Ho1].
      exists (ext' ++ ext2 ++ ext). rewrite Ho1, Ho0, !app_assoc. reflexivity.
  Qed.
End Lookup.
