(* C08Check: correspondence checker for the daglish traversals. *)
From Fiddle Require Import PyBase PySlice Sig ArgStore PyCall Heap Traverse Build_proofs.

Definition vp_eq_dec : forall a b : list (ref * path), {a = b} + {a <> b}.
Proof. apply list_eq_dec. decide equality; auto using ref_eq_dec, path_eq_dec. Defined.
Definition paths_eq_dec : forall a b : list path, {a = b} + {a <> b} := list_eq_dec path_eq_dec.

Definition rebuild_node (e : sigenv) (i : nat) (n : node) (rs : list ref) (o : heap)
  : heap * (ref + fail) :=
  if traversable n then let '(o', r) := alloc o (with_children e n rs) in (o', inl r)
  else (o, inl (RP i)).

Definition is_ptr (vp : ref * path) : bool := match fst vp with RP _ => true | RA _ => false end.

Record case := mkcase {
  c_env : sigenv; c_heap : heap; c_root : ref;
  c_basic : list (ref * path);            (* iterate(memoized=False) *)
  c_memo_ni : list (ref * path);          (* iterate(memoized=True, memoize_internables=False) *)
  c_memo_ptr : list (ref * path);         (* iterate(memoized=True): pointer entries only *)
  c_paths : list (nat * list path);       (* collect_paths_by_id, per object *)
  c_rebuilt_heap : heap; c_rebuilt_root : ref   (* MemoizedTraversal.run(map_children) *)
}.

Definition bij_respects_new (n : nat) (m : bij) : bool :=
  forallb (fun ij => let '(i, j) := ij in
                     if Nat.ltb j n then Nat.eqb i j else true) m.

Definition check_case (c : case) : bool :=
  let e := c_env c in let h := c_heap c in let fuel := S (length h) in
  wf_b e h && keys_ok_b h   (* the hypotheses of the C08 theorems *)
  && (if vp_eq_dec (iter_basic e h fuel (c_root c) []) (c_basic c) then true else false)
  && (if vp_eq_dec (snd (iter_memo e h false fuel [] (c_root c) [])) (c_memo_ni c) then true else false)
  && (if vp_eq_dec (filter is_ptr (snd (iter_memo e h true fuel [] (c_root c) []))) (c_memo_ptr c)
      then true else false)
  && forallb (fun ip => if paths_eq_dec (paths_to e h fuel (c_root c) (fst ip)) (snd ip)
                        then true else false) (c_paths c)
  && match mrun e h (rebuild_node e) (c_root c) with
     | (s, inl r) =>
         match iso (out s) (c_rebuilt_heap c) (S (length (out s) + length (c_rebuilt_heap c))) []
                 r (c_rebuilt_root c) with
         | Some m => bij_respects_new (length h) m
         | None => false
         end
     | _ => false
     end.

Definition explain_case (c : case) :=
  let e := c_env c in let h := c_heap c in let fuel := S (length h) in
  (iter_basic e h fuel (c_root c) [], snd (iter_memo e h false fuel [] (c_root c) []),
   filter is_ptr (snd (iter_memo e h true fuel [] (c_root c) [])),
   map (fun ip => paths_to e h fuel (c_root c) (fst ip)) (c_paths c),
   mrun e h (rebuild_node e) (c_root c)).

(* cyclic structures: the memoized traversal reports a cycle, never runs out of fuel *)
Record cyc_case := mkcyc { y_env : sigenv; y_heap : heap; y_root : ref; y_cycle_reported : bool }.
Definition check_cyc (c : cyc_case) : bool :=
  match mrun (y_env c) (y_heap c) (rebuild_node (y_env c)) (y_root c) with
  | (_, inr (FCycle _)) => y_cycle_reported c
  | (_, inl _) => negb (y_cycle_reported c)
  | _ => false
  end.
