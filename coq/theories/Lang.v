(* Lang: a mini-language of straight-line configuration programs with two semantics:
   eval_py  -- running the function (every call invokes the callable: allocates an NObj)
   eval_cfg -- what auto_config's as_buildable() computes (every call becomes a Config /
               functools.partial becomes a Partial, through Signature.bind_partial's storage format)
   C11 relates them through fdl.build. *)
From Fiddle Require Import PyBase PySlice Sig ArgStore PyCall Heap Traverse Build.

Inductive expr :=
| EConst (a : atom)
| EVar (i : nat)                                   (* local variable / parameter, by index *)
| ECall (fn : N) (pos : list expr) (kw : list (N * expr))
| EPartial (fn : N) (pos : list expr) (kw : list (N * expr))   (* functools.partial(fn, ...) *)
| EList (xs : list expr)
| ETuple (xs : list expr)
| EDict (kvs : list (atom * expr)).

(* a program: assignments to fresh variables (appended to the environment), then a return expr *)
Record program := mkprog { p_body : list expr; p_ret : expr }.

Section Eval.
  Variable e : sigenv.

  (* SignatureInfo.signature_binding: inspect's bind_partial then canonical storage.
     None = TypeError. *)
  Fixpoint bind_pos (ps : list param) (index : nat) (pos : list ref) (acc : store) : option store :=
    match pos with
    | [] => Some acc
    | v :: pos' =>
        match ps with
        | [] => None                                     (* too many positional arguments *)
        | p :: ps' =>
            match pk p with
            | PosOnly => bind_pos ps' (S index) pos' (acc ++ [(kpos index, v)])
            | PosOrKw => bind_pos ps' (S index) pos' (acc ++ [(KName (pname p), v)])
            | VarPos =>
                (* all remaining positionals go to *args, stored under consecutive indices *)
                Some (acc ++ combine (map kpos (nat_seq index (length pos))) pos)
            | _ => None
            end
        end
    end.

  Fixpoint bind_kw (sg : sig) (kw : list (N * ref)) (acc : store) : option store :=
    match kw with
    | [] => Some acc
    | (n, v) :: kw' =>
        if smem acc (KName n) then None else               (* multiple values for argument *)
        match find_param sg n with
        | Some p =>
            match pk p with
            | PosOrKw | KwOnly => bind_kw sg kw' (acc ++ [(KName n, v)])
            | _ => if has_var_kw sg then bind_kw sg kw' (acc ++ [(KName n, v)]) else None
            end
        | None => if has_var_kw sg then bind_kw sg kw' (acc ++ [(KName n, v)]) else None
        end
    end.

  (* inspect orders BoundArguments.arguments by the signature; Fiddle then moves positional-only
     and *args entries to the end while renaming them, and **kwargs entries after those *)
  Definition order_bound (sg : sig) (st : store) : store :=
    let named := flat_map (fun p => match pk p with
                                    | PosOrKw | KwOnly =>
                                        match sget st (KName (pname p)) with
                                        | Some v => [(KName (pname p), v)]
                                        | None => []
                                        end
                                    | _ => [] end) sg in
    let positional := filter (fun kv => match fst kv with KPos _ => true | _ => false end) st in
    let extras := filter (fun kv => match fst kv with
                                    | KName n => match find_param sg n with
                                                 | Some p => match pk p with PosOrKw | KwOnly => false | _ => true end
                                                 | None => true end
                                    | KPos _ => false end) st in
    named ++ positional ++ extras.

  Definition signature_binding (sg : sig) (pos : list ref) (kw : list (N * ref)) : option store :=
    match bind_pos sg 0 pos [] with
    | Some st1 => match bind_kw sg kw st1 with
                  | Some st2 => Some (order_bound sg st2)
                  | None => None
                  end
    | None => None
    end.

  (* evaluation threads the heap; `cfg` selects the semantics *)
  Fixpoint eval (cfg : bool) (fuel : nat) (env : list ref) (o : heap) (x : expr) : heap * option ref :=
    match fuel with
    | O => (o, None)
    | S f =>
        let fix eval_list (o : heap) (xs : list expr) : heap * option (list ref) :=
          match xs with
          | [] => (o, Some [])
          | y :: ys =>
              match eval cfg f env o y with
              | (o1, Some r) => match eval_list o1 ys with
                                | (o2, Some rs) => (o2, Some (r :: rs))
                                | (o2, None) => (o2, None)
                                end
              | (o1, None) => (o1, None)
              end
          end in
        let fix eval_kw (o : heap) (kvs : list (N * expr)) : heap * option (list (N * ref)) :=
          match kvs with
          | [] => (o, Some [])
          | (k, y) :: ys =>
              match eval cfg f env o y with
              | (o1, Some r) => match eval_kw o1 ys with
                                | (o2, Some rs) => (o2, Some ((k, r) :: rs))
                                | (o2, None) => (o2, None)
                                end
              | (o1, None) => (o1, None)
              end
          end in
        let fix eval_akv (o : heap) (kvs : list (atom * expr)) : heap * option (list (atom * ref)) :=
          match kvs with
          | [] => (o, Some [])
          | (k, y) :: ys =>
              match eval cfg f env o y with
              | (o1, Some r) => match eval_akv o1 ys with
                                | (o2, Some rs) => (o2, Some ((k, r) :: rs))
                                | (o2, None) => (o2, None)
                                end
              | (o1, None) => (o1, None)
              end
          end in
        match x with
        | EConst a => (o, Some (RA a))
        | EVar i => (o, nth_error env i)
        | EList xs => match eval_list o xs with
                      | (o1, Some rs) => let '(o2, r) := alloc o1 (NList rs) in (o2, Some r)
                      | (o1, None) => (o1, None)
                      end
        | ETuple xs => match eval_list o xs with
                       | (o1, Some []) => (o1, Some (RA AEmptyTuple))
                       | (o1, Some rs) => let '(o2, r) := alloc o1 (NTuple rs) in (o2, Some r)
                       | (o1, None) => (o1, None)
                       end
        | EDict kvs => match eval_akv o kvs with
                       | (o1, Some rs) => let '(o2, r) := alloc o1 (NDict rs) in (o2, Some r)
                       | (o1, None) => (o1, None)
                       end
        | ECall fn pos kw =>
            match eval_list o pos with
            | (o1, Some ps) =>
                match eval_kw o1 kw with
                | (o2, Some ks) =>
                    if cfg then
                      match signature_binding (sig_of e fn) ps ks with
                      | Some st => let '(o3, r) := alloc o2 (NBuildable BConfig fn st []) in (o3, Some r)
                      | None => (o2, None)
                      end
                    else
                      match py_call (sig_of e fn) ps (map (fun kv => (KName (fst kv), snd kv)) ks) with
                      | Some vw => let '(o3, r) := alloc o2 (NObj fn vw) in (o3, Some r)
                      | None => (o2, None)
                      end
                | (o2, None) => (o2, None)
                end
            | (o1, None) => (o1, None)
            end
        | EPartial fn pos kw =>
            match eval_list o pos with
            | (o1, Some ps) =>
                match eval_kw o1 kw with
                | (o2, Some ks) =>
                    if cfg then
                      match signature_binding (sig_of e fn) ps ks with
                      | Some st => let '(o3, r) := alloc o2 (NBuildable BPartial fn st []) in (o3, Some r)
                      | None => (o2, None)
                      end
                    else let '(o3, r) := alloc o2 (NPartialObj fn ps ks) in (o3, Some r)
                | (o2, None) => (o2, None)
                end
            | (o1, None) => (o1, None)
            end
        end
    end.

  Fixpoint run_body (cfg : bool) (fuel : nat) (env : list ref) (o : heap) (body : list expr)
    : heap * option (list ref) :=
    match body with
    | [] => (o, Some env)
    | x :: rest =>
        match eval cfg fuel env o x with
        | (o1, Some r) => run_body cfg fuel (env ++ [r]) o1 rest
        | (o1, None) => (o1, None)
        end
    end.

  (* _contains_buildable: as_buildable raises TypeError unless its result is a Buildable or a
     list / tuple / dict / namedtuple structure holding one *)
  Fixpoint contains_buildable (fuel : nat) (h : heap) (r : ref) : bool :=
    match fuel with
    | O => false
    | S f =>
        match r with
        | RA _ => false
        | RP i =>
            match nth_error h i with
            | Some (NBuildable _ _ _ _) => true
            | Some (NList xs) | Some (NTuple xs) => existsb (contains_buildable f h) xs
            | Some (NDict kvs) | Some (NDefaultDict _ kvs) =>
                existsb (fun kv => contains_buildable f h (snd kv)) kvs
            | Some (NNamedTuple _ fs) => existsb (fun kv => contains_buildable f h (snd kv)) fs
            | _ => false
            end
        end
    end.

  Definition run_program (cfg : bool) (fuel : nat) (args : list ref) (o : heap) (p : program)
    : heap * option ref :=
    match run_body cfg fuel args o (p_body p) with
    | (o1, Some env) =>
        match eval cfg fuel env o1 (p_ret p) with
        | (o2, Some r) =>
            if cfg then (if contains_buildable (S (length o2)) o2 r then (o2, Some r) else (o2, None))
            else (o2, Some r)
        | res => res
        end
    | (o1, None) => (o1, None)
    end.
End Eval.

(* ---- functools.partial objects up to argument binding --------------------------------------------
   functools.partial(fn, 1, q=2) and functools.partial(fn, p=1, q=2) call fn identically when p is
   fn's first positional-or-keyword parameter; a built fdl.Partial always has the second form.
   norm_node binds the leading positional arguments to their parameter names (inspect's
   bind_partial) and orders the keywords by name, so that the two forms are compared as equal. *)
Fixpoint bind_prefix (ps : sig) (pos : list ref) : list (N * ref) * list ref :=
  match ps, pos with
  | p :: ps', v :: pos' =>
      if is_prefix_kind (pk p)
      then let '(b, rest) := bind_prefix ps' pos' in ((pname p, v) :: b, rest)
      else ([], pos)
  | _, _ => ([], pos)
  end.

Fixpoint insert_kw (x : N * ref) (l : list (N * ref)) : list (N * ref) :=
  match l with
  | [] => [x]
  | y :: l' => if N.leb (fst x) (fst y) then x :: l else y :: insert_kw x l'
  end.
Definition sort_kw (l : list (N * ref)) : list (N * ref) := fold_right insert_kw [] l.

Definition norm_node (e : sigenv) (n : node) : node :=
  match n with
  | NPartialObj fn pos kw =>
      let '(b, rest) := bind_prefix (sig_of e fn) pos in NPartialObj fn rest (sort_kw (b ++ kw))
  | _ => n
  end.
Definition norm_heap (e : sigenv) (h : heap) : heap := map (norm_node e) h.
