(* Tags: set_tagged / list_tags / tag selections, and NodeSelection (select / set / replace).
   These APIs mutate Buildables in place, so the model threads the heap and overwrites nodes. *)
From Fiddle Require Import PyBase PySlice Sig ArgStore PyCall Heap Traverse.

Fixpoint heap_set (h : heap) (i : nat) (n : node) : heap :=
  match h, i with
  | [], _ => []
  | _ :: h', O => n :: h'
  | x :: h', S i' => x :: heap_set h' i' n
  end.

Definition pair_mem (t : list (N * N)) (a b : N) : bool :=
  existsb (fun ab => N.eqb (fst ab) a && N.eqb (snd ab) b) t.

Section Tags.
  Variable e : sigenv.
  Variable subtags : list (N * N).      (* (t, T): issubclass(t, T), reflexive pairs included *)
  Definition subtag (t T : N) : bool := pair_mem subtags t T.
  Definition tag_matches (T : N) (ts : list N) : bool := existsb (fun t => subtag t T) ts.

  (* for key, tags in node.__argument_tags__.items(): if any(issubclass(t, tag)): set node[key] *)
  Definition apply_tagged (T : N) (x : ref) (n : node) : node :=
    match n with
    | NBuildable k fn args tags =>
        NBuildable k fn
          (fold_left (fun a kt => if tag_matches T (snd kt) then sset a (fst kt) x else a) tags args)
          tags
    | _ => n
    end.

  (* tagging.set_tagged: lazy memoized pre-order iteration; a node is mutated before its
     (possibly new) children are enumerated *)
  Fixpoint st_visit (fuel : nat) (T : N) (x : ref) (hs : heap * list nat) (r : ref)
    : heap * list nat :=
    match r with
    | RA _ => hs
    | RP i =>
        if existsb (Nat.eqb i) (snd hs) then hs else
        match fuel with
        | O => hs
        | S f =>
            match nth_error (fst hs) i with
            | None => hs
            | Some n =>
                let n' := apply_tagged T x n in
                fold_left (fun acc c => st_visit f T x acc c) (children e n')
                          (heap_set (fst hs) i n', i :: snd hs)
            end
        end
    end.

  Definition set_tagged (h : heap) (root : ref) (T : N) (x : ref) : heap :=
    fst (st_visit (S (length h)) T x (h, []) root).

  (* the ids of all objects reachable from a root (memoized pre-order) *)
  Fixpoint reach_list (fuel : nat) (h : heap) (seen : list nat) (r : ref) : list nat :=
    match r with
    | RA _ => seen
    | RP i =>
        if existsb (Nat.eqb i) seen then seen else
        match fuel with
        | O => seen
        | S f =>
            match nth_error h i with
            | None => seen
            | Some n => fold_left (fun acc c => reach_list f h acc c) (children e n) (seen ++ [i])
            end
        end
    end.

  Fixpoint nset_add (t : N) (l : list N) : list N :=
    match l with
    | [] => [t]
    | x :: l' => if N.eqb t x then l else if N.ltb t x then t :: l else x :: nset_add t l'
    end.

  (* tagging.list_tags: union of the tag sets of all reachable Buildables (sorted) *)
  Definition list_tags (h : heap) (root : ref) : list N :=
    fold_left (fun acc i =>
                 match nth_error h i with
                 | Some (NBuildable _ _ _ tags) =>
                     fold_left (fun a kt => fold_left (fun a2 t => nset_add t a2) (snd kt) a) tags acc
                 | _ => acc
                 end) (reach_list (S (length h)) h [] root) [].

  (* ---------------------------------------------------------------- NodeSelection *)
  Variable subclasses : list (N * N).   (* (c, C): both classes and issubclass(c, C) *)
  Variable classes : list N.            (* symbols that are classes *)

  Record selector := mksel { s_fn : N; s_match_sub : bool; s_btype : option bkind }.

  Definition btype_ok (want : option bkind) (k : bkind) : bool :=
    match want with
    | None => true
    | Some BConfig => match k with BConfig | BTagged => true | _ => false end  (* TaggedValueCls is a Config *)
    | Some w => if bkind_eq_dec w k then true else false
    end.

  Definition matches (sel : selector) (n : node) : bool :=
    match n with
    | NBuildable k fn _ _ =>
        btype_ok (s_btype sel) k
        && (N.eqb fn (s_fn sel)
            || (s_match_sub sel && existsb (N.eqb (s_fn sel)) classes && existsb (N.eqb fn) classes
                && pair_mem subclasses fn (s_fn sel)))
    | _ => false
    end.

  (* _memoized_walk_leaves_first: every object once, children before parents *)
  Fixpoint post_order (fuel : nat) (h : heap) (acc : list nat * list nat) (r : ref)
    : list nat * list nat :=      (* (seen, order) *)
    match r with
    | RA _ => acc
    | RP i =>
        if existsb (Nat.eqb i) (fst acc) then acc else
        match fuel with
        | O => acc
        | S f =>
            match nth_error h i with
            | None => acc
            | Some n =>
                let '(seen', order') :=
                  fold_left (fun a c => post_order f h a c) (children e n) (i :: fst acc, snd acc) in
                (seen', order' ++ [i])
            end
        end
    end.

  Definition select_ids (sel : selector) (h : heap) (root : ref) : list nat :=
    filter (fun i => match nth_error h i with Some n => matches sel n | None => false end)
           (snd (post_order (S (length h)) h ([], []) root)).

  (* NodeSelection.set( **kwargs ): setattr on every matching node *)
  Definition select_set (sel : selector) (h : heap) (root : ref) (kvs : list (N * ref)) : heap :=
    fold_left (fun h i =>
                 match nth_error h i with
                 | Some (NBuildable k fn args tags) =>
                     heap_set h i (NBuildable k fn
                                     (fold_left (fun a kv => sset a (KName (fst kv)) (snd kv)) kvs args) tags)
                 | _ => h
                 end) (select_ids sel h root) h.

  (* NodeSelection.replace(value, deepcopy=False): memoized rebuild; matching nodes become `x`,
     Buildables keep their identity (internals moved back), other containers are new objects *)
  Fixpoint rp_visit (fuel : nat) (sel : selector) (x : ref) (st : list (nat * ref) * heap) (r : ref)
    : (list (nat * ref) * heap) * ref :=
    match r with
    | RA _ => (st, r)
    | RP i =>
        match memo_get (fst st) i with
        | Some r' => (st, r')
        | None =>
            match fuel with
            | O => (st, r)
            | S f =>
                match nth_error (snd st) i with
                | None => (st, r)
                | Some n =>
                    if matches sel n then (((i, x) :: fst st, snd st), x) else
                    if traversable n then
                      let '(st1, rs) :=
                        fold_left (fun a c => let '(s1, r1) := rp_visit f sel x (fst a) c in (s1, snd a ++ [r1]))
                                  (children e n) (st, []) in
                      match n with
                      | NBuildable _ _ _ _ =>
                          (((i, RP i) :: fst st1, heap_set (snd st1) i (with_children e n rs)), RP i)
                      | _ =>
                          let '(h', r') := alloc (snd st1) (with_children e n rs) in
                          (((i, r') :: fst st1, h'), r')
                      end
                    else (((i, RP i) :: fst st, snd st), RP i)
                end
            end
        end
    end.

  Definition select_replace (sel : selector) (h : heap) (root : ref) (x : ref) : heap :=
    snd (fst (rp_visit (S (length h)) sel x ([], h) root)).

  (* TagSelection.replace(value, deepcopy=False): unlike set_tagged this walks leaves first
     (_memoized_walk_leaves_first), so every object reachable BEFORE the edit is visited, children
     before parents, and each Buildable is overwritten when it is yielded *)
  Definition tag_replace (h : heap) (root : ref) (T : N) (x : ref) : heap :=
    fold_left (fun h' i => match nth_error h' i with
                           | Some n => heap_set h' i (apply_tagged T x n)
                           | None => h'
                           end)
              (snd (post_order (S (length h)) h ([], []) root)) h.

  (* TagSelection.__iter__: for each tagged argument its value, else its default, else NO_VALUE *)
  Definition tag_iter (h : heap) (root : ref) (T : N) : list ref :=
    flat_map (fun i =>
                match nth_error h i with
                | Some (NBuildable _ fn args tags) =>
                    flat_map (fun kt =>
                                if tag_matches T (snd kt) then
                                  [match sget args (fst kt) with
                                   | Some v => v
                                   | None =>
                                       match fst kt with
                                       | KName nm =>
                                           match find_param (sig_of e fn) nm with
                                           | Some p => if pfactory p then NoValue
                                                       else match pdefault p with Some d => d | None => NoValue end
                                           | None => NoValue
                                           end
                                       | KPos z =>
                                           match nth_error (sig_of e fn) (Z.to_nat z) with
                                           | Some p => if is_prefix_kind (pk p)
                                                       then match pdefault p with Some d => d | None => NoValue end
                                                       else NoValue
                                           | None => NoValue
                                           end
                                       end
                                   end]
                                else []) tags
                | _ => []
                end) (snd (post_order (S (length h)) h ([], []) root)).
End Tags.
