(* C15Check: NodeSelection iteration / set / replace and TagSelection iteration. *)
From Fiddle Require Import PyBase PySlice Sig ArgStore PyCall Heap Traverse Tags.

Inductive action :=
| AIter (ids : list nat)                         (* ids yielded by iterating the selection *)
| ASet (kvs : list (N * ref)) (after : heap)     (* .set( **kvs ) *)
| AReplace (x : ref) (after : heap) (root_after : ref)  (* .replace(x, deepcopy=False) *)
| ATagIter (T : N) (subtags : list (N * N)) (vals : list ref).  (* list(select(cfg, tag=T)) *)

Record case := mkcase {
  c_env : sigenv; c_subclasses : list (N * N); c_classes : list N;
  c_heap : heap; c_root : ref; c_sel : selector; c_action : action
}.

Definition is_buildable_node (h : heap) (i : nat) : bool :=
  match nth_error h i with Some (NBuildable _ _ _ _) => true | _ => false end.

(* Buildables keep their identity; rebuilt containers are new objects *)
Definition bij_keeps_buildables (h : heap) (m : bij) : bool :=
  forallb (fun ij => let '(i, j) := ij in
                     if is_buildable_node h i then Nat.eqb i j else true) m.

Definition check_case (c : case) : bool :=
  let e := c_env c in let h := c_heap c in
  match c_action c with
  | AIter ids =>
      if list_eq_dec Nat.eq_dec (select_ids e (c_subclasses c) (c_classes c) (c_sel c) h (c_root c)) ids
      then true else false
  | ASet kvs after =>
      if heap_eq_dec (select_set e (c_subclasses c) (c_classes c) (c_sel c) h (c_root c) kvs) after
      then true else false
  | AReplace x after root_after =>
      let h' := select_replace e (c_subclasses c) (c_classes c) (c_sel c) h (c_root c) x in
      match iso h' after (S (length h' + length after)) [] (c_root c) root_after with
      | Some m => bij_keeps_buildables h' m
      | None => false
      end
  | ATagIter T subtags vals =>
      if list_eq_dec ref_eq_dec (tag_iter e subtags h (c_root c) T) vals then true else false
  end.

Definition explain_case (c : case) :=
  let e := c_env c in let h := c_heap c in
  (select_ids e (c_subclasses c) (c_classes c) (c_sel c) h (c_root c),
   match c_action c with
   | AReplace x _ _ => select_replace e (c_subclasses c) (c_classes c) (c_sel c) h (c_root c) x
   | ASet kvs _ => select_set e (c_subclasses c) (c_classes c) (c_sel c) h (c_root c) kvs
   | _ => []
   end,
   match c_action c with ATagIter T st _ => tag_iter e st h (c_root c) T | _ => [] end).
